-------------------------- MODULE SchemasPickleOwn --------------------------
(* C16, ownership clause of the pickle encoder.  The message returned by      *)
(* Pickle(line) is the emission for that line: whoever holds it (a connection *)
(* copies it into its socket buffer some time later, while other connections  *)
(* go on calling Pickle) must find the pickle of THAT line in it.  An emitted *)
(* message is immutable.                                                      *)
(*   mem    buffer -> the line whose pickle the buffer's bytes currently are  *)
(*   msgs   messages returned so far, in call order: <<line, buffer>>         *)
(*   seen   what holders found: <<line the message was made for, line found>> *)
EXTENDS Integers, Sequences
CONSTANTS K,      \* number of Pickle calls
          Dev     \* "none" | "pooled_buffer_reuse"
VARIABLES mem, msgs, seen
vars == <<mem, msgs, seen>>
Init == mem = <<>> /\ msgs = <<>> /\ seen = {}
\* Pickle(line i): encode into a buffer and return a message made of that buffer's bytes.
\* Deviation: the buffer goes back to a pool when Pickle returns and the next call takes it again.
Encode ==
    /\ Len(msgs) < K
    /\ LET i == Len(msgs) + 1
           b == IF Dev = "pooled_buffer_reuse" /\ mem # <<>> THEN 1 ELSE Len(mem) + 1
       IN  /\ mem' = IF b <= Len(mem) THEN [mem EXCEPT ![b] = i] ELSE Append(mem, i)
           /\ msgs' = Append(msgs, <<i, b>>)
    /\ UNCHANGED seen
\* the holder of message m uses it (writes it out / decodes it), at any time after it was returned
Use(m) == /\ seen' = seen \cup {<<msgs[m][1], mem[msgs[m][2]]>>}
          /\ UNCHANGED <<mem, msgs>>
Next == Encode \/ \E m \in DOMAIN msgs : Use(m)
Spec == Init /\ [][Next]_vars
EmittedImmutable == \A r \in seen : r[1] = r[2]
=============================================================================
