SPECIFICATION Spec
INVARIANTS TypeOK G_Whole G_Doc G_Banner G_OneReply G_Rejected G_Stream G_Chain G_Lockstep H_DelIndex H_Key H_Others NotW_TelnetUnrecognized
CHECK_DEADLOCK FALSE
