SPECIFICATION UnfairSpec
PROPERTIES L1_AddReturns
CHECK_DEADLOCK FALSE
