SPECIFICATION FairSpec
INVARIANTS TypeOK P5_NoLoss
PROPERTIES L1_AddReturns L2_GetReturns L3_InDrains
CHECK_DEADLOCK FALSE
