SPECIFICATION FairSpec
INVARIANTS TypeOK P1_SeenIsLast P2_Paired P3_NotCleanedEarly P4_CleanedInTime P5_NoLoss P6_GetExact P6_Sorted LevelA
PROPERTIES L1_AddReturns L2_GetReturns L3_InDrains
CHECK_DEADLOCK FALSE
