SPECIFICATION Spec
INVARIANTS SelectIsFirst UntaggedPresentation TagsPresentedSorted IntervalIsFirstRetention
CHECK_DEADLOCK FALSE
