SPECIFICATION Spec
INVARIANTS SelectIsFirst AbsentIsZero UntaggedPresentation TagsPresentedSorted IntervalIsFirstRetention
CHECK_DEADLOCK FALSE
