SPECIFICATION Spec06W
INVARIANTS TypeOK
PROPERTIES SenderReturns
CHECK_DEADLOCK FALSE
