SPECIFICATION Spec
INVARIANTS TypeOK StreamsIntact PendingIntact AtRest2 Conservation Gen2NoError
CHECK_DEADLOCK FALSE
