--------------------------- MODULE FramingCapGen ---------------------------
(* Case generator for C12, bounded reader (the AMQP input: bufio.Reader(4096)  *)
(* .ReadLine per message body): streams whose lines sit at the supported limit *)
(* of GenCap symbols, with what a conforming reader of that capacity may       *)
(* dispatch (AcceptableC of FramingOps: every line of up to GenCap symbols,    *)
(* terminator not counted, whole and exactly once; optionally one empty line   *)
(* right after a line that filled the buffer exactly).  Only streams within    *)
(* the limit are emitted (MaxNeed <= GenCap): beyond it nothing is claimed.    *)
(* The driver scales a line of j symbols to 4096 - GenCap + j bytes (one x/y   *)
(* symbol of the line carries the padding, CR and LF stay one byte), so that   *)
(* "j symbols fill a buffer of GenCap" is "the bytes fill the 4096-byte        *)
(* buffer"; shorter lines (j < GenCap - 2) stay short.                         *)
(*  structured (capacity GenCap): the line of GenCap-2 / GenCap-1 / GenCap     *)
(*    symbols x terminator LF / CRLF / none / a dangling CR (final line) x     *)
(*    alone, first, middle, last line of the body; two such lines in a row;    *)
(*  exhaustive (capacity ExhCap): every stream of up to GenMax symbols.        *)
EXTENDS FramingOps, TLC, Json
CONSTANTS GenCap, ExhCap, GenMax
VARIABLES gs, gcap
Run(c, k) == [i \in 1..k |-> c]
Before == {<<>>, <<"y", "LF">>, <<"y", "CR", "LF", "y", "LF">>}
After  == {<<>>, <<"y", "LF">>, <<"y", "CR", "LF", "y">>}
LineTerms  == {<<"LF">>, <<"CR", "LF">>}
FinalTerms == {<<>>, <<"CR">>}
Near == (GenCap - 2)..GenCap
Struct == {pre \o Run("x", k) \o t \o post : pre \in Before, k \in Near, t \in LineTerms, post \in After}
          \cup {pre \o Run("x", k) \o t : pre \in Before, k \in Near, t \in FinalTerms}
          \cup {Run("x", k1) \o t1 \o Run("y", k2) \o t2 :
                   k1 \in (GenCap - 1)..GenCap, k2 \in (GenCap - 1)..GenCap, t1 \in LineTerms, t2 \in LineTerms \cup FinalTerms}
All == UNION {[1..k -> Sym] : k \in 0..GenMax}
Cases == {c \in (Struct \X {GenCap}) \cup (All \X {ExhCap}) : MaxNeed(c[1]) <= c[2]}
GInit == \E c \in Cases : gs = c[1] /\ gcap = c[2]
GNext == FALSE /\ UNCHANGED <<gs, gcap>>
GSpec == GInit /\ [][GNext]_<<gs, gcap>>
\* (the reader puts the slices of a line together again: what it owes is exactly the lines -- AcceptableC with no
\* bound; pinned |-> what the pinned reader, which dispatched every slice by itself, could produce)
Case(s, cap) == [s |-> s, cap |-> cap, need |-> MaxNeed(s), acc |-> AcceptableC(s, "eof", 0), pinned |-> AcceptableC(s, "eof", cap)]
Emit == PrintT("@@B " \o ToJson(Case(gs, gcap)))
=============================================================================
