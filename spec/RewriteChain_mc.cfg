SPECIFICATION CSpec
INVARIANTS ChainOK CWF
CHECK_DEADLOCK FALSE
CONSTANTS Family = "list" Big = FALSE
