---------------------------- MODULE HashRingOps ----------------------------
(* Carbon's consistent-hash ring (carbon/lib/carbon/hashing.py) as pure       *)
(* operators, shared by the model (HashRing.tla) and by the trace             *)
(* specification that judges the real route (HashRingTrace.tla).              *)
(*                                                                            *)
(* A node table NT is a sequence of records                                   *)
(*      [host |-> <<byte codes>>, inst |-> <<byte codes>>, pos |-> <<p1..pR>>, *)
(*       rank |-> rank of (host, inst) among the nodes of the table]          *)
(* node id = index in NT; inst = <<>> is Python's None (no instance); pos are *)
(* the ring positions of the node's R replicas.  MD5 is not modelled: the     *)
(* positions are data (nondeterministic constants in the model, values        *)
(* computed by tools/carbon_ring.py in the trace specification).              *)
(* A ring entry is <<position, node id>>.                                     *)
EXTENDS Integers, Sequences, FiniteSets

Range(s) == {s[i] : i \in DOMAIN s}

(* byte-wise lexicographic order on strings; a proper prefix is smaller, so   *)
(* <<>> (None) comes before every instance name -- Python 2 orders None       *)
(* before any str, Go orders "" before any non-empty string.                  *)
LexLess(a, b) ==
    \E i \in 1..Len(b) :
        /\ i <= Len(a) + 1
        /\ \A j \in 1..(i - 1) : a[j] = b[j]
        /\ IF i = Len(a) + 1 THEN TRUE ELSE a[i] < b[i]

(* (server, instance) tuples compared element-wise *)
NodeLess(a, b) == LexLess(a.host, b.host) \/ (a.host = b.host /\ LexLess(a.inst, b.inst))

(* the property quantifies over destinations with distinct (host, instance) pairs *)
DistinctNodes(NT) == \A m, n \in DOMAIN NT : m # n => (NT[m].host # NT[n].host \/ NT[m].inst # NT[n].inst)

(* rank of a node in (server, instance) order among the nodes of the table; node tables carry  *)
(* it in a field `rank` so that the ring order can be evaluated on integers                    *)
RankOf(T, n) == Cardinality({m \in DOMAIN T : NodeLess(T[m], T[n])})
WithRank(T) == [n \in DOMAIN T |-> [host |-> T[n].host, inst |-> T[n].inst, pos |-> T[n].pos, rank |-> RankOf(T, n)]]
RankAgrees(NT) == \A m, n \in DOMAIN NT : (NT[m].rank < NT[n].rank) <=> NodeLess(NT[m], NT[n])

(* ring order: (position, server, instance) *)
EntryLess(a, b, NT) == a[1] < b[1] \/ (a[1] = b[1] /\ NT[a[2]].rank < NT[b[2]].rank)
EntryLessDef(a, b, NT) == a[1] < b[1] \/ (a[1] = b[1] /\ NodeLess(NT[a[2]], NT[b[2]]))

(* the entries contributed by the member set S *)
Entries(NT, S) == UNION {{<<NT[n].pos[i], n>> : i \in 1..Len(NT[n].pos)} : n \in S}

(* ---- the definition (what carbon-relay.py does): the first entry at or   ---- *)
(* ---- after the key's position in ring order, wrapping to the first entry ---- *)
Lookup(NT, S, p) ==
    LET E  == Entries(NT, S)
        at == {e \in E : e[1] >= p}
        C  == IF at # {} THEN at ELSE E
    IN  (CHOOSE e \in C : \A f \in C : ~EntryLess(f, e, NT))[2]

(* ---- the ring as a sequence, and the lookup by bisection ---- *)
(* r is the ring of member set S: sorted by EntryLess and containing exactly the entries of S  *)
(* with their multiplicities.  The replica positions of a node are listed in non-decreasing     *)
(* order in NT (SortedPos), so in a sorted ring the entries of node n, read left to right, must *)
(* spell NT[n].pos.                                                                              *)
SortedPos(NT) == \A n \in DOMAIN NT : \A i \in 1..(Len(NT[n].pos) - 1) : NT[n].pos[i] <= NT[n].pos[i + 1]
IsSortedRing(r, NT) == \A j \in 1..(Len(r) - 1) : ~EntryLess(r[j + 1], r[j], NT)
PosOf(r, n) == LET sub == SelectSeq(r, LAMBDA e : e[2] = n) IN [j \in DOMAIN sub |-> sub[j][1]]
IsRingOf(r, NT, S) ==
    /\ IsSortedRing(r, NT)
    /\ \A j \in DOMAIN r : r[j][2] \in S
    /\ \A n \in S : PosOf(r, n) = NT[n].pos

(* bisect_left on the position: number of entries whose position is < p *)
RECURSIVE Bisect(_, _, _, _)
Bisect(r, p, lo, hi) ==
    IF lo >= hi THEN lo
    ELSE LET mid == (lo + hi) \div 2
         IN  IF r[mid + 1][1] < p THEN Bisect(r, p, mid + 1, hi) ELSE Bisect(r, p, lo, mid)
BisectLeft(r, p) == Bisect(r, p, 0, Len(r))
(* bisect_right: number of entries whose position is <= p (a deviation, never Carbon) *)
BisectRight(r, p) == Bisect(r, p + 1, 0, Len(r))

LookupSeq(r, p) == r[(BisectLeft(r, p) % Len(r)) + 1][2]

(* insort (bisect.insort = insert after the entries that are not greater) into a sequence that *)
(* is sorted under the strict weak order Less                                                  *)
Insort(r, e, Less(_, _)) ==
    LET j == Cardinality({x \in DOMAIN r : ~Less(e, r[x])}) + 1
    IN  SubSeq(r, 1, j - 1) \o <<e>> \o SubSeq(r, j, Len(r))

RemoveAt(s, i) == SubSeq(s, 1, i - 1) \o SubSeq(s, i + 1, Len(s))

(* ---- minimal movement ---- *)
(* lst = the last membership change: <<"add", n>>, <<"del", n>> or <<"upd", n, n2>> (the        *)
(* address of one destination changed so that it is node n2 instead of n; n2 = n when only the  *)
(* port changed or the new address was not taken over).  A key whose owner was `was` before the *)
(* change may be owned by `now` # `was` after it only if the change requires it: an add moves   *)
(* keys to the new node only, a removal moves only the keys of the removed node, an update is   *)
(* both at once (and nothing when n2 = n).                                                      *)
MoveAllowedBy(lst, was, now) ==
    CASE lst[1] = "add" -> now = lst[2]
      [] lst[1] = "del" -> was = lst[2]
      [] lst[1] = "upd" -> lst[2] # lst[3] /\ (was = lst[2] \/ now = lst[3])
      [] OTHER -> FALSE
------------------------------------------------------------------------------
(* From a destination address to carbon's (server, instance) pair (carbon.util.parseDestination), over sequences of  *)
(* one-character strings: "server:port", "server:port:instance", and for an IPv6 server "[server]:port" and          *)
(* "[server]:port:instance"; a bare "server" has no port.  The ring hashes the server WITHOUT brackets and port.      *)
FirstIdx(a, c, from) == IF \E i \in from..Len(a) : a[i] = c
                        THEN CHOOSE i \in from..Len(a) : a[i] = c /\ \A j \in from..(i - 1) : a[j] # c ELSE 0
Bracketed(a) == Len(a) > 0 /\ a[1] = "[" /\ FirstIdx(a, "]", 1) > 0
ServerOf(a) == IF Bracketed(a) THEN SubSeq(a, 2, FirstIdx(a, "]", 1) - 1)
               ELSE IF FirstIdx(a, ":", 1) = 0 THEN a ELSE SubSeq(a, 1, FirstIdx(a, ":", 1) - 1)
\* what follows the server: ":port" or ":port:instance" (or nothing)
AfterServer(a) == IF Bracketed(a) THEN SubSeq(a, FirstIdx(a, "]", 1) + 1, Len(a))
                  ELSE IF FirstIdx(a, ":", 1) = 0 THEN <<>> ELSE SubSeq(a, FirstIdx(a, ":", 1), Len(a))
InstanceOf(a) == LET r == AfterServer(a)
                     k == IF Len(r) >= 2 THEN FirstIdx(r, ":", 2) ELSE 0
                 IN  IF k = 0 THEN <<>> ELSE SubSeq(r, k + 1, Len(r))          \* <<>> = None
Chars(str) == str          \* (examples below are written as tuples of characters)
ASSUME /\ ServerOf(<<"h", ":", "2", ":", "a">>) = <<"h">> /\ InstanceOf(<<"h", ":", "2", ":", "a">>) = <<"a">>
       /\ ServerOf(<<"h">>) = <<"h">> /\ InstanceOf(<<"h">>) = <<>> /\ InstanceOf(<<"h", ":", "2">>) = <<>>
       /\ ServerOf(<<"[", ":", ":", "1", "]", ":", "2">>) = <<":", ":", "1">>
       /\ InstanceOf(<<"[", ":", ":", "1", "]", ":", "2">>) = <<>>
       /\ InstanceOf(<<"[", ":", ":", "1", "]", ":", "2", ":", "b">>) = <<"b">>
       /\ ServerOf(<<"[", ":", ":", "1", "]", ":", "2", ":", "b">>) = <<":", ":", "1">>
=============================================================================
