---------------------------- MODULE MatcherGen ----------------------------
(* C03 case generator: every initial state is one filter (family "regex",   *)
(* "notregex", "opts") or one (filter, value token, timestamp token) triple *)
(* (family "sites") or one aggregation (filter, output template) pair       *)
(* (family "cache", with the output name for every name); the invariant     *)
(* Emit prints the case with the verdict of Matcher!Accept for EVERY name   *)
(* of NameSeq (a string of 0/1).  The driver                                *)
(* runs the real matcher on the same names; python compares bit by bit.     *)
EXTENDS Matcher, Json, TLC, SequencesExt

CONSTANTS NameSigma,   \* characters names are built from
          MaxLen,      \* names of length 0..MaxLen
          Families,    \* subset of {"regex", "notregex", "opts", "sites", "cache"}
          Rich         \* 1: quantified atoms + two-element concatenations with an atom; 2: all pairs

Names   == UNION {[1..n -> NameSigma] : n \in 0..MaxLen}
NameSeqC == SetToSeq(Names)
N       == Cardinality(Names)

\* ----------------------------------------------------------- regex space
la == Lit("a")  lb == Lit("b")  lc == Lit("c")  ld == Lit(".")  l1 == Lit("1")
cab == Class(<<"a", "b">>)
Lits  == {la, lb, lc, ld}
At    == Lits \cup {AnyC, cab, NClass(<<"a">>)}
QA    == {la, lb, ld, AnyC, cab}
Quant(x) == {Star(x), Plus(x), Opt(x), Rep01(x)}
Qd    == UNION {Quant(x) : x \in QA}
L1    == At \cup Qd
Alts  == {Alt(x, y) : x \in {la, lb, Cat(la, lb)}, y \in {lb, ld, lc}}
Right == IF Rich >= 2 THEN L1 ELSE At \cup {Star(lb), Opt(ld), Plus(la)}
L2    == L1 \cup {Cat(x, y) : x \in L1, y \in Right} \cup Alts
\* ^-anchored shapes, among them ^ab?c  ^a\.*b  ^ab*  ^ab{0,1}  ^a|b  ^(?:a|b)  ^ab|^c
P3    == {Cat(Bol, Cat(x, Cat(q, z))) : x \in {la, ld}, q \in Qd, z \in {lb, lc, Eol}}
P2    == {Cat(Bol, Cat(x, q)) : x \in {la, lb, ld}, q \in Qd}
PL    == {Cat(Bol, Cat(x, Cat(y, q))) : x \in {la}, y \in {lb, ld}, q \in {Opt(lc), Star(ld), Rep01(la), Plus(lb), Star(AnyC)}}
PAlt  == {Alt(Cat(Bol, x), y) : x \in {la, Cat(la, lb)}, y \in {lb, lc, Cat(Bol, lc)}}
           \cup {Cat(Bol, a) : a \in Alts} \cup {Alt(x, Cat(Bol, y)) : x \in {la, lb}, y \in {lb, lc}}
           \cup {Cat(Bol, Cat(la, Alt(lb, lc))), Cat(Bol, Cat(Alt(la, Cat(la, lb)), lc)), Cat(Bol, Cat(Opt(Alt(la, lb)), lc))}
RXbol == {Cat(Bol, y) : y \in L2} \cup P3 \cup P2 \cup PL \cup PAlt
RXeol == {Cat(y, Eol) : y \in L1 \cup Alts} \cup {Cat(Bol, Cat(y, Eol)) : y \in L1 \cup Alts}
           \cup {Cat(Bol, Cat(x, Cat(y, Eol))) : x \in {la, ld, Opt(la), Star(lb)}, y \in At \cup {Opt(lb), Star(ld)}}
RX    == L2 \cup RXbol \cup RXeol \cup {Bol, Eol, Cat(Bol, Eol)}

\* ------------------------------------------------------ option subsets
PrefixPool    == {<<>>, <<"a">>, <<"a", ".">>}
NotPrefixPool == {<<>>, <<"a">>, <<"b", ".">>}
SubPool       == {<<>>, <<"b">>, <<".", "a">>}
NotSubPool    == {<<>>, <<"a", "b">>, <<".">>}
RePool        == {NoRe, Cat(Bol, Cat(la, Opt(lb))), Cat(lb, Eol), Alt(Cat(Bol, ld), la)}
NRePool       == {NoRe, Cat(Bol, Cat(la, Star(ld))), Cat(la, Cat(AnyC, lb)), Alt(Cat(Bol, lb), Cat(ld, Eol))}
Opts == {Filter(p, np, sb, nsb, re, nre) : p \in PrefixPool, np \in NotPrefixPool, sb \in SubPool,
                                           nsb \in NotSubPool, re \in RePool, nre \in NRePool}

\* ------------------------------------------ value-sensitive use-site pool
\* filters whose text also occurs in numeric value / timestamp tokens, and $-anchored ones
one == <<"1">>
SiteRe == {l1, Cat(l1, Eol), Cat(lb, Eol), Cat(ld, l1), Cat(Bol, Cat(la, Cat(Star(AnyC), l1))),
           Cat(NClass(<<"1">>), Eol), Cat(la, Cat(AnyC, lb)), Cat(Bol, Cat(la, Opt(lb))), Cat(l1, Cat(AnyC, l1)),
           Cat(Bol, Cat(Plus(NClass(<<"1">>)), Eol)), Alt(Cat(Bol, lb), l1)}
SitePool ==
     {Filter(<<>>, <<>>, sb, <<>>, NoRe, NoRe) : sb \in {one, <<"1", ".", "1">>, <<"b">>}}
\cup {Filter(<<>>, <<>>, <<>>, nsb, NoRe, NoRe) : nsb \in {one, <<"1", "1">>, <<".", "1">>}}
\cup {Filter(<<>>, <<>>, <<>>, <<>>, r, NoRe) : r \in SiteRe}
\cup {Filter(<<>>, <<>>, <<>>, <<>>, NoRe, r) : r \in SiteRe}
\cup {Filter(<<"a">>, <<>>, one, <<>>, NoRe, NoRe), Filter(<<>>, <<"b">>, <<>>, one, NoRe, NoRe),
      Filter(<<"a">>, <<>>, <<>>, <<>>, Cat(lb, Eol), l1), Filter(<<>>, <<"a", ".">>, <<"b">>, <<>>, Cat(Bol, Cat(la, Star(ld))), Cat(l1, Eol)),
      Filter(<<>>, <<>>, <<>>, one, Cat(lb, Eol), NoRe), Filter(<<>>, <<>>, one, <<>>, AnyC, Cat(l1, Eol))}
ValToks == {one, <<"1", "1">>, <<"1", ".", "1">>}
TsToks  == {one, <<"1", "1">>}
Line(s, v, t) == s \o <<" ">> \o v \o <<" ">> \o t

\* ------------------------------------- aggregation (filter, template) pool
\* for the match cache: regexes with capturing groups x output templates, among them pairs whose
\* output name is EMPTY for names the filter accepts (empty group, group that takes no part,
\* reference to a group that does not exist, RE2's reading of $1_sum as the group named "1_sum")
G1(x) == Grp(1, x)
G2(x) == Grp(2, x)
ReOnly(r) == Filter(<<>>, <<>>, <<>>, <<>>, r, NoRe)
cout == <<TLit(<<"c", ".", "o", "u", "t">>)>>
CachePool ==
     {[f |-> f, t |-> cout] : f \in {g \in SitePool : g.regex.k # "none"}}
\cup {[f |-> ReOnly(Cat(Bol, Cat(la, Cat(ld, Cat(G1(Star(AnyC)), Eol))))), t |-> t] :                 \* ^a\.(.*)$
          t \in {<<TWord(<<"1">>)>>, <<TWord(<<"1", "_", "s", "u", "m">>)>>, <<TLit(<<"s", ".">>), TRef(1)>>, <<TRef(0)>>}}
\cup {[f |-> ReOnly(Cat(Bol, Cat(la, Opt(G1(lb))))), t |-> t] : t \in {<<TRef(1)>>, <<TRef(3)>>, <<TRef(1), TLit(<<".", "s">>)>>}}   \* ^a(b)?
\cup {[f |-> ReOnly(Cat(G1(Star(lb)), Cat(l1, Eol))), t |-> <<TWord(<<"1">>)>>],                        \* (b*)1$
      [f |-> ReOnly(Cat(Bol, Cat(G1(Star(la)), G2(Star(lb))))), t |-> <<TRef(2), TRef(1)>>],            \* ^(a*)(b*)
      [f |-> ReOnly(Cat(Bol, Cat(G1(Star(la)), G2(Star(lb))))), t |-> <<TRef(2)>>],
      [f |-> ReOnly(Cat(Bol, Alt(Cat(la, G1(lb)), Cat(lb, G2(Opt(la)))))), t |-> <<TRef(1), TRef(2)>>],  \* ^(?:a(b)|b(a?))
      [f |-> ReOnly(Cat(Bol, Cat(G1(Alt(la, lb)), ld))), t |-> <<TLit(<<"x", ".">>), TWord(<<"1">>), TLit(<<".", "s">>)>>],  \* ^(a|b)\.
      [f |-> ReOnly(Cat(G1(Opt(ld)), Cat(G2(Plus(l1)), Eol))), t |-> <<TRef(1)>>],                      \* (\.?)(1+)$
      [f |-> Filter(<<>>, <<>>, <<>>, <<>>, Cat(Bol, Cat(la, G1(Star(AnyC)))), Cat(l1, Eol)), t |-> <<TWord(<<"1">>)>>],      \* ^a(.*) not 1$
      [f |-> Filter(<<"a">>, <<>>, <<>>, <<"b">>, Cat(G1(Star(l1)), Eol), NoRe), t |-> <<TRef(1)>>],     \* prefix a, not sub b, (1*)$
      [f |-> Filter(<<>>, <<"b">>, <<".">>, <<>>, Cat(ld, G1(Rep01(AnyC))), Cat(Bol, l1)), t |-> <<TRef(1)>>],               \* not prefix b, sub ., \.(.{0,1}) not ^1
      [f |-> ReOnly(Cat(Bol, Cat(Star(AnyC), G1(Star(lb))))), t |-> <<TRef(1)>>]}                       \* ^.*(b*): greedy .* leaves nothing

Cases ==
  (IF "regex" \in Families THEN {[fam |-> "regex", f |-> Filter(<<>>, <<>>, <<>>, <<>>, r, NoRe)] : r \in RX} ELSE {})
  \cup (IF "notregex" \in Families THEN {[fam |-> "notregex", f |-> Filter(<<>>, <<>>, <<>>, <<>>, NoRe, r)] : r \in RX} ELSE {})
  \cup (IF "opts" \in Families THEN {[fam |-> "opts", f |-> f] : f \in Opts} ELSE {})
  \cup (IF "cache" \in Families THEN {[fam |-> "cache", f |-> a.f, t |-> a.t] : a \in CachePool} ELSE {})
  \cup (IF "sites" \in Families THEN {[fam |-> "sites", f |-> f, v |-> v, t |-> t] : f \in SitePool, v \in ValToks, t \in TsToks} ELSE {})

\* ----------------------------------------------------------- emission
RECURSIVE BitsFrom(_, _)
BitsFrom(b, i) == IF i > N THEN "" ELSE (IF b[i] THEN "1" ELSE "0") \o BitsFrom(b, i + 1)
Bits(b) == BitsFrom(b, 1)

RECURSIVE FlatNames(_)
FlatNames(i) == IF i > N THEN <<>> ELSE <<Flat(NameSeqC[i])>> \o FlatNames(i + 1)
ASSUME PrintT("@@N " \o ToJson([names |-> FlatNames(1)]))

VARIABLE c
Init == c \in Cases
Next == UNCHANGED c
Spec == Init /\ [][Next]_c

CaseJson ==
  LET f == c.f
      NameSeq == NameSeqC
      acc == [i \in 1..N |-> Accept(f, NameSeq[i])]
      sre == [i \in 1..N |-> Search(f.regex, NameSeq[i])]
      snre == [i \in 1..N |-> Search(f.notRegex, NameSeq[i])]
      base == [fam |-> c.fam, f |-> RenderFilter(f), expect |-> Bits(acc),
               sre |-> IF f.regex.k = "none" THEN "" ELSE Bits(sre),
               snre |-> IF f.notRegex.k = "none" THEN "" ELSE Bits(snre)]
  IN IF c.fam = "sites"
     THEN LET online == [i \in 1..N |-> Accept(f, Line(NameSeq[i], c.v, c.t))]
          IN [fam |-> c.fam, f |-> RenderFilter(f), ast |-> f, v |-> Flat(c.v), t |-> Flat(c.t),
              expect |-> Bits(acc), online |-> Bits(online)]
     ELSE IF c.fam = "cache"
     THEN [fam |-> c.fam, f |-> RenderFilter(f), ast |-> f, tmpl |-> RenderTmpl(c.t), tast |-> c.t, expect |-> Bits(acc),
           \* sub = the prioritised-paths reading of the regex finds a match (must equal sre, the end-positions reading)
           sre |-> Bits(sre), sub |-> Bits([i \in 1..N |-> Submatch(f.regex, NameSeq[i]) # <<>>]),
           snre |-> IF f.notRegex.k = "none" THEN "" ELSE Bits(snre),
           \* the output name for every name the regex matches (what MatchRegexAndExpand is documented to return)
           keys |-> [i \in 1..N |-> Flat(OutKey(f, c.t, NameSeq[i]))]]
     ELSE base
Emit == PrintT("@@C " \o ToJson(CaseJson))
=============================================================================
