SPECIFICATION Spec
INVARIANTS TypeOK P1_Running P1_Drain P1_ConnOK P1_BeforeStop P2_Quiet P2_NoLate P2_Refuse P3_TimeoutOnlyIdle P4_NoExit P_Udp
SYMMETRY ConnSym
CHECK_DEADLOCK FALSE
