SPECIFICATION TSpec
CONSTRAINT HighWater
INVARIANT TypeInv
POSTCONDITION Post
CHECK_DEADLOCK FALSE
