----------------------------- MODULE GrafanaNet -----------------------------
(* Level-B (implementation-shaped) model of route/grafananet.go +            *)
(* route/dispatch.go: Dispatch shards a point by its series to one of NW     *)
(* workers (FNV-1a(name) % Concurrency in the code; any fixed function of    *)
(* the series here - the generated scenarios pick names with that shard),    *)
(* each worker owns a bounded channel in[w] and runs the select loop of       *)
(* run(): one action per select branch / critical section:                    *)
(*   Take          case buf := <-in: append to the batch                      *)
(*   FlushOnNum    len(batch) == FlushMaxNum: enter retryFlush                *)
(*   FlushOnTimer  case <-timer.C: enter retryFlush (the timer may fire at    *)
(*                 any time the worker is in the select)                      *)
(*   Attempt(k)    one flush(): the POST reaches the endpoint, which answers  *)
(*                 with the next outcome of the environment's fault sequence  *)
(*   Backoff       the sleep between two attempts                             *)
(*   Shutdown      Protocol = "pinned": the code as found (one send on the    *)
(*                 shutdown channel, received by one worker, which flushes    *)
(*                 its partial batch and returns WITHOUT wg.Done(); nothing   *)
(*                 drains in[w]); Protocol = "repaired": close(shutdown),     *)
(*                 every worker drains in[w] into batches, flushes the rest,  *)
(*                 deferred wg.Done().                                        *)
(* The dispatcher is two steps (call, then the channel send / default         *)
(* branch) so that a blocked caller is a state.                               *)
(* The level-A observation record o (GrafanaNetOps) is updated at the points  *)
(* where the outside world sees something; the C17 clauses are checked on it  *)
(* and, independently, as invariants / temporal properties on the model's     *)
(* own state.                                                                 *)
EXTENDS GrafanaNetOps, TLC, Json

CONSTANTS NW,           \* Concurrency
          Cap,          \* BufSize / Concurrency: capacity of one in[w]
          FlushMaxNum,
          NSeries, MaxMetrics,
          MaxFaults,    \* the environment injects at most this many failures (finitely many)
          FaultKinds,   \* subset of {"4xx", "5xx", "timeout", "reset"}
          Blocking,     \* dispatchBlocking / dispatchNonBlocking
          AllowShutdown,
          Protocol,     \* "pinned" | "repaired"
          Mutant,       \* "" or a named deviation (non-vacuity of the properties)
          Record        \* keep the environment's history (scenario generation); FALSE for model checking

Series == 0 .. NSeries - 1
Workers == 0 .. NW - 1
None == [id |-> 0]

VARIABLES in,      \* [Workers -> Seq(<<series, id>>)]
          batch,   \* [Workers -> Seq(<<series, id>>)]   `metrics` of run()
          pc,      \* [Workers -> "select" | "num" | "attempt" | "backoff" | "drain" | "exited"]
          ret,     \* [Workers -> where retryFlush returns to: "select" | "exit" | "drain" | "done"]
          dpc,     \* the Dispatch call in progress (None or [id, s])
          nd,      \* points handed to Dispatch so far
          nfaults,
          drops,   \* numDropBuffFull
          lost,    \* ids really discarded by Dispatch
          spc,     \* Shutdown(): "idle" | "call" | "wait" | "returned"
          closed,  \* repaired protocol: the shutdown channel is closed
          wg,      \* WaitGroup counter
          o,       \* level-A observation
          hist     \* environment history (only when Record)

vars == <<in, batch, pc, ret, dpc, nd, nfaults, drops, lost, spc, closed, wg, o, hist>>

Shard(s, id) == IF Mutant = "shard_by_point" THEN id % NW ELSE s % NW

H(e) == IF Record THEN Append(hist, e) ELSE hist

Init == /\ in = [w \in Workers |-> <<>>] /\ batch = [w \in Workers |-> <<>>]
        /\ pc = [w \in Workers |-> "select"] /\ ret = [w \in Workers |-> "select"]
        /\ dpc = None /\ nd = 0 /\ nfaults = 0 /\ drops = 0 /\ lost = {}
        /\ spc = "idle" /\ closed = FALSE /\ wg = NW
        /\ o = ObsInit(Series) /\ hist = <<>>

------------------------------------------------------------------------------
(* Dispatch *)
DispatchCall(s) ==
  /\ spc = "idle" /\ dpc = None /\ nd < MaxMetrics
  /\ nd' = nd + 1 /\ dpc' = [id |-> nd + 1, s |-> s]
  /\ o' = ODisp(o, s, nd + 1, 0) /\ hist' = H([op |-> "d", s |-> s])
  /\ UNCHANGED <<in, batch, pc, ret, nfaults, drops, lost, spc, closed, wg>>

Room(w) == Len(in[w]) < Cap
Blocks == Blocking \/ Mutant = "nb_no_default"
CanDo == dpc # None /\ (Room(Shard(dpc.s, dpc.id)) \/ ~Blocks)
Stuck == dpc # None /\ ~CanDo

DispatchDo ==
  /\ CanDo
  /\ LET w == Shard(dpc.s, dpc.id) IN
     IF Room(w)
     THEN /\ in' = [in EXCEPT ![w] = Append(@, <<dpc.s, dpc.id>>)]
          /\ o' = ORet(o, dpc.id, "acc", FALSE, Blocking, 0)
          /\ UNCHANGED <<drops, lost>>
     ELSE /\ lost' = lost \cup {dpc.id}
          /\ IF Mutant = "drop_uncounted"
             THEN drops' = drops /\ o' = ORet(o, dpc.id, "acc", FALSE, Blocking, 0)
             ELSE drops' = drops + 1 /\ o' = ORet(o, dpc.id, "drop", FALSE, Blocking, 0)
          /\ UNCHANGED in
  /\ dpc' = None
  /\ UNCHANGED <<batch, pc, ret, nd, nfaults, spc, closed, wg, hist>>

------------------------------------------------------------------------------
(* worker select loop *)
Enter(w, r) == pc' = [pc EXCEPT ![w] = "attempt"] /\ ret' = [ret EXCEPT ![w] = r]

Take(w) ==
  /\ pc[w] = "select" /\ in[w] # <<>>
  /\ batch' = [batch EXCEPT ![w] = Append(@, Head(in[w]))]
  /\ in' = [in EXCEPT ![w] = Tail(@)]
  /\ pc' = [pc EXCEPT ![w] = IF Len(batch'[w]) = FlushMaxNum THEN "num" ELSE "select"]
  /\ UNCHANGED <<ret, dpc, nd, nfaults, drops, lost, spc, closed, wg, o, hist>>

FlushOnNum(w) ==
  /\ pc[w] = "num"
  /\ IF Mutant = "flush_loses_last"
     THEN batch' = [batch EXCEPT ![w] = SubSeq(@, 1, Len(@) - 1)] /\ (IF Len(batch[w]) = 1 THEN pc' = [pc EXCEPT ![w] = "select"] /\ UNCHANGED ret ELSE Enter(w, "select"))
     ELSE Enter(w, "select") /\ UNCHANGED batch
  /\ UNCHANGED <<in, dpc, nd, nfaults, drops, lost, spc, closed, wg, o, hist>>

FlushOnTimer(w) ==
  /\ pc[w] = "select" /\ batch[w] # <<>>       \* with an empty batch retryFlush returns at once: a stuttering step
  /\ Enter(w, "select") /\ hist' = H([op |-> "t"])
  /\ UNCHANGED <<in, batch, dpc, nd, nfaults, drops, lost, spc, closed, wg, o>>

Outcomes == {"2xx"} \cup (IF nfaults < MaxFaults THEN FaultKinds ELSE {})

\* where a worker goes when retryFlush returns
Return(w) ==
  CASE ret[w] = "select" -> pc' = [pc EXCEPT ![w] = "select"] /\ UNCHANGED wg
    [] ret[w] = "drain"  -> pc' = [pc EXCEPT ![w] = "drain"] /\ UNCHANGED wg
    [] ret[w] = "exit"   -> pc' = [pc EXCEPT ![w] = "exited"] /\ UNCHANGED wg          \* pinned: return without Done
    [] ret[w] = "done"   -> pc' = [pc EXCEPT ![w] = "exited"] /\ wg' = wg - 1          \* repaired: deferred Done

GiveUp(k) == Mutant = "give_up" /\ k = "4xx"      \* deviation: a client error is not retried
Attempt(w, k) ==
  /\ pc[w] = "attempt" /\ k \in Outcomes
  /\ o' = OPost(o, batch[w], k, 0) /\ hist' = H([op |-> "f", k |-> k])
  /\ nfaults' = IF k = "2xx" THEN nfaults ELSE nfaults + 1
  /\ IF k = "2xx" \/ GiveUp(k)
     THEN batch' = [batch EXCEPT ![w] = <<>>] /\ Return(w)
     ELSE /\ pc' = [pc EXCEPT ![w] = "backoff"]
          /\ batch' = IF Mutant = "retry_reorders" /\ Len(batch[w]) > 1
                      THEN [batch EXCEPT ![w] = Tail(@) \o <<Head(@)>>] ELSE batch
          /\ UNCHANGED wg
  /\ UNCHANGED <<in, ret, dpc, nd, drops, lost, spc, closed>>

Backoff(w) ==
  /\ pc[w] = "backoff" /\ pc' = [pc EXCEPT ![w] = "attempt"]
  /\ UNCHANGED <<in, batch, ret, dpc, nd, nfaults, drops, lost, spc, closed, wg, o, hist>>

------------------------------------------------------------------------------
(* Shutdown *)
SdCall ==
  /\ AllowShutdown /\ spc = "idle" /\ dpc = None
  /\ spc' = "call" /\ o' = OSdCall(o, 0) /\ hist' = H([op |-> "sd"])
  /\ UNCHANGED <<in, batch, pc, ret, dpc, nd, nfaults, drops, lost, closed, wg>>

\* pinned: route.shutdown <- struct{}{} meets the `case <-route.shutdown` of ONE worker
SdSignal(w) ==
  /\ Protocol = "pinned" /\ spc = "call" /\ pc[w] = "select"
  /\ spc' = "wait"
  /\ IF batch[w] # <<>> THEN Enter(w, "exit") ELSE pc' = [pc EXCEPT ![w] = "exited"] /\ UNCHANGED ret
  /\ UNCHANGED <<in, batch, dpc, nd, nfaults, drops, lost, closed, wg, o, hist>>

\* repaired: close(route.shutdown)
SdClose ==
  /\ Protocol = "repaired" /\ spc = "call"
  /\ closed' = TRUE /\ spc' = "wait"
  /\ UNCHANGED <<in, batch, pc, ret, dpc, nd, nfaults, drops, lost, wg, o, hist>>

OnClosed(w) ==
  /\ pc[w] = "select" /\ closed
  /\ IF Mutant = "no_drain"
     THEN IF batch[w] # <<>> THEN Enter(w, "done") /\ UNCHANGED wg
          ELSE pc' = [pc EXCEPT ![w] = "exited"] /\ wg' = wg - 1 /\ UNCHANGED ret
     ELSE pc' = [pc EXCEPT ![w] = "drain"] /\ UNCHANGED <<ret, wg>>
  /\ UNCHANGED <<in, batch, dpc, nd, nfaults, drops, lost, spc, closed, o, hist>>

\* the inner select of the repaired shutdown branch: `case buf := <-in` / `default`
Drain(w) ==
  /\ pc[w] = "drain"
  /\ IF in[w] # <<>>
     THEN /\ batch' = [batch EXCEPT ![w] = Append(@, Head(in[w]))]
          /\ in' = [in EXCEPT ![w] = Tail(@)]
          /\ IF Len(batch'[w]) = FlushMaxNum THEN Enter(w, "drain") ELSE UNCHANGED <<pc, ret>>
          /\ UNCHANGED wg
     ELSE /\ UNCHANGED <<in, batch>>
          /\ IF batch[w] # <<>> /\ Mutant # "no_final_flush" THEN Enter(w, "done") /\ UNCHANGED wg
             ELSE pc' = [pc EXCEPT ![w] = "exited"] /\ wg' = wg - 1 /\ UNCHANGED ret
  /\ UNCHANGED <<dpc, nd, nfaults, drops, lost, spc, closed, o, hist>>

SdWait ==
  /\ spc = "wait" /\ wg = 0
  /\ spc' = "returned" /\ o' = OSdRet(o, Blocking, 0)
  /\ UNCHANGED <<in, batch, pc, ret, dpc, nd, nfaults, drops, lost, closed, wg, hist>>

------------------------------------------------------------------------------
WorkerStep(w) == Take(w) \/ FlushOnNum(w) \/ FlushOnTimer(w) \/ (\E k \in Outcomes : Attempt(w, k)) \/ Backoff(w)
                 \/ OnClosed(w) \/ Drain(w)
ShutdownStep == (\E w \in Workers : SdSignal(w)) \/ SdClose \/ SdWait
Next == (\E s \in Series : DispatchCall(s)) \/ DispatchDo \/ SdCall \/ ShutdownStep \/ (\E w \in Workers : WorkerStep(w))

Spec == Init /\ [][Next]_vars
\* the scheduler is fair to every goroutine of the route; the environment (new Dispatch calls, the decision to
\* shut down, which outcome the endpoint gives - at most MaxFaults failures) is not constrained
Fair == /\ \A w \in Workers : WF_vars(WorkerStep(w))
        /\ WF_vars(DispatchDo) /\ WF_vars(ShutdownStep)
FairSpec == Spec /\ Fair

------------------------------------------------------------------------------
(* C17 on the model *)
InFlight == UNION {Ids(in[w]) \cup Ids(batch[w]) : w \in Workers}

\* every clause of the level-A statement, on the observation
LevelA == o.viol = {}
\* a batch is never abandoned: an accepted point is queued, in a batch, or acknowledged
NeverAbandoned == \A id \in o.accd : id \in o.acked \/ id \in InFlight
\* non-blocking mode: the caller is never blocked; what is discarded is exactly what the counter says
NonBlockingNeverBlocks == ~Blocking => ~Stuck
DropsCounted == drops = Cardinality(lost) /\ lost = o.dropd
BlockingNeverDrops == Blocking => lost = {} /\ drops = 0
\* Shutdown returned => everything buffered has been flushed (nothing queued, nothing unacknowledged)
AllBufferedFlushed == spc = "returned" => InFlight = {} /\ o.accd \subseteq o.acked
TypeOK == /\ \A w \in Workers : Len(in[w]) <= Cap /\ Len(batch[w]) <= FlushMaxNum
          /\ wg \in 0 .. NW /\ drops \in 0 .. MaxMetrics

\* liveness (finitely many failures, fair scheduling)
ShutdownReturns == (spc = "call") ~> (spc = "returned")
AckedAtLeastOnce == \A id \in 1 .. MaxMetrics : (id \in o.accd) ~> (id \in o.acked)

------------------------------------------------------------------------------
(* scenario generation (simulation mode, Record = TRUE): print the environment history of finished behaviours *)
Quiet == /\ dpc = None /\ InFlight = {}
         /\ \A w \in Workers : pc[w] \in {"select", "exited"}
Terminal == Quiet /\ nd > 0 /\ (spc = "returned" \/ (spc = "idle" /\ nd = MaxMetrics))
Emit == Terminal => PrintT("@@S " \o ToJson([hist |-> hist, sd |-> spc = "returned"]))
=============================================================================
