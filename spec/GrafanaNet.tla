----------------------------- MODULE GrafanaNet -----------------------------
(* Level-B (implementation-shaped) model of route/grafananet.go +            *)
(* route/dispatch.go: Dispatch shards a point by its series to one of NW     *)
(* workers (FNV-1a(name) % Concurrency in the code; any fixed function of    *)
(* the series here - the generated scenarios pick names with that shard),    *)
(* each worker owns a bounded channel in[w] and runs the select loop of       *)
(* run(): one action per select branch / critical section:                    *)
(*   Take          case buf := <-in: append to the batch                      *)
(*   FlushOnNum    len(batch) == FlushMaxNum: enter retryFlush                *)
(*   FlushOnTimer  case <-timer.C: enter retryFlush (the timer may fire at    *)
(*                 any time the worker is in the select)                      *)
(*   Attempt(k)    one flush(): the POST reaches the endpoint, which answers  *)
(*                 with the next outcome of the environment's fault sequence  *)
(*                 (2xx, 4xx, 5xx, timeout = no answer until the client gives *)
(*                 up, reset, stall = a failure status line and headers       *)
(*                 arrive, then the response BODY stalls - or trickles - on   *)
(*                 the open connection until the client gives up: the route's *)
(*                 timeout covers the whole exchange, so the attempt fails    *)
(*                 and is retried like any other)                             *)
(*   Backoff       the sleep between two attempts                             *)
(*   Shutdown      Protocol = "pinned": the code as found (one send on the    *)
(*                 shutdown channel, received by one worker, which flushes    *)
(*                 its partial batch and returns WITHOUT wg.Done(); nothing   *)
(*                 drains in[w]); Protocol = "repaired": close(shutdown),     *)
(*                 every worker drains in[w] into batches, flushes the rest,  *)
(*                 deferred wg.Done().                                        *)
(* A Dispatch call is two steps (call, then the channel send / default        *)
(* branch); up to NDisp calls (of different series: one series is fed by one  *)
(* goroutine) are in progress at a time.  A blocking send on a full in[w]     *)
(* parks the caller on sendq[w]; as in the Go runtime a receive from a full   *)
(* channel with parked senders hands the freed slot to the first of them in   *)
(* the same step, and THAT is when its Dispatch returns (the point is         *)
(* accepted into the route's buffer).  Shutdown may be requested while        *)
(* callers are parked (every call in progress has reached its channel         *)
(* operation), so the draining worker keeps receiving what they enqueue.      *)
(* Outage = TRUE (scenario generation / safety only): the endpoint fails      *)
(* every POST until the shutdown signal has been given.                       *)
(* The level-A observation record o (GrafanaNetOps) is updated at the points  *)
(* where the outside world sees something; the C17 clauses are checked on it  *)
(* and, independently, as invariants / temporal properties on the model's     *)
(* own state.                                                                 *)
EXTENDS GrafanaNetOps, TLC, Json

CONSTANTS NW,           \* Concurrency
          Cap,          \* BufSize / Concurrency: capacity of one in[w]
          FlushMaxNum,
          NSeries, MaxMetrics,
          MaxFaults,    \* the environment injects at most this many failures (finitely many)
          FaultKinds,   \* subset of {"4xx", "5xx", "timeout", "reset", "stall"}
          Blocking,     \* dispatchBlocking / dispatchNonBlocking
          NDisp,        \* Dispatch calls in progress at a time (dispatcher goroutines)
          Outage,       \* the endpoint answers no POST with 2xx before the shutdown signal
          AllowShutdown,
          Protocol,     \* "pinned" | "repaired"
          Mutant,       \* "" or a named deviation (non-vacuity of the properties)
          Record        \* keep the environment's history (scenario generation); FALSE for model checking

Series == 0 .. NSeries - 1
Workers == 0 .. NW - 1
None == [id |-> 0]

VARIABLES in,      \* [Workers -> Seq(<<series, id>>)]
          batch,   \* [Workers -> Seq(<<series, id>>)]   `metrics` of run()
          pc,      \* [Workers -> "select" | "num" | "attempt" | "backoff" | "drain" | "exited"]
                   \* ("blocked": only under the deviation stalled_body_blocks_forever)
          ret,     \* [Workers -> where retryFlush returns to: "select" | "exit" | "drain" | "done"]
          calls,   \* Dispatch calls in progress that have not reached the channel operation: set of [id, s]
          sendq,   \* [Workers -> Seq(<<series, id>>)]   callers parked on the full in[w] (blocking mode), FIFO
          dn,      \* [Workers -> Nat]  deviation drain_counted_once: receives left in the shutdown drain
          nd,      \* points handed to Dispatch so far
          nfaults,
          drops,   \* numDropBuffFull
          lost,    \* ids really discarded by Dispatch
          spc,     \* Shutdown(): "idle" | "call" | "wait" | "returned"
          closed,  \* repaired protocol: the shutdown channel is closed
          wg,      \* WaitGroup counter
          o,       \* level-A observation
          hist     \* environment history (only when Record)

vars == <<in, batch, pc, ret, calls, sendq, dn, nd, nfaults, drops, lost, spc, closed, wg, o, hist>>

Shard(s, id) == IF Mutant = "shard_by_point" THEN id % NW ELSE s % NW

H(e) == IF Record THEN Append(hist, e) ELSE hist

Init == /\ in = [w \in Workers |-> <<>>] /\ batch = [w \in Workers |-> <<>>]
        /\ pc = [w \in Workers |-> "select"] /\ ret = [w \in Workers |-> "select"]
        /\ calls = {} /\ sendq = [w \in Workers |-> <<>>] /\ dn = [w \in Workers |-> 0] /\ nd = 0 /\ nfaults = 0 /\ drops = 0 /\ lost = {}
        /\ spc = "idle" /\ closed = FALSE /\ wg = NW
        /\ o = ObsInit(Series) /\ hist = <<>>

------------------------------------------------------------------------------
(* Dispatch *)
RECURSIVE SumParked(_)
SumParked(W) == IF W = {} THEN 0 ELSE LET w == CHOOSE x \in W : TRUE IN Len(sendq[w]) + SumParked(W \ {w})
NParked == SumParked(Workers)
Pending(s) == (\E c \in calls : c.s = s) \/ (\E w \in Workers : \E i \in DOMAIN sendq[w] : sendq[w][i][1] = s)

DispatchCall(s) ==
  /\ spc = "idle" /\ nd < MaxMetrics /\ Cardinality(calls) + NParked < NDisp /\ ~Pending(s)
  /\ (Outage => o.last[s] = 0)       \* outage scenarios: one point per series, each by its own dispatcher
  /\ nd' = nd + 1 /\ calls' = calls \cup {[id |-> nd + 1, s |-> s]}
  /\ o' = ODisp(o, s, nd + 1, 0) /\ hist' = H([op |-> "d", s |-> s])
  /\ UNCHANGED <<in, batch, pc, ret, sendq, dn, nfaults, drops, lost, spc, closed, wg>>

Room(w) == Len(in[w]) < Cap
Blocks == Blocking \/ Mutant = "nb_no_default"
Stuck == \E w \in Workers : sendq[w] # <<>>

\* the channel operation of dispatchBlocking / dispatchNonBlocking
DispatchDo(c) ==
  /\ c \in calls /\ calls' = calls \ {c}
  /\ LET w == Shard(c.s, c.id) IN
     IF Room(w)
     THEN /\ in' = [in EXCEPT ![w] = Append(@, <<c.s, c.id>>)]
          /\ o' = ORet(o, c.id, "acc", FALSE, Blocking, 0)
          /\ UNCHANGED <<drops, lost, sendq>>
     ELSE IF Blocks
     THEN /\ sendq' = [sendq EXCEPT ![w] = Append(@, <<c.s, c.id>>)]      \* parks; Dispatch has not returned
          /\ UNCHANGED <<in, drops, lost, o>>
     ELSE /\ lost' = lost \cup {c.id}
          /\ IF Mutant = "drop_uncounted"
             THEN drops' = drops /\ o' = ORet(o, c.id, "acc", FALSE, Blocking, 0)
             ELSE drops' = drops + 1 /\ o' = ORet(o, c.id, "drop", FALSE, Blocking, 0)
          /\ UNCHANGED <<in, sendq>>
  /\ UNCHANGED <<batch, pc, ret, dn, nd, nfaults, spc, closed, wg, hist>>

\* `buf := <-in[w]` (in[w] not empty): the head leaves; if a caller is parked its point takes the freed slot and
\* its Dispatch call returns
Recv(w) ==
  /\ in' = [in EXCEPT ![w] = IF sendq[w] # <<>> THEN Append(Tail(@), Head(sendq[w])) ELSE Tail(@)]
  /\ sendq' = [sendq EXCEPT ![w] = IF @ # <<>> THEN Tail(@) ELSE @]
  /\ o' = IF sendq[w] # <<>> THEN ORet(o, Head(sendq[w])[2], "acc", FALSE, Blocking, 0) ELSE o

------------------------------------------------------------------------------
(* worker select loop *)
Enter(w, r) == pc' = [pc EXCEPT ![w] = "attempt"] /\ ret' = [ret EXCEPT ![w] = r]

Take(w) ==
  /\ pc[w] = "select" /\ in[w] # <<>>
  /\ batch' = [batch EXCEPT ![w] = Append(@, Head(in[w]))]
  /\ Recv(w)
  /\ pc' = [pc EXCEPT ![w] = IF Len(batch'[w]) = FlushMaxNum THEN "num" ELSE "select"]
  /\ UNCHANGED <<ret, calls, dn, nd, nfaults, drops, lost, spc, closed, wg, hist>>

FlushOnNum(w) ==
  /\ pc[w] = "num"
  /\ IF Mutant = "flush_loses_last"
     THEN batch' = [batch EXCEPT ![w] = SubSeq(@, 1, Len(@) - 1)] /\ (IF Len(batch[w]) = 1 THEN pc' = [pc EXCEPT ![w] = "select"] /\ UNCHANGED ret ELSE Enter(w, "select"))
     ELSE Enter(w, "select") /\ UNCHANGED batch
  /\ UNCHANGED <<in, calls, sendq, dn, nd, nfaults, drops, lost, spc, closed, wg, o, hist>>

FlushOnTimer(w) ==
  /\ pc[w] = "select" /\ batch[w] # <<>>       \* with an empty batch retryFlush returns at once: a stuttering step
  /\ Enter(w, "select") /\ hist' = H([op |-> "t"])
  /\ UNCHANGED <<in, batch, calls, sendq, dn, nd, nfaults, drops, lost, spc, closed, wg, o>>

Down == Outage /\ ~closed /\ spc # "returned"
Outcomes == IF Down THEN FaultKinds ELSE {"2xx"} \cup (IF nfaults < MaxFaults THEN FaultKinds ELSE {})

\* where a worker goes when retryFlush returns
Return(w) ==
  CASE ret[w] = "select" -> pc' = [pc EXCEPT ![w] = "select"] /\ UNCHANGED wg
    [] ret[w] = "drain"  -> pc' = [pc EXCEPT ![w] = "drain"] /\ UNCHANGED wg
    [] ret[w] = "exit"   -> pc' = [pc EXCEPT ![w] = "exited"] /\ UNCHANGED wg          \* pinned: return without Done
    [] ret[w] = "done"   -> pc' = [pc EXCEPT ![w] = "exited"] /\ wg' = wg - 1          \* repaired: deferred Done

GiveUp(k) == Mutant = "give_up" /\ k = "4xx"      \* deviation: a client error is not retried
\* deviation: the timeout only bounds the wait for the response headers; once they have arrived nothing bounds the
\* read of the response body, so a body that stalls on the open connection blocks the worker for good
StallBlocks(k) == Mutant = "stalled_body_blocks_forever" /\ k = "stall"
Attempt(w, k) ==
  /\ pc[w] = "attempt" /\ k \in Outcomes
  /\ o' = OPost(o, batch[w], k, 0) /\ hist' = H([op |-> "f", k |-> k])
  /\ nfaults' = IF k = "2xx" \/ Down THEN nfaults ELSE nfaults + 1
  /\ IF k = "2xx" \/ GiveUp(k)
     THEN batch' = [batch EXCEPT ![w] = <<>>] /\ Return(w)
     ELSE IF StallBlocks(k)
     THEN pc' = [pc EXCEPT ![w] = "blocked"] /\ UNCHANGED <<batch, wg>>      \* no action of w is enabled anymore
     ELSE /\ pc' = [pc EXCEPT ![w] = "backoff"]
          /\ batch' = IF Mutant = "retry_reorders" /\ Len(batch[w]) > 1
                      THEN [batch EXCEPT ![w] = Tail(@) \o <<Head(@)>>] ELSE batch
          /\ UNCHANGED wg
  /\ UNCHANGED <<in, ret, calls, sendq, dn, nd, drops, lost, spc, closed>>

Backoff(w) ==
  /\ pc[w] = "backoff" /\ pc' = [pc EXCEPT ![w] = "attempt"]
  /\ UNCHANGED <<in, batch, ret, calls, sendq, dn, nd, nfaults, drops, lost, spc, closed, wg, o, hist>>

------------------------------------------------------------------------------
(* Shutdown *)
SdCall ==
  /\ AllowShutdown /\ spc = "idle" /\ calls = {}      \* every call in progress is parked on its full queue
  /\ spc' = "call" /\ o' = OSdCall(o, 0) /\ hist' = H([op |-> "sd", parked |-> NParked])
  /\ UNCHANGED <<in, batch, pc, ret, calls, sendq, dn, nd, nfaults, drops, lost, closed, wg>>

\* pinned: route.shutdown <- struct{}{} meets the `case <-route.shutdown` of ONE worker
SdSignal(w) ==
  /\ Protocol = "pinned" /\ spc = "call" /\ pc[w] = "select"
  /\ spc' = "wait"
  /\ IF batch[w] # <<>> THEN Enter(w, "exit") ELSE pc' = [pc EXCEPT ![w] = "exited"] /\ UNCHANGED ret
  /\ UNCHANGED <<in, batch, calls, sendq, dn, nd, nfaults, drops, lost, closed, wg, o, hist>>

\* repaired: close(route.shutdown)
SdClose ==
  /\ Protocol = "repaired" /\ spc = "call"
  /\ closed' = TRUE /\ spc' = "wait"
  /\ UNCHANGED <<in, batch, pc, ret, calls, sendq, dn, nd, nfaults, drops, lost, wg, o, hist>>

OnClosed(w) ==
  /\ pc[w] = "select" /\ closed
  /\ IF Mutant = "no_drain"
     THEN IF batch[w] # <<>> THEN Enter(w, "done") /\ UNCHANGED wg
          ELSE pc' = [pc EXCEPT ![w] = "exited"] /\ wg' = wg - 1 /\ UNCHANGED ret
     ELSE pc' = [pc EXCEPT ![w] = "drain"] /\ UNCHANGED <<ret, wg>>
  \* deviation: the drain is bounded by len(in) taken now
  /\ dn' = IF Mutant = "drain_counted_once" THEN [dn EXCEPT ![w] = Len(in[w])] ELSE dn
  /\ UNCHANGED <<in, batch, calls, sendq, nd, nfaults, drops, lost, spc, closed, o, hist>>

\* the inner select of the repaired shutdown branch: `case buf := <-in` / `default`
Drain(w) ==
  /\ pc[w] = "drain"
  /\ IF in[w] # <<>> /\ (Mutant = "drain_counted_once" => dn[w] > 0)
     THEN /\ batch' = [batch EXCEPT ![w] = Append(@, Head(in[w]))]
          /\ Recv(w)
          /\ dn' = IF Mutant = "drain_counted_once" THEN [dn EXCEPT ![w] = @ - 1] ELSE dn
          /\ IF Len(batch'[w]) = FlushMaxNum THEN Enter(w, "drain") ELSE UNCHANGED <<pc, ret>>
          /\ UNCHANGED wg
     ELSE /\ UNCHANGED <<in, batch, sendq, dn, o>>
          /\ IF batch[w] # <<>> /\ Mutant # "no_final_flush" THEN Enter(w, "done") /\ UNCHANGED wg
             ELSE pc' = [pc EXCEPT ![w] = "exited"] /\ wg' = wg - 1 /\ UNCHANGED ret
  /\ UNCHANGED <<calls, nd, nfaults, drops, lost, spc, closed, hist>>

SdWait ==
  /\ spc = "wait" /\ wg = 0
  /\ spc' = "returned" /\ o' = OSdRet(o, Blocking, 0)
  /\ UNCHANGED <<in, batch, pc, ret, calls, sendq, dn, nd, nfaults, drops, lost, closed, wg, hist>>

------------------------------------------------------------------------------
WorkerStep(w) == Take(w) \/ FlushOnNum(w) \/ FlushOnTimer(w) \/ (\E k \in Outcomes : Attempt(w, k)) \/ Backoff(w)
                 \/ OnClosed(w) \/ Drain(w)
ShutdownStep == (\E w \in Workers : SdSignal(w)) \/ SdClose \/ SdWait
Next == (\E s \in Series : DispatchCall(s)) \/ (\E c \in calls : DispatchDo(c)) \/ SdCall \/ ShutdownStep \/ (\E w \in Workers : WorkerStep(w))

Spec == Init /\ [][Next]_vars
\* the scheduler is fair to every goroutine of the route; the environment (new Dispatch calls, the decision to
\* shut down, which outcome the endpoint gives - at most MaxFaults failures) is not constrained
Fair == /\ \A w \in Workers : WF_vars(WorkerStep(w))
        /\ WF_vars(\E c \in calls : DispatchDo(c)) /\ WF_vars(ShutdownStep)
FairSpec == Spec /\ Fair

------------------------------------------------------------------------------
(* C17 on the model *)
InFlight == UNION {Ids(in[w]) \cup Ids(batch[w]) : w \in Workers}

\* every clause of the level-A statement, on the observation
LevelA == o.viol = {}
\* a batch is never abandoned: an accepted point is queued, in a batch, or acknowledged
NeverAbandoned == \A id \in o.accd : id \in o.acked \/ id \in InFlight
\* non-blocking mode: the caller is never blocked; what is discarded is exactly what the counter says
NonBlockingNeverBlocks == ~Blocking => ~Stuck
DropsCounted == drops = Cardinality(lost) /\ lost = o.dropd
BlockingNeverDrops == Blocking => lost = {} /\ drops = 0
\* Shutdown returned => everything buffered has been flushed (nothing queued, nothing unacknowledged)
AllBufferedFlushed == spc = "returned" => InFlight = {} /\ o.accd \subseteq o.acked
TypeOK == /\ \A w \in Workers : Len(in[w]) <= Cap /\ Len(batch[w]) <= FlushMaxNum
          /\ \A w \in Workers : sendq[w] # <<>> => Len(in[w]) = Cap      \* callers are parked on a full channel only
          /\ Cardinality(calls) + NParked <= NDisp
          /\ wg \in 0 .. NW /\ drops \in 0 .. MaxMetrics

\* liveness (finitely many failures, fair scheduling)
ShutdownReturns == (spc = "call") ~> (spc = "returned")
AckedAtLeastOnce == \A id \in 1 .. MaxMetrics : (id \in o.accd) ~> (id \in o.acked)

------------------------------------------------------------------------------
(* scenario generation (simulation mode, Record = TRUE): print the environment history of finished behaviours *)
Quiet == /\ calls = {} /\ ~Stuck /\ InFlight = {}
         /\ \A w \in Workers : pc[w] \in {"select", "exited"}
Terminal == Quiet /\ nd > 0 /\ (spc = "returned" \/ (spc = "idle" /\ nd = MaxMetrics))
Emit == Terminal => PrintT("@@S " \o ToJson([hist |-> hist, sd |-> spc = "returned"]))
=============================================================================
