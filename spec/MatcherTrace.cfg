SPECIFICATION TSpec
CONSTRAINT HighWater
INVARIANT TFresh
POSTCONDITION Post
CHECK_DEADLOCK FALSE
