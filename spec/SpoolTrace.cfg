SPECIFICATION TSpec
CONSTRAINT HighWater
INVARIANTS TypeOK Conservation NoDupRun RTOrder BulkOrder
POSTCONDITION Post
CHECK_DEADLOCK FALSE
CONSTANTS MaxLines = 128 RTCap = 11 MaxCrashes = 0 ReadAhead = TRUE Dev = ""
