--------------------------- MODULE BadMetricsOps ---------------------------
(* XBAD -- the bad-metrics report (badmetrics/badMetrics.go) and the table's  *)
(* accounting around it (table.Dispatch -> table.bad.Add; Table.Bad().Get;    *)
(* the web endpoint /badMetrics/{timespec}.json).  Level A: what may be       *)
(* claimed about the answers of Get from what a caller can observe, as pure   *)
(* operators.  Shared by BadMetrics.tla (level B: the manage goroutine, the   *)
(* channel In, producers, readers, a logical clock -- model-checked, TLC       *)
(* shows that every behaviour of level B satisfies level A) and by            *)
(* BadMetricsTrace.tla (histories recorded from the real code).               *)
(*                                                                           *)
(* What a caller can observe.  Every rejection ("add") is one call            *)
(* Add(name, text, reason) -- directly, or inside table.Dispatch(text) --     *)
(* bracketed by two readings of a monotonic clock: a0 before the call, a1     *)
(* after it returned.  The record's LastSeen is a time.Now() taken inside,    *)
(* so a0 <= LastSeen <= a1, and the record entered the channel In at some     *)
(* instant of [a0, a1].  Every Get(expiry) is bracketed the same way by g0    *)
(* and g1; its cutoff is (a time.Now() of [g0,g1]) - expiry and the manage    *)
(* goroutine evaluated it at an instant of [g0, g1].  Texts are unique per    *)
(* add, so a returned record names its add.  Nothing else is known: In and    *)
(* getReq are different channels of one select, so a Get issued after Add     *)
(* returned need NOT see the record.  What orders things:                     *)
(*   Before(a, b)   a1[a] < a0[b]: a entered In before b (FIFO: consumed      *)
(*                  before b)                                                 *)
(*   a returned by a Get => a, and every add Before it, was consumed when     *)
(*                  that Get was evaluated, i.e. not later than its g1        *)
(* All comparisons between instants of different calls are strict; equal      *)
(* readings are "unordered" (both outcomes allowed).                          *)
(*                                                                           *)
(* History  H = [n, rs, a0, a1 : sequences indexed by add]                    *)
(*          n[a] name (an integer: the rank of the name in byte order),       *)
(*          rs[a] identity of the reason, a0/a1 the bracket (a1 = Inf while   *)
(*          the call has not returned)                                        *)
(* Get      G = [g0, g1, e, res]; res = sequence of <<n, a, rs, s0, s1>>:     *)
(*          name, add named by the text (0: a text nobody sent), identity of  *)
(*          the reason, LastSeen as an interval [s0, s1] (rounding; for the   *)
(*          web endpoint the add's bracket)                                   *)
(* Knowledge carried from one Get to the later ones (Gets are processed in    *)
(* the order of g1):                                                          *)
(*   kn[a]   earliest g1 of a Get that proves a consumed (Inf: none yet)      *)
(*   ob[a]   earliest g1 of a Get that returned a                             *)
(*   dd[a]   earliest g1 of a Get that proves a gone for good (overwritten    *)
(*           or cleaned: a map entry never comes back)                        *)
EXTENDS Integers, Sequences, FiniteSets

Inf == 2000000000

\* ---- the two comparisons of badMetrics.go; both are STRICT ------------------------------------
\* Get:   record.LastSeen.After(oldest),  oldest = (time of the Get call) - expiry
\*        a record seen exactly expiry ago is NOT returned
InWindow(t, oldest) == t > oldest
\* clean: record.LastSeen.Before(cutoff), cutoff = (time of the clean) - maxAge
\*        a record seen exactly maxAge ago is NOT deleted (it goes one clean period later)
Expired(t, cutoff) == t < cutoff

Max(a, b) == IF a > b THEN a ELSE b
Min(a, b) == IF a < b THEN a ELSE b

Adds(H) == 1..Len(H.n)
Before(H, a, b) == H.a1[a] < H.a0[b]
ObsIn(G) == {G.res[i][2] : i \in DOMAIN G.res}
SameName(H, a) == {c \in Adds(H) : c # a /\ H.n[c] = H.n[a]}

\* a was certainly consumed when G was evaluated
ConsBy(H, kn, G, a) == \/ kn[a] < G.g0
                       \/ \E b \in ObsIn(G) \cap Adds(H) : a = b \/ Before(H, a, b)

\* a is certainly the map's entry for its name when G is evaluated, unless cleaned: consumed, and every other add of
\* the name either entered In before a (a overwrote it) or had not begun when G returned
Current(H, kn, G, a) == /\ ConsBy(H, kn, G, a)
                        /\ \A c \in SameName(H, a) : Before(H, c, a) \/ H.a0[c] > G.g1

\* ---- the clauses; every one names what it forbids ---------------------------------------------
\* S1 a returned record is a record somebody added, under the name it was added with
C_known(H, G)  == \A i \in DOMAIN G.res : G.res[i][2] \in Adds(H) /\ H.n[G.res[i][2]] = G.res[i][1]
\* S2 text and reason of a record belong to ONE rejection (never the text of one with the reason of another)
C_pair(H, G)   == \A i \in DOMAIN G.res : G.res[i][2] \in Adds(H) => H.rs[G.res[i][2]] = G.res[i][3]
\* S3 its LastSeen is the time of that rejection (not of the first one of the name, not of the Get)
C_stamp(H, G)  == \A i \in DOMAIN G.res : G.res[i][2] \in Adds(H) =>
                      H.a0[G.res[i][2]] <= G.res[i][5] /\ G.res[i][4] <= H.a1[G.res[i][2]]
\* S4 the answer is sorted by name, strictly: one record per name
C_sorted(G)    == \A i, j \in DOMAIN G.res : i < j => G.res[i][1] < G.res[j][1]
\* S5 Get never returns a record older than its window (strict: LastSeen > time of the call - expiry)
C_window(G)    == \A i \in DOMAIN G.res : InWindow(G.res[i][5], G.g0 - G.e)
\* S6 only the LAST record of a name, in channel order: a record that a later, already consumed add of the same name
\*    has overwritten is not returned; nor one that an earlier Get has shown gone
C_last(H, kn, dd, G) == \A i \in DOMAIN G.res : LET a == G.res[i][2] IN a \in Adds(H) =>
                      /\ H.a0[a] <= G.g1
                      /\ ~ \E c \in SameName(H, a) : Before(H, a, c) /\ ConsBy(H, kn, G, c)
                      /\ ~ (dd[a] < G.g0)
\* S7 the last record of a name is returned by every Get whose window covers it, from the moment the manager has
\*    consumed it until maxAge has elapsed since it was seen (it is not cleaned before that)
MustHave(H, kn, G, a, maxAge) == /\ Current(H, kn, G, a)
                                 /\ InWindow(H.a0[a], G.g1 - G.e)
                                 /\ ~Expired(H.a0[a], G.g1 - maxAge)
C_must(H, kn, G, maxAge) == \A a \in Adds(H) : MustHave(H, kn, G, a, maxAge) => a \in ObsIn(G)
\* S8 a record is cleaned at the latest maxAge + one clean period after it was seen (or one period after it was
\*    consumed, if that was later) "in practice a bit later": + slack (0 in the model with a prompt manager; a generous
\*    constant for the real code; slack < 0: nothing is claimed)
C_clean(kn, G, maxAge, period, slack) == slack < 0 \/ \A i \in DOMAIN G.res : LET a == G.res[i][2] IN a \in DOMAIN kn =>
                      ~ (kn[a] < Inf /\ G.g0 > Max(G.res[i][5] + maxAge, kn[a]) + period + slack)

Clauses(H, kn, dd, G, maxAge, period, slack) ==
    [known |-> C_known(H, G), pair |-> C_pair(H, G), stamp |-> C_stamp(H, G), sorted |-> C_sorted(G),
     window |-> C_window(G), last |-> C_last(H, kn, dd, G), must |-> C_must(H, kn, G, maxAge),
     clean |-> C_clean(kn, G, maxAge, period, slack)]
ClauseNames == {"known", "pair", "stamp", "sorted", "window", "last", "must", "clean"}
Failed(c) == {k \in ClauseNames : ~c[k]}
GetOK(H, kn, dd, G, maxAge, period, slack) == Failed(Clauses(H, kn, dd, G, maxAge, period, slack)) = {}

\* ---- knowledge after G -----------------------------------------------------------------------
KnNext(H, kn, G) == [a \in Adds(H) |->
    IF \E b \in ObsIn(G) \cap Adds(H) : a = b \/ Before(H, a, b) THEN Min(kn[a], G.g1) ELSE kn[a]]
ObNext(H, ob, G) == [a \in Adds(H) |-> IF a \in ObsIn(G) THEN Min(ob[a], G.g1) ELSE ob[a]]
\* gone for good: (i) another add of the name is returned and a had been returned by a Get that ended before this one
\* began (so the other one came later in the channel), or (ii) a was certainly consumed, is certainly inside the window
\* of G, and G does not return it
DdNext(H, kn, ob, dd, G) == [a \in Adds(H) |->
    IF \/ \E i \in DOMAIN G.res : G.res[i][2] # a /\ G.res[i][1] = H.n[a] /\ ob[a] < G.g0
       \/ a \notin ObsIn(G) /\ ConsBy(H, kn, G, a) /\ InWindow(H.a0[a], G.g1 - G.e)
    THEN Min(dd[a], G.g1) ELSE dd[a]]

\* how many adds a Get decides (coverage): must be returned / must not be returned / either
Decided(H, kn, dd, G, maxAge) ==
    LET must == {a \in Adds(H) : MustHave(H, kn, G, a, maxAge)}
        mustnot == {a \in Adds(H) : \/ ~InWindow(H.a1[a], G.g0 - G.e)
                                    \/ \E c \in SameName(H, a) : Before(H, a, c) /\ ConsBy(H, kn, G, c)
                                    \/ dd[a] < G.g0
                                    \/ H.a0[a] > G.g1}
    IN  <<Cardinality(must), Cardinality(mustnot), Cardinality(Adds(H) \ (must \cup mustnot))>>
=============================================================================
