SPECIFICATION FairSpec
INVARIANTS LineOK FrameOK StopsAtError
PROPERTY Finishes
CHECK_DEADLOCK FALSE
