SPECIFICATION FairSpec
INVARIANTS LineOK FrameOK
PROPERTY Finishes
CHECK_DEADLOCK FALSE
