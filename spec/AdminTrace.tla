------------------------------ MODULE AdminTrace ------------------------------
(* C14 trace specification: replays what the real relay code did with the     *)
(* abstract histories (trace.ndjson, one event per line) into the reference   *)
(* machine of Admin.tla / AdminOps.tla.                                       *)
(*   hist     a new history starts on an empty table                          *)
(*   apply    command Ev.cmd was applied; Ev.res = acc | rej; Ev.routes,      *)
(*            Ev.na, Ev.nb, Ev.nw = shape of the real table afterwards        *)
(*   traffic  stream item Ev.item went through the real input handler         *)
(*   pump     well-formed metrics went through Table.Dispatch                 *)
(*   rulepump well-formed metrics that the rewriters / aggregations of the    *)
(*            history match went through Table.Dispatch and what the rules    *)
(*            made of them was handed to the (connected) destinations         *)
(*   done     the history completed and the process is alive                  *)
(*   hang     a step did not return (C14 says nothing about it; noted)        *)
(* There is NO action for the event "crash": panic / exit is not in the range *)
(* of any action, so a trace containing it is rejected at that line.          *)
(* The real table must have the shape the reference machine computes          *)
(* (rejected => unchanged), and whenever an accepted command makes the table  *)
(* unworkable (~SafeTable) the reasons are printed as @@UNSAFE.               *)
EXTENDS AdminOps, Json, TLC, TLCExt, IOUtils

CONSTANT CrashMode   \* FALSE: the specification proper.  TRUE: used only after a trace was rejected, to list
                     \* every crash event together with the table it happened in (the event is skipped).

TLog == ndJsonDeserialize("trace.ndjson")

VARIABLES l, table
tvars == <<l, table>>

ASSUME TLCSet(1, 0)

Ev == TLog[l]
Is(e) == l <= Len(TLog) /\ Ev.ev = e /\ l' = l + 1

Shape(t) == [i \in 1..Len(t.routes) |-> <<t.routes[i].key, t.routes[i].rtype, t.routes[i].nd>>]

\* garbage commands (mutated text) may do anything short of crashing: adopt what is observed
Adopt(t) ==
    [routes |-> [i \in 1..Len(Ev.routes) |->
                    IF i <= Len(t.routes) /\ Shape(t)[i] = Ev.routes[i] THEN t.routes[i]
                    ELSE [key |-> Ev.routes[i][1], rtype |-> Ev.routes[i][2], nd |-> Ev.routes[i][3], why |-> {}]],
     aggs |-> [i \in 1..Ev.na |-> IF i <= Len(t.aggs) THEN t.aggs[i] ELSE {}],
     nb |-> Ev.nb, nw |-> Ev.nw, cfg |-> t.cfg]

TInit == l = 1 /\ table = EmptyTable

THist == Is("hist") /\ table' = EmptyTable

TApply ==
    /\ Is("apply")
    /\ IsCommand(Ev.cmd)
    /\ (FirstOnly(Ev.cmd) => table = EmptyTable)
    /\ Ev.res \in {"acc", "rej"}
    /\ LET t2 == IF Ev.cmd.op = "garbage" THEN Adopt(table)
                 ELSE IF Ev.res = "acc" THEN Do(Ev.cmd, table) ELSE table
       IN /\ table' = t2
          /\ Ev.routes = Shape(t2) /\ Ev.na = Len(t2.aggs) /\ Ev.nb = t2.nb /\ Ev.nw = t2.nw
          /\ (Ev.res = "acc" /\ ~SafeTable(t2) /\ Unsafe(t2) # Unsafe(table)) =>
                 PrintT("@@UNSAFE " \o ToJson([line |-> l, h |-> Ev.h, why |-> Unsafe(t2)]))

TTraffic == Is("traffic") /\ IsItem(Ev.item) /\ UNCHANGED table
TPump    == Is("pump") /\ UNCHANGED table
TRulePump == Is("rulepump") /\ UNCHANGED table
TDone    == Is("done") /\ UNCHANGED table
THang    == Is("hang") /\ UNCHANGED table

TCrash   == /\ CrashMode /\ Is("crash") /\ UNCHANGED table
            /\ PrintT("@@CRASH " \o ToJson([line |-> l, h |-> Ev.h, why |-> Unsafe(table)]))

TNext == THist \/ TApply \/ TTraffic \/ TPump \/ TRulePump \/ TDone \/ THang \/ TCrash
TSpec == TInit /\ [][TNext]_tvars

HighWater == TLCSet(1, IF l - 1 > TLCGet(1) THEN l - 1 ELSE TLCGet(1))
Post == PrintT("@@TRACE " \o ToJson([matched |-> TLCGet(1)]))
TypeInv == table.nb >= 0 /\ table.nw >= 0
=============================================================================
