-------------------------- MODULE GrafanaNetTrace --------------------------
(* Level-A trace specification for C17: replays the events recorded from the *)
(* real route.GrafanaNet and the scripted endpoint (trace.ndjson) into the   *)
(* observation record of GrafanaNetOps.  One line = one event:                *)
(*   scen      a new scenario starts (fresh route, fresh endpoint)            *)
(*   disp      Dispatch(point id of series s) is being called                 *)
(*   ret       it returned; st = acc | drop | unk, slow = took longer than    *)
(*             the bound                                                      *)
(*   stall     a Dispatch call has not returned within the bound              *)
(*   post      the endpoint received a POST: pts = <<series, id>> pairs in    *)
(*             body order, st = class of the answer it gave                   *)
(*   quiesce   the driver waited until everything accepted was acknowledged   *)
(*   sdcall / sdret / sdtimeout   Shutdown (sdcall carries the number of      *)
(*             Dispatch calls parked on a full queue at that moment)          *)
(*   blocked   n Dispatch calls are still parked at the end (not judged)      *)
(*   final     counter deltas at the end                                      *)
(* Every well-formed line is matched; the clauses of the property that an     *)
(* execution breaks are collected by the operators in o.viol and printed per  *)
(* scenario (@@V), so one TLC pass judges all scenarios.                      *)
EXTENDS GrafanaNetOps, Json, TLC, TLCExt, IOUtils

TLog == ndJsonDeserialize("trace.ndjson")

VARIABLES l, o, k, blocking
tvars == <<l, o, k, blocking>>

ASSUME TLCSet(1, 0)

Ev == TLog[l]
Is(e) == l <= Len(TLog) /\ Ev.ev = e /\ l' = l + 1
Same == UNCHANGED <<k, blocking>>

TInit == l = 1 /\ o = ObsInit({}) /\ k = -1 /\ blocking = FALSE

TScen == /\ Is("scen") /\ k' = Ev.k /\ blocking' = Ev.blocking
         /\ o' = ObsInit(0 .. Ev.nseries - 1)
TDisp == Is("disp") /\ Ev.s \in DOMAIN o.last /\ o' = ODisp(o, Ev.s, Ev.id, l) /\ Same
TRet  == Is("ret") /\ Ev.id \in o.called /\ o' = ORet(o, Ev.id, Ev.st, Ev.slow, blocking, l) /\ Same
TStall == Is("stall") /\ o' = OStall(o, blocking, l) /\ Same
TPost == Is("post") /\ o' = OPost(o, Ev.pts, Ev.st, l) /\ Same
TQuiesce == Is("quiesce") /\ o' = OQuiesce(o, Ev.ok, blocking, l) /\ Same
TSdCall == Is("sdcall") /\ o' = OSdCall(o, l) /\ Same
TSdRet == Is("sdret") /\ o' = OSdRet(o, blocking, l) /\ Same
TSdTimeout == Is("sdtimeout") /\ o' = OSdTimeout(o, l) /\ Same
TBlocked == Is("blocked") /\ o' = OBlocked(o, Ev.n, l) /\ Same
TFinal == /\ Is("final") /\ Same
          /\ o' = OFinal(o, Ev.drops, blocking, l)
          /\ PrintT("@@V " \o ToJson([k |-> k, viol |-> o'.viol, dispatched |-> Cardinality(o.called),
                                      acked |-> Cardinality(o.acked), dropped |-> Ev.drops]))

TNext == TScen \/ TDisp \/ TRet \/ TStall \/ TPost \/ TQuiesce \/ TSdCall \/ TSdRet \/ TSdTimeout \/ TBlocked \/ TFinal
TSpec == TInit /\ [][TNext]_tvars

HighWater == TLCSet(1, IF l - 1 > TLCGet(1) THEN l - 1 ELSE TLCGet(1))
Post == PrintT("@@TRACE " \o ToJson([matched |-> TLCGet(1)]))
TypeInv == o.acked \subseteq o.posted /\ o.posted \subseteq o.called /\ o.accd \cap o.dropd = {} /\ o.retd \subseteq o.called
=============================================================================
