SPECIFICATION Spec
INVARIANTS TypeOK Conservation NoDupRun RTOrder BulkOrder Accounted AtMostOncePerRun
           NothingInvented Durable RedeliveryBounded LossExact
CHECK_DEADLOCK FALSE
