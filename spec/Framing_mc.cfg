SPECIFICATION Spec
INVARIANTS LineOK FrameOK
CHECK_DEADLOCK FALSE
