SPECIFICATION Spec
INVARIANTS LineOK FrameOK StopsAtError
CHECK_DEADLOCK FALSE
