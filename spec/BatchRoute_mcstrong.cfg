SPECIFICATION FairSpec
INVARIANTS TypeOK LevelA AtExit NeverAbandoned ClientFailuresTolerated DropsExact BlockingNeverDrops NonBlockingNeverBlocks ParkedOnFull GaugeExact PendingBelowThreshold ShutdownWaitsForLoop
CHECK_DEADLOCK FALSE
