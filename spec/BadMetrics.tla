----------------------------- MODULE BadMetrics -----------------------------
(* XBAD -- badmetrics/badMetrics.go, level B: one process per goroutine.      *)
(*                                                                           *)
(*  Producer p   a caller of Add (table.Dispatch on an invalid line or an     *)
(*               out-of-order point): builds Record{name, text, reason,       *)
(*               time.Now()} (AddStart: the stamp is taken BEFORE the send),  *)
(*               then `b.In <- record` (AddSend: blocks while In is full; the *)
(*               record is never dropped).  In has capacity Cap (100000 in    *)
(*               the code, 1..2 here).                                        *)
(*  Reader r     Get(expiry): oldest = time.Now() - expiry (GetCall: stamped  *)
(*               before the request is sent), `getReq <- oldest`, the manager *)
(*               answers on getResp, Get sorts by name (MgrGet: one step; the *)
(*               manager does nothing else between receiving the request and  *)
(*               sending the answer and only this reader waits for it).       *)
(*  Manager      the select of manage(): MgrIn (seen[name] = record, the      *)
(*               whole record: last writer in channel order wins), MgrClean   *)
(*               (a tick of the maxAge/10 ticker: delete every record with    *)
(*               LastSeen.Before(now - maxAge)), MgrGet (every record with    *)
(*               LastSeen.After(oldest), in map order).                       *)
(*  Clock        Advance: now + 1; the ticker fires when the clock reaches a  *)
(*               grid point Period, 2*Period, ... into a channel of capacity  *)
(*               1 (a tick nobody has taken is dropped).  With Timely = TRUE  *)
(*               the manager handles a tick before the clock advances again   *)
(*               (a prompt manager: the premise of the "at the latest maxAge  *)
(*               + one period later" clause); with FALSE ticks are handled    *)
(*               arbitrarily late.                                            *)
(*                                                                           *)
(* History variables give the statements something to talk about: H (the     *)
(* API-level history of BadMetricsOps: bracket of every Add), lastc / consAt  *)
(* (last add consumed per name and when), consumed, and kn / ob / dd (the     *)
(* knowledge of BadMetricsOps).  The bracket of an Add closes at the instant  *)
(* of the send and a Get is bracketed by its call and its evaluation: the     *)
(* tightest brackets, i.e. the most that level A can ever claim.              *)
(* Mutant names a deviation (non-vacuity); "" = the code as it is:            *)
(*   add_drops              Add gives up when In is full (select ... default)  *)
(*   mix_text_reason        the map entry keeps the reason of the previous     *)
(*                          rejection of the name with the text of the new one *)
(*   first_writer_wins      an existing entry is not overwritten               *)
(*   keep_newest_stamp      the entry with the newest LastSeen wins instead of *)
(*                          the last one in channel order                      *)
(*   clean_first_seen       clean deletes by first-seen instead of last-seen   *)
(*   clean_last_get_expiry  clean uses the expiry of the last Get, not maxAge  *)
(*   clean_inclusive        clean deletes a record seen exactly maxAge ago     *)
(*   get_inclusive          Get returns a record seen exactly expiry ago       *)
(*   get_first_seen         the window of Get is applied to first-seen         *)
(*   get_cutoff_at_eval     the cutoff is computed when the manager handles    *)
(*                          the request, not when Get is called                *)
(*   unsorted               Get returns the records in map order               *)
EXTENDS BadMetricsOps, TLC

CONSTANTS Names,        \* 1..K (rank in byte order)
          Producers, Readers,
          Cap,          \* capacity of In
          MaxAdds, MaxGets,
          Expiries,     \* the expiry arguments of Get
          MaxAge, Period, MaxTime,
          Timely,       \* BOOLEAN
          Witness,      \* BOOLEAN: print reachability witnesses ("@@W ...")
          Mutant

None == [a |-> 0]

VARIABLES now, In, seen,
          ppc, prec,                  \* producer: "idle" | "send"; the record in its hand
          rpc, rexp, rg0,             \* reader: "idle" | "req"; expiry, time of the call (cutoff = rg0 - rexp)
          tickc, nextTick,            \* ticker channel (0/1), next grid point
          lastExp,                    \* expiry of the last Get (only deviations read it)
          H, lastc, consAt, consumed, \* history
          kn, ob, dd, ngets, afail, bfail
vars == <<now, In, seen, ppc, prec, rpc, rexp, rg0, tickc, nextTick, lastExp, H, lastc, consAt, consumed,
          kn, ob, dd, ngets, afail, bfail>>

\* reachability witnesses: printed once per TLC worker (register 2), no state
ASSUME TLCSet(2, {})
W(x) == IF ~Witness \/ x \subseteq TLCGet(2) THEN TRUE
        ELSE PrintT("@@W " \o ToString(x)) /\ TLCSet(2, TLCGet(2) \cup x)

Init == /\ now = 0 /\ In = <<>> /\ seen = [n \in Names |-> None]
        /\ ppc = [p \in Producers |-> "idle"] /\ prec = [p \in Producers |-> None]
        /\ rpc = [r \in Readers |-> "idle"] /\ rexp = [r \in Readers |-> 0]
        /\ rg0 = [r \in Readers |-> 0]
        /\ tickc = 0 /\ nextTick = Period /\ lastExp = -1
        /\ H = [n |-> <<>>, rs |-> <<>>, a0 |-> <<>>, a1 |-> <<>>]
        /\ lastc = [n \in Names |-> 0] /\ consAt = [n \in Names |-> 0] /\ consumed = {}
        /\ kn = <<>> /\ ob = <<>> /\ dd = <<>> /\ ngets = 0 /\ afail = {} /\ bfail = {}

\* ------------------------------------------------------------------ producers
AddStart(p, n) ==
    /\ ppc[p] = "idle" /\ Len(H.n) < MaxAdds
    /\ LET a == Len(H.n) + 1 IN
       /\ prec' = [prec EXCEPT ![p] = [a |-> a, rs |-> a, n |-> n, t |-> now, f |-> now]]
       /\ H' = [n |-> Append(H.n, n), rs |-> Append(H.rs, a), a0 |-> Append(H.a0, now), a1 |-> Append(H.a1, Inf)]
       /\ kn' = Append(kn, Inf) /\ ob' = Append(ob, Inf) /\ dd' = Append(dd, Inf)
    /\ ppc' = [ppc EXCEPT ![p] = "send"]
    /\ W(IF Len(In) >= Cap THEN {"add_blocked"} ELSE {})
    /\ UNCHANGED <<now, In, seen, rpc, rexp, rg0, tickc, nextTick, lastExp, lastc, consAt, consumed, ngets, afail,
                   bfail>>

AddSend(p) ==
    /\ ppc[p] = "send"
    /\ IF Len(In) < Cap THEN In' = Append(In, prec[p])
       ELSE /\ Mutant = "add_drops"          \* select { case b.In <- r: default: }
            /\ In' = In
    /\ ppc' = [ppc EXCEPT ![p] = "idle"] /\ prec' = [prec EXCEPT ![p] = None]
    /\ H' = [H EXCEPT !.a1[prec[p].a] = now]
    /\ UNCHANGED <<now, seen, rpc, rexp, rg0, tickc, nextTick, lastExp, lastc, consAt, consumed, kn, ob, dd,
                   ngets, afail, bfail>>

\* ------------------------------------------------------------------ readers
GetCall(r, e) ==
    /\ rpc[r] = "idle" /\ ngets < MaxGets
    /\ rpc' = [rpc EXCEPT ![r] = "req"] /\ rexp' = [rexp EXCEPT ![r] = e]
    /\ rg0' = [rg0 EXCEPT ![r] = now] /\ ngets' = ngets + 1
    /\ UNCHANGED <<now, In, seen, ppc, prec, tickc, nextTick, lastExp, H, lastc, consAt, consumed, kn, ob, dd, afail, bfail>>

\* ------------------------------------------------------------------ the manager
MgrIn ==
    /\ In # <<>>
    /\ LET r == Head(In)
           old == seen[r.n]
           new == CASE Mutant = "mix_text_reason" /\ old # None -> [r EXCEPT !.rs = old.rs, !.f = old.f]
                    [] Mutant = "first_writer_wins" /\ old # None -> old
                    [] Mutant = "keep_newest_stamp" /\ old # None /\ old.t > r.t -> old
                    [] OTHER -> [r EXCEPT !.f = IF old # None THEN old.f ELSE r.t]
       IN  /\ seen' = [seen EXCEPT ![r.n] = new]
           /\ lastc' = [lastc EXCEPT ![r.n] = r.a] /\ consAt' = [consAt EXCEPT ![r.n] = now]
           /\ consumed' = consumed \cup {r.a}
           /\ W((IF old # None THEN {"overwrite"} ELSE {}) \cup
                       (IF old # None /\ old.t > r.t THEN {"stale_stamp_overwrites_newer"} ELSE {}) \cup
                       (IF now - r.t > MaxAge THEN {"consumed_when_already_old"} ELSE {}))
    /\ In' = Tail(In)
    /\ UNCHANGED <<now, ppc, prec, rpc, rexp, rg0, tickc, nextTick, lastExp, H, kn, ob, dd, ngets, afail, bfail>>

CleanKey(rec) == IF Mutant = "clean_first_seen" THEN rec.f ELSE rec.t
CleanCut == IF Mutant = "clean_last_get_expiry" /\ lastExp >= 0 THEN now - lastExp ELSE now - MaxAge
Dead(rec) == IF Mutant = "clean_inclusive" THEN CleanKey(rec) <= CleanCut ELSE Expired(CleanKey(rec), CleanCut)
MgrClean ==
    /\ tickc = 1 /\ tickc' = 0
    /\ seen' = [n \in Names |-> IF seen[n] # None /\ Dead(seen[n]) THEN None ELSE seen[n]]
    /\ W((IF \E n \in Names : seen[n] # None /\ seen[n].t = now - MaxAge THEN {"clean_boundary"} ELSE {}) \cup
                (IF seen' # seen THEN {"cleaned"} ELSE {}))
    /\ UNCHANGED <<now, In, ppc, prec, rpc, rexp, rg0, nextTick, lastExp, H, lastc, consAt, consumed, kn, ob, dd, ngets,
                   afail, bfail>>

\* sequences without repetition over a set (the order in which `range b.seen` delivers)
Perms(S) == {q \in [1..Cardinality(S) -> S] : \A i, j \in 1..Cardinality(S) : i # j => q[i] # q[j]}
RECURSIVE SortByName(_)
SortByName(S) == IF S = {} THEN <<>> ELSE LET m == CHOOSE x \in S : \A y \in S : x.n <= y.n
                                          IN  <<m>> \o SortByName(S \ {m})
Tup(rec) == <<rec.n, rec.a, rec.rs, rec.t, rec.t>>
GetKey(rec) == IF Mutant = "get_first_seen" THEN rec.f ELSE rec.t
Hit(rec, cut) == IF Mutant = "get_inclusive" THEN GetKey(rec) >= cut ELSE InWindow(GetKey(rec), cut)

MgrGet(r) ==
    /\ rpc[r] = "req"
    /\ LET cut == IF Mutant = "get_cutoff_at_eval" THEN now - rexp[r] ELSE (rg0[r] - rexp[r])
           F == {seen[n] : n \in {m \in Names : seen[m] # None /\ Hit(seen[m], cut)}}
       IN \E q \in (IF Mutant = "unsorted" THEN Perms(F) ELSE {<<>>}) :
          LET res == IF Mutant = "unsorted" THEN [i \in DOMAIN q |-> Tup(q[i])]
                     ELSE LET s == SortByName(F) IN [i \in DOMAIN s |-> Tup(s[i])]
              G == [g0 |-> rg0[r], g1 |-> now, e |-> rexp[r], res |-> res]
              exact == {Tup(seen[n]) : n \in {m \in Names : seen[m] # None /\ InWindow(seen[m].t, (rg0[r] - rexp[r]))}}
          IN  /\ afail' = afail \cup Failed(Clauses(H, kn, dd, G, MaxAge, Period, IF Timely THEN 0 ELSE -1))
              /\ bfail' = bfail \cup (IF {res[i] : i \in DOMAIN res} # exact THEN {"exact"} ELSE {})
                                \cup (IF Len(res) # Cardinality(exact) THEN {"dup"} ELSE {})
                                \cup (IF \E i, j \in DOMAIN res : i < j /\ res[i][1] >= res[j][1] THEN {"sorted"} ELSE {})
              /\ kn' = KnNext(H, kn, G) /\ ob' = ObNext(H, ob, G) /\ dd' = DdNext(H, kn, ob, dd, G)
              /\ W((IF \E n \in Names : seen[n] # None /\ seen[n].t = (rg0[r] - rexp[r]) THEN {"get_boundary"} ELSE {}) \cup
                          (IF \E a \in Adds(H) : MustHave(H, kn, G, a, MaxAge) THEN {"levelA_must"} ELSE {}) \cup
                          (IF \E a \in Adds(H) : a \in consumed /\ ~ConsBy(H, kn, G, a) THEN {"consumed_but_not_provably"} ELSE {}) \cup
                          (IF Len(res) >= 2 THEN {"two_records"} ELSE {}))
    /\ rpc' = [rpc EXCEPT ![r] = "idle"] /\ rexp' = [rexp EXCEPT ![r] = 0] /\ rg0' = [rg0 EXCEPT ![r] = 0]
    /\ lastExp' = IF Mutant = "clean_last_get_expiry" THEN rexp[r] ELSE lastExp
    /\ UNCHANGED <<now, In, seen, ppc, prec, tickc, nextTick, H, lastc, consAt, consumed, ngets>>

\* ------------------------------------------------------------------ ticker and clock
\* the clock; the ticker fires when the clock reaches a grid point (a tick nobody has taken yet is dropped)
Advance == /\ now < MaxTime /\ now' = now + 1
           /\ (Timely => tickc = 0)
           /\ IF now + 1 = nextTick THEN tickc' = 1 /\ nextTick' = nextTick + Period ELSE UNCHANGED <<tickc, nextTick>>
           /\ UNCHANGED <<In, seen, ppc, prec, rpc, rexp, rg0, lastExp, H, lastc, consAt, consumed, kn, ob,
                          dd, ngets, afail, bfail>>

Mgr == MgrIn \/ MgrClean \/ \E r \in Readers : MgrGet(r)
Next == \/ \E p \in Producers : (\E n \in Names : AddStart(p, n)) \/ AddSend(p)
        \/ \E r \in Readers, e \in Expiries : GetCall(r, e)
        \/ Mgr \/ Advance
Spec == Init /\ [][Next]_vars
\* fairness: the manager goroutine runs (each branch of its select that stays ready is eventually taken: Go picks
\* uniformly among the ready cases); a sender blocked on In proceeds when there is room -- strong fairness, because
\* another producer may take the slot first; the Go runtime queues blocked senders in FIFO order
FairSpec == /\ Spec /\ WF_vars(MgrIn) /\ WF_vars(MgrClean) /\ \A r \in Readers : WF_vars(MgrGet(r))
            /\ \A p \in Producers : SF_vars(AddSend(p))
\* the same without the manager's In branch being fair: a full In then blocks Add for ever (the comment in New())
UnfairSpec == /\ Spec /\ WF_vars(MgrClean) /\ \A r \in Readers : WF_vars(MgrGet(r))
              /\ \A p \in Producers : SF_vars(AddSend(p))

\* ------------------------------------------------------------------ statements
RecOK(x) == x = None \/ (x.a \in Adds(H) /\ x.n \in Names /\ x.t \in 0..MaxTime /\ x.f \in 0..MaxTime)
TypeOK == /\ now \in 0..MaxTime /\ Len(In) <= Cap /\ \A i \in DOMAIN In : RecOK(In[i])
          /\ \A n \in Names : RecOK(seen[n]) /\ tickc \in {0, 1}
          /\ Len(kn) = Len(H.n) /\ Len(ob) = Len(H.n) /\ Len(dd) = Len(H.n)

\* P1 per name only the LAST record consumed is kept (last writer in channel order wins), as it was added
P1_SeenIsLast == \A n \in Names : seen[n] # None =>
                    /\ lastc[n] # 0 /\ seen[n].a = lastc[n] /\ seen[n].n = n /\ H.n[seen[n].a] = n
                    /\ seen[n].t = H.a0[seen[n].a]
\* P2 text and reason together
P2_Paired == \A n \in Names : seen[n] # None => seen[n].rs = H.rs[seen[n].a]
\* P3 a record is not cleaned before maxAge has elapsed since it was last seen (strict: at age = maxAge it is still there)
P3_NotCleanedEarly == \A n \in Names : lastc[n] # 0 /\ seen[n] = None => now - H.a0[lastc[n]] > MaxAge
\* P4 (prompt manager) and it is cleaned at the latest maxAge + one period after it was seen, or one period after it was
\*    consumed when that was later
P4_CleanedInTime == Timely => \A n \in Names : seen[n] # None => now <= Max(seen[n].t + MaxAge, consAt[n]) + Period
\* P5 Add never loses a record: blocking, not dropping
P5_NoLoss == \A a \in Adds(H) : H.a1[a] < Inf => a \in consumed \/ \E i \in DOMAIN In : In[i].a = a
\* P6 every answer of Get is exactly the records of the map whose LastSeen is After (call time - expiry), once each,
\*    sorted by name; and it satisfies level A (BadMetricsOps) from what the callers can observe
P6_GetExact == bfail \subseteq {"sorted"}
P6_Sorted == "sorted" \notin bfail
LevelA == afail = {}

\* liveness (FairSpec): every Add returns, every Get returns; a record that is never overwritten is eventually cleaned
\* unless the clock stops
L1_AddReturns == \A p \in Producers : (ppc[p] = "send") ~> (ppc[p] = "idle")
L2_GetReturns == \A r \in Readers : (rpc[r] = "req") ~> (rpc[r] = "idle")
L3_InDrains == <>[](In = <<>>)

=============================================================================
