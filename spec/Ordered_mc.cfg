SPECIFICATION Spec
INVARIANTS Mono NoFalseReject OnlyNewer Accounting FwdOK Independent
CHECK_DEADLOCK FALSE
