SPECIFICATION Spec
INVARIANTS Mono NoFalseReject OnlyNewer Accounting FwdOK
CHECK_DEADLOCK FALSE
