----------------------------- MODULE DiskQueue -----------------------------
(* Level B: nsqd/diskqueue.go at the grain of filesystem operations.         *)
(*                                                                            *)
(* One action per critical step of ioLoop / writeOne / sync /                 *)
(* persistMetaData / moveForward / handleReadError, so that a Crash can be    *)
(* placed between any two filesystem mutations.  A process crash loses the    *)
(* memory variables and keeps the filesystem variables (fsync is invisible    *)
(* to a process crash: written data survives).                                *)
(*                                                                            *)
(* Sizes are in abstract cells: a record of size n occupies n cells           *)
(* <<id,0>> .. <<id,n-1>>; the harness maps one cell to 8 bytes (4-byte       *)
(* length header + payload), so positions in the model are byte positions / 8.*)
(* Hook labels of the instrumented code that correspond to each action are    *)
(* given in brackets.                                                         *)
EXTENDS Integers, Sequences, FiniteSets, TLC, QueueContractOps

CONSTANTS MaxFile,      \* maxBytesPerFile
          SyncEvery,    \* syncEvery (loop iterations)
          Sizes,        \* set of record sizes (header included)
          MaxPuts,      \* bound on messages enqueued before a crash
          MaxCrashes,   \* 0 or 1
          AllowReopen,  \* clean Close + reopen allowed
          AllowTick,    \* sync ticker may fire
          PostPuts,     \* messages the client may enqueue after the recovery (0 or 1)
          Mutant        \* "" = faithful model; otherwise a named deviation (non-vacuity checks)

None == [none |-> TRUE]

VARIABLES
  \* ---- filesystem (survives Crash)
  seg,      \* [fileNum -> Seq(<<id, k>>)] for existing segment files
  meta,     \* None or [depth, rf, rp, wf, wp]          (<name>.diskqueue.meta.dat)
  tmp,      \* None or same record                       (....meta.dat.tmp)
  \* ---- process memory (lost at Crash)
  rf, rp, wf, wp, depth, nrf, nrp, needSync, count, wopen, pending, pc, ret, up,
  ropen,    \* the read file is open (bufio.Reader attached)
  rbuf,     \* cells read ahead by the bufio.Reader and not yet consumed
  rfoff,    \* OS offset of the read file (first cell not yet in rbuf)
  \* ---- client-visible history (hidden by VIEW)
  enq,      \* Seq(size): enq[id] is the size of message id
  consumed, \* messages handed to the consumer before the crash
  taken,    \* Seq(id) delivered after the crash (current incarnation)
  wSync, cSync,   \* Len(enq) / consumed when the last metadata rename completed
  crashes, mark   \* mark: None or [n, c, ws, cs] captured at the crash

fsvars  == <<seg, meta, tmp>>
memvars == <<rf, rp, wf, wp, depth, nrf, nrp, needSync, count, wopen, pending, pc, ret, up, ropen, rbuf, rfoff>>
hist    == <<enq, consumed, taken, wSync, cSync, crashes, mark>>
rdvars  == <<ropen, rbuf, rfoff>>
vars    == <<fsvars, memvars, hist>>

Files == DOMAIN seg
Enc(id, n) == [k \in 1..n |-> <<id, k - 1>>]

\* write cells c at offset p of a file (no truncation: O_RDWR|O_CREATE + Seek)
WriteAt(file, p, c) ==
  LET newLen == IF p + Len(c) > Len(file) THEN p + Len(c) ELSE Len(file)
  IN [i \in 1..newLen |-> IF i > p /\ i <= p + Len(c) THEN c[i - p]
                          ELSE IF i <= Len(file) THEN file[i] ELSE <<-1, -1>>]

\* readOne through the read-ahead buffer.  The bufio.Reader serves buffered cells first and,
\* when it runs short, reads whatever the file holds from its OS offset up to EOF (files in the
\* model are shorter than the 4096-byte buffer).  Result: [id, buf, off] where id is the message
\* read, -1 = clean error (file missing / EOF / short read), -2 = undefined bytes interpreted
\* as a record (garbage length or altered payload).
Rest(f, off) == IF off >= Len(seg[f]) THEN <<>> ELSE SubSeq(seg[f], off + 1, Len(seg[f]))
ReadRes(id, buf, off) == [id |-> id, buf |-> buf, off |-> off]
ReadOne ==
  IF rf \notin Files THEN ReadRes(-1, <<>>, 0)
  ELSE LET buf0 == IF ropen THEN rbuf ELSE <<>>
           off0 == IF ropen THEN rfoff ELSE rp
           fill1 == Len(buf0) < 1
           buf1 == IF fill1 THEN buf0 \o Rest(rf, off0) ELSE buf0
           off1 == IF fill1 /\ off0 < Len(seg[rf]) THEN Len(seg[rf]) ELSE off0
       IN IF Len(buf1) < 1 THEN ReadRes(-1, <<>>, 0)
          ELSE LET c == buf1[1] IN
               IF c[2] # 0 \/ c[1] < 1 \/ c[1] > Len(enq) THEN ReadRes(-2, <<>>, 0)
               ELSE LET id == c[1]
                        n == enq[id]
                        fill2 == Len(buf1) < n
                        buf2 == IF fill2 THEN buf1 \o Rest(rf, off1) ELSE buf1
                        off2 == IF fill2 /\ off1 < Len(seg[rf]) THEN Len(seg[rf]) ELSE off1
                    IN IF Len(buf2) < n THEN ReadRes(-1, <<>>, 0)
                       ELSE IF \A k \in 1..n : buf2[k] = <<id, k - 1>>
                            THEN ReadRes(id, SubSeq(buf2, n + 1, Len(buf2)), off2)
                            ELSE ReadRes(-2, <<>>, 0)

Readable == rf < wf \/ rp < wp
MemMeta == IF Mutant = "persist_next_read"
           THEN [depth |-> depth, rf |-> nrf, rp |-> nrp, wf |-> wf, wp |-> wp]
           ELSE [depth |-> depth, rf |-> rf, rp |-> rp, wf |-> wf, wp |-> wp]

Init ==
  /\ seg = <<>> /\ meta = None /\ tmp = None
  /\ rf = 0 /\ rp = 0 /\ wf = 0 /\ wp = 0 /\ depth = 0 /\ nrf = 0 /\ nrp = 0
  /\ needSync = FALSE /\ count = 0 /\ wopen = FALSE /\ pending = -1 /\ pc = "top" /\ ret = "top" /\ up = TRUE
  /\ ropen = FALSE /\ rbuf = <<>> /\ rfoff = 0
  /\ enq = <<>> /\ consumed = 0 /\ taken = <<>> /\ wSync = 0 /\ cSync = 0 /\ crashes = 0 /\ mark = None

\* ---------------------------------------------------------------- loop top
Top ==
  /\ up /\ pc = "top"
  /\ LET c1 == count + 1
         ns == IF c1 = SyncEvery THEN TRUE ELSE needSync
         c2 == IF c1 = SyncEvery THEN 0 ELSE c1
     IN /\ count' = c2 /\ needSync' = ns
        /\ IF ns THEN pc' = "sync_tmp" /\ ret' = "read" ELSE pc' = "read" /\ ret' = ret
  /\ UNCHANGED <<fsvars, rf, rp, wf, wp, depth, nrf, nrp, wopen, pending, up, hist, rdvars>>

\* persistMetaData step 1: write the tmp file                      [m_tmp_write]
SyncTmp ==
  /\ up /\ pc = "sync_tmp"
  /\ tmp' = MemMeta /\ pc' = "sync_ren"
  /\ meta' = IF Mutant = "no_atomic_rename" THEN None ELSE meta   \* deviation: truncate-and-rewrite in place
  /\ UNCHANGED <<seg, rf, rp, wf, wp, depth, nrf, nrp, needSync, count, wopen, pending, ret, up, hist, rdvars>>
\* persistMetaData step 2: rename over the metadata file           [m_rename]
SyncRen ==
  /\ up /\ pc = "sync_ren"
  /\ meta' = tmp /\ tmp' = None
  /\ needSync' = FALSE /\ pc' = ret
  /\ IF mark = None THEN wSync' = Len(enq) /\ cSync' = consumed ELSE UNCHANGED <<wSync, cSync>>
  /\ UNCHANGED <<seg, rf, rp, wf, wp, depth, nrf, nrp, count, wopen, pending, ret, up, enq, consumed, taken, crashes, mark, rdvars>>

\* read-ahead (readOne); no filesystem mutation
Read ==
  /\ up /\ pc = "read"
  /\ IF Readable /\ nrp = rp
     THEN LET r == ReadOne IN
          IF r.id = -1 THEN pc' = "rerr" /\ ropen' = FALSE /\ rbuf' = <<>> /\ rfoff' = 0 /\ UNCHANGED <<pending, nrf, nrp>>
          ELSE IF r.id = -2 THEN pc' = "garbage" /\ UNCHANGED <<pending, nrf, nrp, ropen, rbuf, rfoff>>
          ELSE /\ pending' = r.id
               /\ LET np == rp + enq[r.id] IN
                  IF np > MaxFile
                  THEN nrf' = rf + 1 /\ nrp' = 0 /\ ropen' = FALSE /\ rbuf' = <<>> /\ rfoff' = 0
                  ELSE nrf' = rf /\ nrp' = np /\ ropen' = TRUE /\ rbuf' = r.buf /\ rfoff' = r.off
               /\ pc' = "select"
     ELSE pc' = "select" /\ UNCHANGED <<pending, nrf, nrp, ropen, rbuf, rfoff>>
  /\ UNCHANGED <<fsvars, rf, rp, wf, wp, depth, needSync, count, wopen, ret, up, hist>>

\* handleReadError: skip the write file too if it is the bad one, rename the bad
\* file away (fails silently when it does not exist), jump to the next file  [bad_rename]
ReadErr ==
  /\ up /\ pc = "rerr"
  /\ IF rf = wf THEN wf' = wf + 1 /\ wp' = 0 /\ wopen' = FALSE ELSE UNCHANGED <<wf, wp, wopen>>
  /\ seg' = [f \in Files \ {rf} |-> seg[f]]
  /\ rf' = rf + 1 /\ rp' = 0 /\ nrf' = rf + 1 /\ nrp' = 0 /\ needSync' = TRUE /\ pending' = -1
  /\ pc' = "top"
  /\ UNCHANGED <<meta, tmp, depth, count, ret, up, hist, rdvars>>

\* ------------------------------------------------------------ select branches
\* r <- dataRead, then moveForward()                                    [take]
Take ==
  /\ up /\ pc = "select" /\ Readable /\ pending # -1
  /\ IF mark = None THEN consumed' = consumed + 1 /\ taken' = taken
                    ELSE consumed' = consumed /\ taken' = Append(taken, pending)
  /\ rf' = nrf /\ rp' = nrp /\ depth' = depth - 1 /\ pending' = -1
  /\ IF rf # nrf THEN needSync' = TRUE /\ pc' = "rm" ELSE needSync' = needSync /\ pc' = "tail"
  /\ UNCHANGED <<fsvars, wf, wp, nrf, nrp, count, wopen, ret, up, enq, wSync, cSync, crashes, mark, rdvars>>
\* os.Remove(old read file)                                           [r_remove]
Rm ==
  /\ up /\ pc = "rm"
  /\ seg' = [f \in Files \ {rf - 1} |-> seg[f]]
  /\ pc' = "tail"
  /\ UNCHANGED <<meta, tmp, rf, rp, wf, wp, depth, nrf, nrp, needSync, count, wopen, pending, ret, up, hist, rdvars>>
\* checkTailCorruption
Tail_ ==
  /\ up /\ pc = "tail"
  /\ IF rf < wf \/ rp < wp THEN UNCHANGED <<depth, needSync>> /\ pc' = "top"
     ELSE /\ IF depth # 0 THEN depth' = 0 /\ needSync' = TRUE ELSE UNCHANGED <<depth, needSync>>
          /\ IF rf = wf /\ rp = wp THEN pc' = "top" ELSE pc' = "skip"   \* skipToNextRWFile: flagged by NoSkip
  /\ UNCHANGED <<fsvars, rf, rp, wf, wp, nrf, nrp, count, wopen, pending, ret, up, hist, rdvars>>

\* dataWrite := <-writeChan ; writeOne begins
PutStart(n) ==
  /\ up /\ pc = "select"
  /\ IF mark = None THEN Len(enq) < MaxPuts ELSE Len(enq) < mark.n + PostPuts
  /\ enq' = Append(enq, n)
  /\ pc' = IF wopen THEN "w_write" ELSE "w_open"
  /\ UNCHANGED <<fsvars, rf, rp, wf, wp, depth, nrf, nrp, needSync, count, wopen, pending, ret, up, consumed, taken, wSync, cSync, crashes, mark, rdvars>>
\* os.OpenFile(O_RDWR|O_CREATE) + Seek(writePos)                        [w_open]
WOpen ==
  /\ up /\ pc = "w_open"
  /\ seg' = IF wf \in Files THEN seg ELSE [f \in Files \cup {wf} |-> IF f = wf THEN <<>> ELSE seg[f]]
  /\ wopen' = TRUE /\ pc' = "w_write"
  /\ UNCHANGED <<meta, tmp, rf, rp, wf, wp, depth, nrf, nrp, needSync, count, pending, ret, up, hist, rdvars>>
\* writeFile.Write(record); writePos += n; depth++; roll over + forced sync  [w_write]
PutWrite ==
  /\ up /\ pc = "w_write"
  /\ LET id == Len(enq)
         n == enq[id] IN
     /\ seg' = [seg EXCEPT ![wf] = WriteAt(seg[wf], wp, Enc(id, n))]
     /\ depth' = depth + 1
     /\ IF wp + n > MaxFile
        THEN /\ wf' = wf + 1 /\ wp' = 0
             /\ IF Mutant = "no_sync_on_roll" THEN pc' = "w_close" /\ ret' = ret
                                              ELSE pc' = "sync_tmp" /\ ret' = "w_close"
        ELSE wf' = wf /\ wp' = wp + n /\ pc' = "top" /\ ret' = ret
  /\ UNCHANGED <<meta, tmp, rf, rp, nrf, nrp, needSync, count, wopen, pending, up, hist, rdvars>>
PutClose ==
  /\ up /\ pc = "w_close" /\ wopen' = FALSE /\ pc' = "top"
  /\ UNCHANGED <<fsvars, rf, rp, wf, wp, depth, nrf, nrp, needSync, count, pending, ret, up, hist, rdvars>>

Tick ==
  /\ AllowTick /\ up /\ pc = "select" /\ ~needSync /\ needSync' = TRUE /\ pc' = "top"
  /\ UNCHANGED <<fsvars, rf, rp, wf, wp, depth, nrf, nrp, count, wopen, pending, ret, up, hist, rdvars>>

\* ------------------------------------------------------- crash, close, open
Crash ==
  /\ up /\ mark = None /\ crashes < MaxCrashes
  /\ pc \notin {"closed"}
  /\ up' = FALSE /\ crashes' = crashes + 1
  /\ mark' = [n |-> Len(enq), c |-> consumed, ws |-> wSync, cs |-> cSync]
  /\ UNCHANGED <<fsvars, rf, rp, wf, wp, depth, nrf, nrp, needSync, count, wopen, pending, pc, ret, enq, consumed, taken, wSync, cSync, rdvars>>
\* Close(): ioLoop leaves at the select, files are closed, then sync()
CleanClose ==
  /\ AllowReopen /\ up /\ pc = "select"
  /\ pc' = "sync_tmp" /\ ret' = "closed" /\ wopen' = FALSE /\ ropen' = FALSE /\ rbuf' = <<>> /\ rfoff' = 0
  /\ UNCHANGED <<fsvars, rf, rp, wf, wp, depth, nrf, nrp, needSync, count, pending, up, hist>>
Closed ==
  /\ up /\ pc = "closed" /\ up' = FALSE
  /\ UNCHANGED <<fsvars, rf, rp, wf, wp, depth, nrf, nrp, needSync, count, wopen, pending, pc, ret, hist, rdvars>>
\* NewDiskQueue: retrieveMetaData, start ioLoop
Open ==
  /\ ~up /\ up' = TRUE
  /\ IF meta = None
     THEN rf' = 0 /\ rp' = 0 /\ wf' = 0 /\ wp' = 0 /\ depth' = 0 /\ nrf' = 0 /\ nrp' = 0
     ELSE rf' = meta.rf /\ rp' = meta.rp /\ wf' = meta.wf /\ wp' = meta.wp /\ depth' = meta.depth
          /\ nrf' = meta.rf /\ nrp' = meta.rp
  /\ needSync' = FALSE /\ count' = 0 /\ wopen' = FALSE /\ pending' = -1 /\ pc' = "top" /\ ret' = "top"
  /\ ropen' = FALSE /\ rbuf' = <<>> /\ rfoff' = 0
  \* discard what lies beyond the persisted write position in the write file (absent in the
  \* pinned code: deviation "no_truncate_on_open")
  /\ LET f == IF meta = None THEN 0 ELSE meta.wf
         p == IF meta = None THEN 0 ELSE meta.wp IN
     IF Mutant # "no_truncate_on_open" /\ f \in Files /\ Len(seg[f]) > p
     THEN seg' = [seg EXCEPT ![f] = SubSeq(seg[f], 1, p)] ELSE seg' = seg
  /\ UNCHANGED <<meta, tmp, hist>>

Next == Top \/ SyncTmp \/ SyncRen \/ Read \/ ReadErr \/ Take \/ Rm \/ Tail_
        \/ (\E n \in Sizes : PutStart(n)) \/ WOpen \/ PutWrite \/ PutClose \/ Tick
        \/ Crash \/ CleanClose \/ Closed \/ Open
Spec == Init /\ [][Next]_vars

\* ------------------------------------------------------------------ contract
Idle == up /\ pc = "select" /\ ~Readable
\* deliveries after the crash that are pre-crash messages / post-crash (sentinel) messages
OldTaken == SelectSeq(taken, LAMBDA id : mark # None /\ id <= mark.n)
\* C09: exact FIFO while no crash happened -- Take always hands out message consumed+1
C09Fifo == (mark = None /\ up /\ pc = "select" /\ pending # -1 /\ Readable) => pending = consumed + 1
C09Depth == (crashes = 0 /\ Idle) => (depth = 0 /\ consumed = Len(enq))
C09DepthRest == (crashes = 0 /\ up /\ pc = "select") => depth = Len(enq) - consumed
\* C08: every prefix of the post-crash deliveries is consistent, and at idle the whole contract holds
C08Run == mark # None => /\ IsRun(OldTaken)
                         /\ \A i \in 1..Len(OldTaken) : OldTaken[i] \in 1..mark.n
                         /\ (OldTaken # <<>> => OldTaken[1] <= mark.c + 1 /\ OldTaken[1] > mark.cs)
C08 == (mark # None /\ Idle) => RecoveryOK(OldTaken, mark.n, mark.c, mark.ws, mark.cs)
\* a message enqueued after the recovery is delivered too (nothing written lands in a skipped file)
C08Sentinel == (mark # None /\ Idle) => \A id \in (mark.n + 1)..Len(enq) : \E j \in 1..Len(taken) : taken[j] = id
\* recovery never interprets undefined bytes as a record and never has to skip files
NoGarbage == pc # "garbage"
NoSkip == pc # "skip"
View == <<fsvars, memvars, enq, mark, taken, consumed>>
=============================================================================
