----------------------------- MODULE DiskQueue -----------------------------
(* Level B: nsqd/diskqueue.go at the grain of filesystem operations.         *)
(*                                                                            *)
(* One action per critical step of ioLoop / writeOne / sync /                 *)
(* persistMetaData / moveForward / handleReadError, so that a Crash can be    *)
(* placed between any two filesystem mutations.  A process crash loses the    *)
(* memory variables and keeps the filesystem variables (fsync is invisible    *)
(* to a process crash: written data survives).                                *)
(*                                                                            *)
(* Sizes are in abstract cells: a record of size n occupies n cells           *)
(* <<id,0>> .. <<id,n-1>>; the harness maps one cell to 8 bytes (4-byte       *)
(* length header + payload), so positions in the model are byte positions / 8.*)
(* Hook labels of the instrumented code that correspond to each action are    *)
(* given in brackets.                                                         *)
EXTENDS Integers, Sequences, FiniteSets, TLC, QueueContractOps

CONSTANTS MaxFile,      \* maxBytesPerFile
          SyncEvery,    \* syncEvery (loop iterations)
          Sizes,        \* set of record sizes (header included)
          MaxPuts,      \* bound on messages enqueued before a crash
          MaxCrashes,   \* 0, 1 or 2 (2: the incarnation after the first crash is used, then crashes again)
          AllowReopen,  \* clean Close + reopen allowed
          AllowTick,    \* sync ticker may fire
          PostPuts,     \* messages the client may enqueue after the recovery (interleaved with the deliveries)
          Mutant        \* "" = faithful model; otherwise a named deviation (non-vacuity checks)

(* Generations.  While no crash is pending judgement (mark = None) the current incarnation has a     *)
(* logical content lseq: the sequence of message ids it holds in FIFO order, consumed ones included.  *)
(* In the first incarnation lseq = <<1, 2, ..., Len(enq)>>.  After a crash the next incarnation is     *)
(* either judged (mark # None: drain + sentinel, contract RecoveryOK over positions in lseq) or, if    *)
(* another crash is allowed, adopted as the new base ("rebase"): its logical content is the run X that *)
(* the recovery delivers (what a full drain of the files yields, DrainX) followed by the messages put  *)
(* afterwards; consumed/cSync restart at 0 and the part of X that was written before the last          *)
(* completed sync counts as synced.  The C08 contract of the second crash is judged over that lseq.    *)

None == [none |-> TRUE]

VARIABLES
  \* ---- filesystem (survives Crash)
  seg,      \* [fileNum -> Seq(<<id, k>>)] for existing segment files
  meta,     \* None or [depth, rf, rp, wf, wp, tail]    (<name>.diskqueue.meta.dat)
  tmp,      \* None or same record                       (....meta.dat.tmp)
            \* tail = number of stale bytes behind the metadata text: the temp file is opened with
            \* O_CREATE but without O_TRUNC, so a temp file left by a crash is overwritten in place
  \* ---- process memory (lost at Crash)
  rf, rp, wf, wp, depth, nrf, nrp, needSync, count, wopen, pending, pc, ret, up,
  ropen,    \* the read file is open (bufio.Reader attached)
  rbuf,     \* cells read ahead by the bufio.Reader and not yet consumed
  rfoff,    \* OS offset of the read file (first cell not yet in rbuf)
  \* ---- client-visible history (hidden by VIEW)
  enq,      \* Seq(size): enq[id] is the size of message id (all incarnations)
  lseq,     \* Seq(id): logical content of the base incarnation (see "Generations")
  consumed, \* number of messages of lseq handed to the consumer before the crash
  taken,    \* Seq(id) delivered after the crash (incarnation under judgement)
  wSync, cSync,   \* Len(lseq) / consumed when the last metadata rename completed
  crashes, mark   \* mark: None or [n, c, ws, cs, top] captured at the crash (top = Len(enq))

fsvars  == <<seg, meta, tmp>>
memvars == <<rf, rp, wf, wp, depth, nrf, nrp, needSync, count, wopen, pending, pc, ret, up, ropen, rbuf, rfoff>>
hist    == <<enq, lseq, consumed, taken, wSync, cSync, crashes, mark>>
rdvars  == <<ropen, rbuf, rfoff>>
vars    == <<fsvars, memvars, hist>>

Files == DOMAIN seg
Enc(id, n) == [k \in 1..n |-> <<id, k - 1>>]

\* write cells c at offset p of a file (no truncation: O_RDWR|O_CREATE + Seek)
WriteAt(file, p, c) ==
  LET newLen == IF p + Len(c) > Len(file) THEN p + Len(c) ELSE Len(file)
  IN [i \in 1..newLen |-> IF i > p /\ i <= p + Len(c) THEN c[i - p]
                          ELSE IF i <= Len(file) THEN file[i] ELSE <<-1, -1>>]

\* readOne through the read-ahead buffer.  The bufio.Reader serves buffered cells first and,
\* when it runs short, reads whatever the file holds from its OS offset up to EOF (files in the
\* model are shorter than the 4096-byte buffer).  Result: [id, buf, off] where id is the message
\* read, -1 = clean error (file missing / EOF / short read), -2 = undefined bytes interpreted
\* as a record (garbage length or altered payload).
Rest(f, off) == IF off >= Len(seg[f]) THEN <<>> ELSE SubSeq(seg[f], off + 1, Len(seg[f]))
ReadRes(id, buf, off) == [id |-> id, buf |-> buf, off |-> off]
ReadOne ==
  IF rf \notin Files THEN ReadRes(-1, <<>>, 0)
  ELSE LET buf0 == IF ropen THEN rbuf ELSE <<>>
           off0 == IF ropen THEN rfoff ELSE rp
           fill1 == Len(buf0) < 1
           buf1 == IF fill1 THEN buf0 \o Rest(rf, off0) ELSE buf0
           off1 == IF fill1 /\ off0 < Len(seg[rf]) THEN Len(seg[rf]) ELSE off0
       IN IF Len(buf1) < 1 THEN ReadRes(-1, <<>>, 0)
          ELSE LET c == buf1[1] IN
               IF c[2] # 0 \/ c[1] < 1 \/ c[1] > Len(enq) THEN ReadRes(-2, <<>>, 0)
               ELSE LET id == c[1]
                        n == enq[id]
                        fill2 == Len(buf1) < n
                        buf2 == IF fill2 THEN buf1 \o Rest(rf, off1) ELSE buf1
                        off2 == IF fill2 /\ off1 < Len(seg[rf]) THEN Len(seg[rf]) ELSE off1
                    IN IF Len(buf2) < n THEN ReadRes(-1, <<>>, 0)
                       ELSE IF \A k \in 1..n : buf2[k] = <<id, k - 1>>
                            THEN ReadRes(id, SubSeq(buf2, n + 1, Len(buf2)), off2)
                            ELSE ReadRes(-2, <<>>, 0)

Readable == rf < wf \/ rp < wp

\* ---- metadata text.  "%d\n%d,%d\n%d,%d\n" with positions in bytes (one cell = CellBytes bytes)
CellBytes == 8
Digits(x) == IF x < 10 THEN 1 ELSE IF x < 100 THEN 2 ELSE IF x < 1000 THEN 3 ELSE 4
TextLen(m) == Digits(m.depth) + Digits(m.rf) + Digits(CellBytes * m.rp) + Digits(m.wf) + Digits(CellBytes * m.wp) + 5
FileLen(m) == IF m = None THEN 0 ELSE TextLen(m) + m.tail
MetaRecT(d, f1, p1, f2, p2, t) == [depth |-> d, rf |-> f1, rp |-> p1, wf |-> f2, wp |-> p2, tail |-> t]
\* the text written by persistMetaData over whatever the temp file held before
MemMeta == LET m == IF Mutant = "persist_next_read" THEN MetaRecT(depth, nrf, nrp, wf, wp, 0)
                                                    ELSE MetaRecT(depth, rf, rp, wf, wp, 0)
               stale == FileLen(tmp) - TextLen(m)
           IN [m EXCEPT !.tail = IF stale > 0 THEN stale ELSE 0]
\* retrieveMetaData: Fscanf stops after the fifth number, a stale tail is ignored.  Deviation
\* "strict_meta_parse": the whole file must be exactly five numbers; a tail of one byte is the
\* final newline of the longer text (harmless), a longer tail holds at least one more digit.
MetaUsable == meta # None /\ ~(Mutant = "strict_meta_parse" /\ meta.tail >= 2)

Init ==
  /\ seg = <<>> /\ meta = None /\ tmp = None
  /\ rf = 0 /\ rp = 0 /\ wf = 0 /\ wp = 0 /\ depth = 0 /\ nrf = 0 /\ nrp = 0
  /\ needSync = FALSE /\ count = 0 /\ wopen = FALSE /\ pending = -1 /\ pc = "top" /\ ret = "top" /\ up = TRUE
  /\ ropen = FALSE /\ rbuf = <<>> /\ rfoff = 0
  /\ enq = <<>> /\ lseq = <<>> /\ consumed = 0 /\ taken = <<>> /\ wSync = 0 /\ cSync = 0 /\ crashes = 0 /\ mark = None

\* ---------------------------------------------------------------- loop top
Top ==
  /\ up /\ pc = "top"
  /\ LET c1 == count + 1
         ns == IF c1 = SyncEvery THEN TRUE ELSE needSync
         c2 == IF c1 = SyncEvery THEN 0 ELSE c1
     IN /\ count' = c2 /\ needSync' = ns
        /\ IF ns THEN pc' = "sync_tmp" /\ ret' = "read" ELSE pc' = "read" /\ ret' = ret
  /\ UNCHANGED <<fsvars, rf, rp, wf, wp, depth, nrf, nrp, wopen, pending, up, hist, rdvars>>

\* persistMetaData step 1: write the tmp file                      [m_tmp_write]
SyncTmp ==
  /\ up /\ pc = "sync_tmp"
  /\ tmp' = MemMeta /\ pc' = "sync_ren"
  /\ meta' = IF Mutant = "no_atomic_rename" THEN None ELSE meta   \* deviation: truncate-and-rewrite in place
  /\ UNCHANGED <<seg, rf, rp, wf, wp, depth, nrf, nrp, needSync, count, wopen, pending, ret, up, hist, rdvars>>
\* persistMetaData step 2: rename over the metadata file           [m_rename]
SyncRen ==
  /\ up /\ pc = "sync_ren"
  /\ meta' = tmp /\ tmp' = None
  /\ needSync' = FALSE /\ pc' = ret
  /\ IF mark = None THEN wSync' = Len(lseq) /\ cSync' = consumed ELSE UNCHANGED <<wSync, cSync>>
  /\ UNCHANGED <<seg, rf, rp, wf, wp, depth, nrf, nrp, count, wopen, pending, ret, up, enq, lseq, consumed, taken, crashes, mark, rdvars>>

\* read-ahead (readOne); no filesystem mutation
Read ==
  /\ up /\ pc = "read"
  /\ IF Readable /\ nrp = rp
     THEN LET r == ReadOne IN
          IF r.id = -1 THEN pc' = "rerr" /\ ropen' = FALSE /\ rbuf' = <<>> /\ rfoff' = 0 /\ UNCHANGED <<pending, nrf, nrp>>
          ELSE IF r.id = -2 THEN pc' = "garbage" /\ UNCHANGED <<pending, nrf, nrp, ropen, rbuf, rfoff>>
          ELSE /\ pending' = r.id
               /\ LET np == rp + enq[r.id] IN
                  \* deviation reader_roll_ge_behind: a reader that is behind the writer leaves a file whose
                  \* records end exactly at the limit, although the writer put one more record into it
                  IF np > MaxFile \/ (Mutant = "reader_roll_ge_behind" /\ rf < wf /\ np >= MaxFile)
                  THEN nrf' = rf + 1 /\ nrp' = 0 /\ ropen' = FALSE /\ rbuf' = <<>> /\ rfoff' = 0
                  ELSE nrf' = rf /\ nrp' = np /\ ropen' = TRUE /\ rbuf' = r.buf /\ rfoff' = r.off
               /\ pc' = "select"
     ELSE pc' = "select" /\ UNCHANGED <<pending, nrf, nrp, ropen, rbuf, rfoff>>
  /\ UNCHANGED <<fsvars, rf, rp, wf, wp, depth, needSync, count, wopen, ret, up, hist>>

\* handleReadError: skip the write file too if it is the bad one, rename the bad
\* file away (fails silently when it does not exist), jump to the next file  [bad_rename]
ReadErr ==
  /\ up /\ pc = "rerr"
  /\ IF rf = wf THEN wf' = wf + 1 /\ wp' = 0 /\ wopen' = FALSE ELSE UNCHANGED <<wf, wp, wopen>>
  /\ seg' = [f \in Files \ {rf} |-> seg[f]]
  /\ rf' = rf + 1 /\ rp' = 0 /\ nrf' = rf + 1 /\ nrp' = 0 /\ needSync' = TRUE /\ pending' = -1
  /\ pc' = "top"
  /\ UNCHANGED <<meta, tmp, depth, count, ret, up, hist, rdvars>>

\* ------------------------------------------------------------ select branches
\* r <- dataRead, then moveForward()                                    [take]
Take ==
  /\ up /\ pc = "select" /\ Readable /\ pending # -1
  /\ IF mark = None THEN consumed' = consumed + 1 /\ taken' = taken
                    ELSE consumed' = consumed /\ taken' = Append(taken, pending)
  /\ rf' = nrf /\ rp' = nrp /\ depth' = depth - 1 /\ pending' = -1
  /\ IF rf # nrf THEN needSync' = TRUE /\ pc' = "rm" ELSE needSync' = needSync /\ pc' = "tail"
  /\ UNCHANGED <<fsvars, wf, wp, nrf, nrp, count, wopen, ret, up, enq, lseq, wSync, cSync, crashes, mark, rdvars>>
\* os.Remove(old read file)                                           [r_remove]
Rm ==
  /\ up /\ pc = "rm"
  /\ seg' = [f \in Files \ {rf - 1} |-> seg[f]]
  /\ pc' = "tail"
  /\ UNCHANGED <<meta, tmp, rf, rp, wf, wp, depth, nrf, nrp, needSync, count, wopen, pending, ret, up, hist, rdvars>>
\* checkTailCorruption
Tail_ ==
  /\ up /\ pc = "tail"
  /\ IF rf < wf \/ rp < wp THEN UNCHANGED <<depth, needSync>> /\ pc' = "top"
     ELSE /\ IF depth # 0 THEN depth' = 0 /\ needSync' = TRUE ELSE UNCHANGED <<depth, needSync>>
          /\ IF rf = wf /\ rp = wp THEN pc' = "top" ELSE pc' = "skip"   \* skipToNextRWFile: flagged by NoSkip
  /\ UNCHANGED <<fsvars, rf, rp, wf, wp, nrf, nrp, count, wopen, pending, ret, up, hist, rdvars>>

\* dataWrite := <-writeChan ; writeOne begins
PutStart(n) ==
  /\ up /\ pc = "select"
  /\ IF mark = None THEN Len(enq) < MaxPuts ELSE Len(enq) < mark.top + PostPuts
  /\ enq' = Append(enq, n)
  /\ lseq' = IF mark = None THEN Append(lseq, Len(enq) + 1) ELSE lseq
  /\ pc' = IF wopen THEN "w_write" ELSE "w_open"
  /\ UNCHANGED <<fsvars, rf, rp, wf, wp, depth, nrf, nrp, needSync, count, wopen, pending, ret, up, consumed, taken, wSync, cSync, crashes, mark, rdvars>>
\* os.OpenFile(O_RDWR|O_CREATE) + Seek(writePos)                        [w_open]
WOpen ==
  /\ up /\ pc = "w_open"
  /\ seg' = IF wf \in Files THEN seg ELSE [f \in Files \cup {wf} |-> IF f = wf THEN <<>> ELSE seg[f]]
  /\ wopen' = TRUE /\ pc' = "w_write"
  /\ UNCHANGED <<meta, tmp, rf, rp, wf, wp, depth, nrf, nrp, needSync, count, pending, ret, up, hist, rdvars>>
\* writeFile.Write(record); writePos += n; depth++; roll over + forced sync  [w_write]
PutWrite ==
  /\ up /\ pc = "w_write"
  /\ LET id == Len(enq)
         n == enq[id] IN
     /\ seg' = [seg EXCEPT ![wf] = WriteAt(seg[wf], wp, Enc(id, n))]
     /\ depth' = depth + 1
     /\ IF wp + n > MaxFile
        THEN /\ wf' = wf + 1 /\ wp' = 0
             /\ IF Mutant = "no_sync_on_roll" THEN pc' = "w_close" /\ ret' = ret
                                              ELSE pc' = "sync_tmp" /\ ret' = "w_close"
        ELSE wf' = wf /\ wp' = wp + n /\ pc' = "top" /\ ret' = ret
  /\ UNCHANGED <<meta, tmp, rf, rp, nrf, nrp, needSync, count, wopen, pending, up, hist, rdvars>>
PutClose ==
  /\ up /\ pc = "w_close" /\ wopen' = FALSE /\ pc' = "top"
  /\ UNCHANGED <<fsvars, rf, rp, wf, wp, depth, nrf, nrp, needSync, count, pending, ret, up, hist, rdvars>>

Tick ==
  /\ AllowTick /\ up /\ pc = "select" /\ ~needSync /\ needSync' = TRUE /\ pc' = "top"
  /\ UNCHANGED <<fsvars, rf, rp, wf, wp, depth, nrf, nrp, count, wopen, pending, ret, up, hist, rdvars>>

\* ------------------------------------------------------- crash, close, open
Crash ==
  /\ up /\ mark = None /\ crashes < MaxCrashes
  /\ pc \notin {"closed"}
  /\ up' = FALSE /\ crashes' = crashes + 1
  /\ mark' = [n |-> Len(lseq), c |-> consumed, ws |-> wSync, cs |-> cSync, top |-> Len(enq)]
  /\ UNCHANGED <<fsvars, rf, rp, wf, wp, depth, nrf, nrp, needSync, count, wopen, pending, pc, ret, enq, lseq, consumed, taken, wSync, cSync, rdvars>>
\* Close(): ioLoop leaves at the select, files are closed, then sync()
\* deviation "close_sync_before_exit": Close() persists the metadata first and stops the loop afterwards; what the
\* consumer takes (and a producer puts) in between is not covered by any sync -- as a model step: the loop stops
\* without the final sync, some earlier sync (a tick) having been the last one
CleanClose ==
  /\ AllowReopen /\ up /\ pc = "select"
  /\ pc' = (IF Mutant = "close_sync_before_exit" THEN "closed" ELSE "sync_tmp")
  /\ ret' = "closed" /\ wopen' = FALSE /\ ropen' = FALSE /\ rbuf' = <<>> /\ rfoff' = 0
  /\ UNCHANGED <<fsvars, rf, rp, wf, wp, depth, nrf, nrp, needSync, count, pending, up, hist>>
Closed ==
  /\ up /\ pc = "closed" /\ up' = FALSE
  /\ UNCHANGED <<fsvars, rf, rp, wf, wp, depth, nrf, nrp, needSync, count, wopen, pending, pc, ret, hist, rdvars>>
\* What a full drain of the files yields when the queue starts from positions (f, p) .. (w, q):
\* the ioLoop/readOne/moveForward/handleReadError logic without interleaved writes (no buffer effects:
\* the files do not change during a pure drain).  Undefined bytes end the run (that path is flagged by
\* NoGarbage where it is taken); a clean read error skips the file like handleReadError does.
RECURSIVE DrainX(_, _, _, _, _)
DrainX(sg, f, p, w, q) ==
  IF ~(f < w \/ p < q) THEN <<>>
  ELSE LET skipFile == DrainX([g \in (DOMAIN sg) \ {f} |-> sg[g]], f + 1, 0,
                              IF f = w THEN w + 1 ELSE w, IF f = w THEN 0 ELSE q)
       IN IF f \notin DOMAIN sg \/ p >= Len(sg[f]) THEN skipFile
          ELSE LET c == sg[f][p + 1] IN
               IF c[2] # 0 \/ c[1] < 1 \/ c[1] > Len(enq) THEN <<>>
               ELSE LET id == c[1]
                        n == enq[id] IN
                    IF p + n > Len(sg[f]) THEN skipFile
                    ELSE IF \E k \in 1..n : sg[f][p + k] # <<id, k - 1>> THEN <<>>
                    ELSE <<id>> \o (IF p + n > MaxFile THEN DrainX(sg, f + 1, 0, w, q)
                                                       ELSE DrainX(sg, f, p + n, w, q))

PosIn(s, id) == IF \E i \in 1..Len(s) : s[i] = id THEN CHOOSE i \in 1..Len(s) : s[i] = id ELSE 0

\* NewDiskQueue: retrieveMetaData, truncateWriteFile, start ioLoop.  rebase = adopt this incarnation
\* as the new base (only directly after a crash, when another crash is still allowed).
OpenAs(rebase) ==
  /\ ~up /\ up' = TRUE
  /\ LET f1 == IF MetaUsable THEN meta.rf ELSE 0
         p1 == IF MetaUsable THEN meta.rp ELSE 0
         f2 == IF MetaUsable THEN meta.wf ELSE 0
         p2 == IF MetaUsable THEN meta.wp ELSE 0
         \* discard what lies beyond the persisted write position in the write file (absent in the
         \* pinned code: deviation "no_truncate_on_open")
         \* deviation "no_truncate_without_meta": the truncation is tied to a metadata file having been loaded
         sg == IF Mutant # "no_truncate_on_open" /\ ~(Mutant = "no_truncate_without_meta" /\ ~MetaUsable)
                  /\ f2 \in Files /\ Len(seg[f2]) > p2
               THEN [seg EXCEPT ![f2] = SubSeq(seg[f2], 1, p2)] ELSE seg
     IN /\ rf' = f1 /\ rp' = p1 /\ wf' = f2 /\ wp' = p2 /\ nrf' = f1 /\ nrp' = p1
        /\ depth' = IF MetaUsable THEN meta.depth ELSE 0
        /\ seg' = sg
        /\ IF rebase
           THEN LET X == DrainX(sg, f1, p1, f2, p2) IN
                /\ lseq' = X /\ consumed' = 0 /\ cSync' = 0
                \* the part of X written before the last completed sync (X is a run of lseq)
                /\ wSync' = Cardinality({i \in 1..Len(X) : PosIn(lseq, X[i]) \in 1..mark.ws})
                /\ mark' = None /\ taken' = <<>>
                /\ UNCHANGED <<enq, crashes>>
           ELSE UNCHANGED hist
  /\ needSync' = FALSE /\ count' = 0 /\ wopen' = FALSE /\ pending' = -1 /\ pc' = "top" /\ ret' = "top"
  /\ ropen' = FALSE /\ rbuf' = <<>> /\ rfoff' = 0
  /\ UNCHANGED <<meta, tmp>>
Open == OpenAs(FALSE)
OpenRebase == mark # None /\ crashes < MaxCrashes /\ pc # "closed" /\ OpenAs(TRUE)

Next == Top \/ SyncTmp \/ SyncRen \/ Read \/ ReadErr \/ Take \/ Rm \/ Tail_
        \/ (\E n \in Sizes : PutStart(n)) \/ WOpen \/ PutWrite \/ PutClose \/ Tick
        \/ Crash \/ CleanClose \/ Closed \/ Open \/ OpenRebase
Spec == Init /\ [][Next]_vars

\* ------------------------------------------------------------------ contract
Idle == up /\ pc = "select" /\ ~Readable
\* deliveries after the crash that are pre-crash messages / post-crash (sentinel) messages; the
\* contract speaks about positions in the logical content of the crashed incarnation (0 = not in it)
OldTaken == SelectSeq(taken, LAMBDA id : mark # None /\ id <= mark.top)
OldPos == [i \in 1..Len(OldTaken) |-> PosIn(lseq, OldTaken[i])]
\* C09: exact FIFO while no crash is pending -- Take always hands out the next message of lseq
C09Fifo == (mark = None /\ up /\ pc = "select" /\ pending # -1 /\ Readable)
              => (consumed < Len(lseq) /\ pending = lseq[consumed + 1])
C09Depth == (crashes = 0 /\ Idle) => (depth = 0 /\ consumed = Len(enq))
C09DepthRest == (crashes = 0 /\ up /\ pc = "select") => depth = Len(enq) - consumed
\* an adopted incarnation delivers all of its logical content if it is left alone
GenIdle == (mark = None /\ Idle) => consumed = Len(lseq)
\* C08: every prefix of the post-crash deliveries is consistent, and at idle the whole contract holds
C08Run == mark # None => /\ IsRun(OldPos)
                         /\ \A i \in 1..Len(OldPos) : OldPos[i] \in 1..mark.n
                         /\ (OldPos # <<>> => OldPos[1] <= mark.c + 1 /\ OldPos[1] > mark.cs)
C08 == (mark # None /\ Idle) => RecoveryOK(OldPos, mark.n, mark.c, mark.ws, mark.cs)
\* a message enqueued after the recovery is delivered too (nothing written lands in a skipped file)
C08Sentinel == (mark # None /\ Idle) => \A id \in (mark.top + 1)..Len(enq) : \E j \in 1..Len(taken) : taken[j] = id
\* ... and life goes on after the recovery: what is enqueued after the restart comes out after everything that
\* survived, in enqueue order, each once (a stale message of the previous life never reappears behind a newer one)
NewTaken == SelectSeq(taken, LAMBDA id : mark # None /\ id > mark.top)
C08PostFifo == mark # None => /\ \A i \in 1..Len(NewTaken) : NewTaken[i] = mark.top + i
                              /\ \A i, j \in 1..Len(taken) : (i < j /\ taken[i] > mark.top) => taken[j] > mark.top
\* recovery never interprets undefined bytes as a record and never has to skip files
NoGarbage == pc # "garbage"
NoSkip == pc # "skip"
View == <<fsvars, memvars, enq, lseq, mark, taken, consumed>>
=============================================================================
