SPECIFICATION FairSpec
INVARIANTS StreamIsHandOffOrder
PROPERTY EventuallyDelivered
CHECK_DEADLOCK FALSE
