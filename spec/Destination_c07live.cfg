SPECIFICATION Spec07
PROPERTIES BacklogDrains
CHECK_DEADLOCK FALSE
