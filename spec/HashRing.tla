------------------------------ MODULE HashRing ------------------------------
(* C15 -- consistent hashing agrees with Carbon and moves only the keys it    *)
(* must.                                                                      *)
(*                                                                            *)
(* Level A (the definition): HashRingOps!Lookup -- the owner of a key is the  *)
(* node of the first ring entry, in (position, server, instance) order, whose *)
(* position is >= the key's position, wrapping to the very first entry.       *)
(* Level B (shaped like route/consistent_hashing.go): the route keeps a list  *)
(* of destinations; on every change the ring is rebuilt from that list by     *)
(* adding the R replica entries of one destination after the other and        *)
(* sorting; a key is looked up by bisect-left on the position, modulo the     *)
(* ring length.                                                               *)
(*                                                                            *)
(* Positions are chosen nondeterministically in Init from 0..P-1 with P much  *)
(* smaller than the number of entries, so collisions between replicas of      *)
(* different nodes, between keys and entries, and keys beyond the last entry  *)
(* (wrap-around) all occur.  Within a node the replica positions are          *)
(* non-decreasing (the replica index has no meaning beyond the multiset).     *)
(*                                                                            *)
(* TLC checks, for every position assignment, every listing order and every   *)
(* add/remove history:                                                        *)
(*   AgreesWithCarbon      B's ring is the sorted ring of the member set and  *)
(*                         B's lookup = Lookup (A)                            *)
(*   OrderIndependent      any listing order of the same members gives the    *)
(*                         same owners                                        *)
(*   ExactlyOne            the owner is one of the current members            *)
(*   AddMovesOnlyToNew     after Add(n) a key either keeps its owner or is    *)
(*                         owned by n                                         *)
(*   RemoveMovesOnlyOwned  after Del(n) only the keys n owned change owner    *)
(*   UpdateMovesOnlyBetween after Upd(slot: n -> n') (the address of one       *)
(*                         destination is changed: another instance on the     *)
(*                         same host, another host, or only the port, n' = n)  *)
(*                         only keys n owned or keys that land on n' change    *)
(*                         owner; a port-only change moves nothing             *)
(* Dev names a deviation; every deviation must violate one of the above.      *)
(* stale_ring_on_same_host: after an address update the ring is re-derived     *)
(* only when the host part changed (the ring also depends on the instance).    *)
EXTENDS HashRingOps, TLC

CONSTANTS Shape,      \* which node universe (below)
          R, P,       \* replicas per node, number of positions (every position is also a key)
          WithUpd,    \* BOOLEAN: histories contain address updates (FALSE: add/remove only, a smaller space)
          Dev         \* "none" | "bisect_right" | "sort_pos_only" | "stale_ring" | "no_wrap" | "mod_n"
                      \* | "stale_ring_on_same_host"

(* node universes: same host with and without instance, a host that is a prefix of another *)
Nd(h, i) == [host |-> h, inst |-> i]
NodeDefs ==
    CASE Shape = "n2" -> <<Nd(<<1>>, <<>>), Nd(<<1>>, <<1>>)>>
      [] Shape = "n3" -> <<Nd(<<1>>, <<1>>), Nd(<<2>>, <<>>), Nd(<<1>>, <<>>)>>
      [] Shape = "n4" -> <<Nd(<<2>>, <<1>>), Nd(<<1>>, <<1>>), Nd(<<1, 1>>, <<>>), Nd(<<1>>, <<>>)>>
      [] Shape = "n5" -> <<Nd(<<1>>, <<>>), Nd(<<1>>, <<1>>), Nd(<<1>>, <<2>>), Nd(<<2>>, <<>>), Nd(<<2>>, <<1>>)>>
      [] Shape = "n4i" -> <<Nd(<<1>>, <<2>>), Nd(<<1>>, <<1, 1>>), Nd(<<1>>, <<1>>), Nd(<<1>>, <<>>)>>
N == Len(NodeDefs)
NodeIds == 1..N

VARIABLES nt,      \* node table (HashRingOps): NodeDefs + positions [1..R -> 0..P-1] + rank; never changes
          dests,   \* the route's destination list (sequence of node ids, no duplicates)
          ring,    \* B: the ring the route dispatches with
          prev,    \* owner of each key position 0..P-1 before the last change (<<>> initially)
          last     \* <<"init">> | <<"add", n>> | <<"del", n>> | <<"upd", n, n'>>
vars == <<nt, dests, ring, prev, last>>
NT == nt

Members == Range(dests)

ASSUME DistinctNodes([n \in NodeIds |-> [host |-> NodeDefs[n].host, inst |-> NodeDefs[n].inst]])

\* ---------------------------------------------------------------- level B
LessB(a, b) == IF Dev = "sort_pos_only" THEN a[1] < b[1] ELSE EntryLess(a, b, NT)

RECURSIVE AddReplicas(_, _, _)
AddReplicas(r, n, i) == IF i > R THEN r ELSE AddReplicas(Insort(r, <<nt[n].pos[i], n>>, LessB), n, i + 1)
RECURSIVE Build(_, _)
Build(ds, j) == IF j = 0 THEN <<>> ELSE AddReplicas(Build(ds, j - 1), ds[j], 1)
BuildRing(ds) == Build(ds, Len(ds))

IndexB(r, p) ==
    LET b == IF Dev = "bisect_right" THEN BisectRight(r, p) ELSE BisectLeft(r, p)
    IN  IF Dev = "no_wrap" /\ b = Len(r) THEN Len(r) - 1 ELSE b % Len(r)
OwnerB(r, p) == r[IndexB(r, p) + 1][2]

\* ---------------------------------------------------------------- level A
SortedMembers(S) == CHOOSE s \in [1..Cardinality(S) -> S] : \A i, j \in DOMAIN s : i < j => s[i] < s[j]
OwnerA(S, p) == IF Dev = "mod_n" THEN SortedMembers(S)[(p % Cardinality(S)) + 1] ELSE Lookup(NT, S, p)
Keys == 0..(P - 1)              \* a key is identified with its position
Owners(S) == [p \in Keys |-> OwnerA(S, p)]

\* ---------------------------------------------------------------- behaviour
NonDecreasing(f) == \A i \in 1..(R - 1) : f[i] <= f[i + 1]
Init ==
    /\ \E pos \in [NodeIds -> {f \in [1..R -> 0..(P - 1)] : NonDecreasing(f)}] :
           nt = WithRank([n \in NodeIds |-> [host |-> NodeDefs[n].host, inst |-> NodeDefs[n].inst, pos |-> pos[n]]])
    /\ dests = <<>> /\ ring = <<>> /\ prev = <<>> /\ last = <<"init">>

Add(n) ==
    /\ n \notin Members
    /\ dests' = Append(dests, n)
    /\ ring' = BuildRing(dests')
    /\ prev' = IF dests = <<>> THEN <<>> ELSE Owners(Members)
    /\ last' = <<"add", n>>
    /\ UNCHANGED nt

Del(i) ==
    /\ Len(dests) >= 2                      \* a consistent-hashing route never has fewer than one member
    /\ dests' = RemoveAt(dests, i)
    /\ ring' = IF Dev = "stale_ring" THEN ring ELSE BuildRing(dests')
    /\ prev' = Owners(Members)
    /\ last' = <<"del", dests[i]>>
    /\ UNCHANGED nt

(* the address of the destination in slot i is changed so that it now is node n: another      *)
(* instance on the same host, another host, or (n = dests[i]) only the port -- the port is no  *)
(* part of a node.  The destination keeps its slot.                                            *)
Upd(i, n) ==
    /\ n \notin (Members \ {dests[i]})
    /\ dests' = [dests EXCEPT ![i] = n]
    /\ ring' = IF Dev = "stale_ring_on_same_host" /\ nt[n].host = nt[dests[i]].host THEN ring ELSE BuildRing(dests')
    /\ prev' = Owners(Members)
    /\ last' = <<"upd", dests[i], n>>
    /\ UNCHANGED nt

Next == \/ \E n \in NodeIds : Add(n)
        \/ \E i \in DOMAIN dests : Del(i)
        \/ WithUpd /\ \E i \in DOMAIN dests : \E n \in NodeIds : Upd(i, n)
Spec == Init /\ [][Next]_vars

\* ---------------------------------------------------------------- properties
TypeOK == /\ \A i, j \in DOMAIN dests : i # j => dests[i] # dests[j]
          /\ Members \subseteq NodeIds
          /\ RankAgrees(nt) /\ SortedPos(nt)
          /\ \A a, b \in Range(ring) : EntryLess(a, b, nt) <=> (a # b /\ EntryLessDef(a, b, nt))

OwnersB(r) == [p \in Keys |-> OwnerB(r, p)]

AgreesWithCarbon ==
    dests # <<>> =>
        /\ IsRingOf(ring, NT, Members)
        /\ OwnersB(ring) = [p \in Keys |-> Lookup(NT, Members, p)]

Perms(s) == {q \in [DOMAIN s -> Range(s)] : \A i, j \in DOMAIN s : i # j => q[i] # q[j]}
OrderIndependent ==
    dests # <<>> => LET o == OwnersB(ring) IN \A q \in Perms(dests) : OwnersB(BuildRing(q)) = o

ExactlyOne ==
    dests # <<>> => \A p \in Keys : OwnerB(ring, p) \in Members /\ OwnerA(Members, p) \in Members

AddMovesOnlyToNew ==
    (last[1] = "add" /\ prev # <<>>) =>
        \A k \in Keys : LET o == OwnerA(Members, k) IN o # prev[k] => o = last[2]

RemoveMovesOnlyOwned ==
    last[1] = "del" =>
        \A k \in Keys : LET o == OwnerA(Members, k) IN o # prev[k] => prev[k] = last[2]

(* an address update n -> n' is "remove n, add n' in its slot": a key changes owner only if n  *)
(* owned it or if it lands on n'; if only the port changed (n' = n) nothing moves               *)
MoveAllowed(was, now) == MoveAllowedBy(last, was, now)

UpdateMovesOnlyBetween ==
    last[1] = "upd" =>
        \A k \in Keys : LET o == OwnerA(Members, k) IN o # prev[k] => MoveAllowed(prev[k], o)

(* the same statements for what the route (B) does *)
MovesB ==
    (last[1] # "init" /\ prev # <<>>) =>
        \A k \in Keys : LET o == OwnerB(ring, k) IN o # prev[k] => MoveAllowed(prev[k], o)

C15 == AgreesWithCarbon /\ OrderIndependent /\ ExactlyOne /\ AddMovesOnlyToNew /\ RemoveMovesOnlyOwned /\ UpdateMovesOnlyBetween
=============================================================================
