------------------------------- MODULE Rewrite -------------------------------
(* C04 — what the relay forwards for an accepted line.                        *)
(*                                                                            *)
(* Strings are sequences of byte values (integers), so "byte-for-byte" is     *)
(* literal.  The module transcribes                                           *)
(*   rewriter/rewriter.go  RW.Do   not-clause, regexp ReplaceAll, bytes.Replace*)
(*   table/table.go        Dispatch: fields := bytes.Fields(copy);             *)
(*                         fields[0] := fold of the rewriters, in table order; *)
(*                         final := bytes.Join(fields, " ")                    *)
(* as pure operators.  Value and timestamp tokens are opaque byte strings.     *)
(*                                                                            *)
(* Regular expressions are modelled for a backtracking-free fragment only     *)
(* (DESIGN §7): a regex is a concatenation of single-character atoms          *)
(*   [neg, cs, plus]   literal = one-element class, "." = negated empty class,*)
(*                     optional greedy "+"                                     *)
(* with capture groups given as item ranges and optional ^ / $ anchors.       *)
(* WellFormedRx demands that an atom under "+" is disjoint from its successor, *)
(* so a match starting at a given position is unique and leftmost-first       *)
(* (RE2/Go) = leftmost-longest = the deterministic walk below.  Every atom    *)
(* consumes at least one byte, so there are no empty matches.                  *)
EXTENDS Integers, Sequences, FiniteSets

SetMin(S) == CHOOSE x \in S : \A y \in S : x <= y
SetMax(S) == CHOOSE x \in S : \A y \in S : x >= y
Range(f) == {f[i] : i \in DOMAIN f}

-----------------------------------------------------------------------------
(* byte strings *)

HasAt(s, i, p) == /\ i >= 1
                  /\ i + Len(p) - 1 <= Len(s)
                  /\ \A k \in 1..Len(p) : s[i + k - 1] = p[k]

Contains(s, p) == \E i \in 1..(Len(s) - Len(p) + 1) : HasAt(s, i, p)

\* least j >= i where p occurs in s, 0 if none
RECURSIVE IndexFrom(_, _, _)
IndexFrom(s, p, i) == IF i + Len(p) - 1 > Len(s) THEN 0
                      ELSE IF HasAt(s, i, p) THEN i
                      ELSE IndexFrom(s, p, i + 1)

\* bytes.Replace(s, old, new, n): the first n non-overlapping occurrences, leftmost first;
\* n < 0: all of them; n = 0: none.  old is non-empty (rewriter.New rejects an empty old).
RECURSIVE ReplFrom(_, _, _, _, _)
ReplFrom(s, i, old, new, n) ==
    IF n = 0 THEN SubSeq(s, i, Len(s))
    ELSE LET j == IndexFrom(s, old, i)
         IN IF j = 0 THEN SubSeq(s, i, Len(s))
            ELSE SubSeq(s, i, j - 1) \o new \o ReplFrom(s, j + Len(old), old, new, n - 1)
ReplaceN(s, old, new, n) == ReplFrom(s, 1, old, new, n)

IsWS(c) == c \in {9, 10, 11, 12, 13, 32}          \* ASCII white space of bytes.Fields

\* first position >= i whose byte is (ws = TRUE) / is not (ws = FALSE) white space, Len(s) + 1 if none
RECURSIVE Skip(_, _, _)
Skip(s, i, ws) == IF i > Len(s) \/ IsWS(s[i]) = ws THEN i ELSE Skip(s, i + 1, ws)

RECURSIVE FieldsFrom(_, _)
FieldsFrom(s, i) ==
    LET b == Skip(s, i, FALSE)
    IN IF b > Len(s) THEN <<>>
       ELSE LET e == Skip(s, b, TRUE) IN <<SubSeq(s, b, e - 1)>> \o FieldsFrom(s, e)
Fields(s) == FieldsFrom(s, 1)

RECURSIVE JoinFrom(_, _, _)
JoinFrom(fs, k, sep) == IF k > Len(fs) THEN <<>>
                        ELSE IF k = Len(fs) THEN fs[k]
                        ELSE fs[k] \o <<sep>> \o JoinFrom(fs, k + 1, sep)
Join(fs, sep) == JoinFrom(fs, 1, sep)

-----------------------------------------------------------------------------
(* regular expressions, backtracking-free fragment *)

NoRx == [items |-> <<>>, groups |-> <<>>, astart |-> FALSE, aend |-> FALSE]

InCs(a, ch) == \E j \in 1..Len(a.cs) : a.cs[j] = ch
\* "." (negated empty class) does not match a newline; [^...] does
AtomMatches(a, ch) == IF a.neg THEN ~InCs(a, ch) /\ (Len(a.cs) = 0 => ch # 10)
                      ELSE InCs(a, ch)

\* the two atoms have no byte in common (decidable on the representation; two negated
\* classes are never treated as disjoint)
Disjoint(a, b) == IF ~a.neg /\ ~b.neg THEN Range(a.cs) \cap Range(b.cs) = {}
                  ELSE IF ~a.neg /\ b.neg THEN Range(a.cs) \subseteq Range(b.cs)
                  ELSE IF a.neg /\ ~b.neg THEN Range(b.cs) \subseteq Range(a.cs)
                  ELSE FALSE

Laminar(g, h) == \/ g[2] < h[1] \/ h[2] < g[1]                     \* disjoint
                 \/ (g[1] <= h[1] /\ h[2] <= g[2])                 \* h inside g
                 \/ (h[1] <= g[1] /\ g[2] <= h[2])

WellFormedRx(re) ==
    /\ Len(re.items) >= 1
    /\ \A k \in 1..Len(re.items) : ~re.items[k].neg => Len(re.items[k].cs) >= 1
    /\ \A k \in 1..(Len(re.items) - 1) : re.items[k].plus => Disjoint(re.items[k], re.items[k + 1])
    /\ \A g \in 1..Len(re.groups) : /\ 1 <= re.groups[g][1] /\ re.groups[g][1] <= re.groups[g][2]
                                    /\ re.groups[g][2] <= Len(re.items)
    \* groups are numbered by their opening parenthesis, outer first
    /\ \A g \in 1..(Len(re.groups) - 1) :
          LET a == re.groups[g] b == re.groups[g + 1]
          IN a[1] < b[1] \/ (a[1] = b[1] /\ a[2] >= b[2])
    /\ \A g, h \in 1..Len(re.groups) : Laminar(re.groups[g], re.groups[h])

\* number of bytes from position i on that match atom a
RECURSIVE Run(_, _, _)
Run(s, i, a) == IF i > Len(s) \/ ~AtomMatches(a, s[i]) THEN 0 ELSE 1 + Run(s, i + 1, a)

\* boundaries <<start of item 1, ..., start of item n, end>> of the match of items k.. at i, or <<>>
RECURSIVE Walk(_, _, _, _)
Walk(re, s, k, i) ==
    IF k > Len(re.items) THEN (IF re.aend /\ i # Len(s) + 1 THEN <<>> ELSE <<i>>)
    ELSE LET a == re.items[k]
             n == IF a.plus THEN Run(s, i, a)
                  ELSE IF i <= Len(s) /\ AtomMatches(a, s[i]) THEN 1 ELSE 0
         IN IF n = 0 THEN <<>>
            ELSE LET rest == Walk(re, s, k + 1, i + n)
                 IN IF rest = <<>> THEN <<>> ELSE <<i>> \o rest

MatchAt(re, s, i) == IF re.astart /\ i # 1 THEN <<>> ELSE Walk(re, s, 1, i)

Search(re, s) == \E i \in 1..Len(s) : MatchAt(re, s, i) # <<>>

\* capture n of a match with boundaries B (0 = the whole match; out of range = empty)
Capture(re, s, B, n) ==
    IF n = 0 THEN SubSeq(s, B[1], B[Len(B)] - 1)
    ELSE IF n <= Len(re.groups) THEN SubSeq(s, B[re.groups[n][1]], B[re.groups[n][2] + 1] - 1)
    ELSE <<>>

\* replacement templates: tokens [k |-> "lit", c] / [k |-> "ref", n, br] ("${n}" when br, else "$n")
IsWord(c) == c \in 48..57 \/ c \in 65..90 \/ c \in 97..122 \/ c = 95
WellFormedTpl(t) ==
    \A k \in 1..Len(t) :
       /\ t[k].k = "lit" => t[k].c # 36                                   \* no raw "$"
       /\ (t[k].k = "ref" /\ ~t[k].br /\ k < Len(t) /\ t[k + 1].k = "lit") => ~IsWord(t[k + 1].c)
          \* "$1x" would name the group "1x": ambiguous spelling, outside the statement

RECURSIVE ExpandFrom(_, _, _, _, _)
ExpandFrom(t, k, re, s, B) ==
    IF k > Len(t) THEN <<>>
    ELSE (IF t[k].k = "lit" THEN <<t[k].c>> ELSE Capture(re, s, B, t[k].n)) \o ExpandFrom(t, k + 1, re, s, B)

\* regexp.ReplaceAll: successive leftmost matches, each replaced by the expanded template
RECURSIVE RAFrom(_, _, _, _)
RAFrom(re, t, s, i) ==
    IF i > Len(s) THEN <<>>
    ELSE LET B == MatchAt(re, s, i)
         IN IF B = <<>> THEN <<s[i]>> \o RAFrom(re, t, s, i + 1)
            ELSE ExpandFrom(t, 1, re, s, B) \o RAFrom(re, t, s, B[Len(B)])
ReplaceAllRx(re, t, s) == RAFrom(re, t, s, 1)

-----------------------------------------------------------------------------
(* rewriter rules *)
(* [re |-> BOOL, old, new (literal rule) | rx, tpl (regex rule),               *)
(*  notk |-> "none" | "lit" | "re", notl, notrx, max]                          *)

WellFormedRule(r) ==
    /\ r.notk \in {"none", "lit", "re"}
    /\ r.notk = "lit" => Len(r.notl) >= 1
    /\ r.notk = "re" => WellFormedRx(r.notrx)
    /\ IF r.re THEN WellFormedRx(r.rx) /\ WellFormedTpl(r.tpl) /\ r.max = -1
       ELSE Len(r.old) >= 1 /\ r.max >= -1

NotHit(r, s) == IF r.notk = "lit" THEN Contains(s, r.notl)
                ELSE IF r.notk = "re" THEN Search(r.notrx, s)
                ELSE FALSE

Do(r, s) == IF NotHit(r, s) THEN s
            ELSE IF r.re THEN ReplaceAllRx(r.rx, r.tpl, s)
            ELSE ReplaceN(s, r.old, r.new, r.max)

RECURSIVE ApplyFrom(_, _, _)
ApplyFrom(rules, k, s) == IF k > Len(rules) THEN s ELSE ApplyFrom(rules, k + 1, Do(rules[k], s))
ApplyAll(rules, s) == ApplyFrom(rules, 1, s)

\* the line handed to routes for an accepted three-field line
ForwardedTokens(rules, name, val, ts) == Join(<<ApplyAll(rules, name), val, ts>>, 32)
Forwarded(rules, raw) == LET f == Fields(raw) IN ForwardedTokens(rules, f[1], f[2], f[3])
ThreeFields(raw) == Len(Fields(raw)) = 3
\* the name part of a forwarded line (names contain no white space)
NamePart(w) == SubSeq(w, 1, IndexFrom(w, <<32>>, 1) - 1)
=============================================================================
