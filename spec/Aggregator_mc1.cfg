SPECIFICATION Spec
VIEW mcview
CHECK_DEADLOCK FALSE
