SPECIFICATION Spec
INVARIANTS NoteCaught
POSTCONDITION AllCaught
CHECK_DEADLOCK FALSE
