SPECIFICATION Spec
INVARIANT Emit
CONSTRAINT Bound
CHECK_DEADLOCK FALSE
