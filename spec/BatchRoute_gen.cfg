SPECIFICATION Spec
INVARIANTS Emit
CHECK_DEADLOCK FALSE
CONSTANTS
  Record = TRUE
  Mutant = ""
  Tolerated = {}
