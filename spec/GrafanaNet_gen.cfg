SPECIFICATION Spec
INVARIANTS Emit
CHECK_DEADLOCK FALSE
CONSTANTS
  FaultKinds = {"4xx", "5xx", "timeout", "reset", "stall"}
  Record = TRUE
  Protocol = "repaired"
  Mutant = ""
