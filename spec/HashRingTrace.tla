--------------------------- MODULE HashRingTrace ---------------------------
(* Trace specification for C15: judges what a real route.ConsistentHashing    *)
(* route did (harness/ring) with the operators of HashRingOps.tla.            *)
(*                                                                            *)
(* One line of trace.ndjson = one event:                                      *)
(*  hist  a new history: nodes = the universe of destinations of this history *)
(*        [host, inst as byte codes ([] = no instance), pos = the R = 100      *)
(*        replica positions in non-decreasing order], kpos = position of every *)
(*        key that will be dispatched.  All positions are computed by          *)
(*        tools/carbon_ring.py (MD5), independently of the Go code.            *)
(*  init  members = node ids in the listing order given to NewConsistentHashing*)
(*  add   node  = id of the destination added with route.Add                   *)
(*  del   slot  = index passed to route.DelDestination                         *)
(*  upd   slot, node: route.UpdateDestination(slot, addr=<address of node>)    *)
(*        with an address that accepts connections (a listener of the driver): *)
(*        the destination in that slot now is `node` (the same node as before  *)
(*        when only the port changed)                                          *)
(*  updno slot: the same call with an address that refuses connections: the    *)
(*        destination keeps its address (Destination.updateConn takes an       *)
(*        address over only after a successful dial), the member set is the    *)
(*        same                                                                 *)
(*  ring  the ring the route dispatches with (hook VerifRing), entries         *)
(*        [position, destination index, node id of (Hostname, Instance)],      *)
(*        ndest = number of destinations of the same snapshot, dl = the node   *)
(*        ids of the route's destination list (GetDestination(0..))            *)
(*  disp  every key dispatched once; got[i] = the [slot, delta] pairs of the   *)
(*        destinations that accounted for key i: drop counter (no connection)  *)
(*        or line received by the listener the destination is configured for;  *)
(*        slot < 0 = a listener no destination of the route is configured for  *)
(* Accepted iff every line is matched.  A line that is not matched is the     *)
(* verdict: ring = the route's ring is not Carbon's ring for the member set;  *)
(* disp = a key went to no / several / another destination than Carbon's, or  *)
(* moved although the membership change did not require it.                   *)
EXTENDS HashRingOps, Json, TLC, TLCExt, IOUtils

TLog == ndJsonDeserialize("trace.ndjson")

VARIABLES l,
          nt,     \* node table of the history (with ranks)
          kp,     \* key positions
          dests,  \* the destination list of the route, as node ids
          ring,   \* <<position, node id>> entries; <<>> until reported after a change
          own,    \* owner of each key at the last dispatch (<<>> = not dispatched since the last change)
          prev,   \* owners before the last membership change (<<>> = unknown)
          last    \* <<"none"|"init"|"add"|"del", node>> | <<"upd", old node, new node>>
tvars == <<l, nt, kp, dests, ring, own, prev, last>>

ASSUME TLCSet(1, 0)

Ev == TLog[l]
(* guards are evaluated as plain booleans (TLC would otherwise explore every disjunct and every
   instance of a quantifier inside an action as a separate branch) *)
Holds(p) == p = TRUE
Is(e) == l <= Len(TLog) /\ Ev.ev = e /\ l' = l + 1

TInit == l = 1 /\ nt = <<>> /\ kp = <<>> /\ dests = <<>> /\ ring = <<>> /\ own = <<>> /\ prev = <<>> /\ last = <<"none", 0>>

THist ==
    /\ Is("hist")
    /\ Holds(LET T == WithRank(Ev.nodes) IN DistinctNodes(T) /\ SortedPos(T) /\ RankAgrees(T))
    /\ nt' = WithRank(Ev.nodes)
    /\ kp' = Ev.kpos
    /\ dests' = <<>> /\ ring' = <<>> /\ own' = <<>> /\ prev' = <<>> /\ last' = <<"none", 0>>

NoDup(s) == \A i, j \in DOMAIN s : i # j => s[i] # s[j]

TInitRoute ==
    /\ Is("init") /\ Holds(last[1] = "none")
    /\ Holds(Range(Ev.members) \subseteq DOMAIN nt /\ NoDup(Ev.members) /\ Ev.members # <<>>)
    /\ dests' = Ev.members /\ ring' = <<>> /\ own' = <<>> /\ prev' = <<>> /\ last' = <<"init", 0>>
    /\ UNCHANGED <<nt, kp>>

TAdd ==
    /\ Is("add") /\ Holds(last[1] # "none")
    /\ Holds(Ev.node \in DOMAIN nt /\ Ev.node \notin Range(dests))
    /\ dests' = Append(dests, Ev.node)
    /\ prev' = own /\ own' = <<>> /\ ring' = <<>> /\ last' = <<"add", Ev.node>>
    /\ UNCHANGED <<nt, kp>>

TDel ==
    /\ Is("del") /\ Holds(last[1] # "none")
    /\ Holds(Ev.slot + 1 \in DOMAIN dests /\ Len(dests) >= 2)
    /\ dests' = RemoveAt(dests, Ev.slot + 1)
    /\ prev' = own /\ own' = <<>> /\ ring' = <<>> /\ last' = <<"del", dests[Ev.slot + 1]>>
    /\ UNCHANGED <<nt, kp>>

TUpd ==
    /\ Is("upd") /\ Holds(last[1] # "none")
    /\ Holds(Ev.slot + 1 \in DOMAIN dests /\ Ev.node \in DOMAIN nt)
    /\ Holds(Ev.node \notin (Range(dests) \ {dests[Ev.slot + 1]}))
    /\ dests' = [dests EXCEPT ![Ev.slot + 1] = Ev.node]
    /\ prev' = own /\ own' = <<>> /\ ring' = <<>> /\ last' = <<"upd", dests[Ev.slot + 1], Ev.node>>
    /\ UNCHANGED <<nt, kp>>

TUpdNo ==
    /\ Is("updno") /\ Holds(last[1] # "none")
    /\ Holds(Ev.slot + 1 \in DOMAIN dests)
    /\ prev' = own /\ own' = <<>> /\ ring' = <<>> /\ last' = <<"upd", dests[Ev.slot + 1], dests[Ev.slot + 1]>>
    /\ UNCHANGED <<nt, kp, dests>>

(* the reported ring must be Carbon's ring of the current member set, and its destination
   indexes must point at the destinations the entries belong to *)
RingOK ==
    /\ Ev.ndest = Len(dests) /\ Ev.dl = dests
    /\ \A j \in DOMAIN Ev.ring : Ev.ring[j][2] + 1 \in DOMAIN dests /\ dests[Ev.ring[j][2] + 1] = Ev.ring[j][3]
    /\ IsRingOf([j \in DOMAIN Ev.ring |-> <<Ev.ring[j][1], Ev.ring[j][3]>>], nt, Range(dests))
TRing ==
    /\ Is("ring") /\ Holds(dests # <<>> /\ RingOK)
    /\ ring' = [j \in DOMAIN Ev.ring |-> <<Ev.ring[j][1], Ev.ring[j][3]>>]
    /\ UNCHANGED <<nt, kp, dests, own, prev, last>>

(* one key: exactly one destination accounts for the line, once, and it is Carbon's owner;
   a key changes owner only as the last membership change requires *)
OneOwner(g) == Len(g) = 1 /\ g[1][2] = 1 /\ g[1][1] + 1 \in DOMAIN dests
OwnerSeen(g) == dests[g[1][1] + 1]
MoveOK(i, o) == (prev # <<>> /\ o # prev[i]) => MoveAllowedBy(last, prev[i], o)
KeyOK(i) ==
    /\ OneOwner(Ev.got[i])
    /\ OwnerSeen(Ev.got[i]) = LookupSeq(ring, kp[i])
    /\ MoveOK(i, OwnerSeen(Ev.got[i]))
DispOK == ring # <<>> /\ Len(Ev.got) = Len(kp) /\ \A i \in DOMAIN kp : KeyOK(i)

TDisp ==
    /\ Is("disp") /\ Holds(DispOK)
    /\ own' = [i \in DOMAIN kp |-> OwnerSeen(Ev.got[i])]
    /\ UNCHANGED <<nt, kp, dests, ring, prev, last>>

(* diagnostics for a rejected line (no state change; the line stays unmatched) *)
FirstBad == CHOOSE i \in DOMAIN kp : ~KeyOK(i) /\ \A j \in 1..(i - 1) : KeyOK(j)
TDispBad ==
    /\ l <= Len(TLog) /\ Ev.ev = "disp" /\ Holds(~DispOK)
    /\ IF ring # <<>> /\ Len(Ev.got) = Len(kp)
       THEN LET i == FirstBad
            IN PrintT("@@BAD " \o ToJson([line |-> l, key |-> i, kpos |-> kp[i], got |-> Ev.got[i],
                                         want |-> LookupSeq(ring, kp[i]), dests |-> dests,
                                         prev |-> IF prev = <<>> THEN 0 ELSE prev[i], last |-> last]))
       ELSE PrintT("@@BAD " \o ToJson([line |-> l, key |-> 0]))
    /\ UNCHANGED tvars
TRingBad ==
    /\ l <= Len(TLog) /\ Ev.ev = "ring" /\ Holds(~(dests # <<>> /\ RingOK))
    /\ PrintT("@@BAD " \o ToJson([line |-> l, key |-> 0, ndest |-> Ev.ndest, dests |-> dests, dl |-> Ev.dl,
                                 len |-> Len(Ev.ring), last |-> last]))
    /\ UNCHANGED tvars

TNext == THist \/ TInitRoute \/ TAdd \/ TDel \/ TUpd \/ TUpdNo \/ TRing \/ TDisp \/ TDispBad \/ TRingBad
TSpec == TInit /\ [][TNext]_tvars

HighWater == TLCSet(1, IF l - 1 > TLCGet(1) THEN l - 1 ELSE TLCGet(1))
Post == PrintT("@@TRACE " \o ToJson([matched |-> TLCGet(1)]))
TypeInv == NoDup(dests)
=============================================================================
