------------------------- MODULE QueueContractOps -------------------------
(* The C08 recovery predicate of the disk spool queue (level A), shared by    *)
(* QueueContract (state machine / trace spec) and DiskQueue (level B).        *)
EXTENDS Integers, Sequences, FiniteSets

\* D is a contiguous ascending run of message ids
IsRun(D) == \A i \in 1..(Len(D) - 1) : D[i + 1] = D[i] + 1

\* C08: the sequence D delivered after a crash in abstract state (n, c, ws, cs)
RecoveryOK(D, n, c, ws, cs) ==
    /\ \A i \in 1..Len(D) : D[i] \in 1..n                \* only enqueued messages, intact
    /\ IsRun(D)                                           \* original order, contiguous
    /\ (D # <<>> => /\ D[1] <= c + 1                      \* nothing undelivered is skipped
                    /\ D[1] > cs)                         \* only redeliver what was consumed since the last sync
    /\ \A i \in (c + 1)..ws : \E j \in 1..Len(D) : D[j] = i   \* at most the un-synced tail is lost

=============================================================================
