----------------------------- MODULE PickleItems -----------------------------
(* C13 — what the pickle input makes of one decoded frame, as a decision      *)
(* table over the structure of an item and the kinds of its scalars, and what *)
(* a whole connection (a sequence of frames) must produce.  Transcribed from  *)
(* the property statement; input/pickle.go:112-190 is what it is bound to.    *)
(*                                                                            *)
(* A datapoint is (name, (timestamp, value)).  An item class is               *)
(*   outer   tuple | list | other        what the item itself is              *)
(*   arity   1 | 2 | 3                   its length                           *)
(*   name    str | unicode | nonstring   byte string / unicode / anything else*)
(*   pair    tuple | list | other        what the second element is           *)
(*   parity  1 | 2 | 3                   its length                           *)
(*   ts, val int | negint | long | float | str | other                        *)
(*           (int: 0 <= v < 2^31; negint: v < 0; long: v >= 2^31 or a Python-2*)
(*            long; other: None, bool, container)                             *)
(* Fields that cannot matter ("-") are not enumerated separately.             *)
EXTENDS Integers, Sequences, FiniteSets, TLC

Scalars == {"int", "negint", "long", "float", "str", "other"}
Conts   == {"tuple", "list"}

Items ==
    {[outer |-> "other", arity |-> 0, name |-> "-", pair |-> "-", parity |-> 0, ts |-> "-", val |-> "-"]}
    \cup {[outer |-> o, arity |-> a, name |-> "-", pair |-> "-", parity |-> 0, ts |-> "-", val |-> "-"] :
             o \in Conts, a \in {1, 3}}
    \cup {[outer |-> o, arity |-> 2, name |-> nm, pair |-> "other", parity |-> 0, ts |-> "-", val |-> "-"] :
             o \in Conts, nm \in {"str", "unicode", "nonstring"}}
    \cup {[outer |-> o, arity |-> 2, name |-> nm, pair |-> p, parity |-> pa, ts |-> "-", val |-> "-"] :
             o \in Conts, nm \in {"str", "unicode", "nonstring"}, p \in Conts, pa \in {1, 3}}
    \cup {[outer |-> o, arity |-> 2, name |-> nm, pair |-> p, parity |-> 2, ts |-> t, val |-> v] :
             o \in Conts, nm \in {"str", "unicode", "nonstring"}, p \in Conts, t \in Scalars, v \in Scalars}

\* structurally valid: a 2-sequence of a string name and a 2-sequence of two usable scalars
Valid(it) == /\ it.outer \in Conts /\ it.arity = 2
             /\ it.name \in {"str", "unicode"}
             /\ it.pair \in Conts /\ it.parity = 2
             /\ it.ts # "other" /\ it.val # "other"

\* how a field appears in the equivalent plain-text line: integers and strings verbatim, floating
\* point values to six decimals, floating point timestamps as integral numbers
ValText(k) == IF k = "float" THEN "f6" ELSE "verbatim"
TsText(k)  == IF k = "float" THEN "f0" ELSE "verbatim"

\* Decide: "D" = Dispatch(name ++ " " ++ Text(val) ++ " " ++ Text(ts)); "I" = IncNumInvalid, skipped
Decide(it) == IF Valid(it) THEN [act |-> "D", val |-> ValText(it.val), ts |-> TsText(it.ts)]
              ELSE [act |-> "I", val |-> "-", ts |-> "-"]

(* A connection is a sequence of frames [kind, items]:                                            *)
(*   ok          a pickled list of items (possibly empty)                                         *)
(*   nonlist     a well-formed pickle of something that is not a list                             *)
(*   badprefix   a payload that does not start like a pickled list of any protocol 0-4            *)
(*   garbage     a list prefix followed by bytes that are not a pickle                            *)
(*   toolong     a length field above the 500 MB cap                                              *)
(*   cutheader / cutpayload   the connection ends inside the length field / inside the payload    *)
(*   truncpickle a complete frame whose pickle stops early (the handler ends the connection but   *)
(*               whether it reports an error is left open)                                        *)
BadKinds == {"nonlist", "badprefix", "garbage", "toolong", "cutheader", "cutpayload", "truncpickle"}

RECURSIVE ItemEvents(_, _, _)
ItemEvents(f, items, i) ==
    IF i > Len(items) THEN <<>>
    ELSE <<[f |-> f, i |-> i] @@ Decide(items[i])>> \o ItemEvents(f, items, i + 1)

\* events in order, then how the connection ends: "end" (clean EOF after the last frame), "error"
\* (malformed frame: this connection ends with an error, nothing later is processed), "ended"
\* (ends, error or not left open)
RECURSIVE ConnFrom(_, _, _)
ConnFrom(frames, k, acc) ==
    IF k > Len(frames) THEN [events |-> acc, status |-> "end"]
    ELSE IF frames[k].kind = "ok" THEN ConnFrom(frames, k + 1, acc \o ItemEvents(k, frames[k].items, 1))
    ELSE [events |-> acc, status |-> IF frames[k].kind = "truncpickle" THEN "ended" ELSE "error"]
ConnExpect(frames) == ConnFrom(frames, 1, <<>>)
=============================================================================
