SPECIFICATION Spec
INVARIANTS EmitText OnlyDocVarsSubstituted NoVarNoChange
CHECK_DEADLOCK FALSE
