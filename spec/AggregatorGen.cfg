SPECIFICATION GSpec
INVARIANTS EmitFmts Emit TypeOK SortedTsList NoDoubleEmit AscendingWithinFlush ClosedStaysClosed
PROPERTIES ExactlyOnceContribution
CHECK_DEADLOCK FALSE
CONSTANT Vals <- GenVals
