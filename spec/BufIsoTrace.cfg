SPECIFICATION TSpec
CONSTRAINT HighWater
INVARIANT HeldIntact DeliveredIntact NotRetained
POSTCONDITION Post
CHECK_DEADLOCK FALSE
CONSTANTS
  Consumers = {"k1", "k2", "dest", "agg"}
  Contents = {}
  MaxLines = 0
  Dev = ""
