--------------------------- MODULE AggregatorTrace ---------------------------
(* C10, trace validation: the real aggregator behind a real table.Table, with  *)
(* a buffered inbox.  The driver logs                                          *)
(*   hist  a new aggregator (interval, wait, format, function)                 *)
(*   enq   a point was handed to Table.Dispatch (-> AddMaybe -> inbox)         *)
(*   adv   the injected clock was advanced                                     *)
(*   tick  a tick value was offered on the tick channel                        *)
(*   out   a line arrived at the capture route (Table.In -> DispatchAggregate) *)
(*   sync  the inbox was observed drained; TooOld counter delta so far         *)
(*   end   everything drained and delivered; TooOld counter delta             *)
(* When the aggregator's goroutine takes a point out of the inbox is not       *)
(* observable: it is a silent step, and TLC chooses its place between the enq  *)
(* and the next event that forces it (FIFO inbox; sync/end demand an empty     *)
(* inbox).  What a tick must emit is computed by Aggregator.tla (ExpectGroups)  *)
(* and queued in `pend`; out events consume it group by group (ascending       *)
(* bucket start; free order inside a group).                                   *)
EXTENDS Aggregator, Json, TLCExt, IOUtils

TLog == ndJsonDeserialize("trace.ndjson")

VARIABLES l, inq, pend, fun
tvars == <<vars, l, inq, pend, fun>>

ASSUME TLCSet(1, 0)

Ev == TLog[l]
Is(e) == l <= Len(TLog) /\ Ev.ev = e /\ l' = l + 1

Abs(x) == IF x < 0 THEN -x ELSE x
\* micro = the printed six-decimal value times 10^6 (an integer); within 1e-6 of the exact result
ValOK(f, res, micro) ==
  IF f = "avg" THEN Abs(micro * res.avg[2] - res.avg[1] * 1000000) <= res.avg[2]
  ELSE Abs(micro - res[f] * 1000000) <= 1

TInit == Init /\ l = 1 /\ inq = <<>> /\ pend = <<>> /\ fun = ""

THist == /\ Is("hist")
         /\ interval' = Ev.interval /\ wait' = Ev.wait /\ fmt' = Ev.fmt /\ fun' = Ev.fun
         /\ now' = 0 /\ lvl1' = {} /\ buckets' = <<>> /\ tsList' = <<>> /\ tooOld' = 0
         /\ closed' = {} /\ dbl' = FALSE /\ closedUpTo' = -1 /\ lastT' = 0 /\ lastFlush' = <<>>
         /\ lastOp' = [op |-> "init"] /\ nPoints' = 0 /\ nTicks' = 0
         /\ inq' = <<>> /\ pend' = <<>>

TEnq == /\ Is("enq")
        /\ inq' = Append(inq, [name |-> Ev.name, val |-> Ev.val, ts |-> Ev.ts])
        /\ UNCHANGED <<vars, pend, fun>>

TAdv == Is("adv") /\ Advance(Ev.now) /\ UNCHANGED <<inq, pend, fun>>

TTick == /\ Is("tick") /\ Tick(Ev.t)
         /\ pend' = pend \o ExpectGroups(lastFlush')
         /\ UNCHANGED <<inq, fun>>

TOut == /\ Is("out") /\ pend # <<>>
        /\ LET g == Head(pend) IN
           /\ g.q = Ev.q
           /\ \E ln \in g.lines :
                /\ ln.key = Ev.key /\ ValOK(fun, ln.res, Ev.micro)
                /\ pend' = IF g.lines = {ln} THEN Tail(pend)
                           ELSE <<[g EXCEPT !.lines = @ \ {ln}]>> \o Tail(pend)
        /\ UNCHANGED <<vars, inq, fun>>

TSync == Is("sync") /\ inq = <<>> /\ tooOld = Ev.too /\ UNCHANGED <<vars, inq, pend, fun>>
TEnd  == Is("end") /\ inq = <<>> /\ pend = <<>> /\ tooOld = Ev.too /\ UNCHANGED <<vars, inq, pend, fun>>

\* the aggregator's goroutine takes the oldest point out of the inbox
Take == /\ inq # <<>>
        /\ Process(Head(inq).name, Head(inq).val, Head(inq).ts)
        /\ inq' = Tail(inq)
        /\ UNCHANGED <<l, pend, fun>>

TNext == THist \/ TEnq \/ TAdv \/ TTick \/ TOut \/ TSync \/ TEnd \/ Take
TSpec == TInit /\ [][TNext]_tvars

HighWater == TLCSet(1, IF l - 1 > TLCGet(1) THEN l - 1 ELSE TLCGet(1))
Post == PrintT("@@TRACE " \o ToJson([matched |-> TLCGet(1)]))
TInv == NoDoubleEmit /\ AscendingWithinFlush /\ ClosedStaysClosed /\ SortedTsList
=============================================================================
