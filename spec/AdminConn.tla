------------------------------ MODULE AdminConn ------------------------------
(* XADMIN -- the admin front ends as an operator reaches them.               *)
(*                                                                           *)
(* (a) The TCP command port (telnet/telnet.go, handleApiRequest): the        *)
(* connection is a byte stream; the network delivers it in arbitrary         *)
(* pieces (MayHaveArrived); before every Read the handler writes the banner; one     *)
(* conn.Read into a buffer of Cap bytes takes what has arrived, at most Cap, *)
(* and THAT is one command text: TrimSpace, Split on " ", the handler chosen *)
(* by the first registered prefix the text starts with, the reply written,   *)
(* the banner again.  The client sends the commands of a script, each        *)
(* followed by a newline, as an operator with nc / telnet does.              *)
(* (b) The HTTP API (ui/web/web.go) works on the same table: a request is    *)
(* one atomic step request -> status, table'.                                *)
(*                                                                           *)
(* GUARANTEES (invariants; hold for every segmentation, and every named      *)
(* deviation -- constant Mutant -- violates one of them):                    *)
(*  G_Whole     a command that one Read returned whole (nothing before it,   *)
(*              nothing after it but its newline) has exactly the effect and *)
(*              the reply of that command on the table as it was, once;      *)
(*  G_Doc       ... and for the documented well-formed commands this is what *)
(*              docs/tcp-admin-interface.md says (DocStep, written word by   *)
(*              word, without the tokenizer);                                *)
(*  G_Banner    the output is banner (reply banner)*: one banner at connect, *)
(*              one after every Read, nothing after the last banner;         *)
(*  G_OneReply  every Read is answered by exactly one reply; a command of    *)
(*              the add/del/mod family by "ok" or by one error line;         *)
(*  G_Rejected  a command answered by an error line leaves the table as it   *)
(*              was;                                                         *)
(*  G_Stream    the Reads are consecutive pieces of the stream, each what    *)
(*              had arrived, at most Cap bytes;                              *)
(*  G_Chain     the table changes only by the recorded steps;                *)
(*  G_Lockstep  (cfg with Lockstep = TRUE: every command + newline <= Cap,   *)
(*              arrives in one piece, the client waits for the banner) the   *)
(*              i-th Read is the i-th command: applied in order, once each.  *)
(*  H_DelIndex  DELETE by a numeric index i: 0 <= i < length removes exactly *)
(*              entry i (TableOps.ApplyOp "delidx") with 200; i >= length    *)
(*              (TableOps.OpErr) and i < 0 change nothing and are not        *)
(*              answered 200;                                                *)
(*  H_Key       DELETE /routes/{key} removes the first route whose key IS    *)
(*              key (no prefix match), an unknown key is 200 and a no-op;    *)
(*              GET /routes/{key} is 200 exactly for known keys;             *)
(*  H_Others    a request changes nothing but the list it names.             *)
(*                                                                           *)
(* NON-GUARANTEES (W_*: TLC must find each reachable; the check runs the     *)
(* negation as an invariant): see the end of the module.                     *)
EXTENDS AdminConnOps

CONSTANTS Cap,          \* size of the read buffer (1024 in the code)
          ScriptSet,    \* name of the set of client scripts (below)
          Lockstep,     \* TRUE: a command arrives whole and only when the connection is idle
          MaxReads,     \* bound on the number of Reads explored
          HttpSet,      \* name of the set of HTTP requests that may be made at any moment
          MaxHttp

Code == INSTANCE AdminConnOps WITH Mutant <- "none"       \* the code as it is

VARIABLES script, arrived, consumed, T, out, hist
vars == <<script, arrived, consumed, T, out, hist>>

Mux == RealMux

(* ------------------------------------------------------------ constants *)
Rt(k, d) == [key |-> k, type |-> "sendAllMatch", m |-> NoM, dests |-> d]
InitT == [bl |-> <<" prefix=z">>, rw |-> <<"a b 1", "c d 2">>, agg |-> <<"sum o regex=r">>,
          rt |-> <<Rt("k1", <<"h:1", "h:2">>), Rt("k", <<"h:3">>), Rt("k2", <<"h:4">>)>>]

Scripts ==
  CASE ScriptSet = "lock" ->      \* whole commands, well-formed and not
        { <<"addBlack prefix ab", "view", "delRoute k", "delRoute k1">>,
          <<"addRoute sendAllMatch k3  h:5", "delRoute k2", "help">>,
          <<"addRoute sendFirstMatch k3 prefix=p  h:5 pickle=true  h:6", "addRoute sendAllMatch k4 h:5">>,
          <<"viewx", "helpme", "addRouteFoo", "view x", "zz", "addfoo">>,
          <<"addRewriter o n 1", "addRewriter o n", "delRoute k1 junk", "addRewriter o n -1">>,
          <<"modRoute k1 prefix=p", "modRoute k9 sub=s", "addDest k1 x", "modRoute k1", "delRoute">>,
          <<"addBlack  prefix ab", "addBlack prefix  ab", "addBlack sub", "addBlack foo ab">> }
    [] ScriptSet = "pair" ->      \* two short commands, every segmentation
        { <<"delRoute k", "view">>, <<"view", "help">>, <<"delRoute k1", "zz">> }
    [] ScriptSet = "merge" ->     \* what two commands in one Read become
        { <<"delRoute k1", "delRoute k2">>, <<"addBlack sub a", "addBlack sub b">>, <<"view", "view">>,
          <<"addRewriter o n 1", "addRewriter p q 2">> }
    [] ScriptSet = "long" ->      \* longer than the buffer (Cap 12 .. 20)
        { <<"addBlack prefix abcdefgh">>, <<"delRoute k1">>, <<"addRoute sendAllMatch k5  h:55">> }
    [] ScriptSet = "space" ->
        { <<"addRoute sendAllMatch k3  h:5">>, <<"addRoute sendAllMatch k3 h:5">>, <<"view ">>, <<"delRoute  k1">> }
    [] ScriptSet = "none" -> { <<>> }

Q(m, kind, key, idx) == [m |-> m, kind |-> kind, key |-> key, idx |-> idx]
IdxTexts == {"0", "1", "2", "3", "-1", "99999999999999999999", "x", "1x", "+1", "01", ""}
HttpReqs ==
  CASE HttpSet = "idx" -> {Q("DELETE", k, "", i) : k \in {"rewriters", "blacklists"}, i \in IdxTexts}
                          \cup {Q("DELETE", "dests", "k1", i) : i \in IdxTexts}
    [] HttpSet = "key" -> {Q(m, "routes", k, "") : m \in {"GET", "DELETE"}, k \in {"k", "k1", "k9", "k1x"}}
                          \cup {Q("DELETE", "dests", "k9", "0"), Q("POST", "rewriters", "e f 0", "ok"),
                                Q("POST", "routes", "", "ok"), Q("POST", "aggregators", "", "badjson")}
    [] HttpSet = "few" -> {Q("DELETE", "routes", "k1", ""), Q("DELETE", "rewriters", "", "0")}
    [] HttpSet = "none" -> {}

(* --------------------------------------------------------------- stream *)
RECURSIVE StreamOf(_)
StreamOf(sc) == IF sc = <<>> THEN "" ELSE Head(sc) \o "\n" \o StreamOf(Tail(sc))
Stream == StreamOf(script)
RECURSIVE StartOf(_, _)         \* index in the stream of the first byte of command i
StartOf(sc, i) == IF i = 1 THEN 1 ELSE StartOf(sc, i - 1) + Len(sc[i - 1]) + 1
CStart(i) == StartOf(script, i)
CEnd(i) == CStart(i) + Len(script[i]) - 1            \* last byte of its text; the newline is at CEnd(i) + 1

(* -------------------------------------------------------------- actions *)
Init == /\ script \in Scripts
        /\ arrived = 0 /\ consumed = 0 /\ T = InitT /\ out = <<"B">> /\ hist = <<>>

NReads == Cardinality({i \in 1..Len(hist) : hist[i].k = "read"})
NHttp == Cardinality({i \in 1..Len(hist) : hist[i].k = "http"})

\* the cut points of a lockstep client: command boundaries
Boundaries == {0} \cup {CEnd(i) + 1 : i \in 1..Len(script)}
\* what may have arrived when the next Read returns: everything that had arrived before, and at least one byte more
\* than was consumed; any amount (the network segments as it likes) -- or, for the lockstep client, exactly the
\* next command and only when everything before it was consumed and answered
MayHaveArrived ==
    IF Lockstep THEN (IF consumed = arrived THEN {MinOf({b \in Boundaries : b > arrived})} ELSE {arrived})
    ELSE {x \in (consumed + 1)..Len(Stream) : x >= arrived}

BufSize == IF Mutant = "cap_off_by_one" THEN Cap - 1 ELSE Cap
\* one iteration of handleApiRequest: (the banner was written,) Read blocks until something is there, takes
\* min(buffer, available), the command is handled, the reply and the next banner are written
Read == /\ consumed < Len(Stream) /\ NReads < MaxReads
        /\ \E arr \in MayHaveArrived :
           LET avail == arr - consumed
               n     == Min2(BufSize, avail)
               raw   == Sub(Stream, consumed + 1, consumed + n)
               r     == ExecRead(Mux, T, raw)
           IN  /\ arrived' = arr
               /\ consumed' = consumed + n
               /\ T' = r.T
               /\ out' = out \o r.rep \o (IF Mutant = "no_banner" THEN <<>> ELSE <<"B">>)
               /\ hist' = Append(hist, [k |-> "read", a |-> consumed + 1, b |-> consumed + n, avail |-> avail, raw |-> raw,
                                        cmd |-> r.cmd, h |-> r.h, rep |-> r.rep, T0 |-> T, T1 |-> r.T, md |-> r.md])
        /\ UNCHANGED script

Http == /\ NHttp < MaxHttp
        /\ \E q \in HttpReqs :
              LET r == HttpExec(T, q) IN
              /\ T' = r.T
              /\ hist' = Append(hist, [k |-> "http", q |-> q, st |-> r.st, T0 |-> T, T1 |-> r.T])
        /\ UNCHANGED <<script, arrived, consumed, out>>

Next == Read \/ Http
Spec == Init /\ [][Next]_vars

(* ----------------------------------------------------------- guarantees *)
Reads == {i \in 1..Len(hist) : hist[i].k = "read"}
Https == {i \in 1..Len(hist) : hist[i].k = "http"}
\* hist only grows and an invariant is evaluated in every state: the guarantees about one step look at the newest one
NewRead == IF hist # <<>> /\ hist[Len(hist)].k = "read" THEN {Len(hist)} ELSE {}
NewHttp == IF hist # <<>> /\ hist[Len(hist)].k = "http" THEN {Len(hist)} ELSE {}
Cmds == 1..Len(script)
WholeOf(i, c) == hist[i].a = CStart(c) /\ hist[i].b \in {CEnd(c), CEnd(c) + 1}

TypeOK == /\ arrived \in 0..Len(Stream) /\ consumed \in 0..arrived
          /\ \A i \in NewRead : hist[i].md            \* the model never leaves the fragment it can decide

G_Whole == \A i \in NewRead : \A c \in Cmds :
              WholeOf(i, c) => LET e == Code!ExecRead(RealMux, hist[i].T0, script[c]) IN
                               hist[i].rep = e.rep /\ hist[i].T1 = e.T

G_Doc == \A i \in NewRead : \A c \in Cmds :
            (WholeOf(i, c) /\ Code!DocForm(script[c]) # "none") =>
                LET d == Code!DocStep(hist[i].T0, script[c]) IN hist[i].rep = d.rep /\ hist[i].T1 = d.T

G_Banner == /\ out[1] = "B" /\ out[Len(out)] = "B"
            /\ Cardinality({j \in 1..Len(out) : out[j] = "B"}) = Cardinality(Reads) + 1

IsErr(x) == HasPrefix(x, "E:")
G_OneReply == \A i \in NewRead :
                 /\ Len(hist[i].rep) = 1
                 /\ (hist[i].h = "mod" => (hist[i].rep[1] = "ok" \/ IsErr(hist[i].rep[1])))
G_Rejected == \A i \in NewRead : (Len(hist[i].rep) = 1 /\ hist[i].rep[1] # "ok") => hist[i].T1 = hist[i].T0

G_Stream == LET rs == SelectSeq(hist, LAMBDA x : x.k = "read") IN
            \A j \in {Len(rs)} \ {0} :
                /\ rs[j].a = (IF j = 1 THEN 1 ELSE rs[j - 1].b + 1)
                /\ rs[j].b - rs[j].a + 1 = Min2(Cap, rs[j].avail)
                /\ rs[j].raw = Sub(Stream, rs[j].a, rs[j].b)

G_Chain == /\ \A i \in {Len(hist)} \ {0} : hist[i].T0 = (IF i = 1 THEN InitT ELSE hist[i - 1].T1)
           /\ T = (IF hist = <<>> THEN InitT ELSE hist[Len(hist)].T1)

\* the sequential meaning of the first n commands (the code's own meaning of each WHOLE command), no HTTP
RECURSIVE Fold(_, _)
Fold(n, T0) == IF n = 0 THEN [T |-> T0, out |-> <<"B">>]
               ELSE LET p == Fold(n - 1, T0)
                        e == Code!ExecRead(RealMux, p.T, script[n])
                    IN  [T |-> e.T, out |-> p.out \o e.rep \o <<"B">>]
G_Lockstep == Lockstep =>
              LET rs == SelectSeq(hist, LAMBDA x : x.k = "read") IN
              /\ Len(rs) <= Len(script)
              /\ \A j \in 1..Len(rs) : rs[j].a = CStart(j) /\ rs[j].b = CEnd(j) + 1
              /\ (Https = {} => T = Fold(Len(rs), InitT).T /\ out = Fold(Len(rs), InitT).out)

ListOf(Tb, q) == CASE q.kind = "blacklists" -> Tb.bl [] q.kind = "rewriters" -> Tb.rw [] q.kind = "aggregators" -> Tb.agg
                   [] q.kind = "dests" -> LET ks == {i \in 1..Len(Tb.rt) : Tb.rt[i].key = q.key} IN
                                          IF ks = {} THEN <<>> ELSE Tb.rt[MinOf(ks)].dests
                   [] OTHER -> <<>>
ByIndex(q) == q.m = "DELETE" /\ q.kind \in {"blacklists", "rewriters", "aggregators", "dests"}
H_DelIndex == \A i \in NewHttp :
    LET x == hist[i]  q == x.q  l0 == ListOf(x.T0, q)  l1 == ListOf(x.T1, q)  v == Code!AtoiVal(q.idx) IN
    (ByIndex(q) /\ Code!SignedDigits(q.idx) /\ (q.kind = "dests" => \E r \in 1..Len(x.T0.rt) : x.T0.rt[r].key = q.key)) =>
        LET o == [op |-> "delidx", i |-> v, e |-> 0, f |-> 0, k |-> 0] IN
        IF v >= 0 /\ ~TO!OpErr(l0, o) THEN x.st = 200 /\ l1 = TO!ApplyOp(l0, o)
        ELSE x.st # 200 /\ x.T1 = x.T0

H_Key == \A i \in NewHttp :
    LET x == hist[i]  q == x.q  ks == {r \in 1..Len(x.T0.rt) : x.T0.rt[r].key = q.key} IN
    /\ (q.m = "DELETE" /\ q.kind = "routes") =>
          /\ x.st = 200
          /\ x.T1.rt = (IF ks = {} THEN x.T0.rt ELSE TO!RemoveAt(x.T0.rt, MinOf(ks)))
    /\ (q.m = "GET" /\ q.kind = "routes" /\ q.key # "") => (x.st = 200) = (ks # {})
    /\ (q.m = "DELETE" /\ q.kind = "dests" /\ ks = {}) => x.st # 200 /\ x.T1 = x.T0

H_Others == \A i \in NewHttp :
    LET x == hist[i]  q == x.q IN
    /\ q.kind # "blacklists" => x.T1.bl = x.T0.bl
    /\ q.kind # "rewriters" => x.T1.rw = x.T0.rw
    /\ q.kind # "aggregators" => x.T1.agg = x.T0.agg
    /\ q.kind \notin {"routes", "dests"} => x.T1.rt = x.T0.rt
    /\ q.m = "GET" => x.T1 = x.T0
    /\ x.st # 200 => x.T1 = x.T0

(* ------------------------------------------------------- non-guarantees *)
\* Each W_ is a state predicate that TLC must find reachable (the check runs NotW_ as an invariant and wants it
\* violated).  None of them is a defect with respect to a documented promise; they are what the code does.
InCmd(i, c) == hist[i].a <= CEnd(c) /\ hist[i].b >= CStart(c)          \* the Read holds text of command c
\* two commands that arrived together are ONE command text
W_Merged == \E i \in Reads : \E c \in Cmds : c + 1 \in Cmds /\ InCmd(i, c) /\ InCmd(i, c + 1)
\* ... answered "ok" although the table is not what the two commands, one after the other, would have made of it
SeqT(T0, c) == Code!ExecRead(RealMux, Code!ExecRead(RealMux, T0, script[c]).T, script[c + 1]).T
W_MergedSilentOk == \E i \in Reads : \E c \in Cmds :
    /\ c + 1 \in Cmds /\ hist[i].a = CStart(c) /\ hist[i].b >= CEnd(c + 1)
    /\ hist[i].rep = <<"ok">> /\ hist[i].T1 # SeqT(hist[i].T0, c)
\* ... or answered once where two answers were due (view + view = one view)
W_MergedOneReply == \E i \in Reads : \E c \in Cmds :
    c + 1 \in Cmds /\ hist[i].a = CStart(c) /\ hist[i].b >= CEnd(c + 1) /\ Len(hist[i].rep) = 1
\* a command that arrived in two pieces is two commands
W_Split == \E i, j \in Reads : \E c \in Cmds : i < j /\ InCmd(i, c) /\ InCmd(j, c)
\* ... and a piece of it can be a valid, different command that changes the table
W_FragmentApplied == \E i \in Reads : \E c \in Cmds :
    /\ hist[i].a = CStart(c) /\ hist[i].b < CEnd(c) /\ hist[i].rep = <<"ok">> /\ hist[i].T1 # hist[i].T0
    /\ hist[i].T1 # Code!ExecRead(RealMux, hist[i].T0, script[c]).T
\* a command longer than the buffer is cut although it arrived whole
W_Truncated == \E i \in Reads : \E c \in Cmds :
    /\ hist[i].a = CStart(c) /\ hist[i].avail >= Len(script[c]) /\ hist[i].b < CEnd(c) /\ hist[i].b - hist[i].a + 1 = Cap
\* double spaces survive the telnet layer as empty tokens and mean something to imperatives
W_EmptyToken == \E i \in Reads : \E j \in 1..Len(SplitSp(hist[i].cmd)) : SplitSp(hist[i].cmd)[j] = "" /\ hist[i].rep = <<"ok">>
W_SingleSpaceRefused == \E i \in Reads : hist[i].cmd = "addRoute sendAllMatch k3 h:5" /\ IsErr(hist[i].rep[1])
W_DoubleSpaceRefused == \E i \in Reads : hist[i].cmd = "delRoute  k1" /\ IsErr(hist[i].rep[1])
\* the handler is chosen by prefix: "viewx" is view, "helpme" is help, "addfoo" goes to imperatives
W_PrefixHandler == \E i \in Reads : hist[i].h \in {"view", "help"} /\ SplitSp(hist[i].cmd)[1] \notin {"view", "help"}
\* extra words after a complete command are ignored without a word
W_ExtraIgnored == \E i \in Reads : \E c \in Cmds :
    WholeOf(i, c) /\ script[c] = "delRoute k1 junk" /\ hist[i].rep = <<"ok">> /\ hist[i].T1 # hist[i].T0
\* the reply "unrecognized command" of the telnet layer itself cannot occur: the catch-all "" is registered
W_TelnetUnrecognized == \E i \in Reads : hist[i].rep = <<"unrec">>         \* NOT reachable (checked as an invariant)
\* HTTP: a non-numeric index is index 0
W_NonNumericDeletesFirst == \E i \in Https : ByIndex(hist[i].q) /\ ~Code!SignedDigits(hist[i].q.idx) /\ hist[i].q.idx # ""
                                              /\ hist[i].st = 200 /\ hist[i].T1 # hist[i].T0
\* HTTP: a negative index is not answered at all (the table panics, net/http drops the connection)
W_NegativeNoResponse == \E i \in Https : hist[i].st = 0 /\ ByIndex(hist[i].q) /\ Code!AtoiVal(hist[i].q.idx) < 0
\* HTTP: neither is any "not found": an index beyond the end, an unknown route (see NotFound in AdminConnOps)
W_NotFoundNoResponse == \E i \in Https :
    hist[i].st = 0 /\ (hist[i].q.m = "GET" \/ (ByIndex(hist[i].q) /\ Code!AtoiVal(hist[i].q.idx) >= 0))
\* HTTP: deleting an unknown route is 200
W_UnknownKeyOk == \E i \in Https : hist[i].q.m = "DELETE" /\ hist[i].q.kind = "routes" /\ hist[i].st = 200 /\ hist[i].T1 = hist[i].T0
\* HTTP: a route cannot be added (POST /routes is always 400)
W_PostRouteRefused == \E i \in Https : hist[i].q.m = "POST" /\ hist[i].q.kind = "routes" /\ hist[i].q.idx = "ok" /\ hist[i].st = 400

NotW_Merged == ~W_Merged
NotW_MergedSilentOk == ~W_MergedSilentOk
NotW_MergedOneReply == ~W_MergedOneReply
NotW_Split == ~W_Split
NotW_FragmentApplied == ~W_FragmentApplied
NotW_Truncated == ~W_Truncated
NotW_EmptyToken == ~W_EmptyToken
NotW_SingleSpaceRefused == ~W_SingleSpaceRefused
NotW_DoubleSpaceRefused == ~W_DoubleSpaceRefused
NotW_PrefixHandler == ~W_PrefixHandler
NotW_ExtraIgnored == ~W_ExtraIgnored
NotW_TelnetUnrecognized == ~W_TelnetUnrecognized
NotW_NonNumericDeletesFirst == ~W_NonNumericDeletesFirst
NotW_NegativeNoResponse == ~W_NegativeNoResponse
NotW_NotFoundNoResponse == ~W_NotFoundNoResponse
NotW_UnknownKeyOk == ~W_UnknownKeyOk
NotW_PostRouteRefused == ~W_PostRouteRefused

\* the ideal that the code does NOT meet (run as an invariant, expected violated): every index that is not a
\* number of the list is refused with an error status (and a response)
Ideal_IndexRefused == \A i \in NewHttp :
    LET x == hist[i]  q == x.q  l0 == ListOf(x.T0, q)  v == Code!AtoiVal(q.idx) IN
    (ByIndex(q) /\ (~Code!SignedDigits(q.idx) \/ v < 0 \/ v >= Len(l0))) => x.st >= 400 /\ x.T1 = x.T0
=============================================================================
