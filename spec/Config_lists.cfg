SPECIFICATION Spec
INVARIANTS EmitList EntriesIndependent ZeroHonouredInList UnsetTakesDefaultInList OptionStaysInItsEntry
CHECK_DEADLOCK FALSE
