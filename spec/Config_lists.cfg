SPECIFICATION Spec
INVARIANTS EmitList EntriesIndependent UnsetTakesDefaultInList OptionStaysInItsEntry
CHECK_DEADLOCK FALSE
