SPECIFICATION GSpec
INVARIANTS EmitH
CHECK_DEADLOCK FALSE
CONSTANTS Family = "list" Big = FALSE Memo = "none"
