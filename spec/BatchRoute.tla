----------------------------- MODULE BatchRoute -----------------------------
(* Implementation-shaped model of the three batching routes and their common *)
(* front end:                                                                 *)
(*   route/dispatch.go    dispatchBlocking / dispatchNonBlocking into the     *)
(*                        bounded channel `buf` (numBuffered, numDropBuffFull)*)
(*   route/kafkamdm.go    Kind = "kafka"                                      *)
(*   route/pubsub.go      Kind = "pubsub"                                     *)
(*   route/cloudwatch.go  Kind = "cloudwatch"                                 *)
(* One dispatcher goroutine (a Dispatch call is two steps: the call, then the *)
(* channel operation; a blocking send on a full channel parks the caller and  *)
(* the receive that frees a slot hands it over, as the Go runtime does), the  *)
(* run loop with one action per statement group:                              *)
(*   Take     case buf, ok := <-r.buf (ok): numBuffered.Dec                   *)
(*   Pre      pubsub only: flush first if msgbuf.Len()+len(buf)+1 >= max      *)
(*   Parse    parseMetric / ParseDataPoint / the three fields of cloudwatch;  *)
(*            an unparsable item is skipped (pubsub counts it)                *)
(*   Append   append to the pending batch (pubsub: cnt++)                     *)
(*   Check    kafka: len == flushMaxNum -> flush; cloudwatch: len >=          *)
(*            flushMaxSize -> flush, and only THEN cnt++ (Inc) - the code as  *)
(*            it is, Protocol = "pinned"                                      *)
(*   Timer    case <-ticker.C                                                 *)
(*   OnClosed case buf, ok := <-r.buf (!ok): only when the closed channel is  *)
(*            empty, i.e. what was queued has been drained; the final flush   *)
(*   Pub/Send/Sleep   flush(): kafka repeats SendMessages with the same       *)
(*            payload until it succeeds (100 ms sleep between attempts);      *)
(*            pubsub / cloudwatch: publish(batch, cnt) returns at once when   *)
(*            cnt == 0, counts a failure and gives the batch up, and the      *)
(*            caller resets the batch whatever happened.  Client-side         *)
(*            failures reach no endpoint: pubsub Publish on a stopped topic,  *)
(*            cloudwatch PutMetricData with an empty MetricData (validation). *)
(* Shutdown, Protocol = "pinned" (the code as it is): close(buf) and return - *)
(* nobody waits for the run loop; pubsub additionally calls psTopic.Stop()    *)
(* right after the close: it waits for a publish in flight, and every publish *)
(* after it fails on the client side - the loop is still draining then.       *)
(* Protocol = "repaired": Shutdown waits for the loop to return (pubsub: and  *)
(* stops the topic afterwards); cloudwatch counts the item before the flush.  *)
(* The endpoint answers each send ok / fail, at most MaxFaults failures.      *)
(* The level-A observation o (BatchRouteOps) is updated wherever the outside  *)
(* world sees something; the statements are checked on it (LevelA, AtExit)    *)
(* and, independently, on the model's own state.  No VIEW: the observation    *)
(* is part of the state (the state spaces are small enough).                  *)
(* Named deviations (Mutant), each rejected by TLC (checks/xbatch.py):        *)
(*   flush_drops_trigger   pubsub: the item that triggered the flush is lost  *)
(*   no_reset              the batch is not reset after a successful send     *)
(*   retry_tail_only       kafka: the repetition resends only the tail        *)
(*   give_up               kafka: a failed batch is given up                  *)
(*   no_final_flush        the final flush on shutdown is skipped             *)
(*   no_drain              the loop returns on shutdown with items queued     *)
(*   drop_uncounted        a dropped item is not counted                      *)
(*   drop_when_not_full    non-blocking Dispatch drops one slot early         *)
(*   nb_no_default         non-blocking Dispatch blocks on a full buffer      *)
(*   threshold_off_by_one  the threshold test is off by one                   *)
(*   bad_item_appended     an unparsable item is batched                      *)
(*   no_timer_flush, no_retry   (liveness only) the timer does not flush;     *)
(*                         kafka never repeats a failed send                  *)
EXTENDS BatchRouteOps, TLC, Json

CONSTANTS Kind,          \* "kafka" | "pubsub" | "cloudwatch"
          BufSize,       \* capacity of buf
          FlushMax,      \* flushMaxNum (kafka) / flushMaxSize (pubsub: bytes, cloudwatch: items)
          MaxItems,      \* Dispatch calls
          Sizes,         \* sizes an item can have (pubsub: len(line)+1; count kinds: {1})
          MaxBad,        \* at most this many unparsable items
          MaxFaults,     \* the endpoint fails at most this many sends
          Blocking,
          TimerOn,       \* FALSE: flushMaxWait is longer than the execution
          AllowShutdown,
          Protocol,      \* "pinned" | "repaired"
          Mutant,        \* "" or a named deviation
          Tolerated,     \* clauses the configuration is known to break (the code as it is); {} otherwise
          Record         \* keep the environment's history (scenario generation); FALSE for model checking

VARIABLES buf,      \* Seq of items [id, sz, bad]
          dpc,      \* dispatcher: "idle" | "call" | "parked"
          ditem,    \* the item of the call in progress
          nd, nbad,
          pc,       \* run loop: "select" | "pre" | "parse" | "append" | "check" | "inc" | "pub" | "send" | "sleep" | "exited"
          x,        \* the item in hand
          pend,     \* the pending batch: metrics / msgbuf / putMetricDataInput.MetricData
          cnt,      \* pubsub / cloudwatch: `cnt`
          rret,     \* where flush() returns to: "select" | "parse" | "inc" | "exit"
          nfaults,
          drops, errs, nout, nparse, gauge,      \* numDropBuffFull, numErrFlush, numOut, numParseError, numBuffered
          lost,     \* ids really discarded by Dispatch
          cfailed,  \* ids of batches that failed on the client side (reached no endpoint) or were silently discarded
          closed,   \* close(buf) done
          stopped,  \* pubsub: psTopic.Stop() has set the flag
          spc,      \* Shutdown(): "idle" | "call" | "stop" | "stopwait" | "wait" | "returned"
          o,
          hist      \* environment history (only when Record)

vars == <<buf, dpc, ditem, nd, nbad, pc, x, pend, cnt, rret, nfaults, drops, errs, nout, nparse, gauge, lost, cfailed,
          closed, stopped, spc, o, hist>>
H(e) == IF Record THEN Append(hist, e) ELSE hist

NoItem == [id |-> 0, sz |-> 0, bad |-> FALSE]
Ids(s) == {s[i].id : i \in DOMAIN s}
IdSeq(s) == [i \in DOMAIN s |-> s[i].id]
RECURSIVE Size(_)
Size(s) == IF s = <<>> THEN 0 ELSE Head(s).sz + Size(Tail(s))
Repaired == Protocol = "repaired"

Init == /\ buf = <<>> /\ dpc = "idle" /\ ditem = NoItem /\ nd = 0 /\ nbad = 0
        /\ pc = "select" /\ x = NoItem /\ pend = <<>> /\ cnt = 0 /\ rret = "select" /\ nfaults = 0
        /\ drops = 0 /\ errs = 0 /\ nout = 0 /\ nparse = 0 /\ gauge = 0 /\ lost = {} /\ cfailed = {}
        /\ closed = FALSE /\ stopped = FALSE /\ spc = "idle" /\ o = ObsInit /\ hist = <<>>

------------------------------------------------------------------------------
(* Dispatch *)
DispatchCall(sz, bad) ==
  /\ dpc = "idle" /\ spc = "idle" /\ nd < MaxItems /\ (bad => nbad < MaxBad)
  /\ nd' = nd + 1 /\ nbad' = IF bad THEN nbad + 1 ELSE nbad
  /\ ditem' = [id |-> nd + 1, sz |-> sz, bad |-> bad] /\ dpc' = "call"
  /\ gauge' = IF Blocking THEN gauge + 1 ELSE gauge            \* dispatchBlocking: gauge.Inc(1) before the send
  /\ o' = ODisp(o, nd + 1, sz, sz, bad, 0) /\ hist' = H([op |-> "d", sz |-> sz, bad |-> bad])
  /\ UNCHANGED <<buf, pc, x, pend, cnt, rret, nfaults, drops, errs, nout, nparse, lost, cfailed, closed, stopped, spc>>

Blocks == Blocking \/ Mutant = "nb_no_default"
FullBuf == IF Mutant = "drop_when_not_full" THEN Len(buf) >= BufSize - 1 ELSE Len(buf) >= BufSize

\* the channel operation
DispatchDo ==
  /\ dpc = "call"
  /\ IF Len(buf) < BufSize /\ (Blocks \/ ~FullBuf)
     THEN /\ buf' = Append(buf, ditem) /\ dpc' = "idle"
          /\ gauge' = IF Blocking THEN gauge ELSE gauge + 1
          /\ o' = ORet(o, ditem.id, "acc", Blocking, BufSize, 0)
          /\ UNCHANGED <<drops, lost>>
     ELSE IF Blocks
     THEN dpc' = "parked" /\ UNCHANGED <<buf, gauge, drops, lost, o>>
     ELSE /\ dpc' = "idle" /\ lost' = lost \cup {ditem.id}
          /\ IF Mutant = "drop_uncounted"
             THEN drops' = drops /\ o' = ORet(o, ditem.id, "acc", Blocking, BufSize, 0)
             ELSE drops' = drops + 1 /\ o' = ORet(o, ditem.id, "drop", Blocking, BufSize, 0)
          /\ UNCHANGED <<buf, gauge>>
  /\ UNCHANGED <<ditem, nd, nbad, pc, x, pend, cnt, rret, nfaults, errs, nout, nparse, cfailed, closed, stopped, spc, hist>>

------------------------------------------------------------------------------
(* run loop *)
Flush(r) == pc' = "pub" /\ rret' = r
Goto(p) == pc' = p /\ UNCHANGED rret

\* `buf, ok := <-r.buf` with ok: the head leaves; a parked caller's item takes the freed slot and its call returns
Take ==
  /\ pc = "select" /\ buf # <<>>
  /\ x' = Head(buf) /\ gauge' = gauge - 1
  /\ IF dpc = "parked"
     THEN buf' = Append(Tail(buf), ditem) /\ dpc' = "idle" /\ o' = ORet(o, ditem.id, "acc", Blocking, BufSize, 0)
     ELSE buf' = Tail(buf) /\ UNCHANGED <<dpc, o>>
  /\ Goto(IF Kind = "pubsub" THEN "pre" ELSE "parse")
  /\ UNCHANGED <<ditem, nd, nbad, pend, cnt, nfaults, drops, errs, nout, nparse, lost, cfailed, closed, stopped, spc, hist>>

LoopOnly == UNCHANGED <<buf, dpc, ditem, nd, nbad, nfaults, drops, gauge, lost, closed, stopped, spc>>

\* pubsub: if msgbuf.Len()+len(buf)+1 >= r.flushMaxSize { flush() }
Pre ==
  /\ pc = "pre"
  /\ IF Size(pend) + x.sz >= FlushMax + (IF Mutant = "threshold_off_by_one" THEN 1 ELSE 0)
     THEN Flush(IF Mutant = "flush_drops_trigger" THEN "select" ELSE "parse")
     ELSE Goto("parse")
  /\ UNCHANGED <<x, pend, cnt, errs, nout, nparse, cfailed, o, hist>> /\ LoopOnly

Parse ==
  /\ pc = "parse"
  /\ IF x.bad /\ Mutant # "bad_item_appended"
     THEN Goto("select") /\ nparse' = IF Kind = "pubsub" THEN nparse + 1 ELSE nparse
     ELSE Goto("append") /\ UNCHANGED nparse
  /\ UNCHANGED <<x, pend, cnt, errs, nout, cfailed, o, hist>> /\ LoopOnly

CountFirst == Kind = "pubsub" \/ (Kind = "cloudwatch" /\ Repaired)
Append1 ==
  /\ pc = "append"
  /\ pend' = Append(pend, x)
  /\ cnt' = IF CountFirst THEN cnt + 1 ELSE cnt
  /\ Goto(IF Kind = "pubsub" THEN "select" ELSE "check")
  /\ UNCHANGED <<x, errs, nout, nparse, cfailed, o, hist>> /\ LoopOnly

Threshold == FlushMax + (IF Mutant = "threshold_off_by_one" THEN 1 ELSE 0)
Check ==
  /\ pc = "check"
  /\ LET after == IF Kind = "cloudwatch" /\ ~Repaired THEN "inc" ELSE "select"
         hit == IF Kind = "kafka" THEN Len(pend) = Threshold ELSE Len(pend) >= Threshold
     IN IF hit THEN Flush(after) ELSE Goto(after)
  /\ UNCHANGED <<x, pend, cnt, errs, nout, nparse, cfailed, o, hist>> /\ LoopOnly

\* cloudwatch as it is: cnt++ after the flush that the item itself may have triggered
Inc ==
  /\ pc = "inc" /\ cnt' = cnt + 1 /\ Goto("select")
  /\ UNCHANGED <<x, pend, errs, nout, nparse, cfailed, o, hist>> /\ LoopOnly

Timer ==
  /\ TimerOn /\ pc = "select" /\ Mutant # "no_timer_flush"
  /\ IF Kind = "pubsub" THEN cnt > 0 ELSE pend # <<>>        \* otherwise nothing happens
  /\ Flush("select") /\ hist' = H([op |-> "t"])
  /\ UNCHANGED <<x, pend, cnt, errs, nout, nparse, cfailed, o>> /\ LoopOnly

\* the receive reports !ok only when the closed channel is empty
OnClosed ==
  /\ pc = "select" /\ closed /\ (buf = <<>> \/ Mutant = "no_drain")
  /\ IF Mutant = "no_final_flush" \/ (Kind = "kafka" /\ pend = <<>>)
     THEN Goto("exited") ELSE Flush("exit")
  /\ UNCHANGED <<x, pend, cnt, errs, nout, nparse, cfailed, o, hist>> /\ LoopOnly

Return == pc' = (IF rret = "exit" THEN "exited" ELSE rret) /\ UNCHANGED rret
Reset == IF Mutant = "no_reset" THEN UNCHANGED <<pend, cnt>> ELSE pend' = <<>> /\ cnt' = 0

\* the head of flush(): kafka builds the payload; publish() of the others returns early / fails on the client side
Pub ==
  /\ pc = "pub"
  /\ IF Kind = "kafka" THEN Goto("send") /\ UNCHANGED <<pend, cnt, errs, cfailed>>
     ELSE IF cnt = 0
     THEN \* publish returns at once; the caller resets the batch all the same
          Return /\ pend' = <<>> /\ cnt' = 0 /\ cfailed' = cfailed \cup Ids(pend) /\ UNCHANGED errs
     ELSE IF (Kind = "pubsub" /\ stopped) \/ (Kind = "cloudwatch" /\ pend = <<>>)
     THEN \* Publish on a stopped topic / PutMetricData without MetricData: an error, no request
          Return /\ pend' = <<>> /\ cnt' = 0 /\ cfailed' = cfailed \cup Ids(pend) /\ errs' = errs + 1
     ELSE Goto("send") /\ UNCHANGED <<pend, cnt, errs, cfailed>>
  /\ UNCHANGED <<x, nout, nparse, o, hist>> /\ LoopOnly

Outcomes == {"ok"} \cup (IF nfaults < MaxFaults THEN {"fail"} ELSE {})

Send(st) ==
  /\ pc = "send" /\ st \in Outcomes
  /\ o' = OSend(o, Kind, FlushMax, IdSeq(pend), st, ~TimerOn, 0) /\ hist' = H([op |-> "f", st |-> st])
  /\ IF st = "ok"
     THEN /\ nout' = nout + (IF Kind = "kafka" THEN Len(pend) ELSE cnt)
          /\ Reset /\ Return /\ UNCHANGED <<errs, nfaults>>
     ELSE /\ errs' = errs + 1 /\ nfaults' = nfaults + 1 /\ UNCHANGED nout
          /\ IF Kind = "kafka" /\ Mutant # "give_up"
             THEN /\ Goto("sleep") /\ UNCHANGED cnt
                  /\ pend' = IF Mutant = "retry_tail_only" /\ Len(pend) > 1 THEN Tail(pend) ELSE pend
             ELSE Reset /\ Return
  /\ UNCHANGED <<x, nparse, cfailed, buf, dpc, ditem, nd, nbad, drops, gauge, lost, closed, stopped, spc>>

Sleep ==
  /\ pc = "sleep" /\ Mutant # "no_retry" /\ Goto("send")
  /\ UNCHANGED <<x, pend, cnt, errs, nout, nparse, cfailed, o, hist>> /\ LoopOnly

------------------------------------------------------------------------------
(* Shutdown *)
SdOnly == UNCHANGED <<buf, dpc, ditem, nd, nbad, pc, x, pend, cnt, rret, nfaults, drops, errs, nout, nparse, gauge, lost, cfailed>>

\* (a Dispatch call in progress when buf is closed panics: the environment does not do that)
SdCall ==
  /\ AllowShutdown /\ spc = "idle" /\ dpc = "idle"
  /\ spc' = "call" /\ o' = OSdCall(o, 0) /\ hist' = H([op |-> "sd"]) /\ UNCHANGED <<closed, stopped>> /\ SdOnly

SdClose ==
  /\ spc = "call" /\ closed' = TRUE /\ UNCHANGED stopped
  /\ IF Repaired THEN spc' = "wait" /\ UNCHANGED o
     ELSE IF Kind = "pubsub" THEN spc' = "stop" /\ UNCHANGED o
     ELSE spc' = "returned" /\ o' = OSdRet(o, Kind, 0)
  /\ SdOnly /\ UNCHANGED hist

\* pubsub as it is: psTopic.Stop() sets the flag, flushes the bundler and waits for the publish in flight
SdStop == spc = "stop" /\ stopped' = TRUE /\ spc' = "stopwait" /\ UNCHANGED <<closed, o, hist>> /\ SdOnly
SdStopRet == spc = "stopwait" /\ pc # "send" /\ spc' = "returned" /\ o' = OSdRet(o, Kind, 0) /\ UNCHANGED <<closed, stopped, hist>> /\ SdOnly

\* repaired: wait for the run loop (pubsub: then stop the topic)
SdWait ==
  /\ spc = "wait" /\ pc = "exited" /\ spc' = "returned" /\ o' = OSdRet(o, Kind, 0)
  /\ stopped' = (Kind = "pubsub") /\ UNCHANGED <<closed, hist>> /\ SdOnly

------------------------------------------------------------------------------
LoopStep == Take \/ Pre \/ Parse \/ Append1 \/ Check \/ Inc \/ Timer \/ OnClosed \/ Pub \/ (\E st \in Outcomes : Send(st)) \/ Sleep
ShutdownStep == SdClose \/ SdStop \/ SdStopRet \/ SdWait
Next == (\E sz \in Sizes, bad \in BOOLEAN : DispatchCall(sz, bad)) \/ DispatchDo \/ LoopStep \/ SdCall \/ ShutdownStep

Spec == Init /\ [][Next]_vars
\* the scheduler is fair to the goroutines of the route and to the dispatcher's channel operation; new Dispatch
\* calls, the decision to shut down and the endpoint's answers (at most MaxFaults failures) are unconstrained
FairSpec == Spec /\ WF_vars(LoopStep) /\ WF_vars(DispatchDo) /\ WF_vars(ShutdownStep)

------------------------------------------------------------------------------
(* the statements on the model *)
InHand == IF pc \in {"pre", "parse", "append"} \/ (pc \in {"pub", "send"} /\ rret = "parse") THEN {x.id} ELSE {}
InFlight == Ids(buf) \cup InHand \cup Ids(pend)

\* every clause of the level-A statement, on the observation (Tolerated: what the code as it is breaks)
LevelA == ViolatedClauses(o) \subseteq Tolerated
\* the end of an execution: the loop has returned and no call is in progress (one invariant per clause, so that
\* TLC names the clause)
ExitViol == IF pc = "exited" /\ dpc = "idle"
            THEN ViolatedClauses(OFinal([o EXCEPT !.exited = TRUE], Kind, Blocking, drops, errs, nout,
                                        IF Kind = "pubsub" THEN nparse ELSE -1, gauge, 0)) \ Tolerated
            ELSE {}
AtExit == ExitViol = {}
ExitNothingLeftBehind == "NothingLeftBehind" \notin ExitViol
ExitAllTransmitted == "AllTransmitted" \notin ExitViol
ExitErrsCounted == "ErrsCounted" \notin ExitViol
ExitSpuriousError == "SpuriousError" \notin ExitViol
ExitOutCounted == "OutCounted" \notin ExitViol
ExitDropsCounted == "DropsCounted" \notin ExitViol
ExitParseCounted == "ParseCounted" \notin ExitViol
ExitGaugeZero == "GaugeZero" \notin ExitViol
\* an accepted parsable item is queued, in hand, pending, or done with - or it went down with a failure that the
\* route counted (cfailed: only where the code as it is fails on the client side)
NeverAbandoned == \A id \in Want(o) : id \in InFlight \/ id \in Done(o, Kind) \/ id \in cfailed
ClientFailuresTolerated == cfailed = {} \/ "AllTransmitted" \in Tolerated \/ "NoSkip" \in Tolerated
DropsExact == drops = Cardinality(lost) /\ lost = o.dropd
BlockingNeverDrops == Blocking => drops = 0 /\ lost = {}
NonBlockingNeverBlocks == ~Blocking => dpc # "parked"
ParkedOnFull == dpc = "parked" => Len(buf) = BufSize
GaugeExact == gauge = Len(buf) + (IF Blocking /\ dpc \in {"call", "parked"} THEN 1 ELSE 0)
PendingBelowThreshold ==      \* at the select the pending batch is never full
  pc = "select" => IF CountKind(Kind) THEN Len(pend) < FlushMax ELSE Len(pend) <= 1 \/ Size(pend) < FlushMax
TypeOK == /\ Len(buf) <= BufSize /\ drops \in 0 .. MaxItems /\ errs \in 0 .. MaxFaults + MaxItems + 1
          /\ nd \in 0 .. MaxItems /\ cnt \in 0 .. MaxItems + 1

\* (separately, Protocol = "pinned" breaks it: Shutdown does not wait for the run loop)
ShutdownWaitsForLoop == spc = "returned" => pc = "exited"

\* liveness: finitely many failures, fair scheduling
LoopExits == (spc = "call") ~> (pc = "exited")
Unparks == (dpc = "parked") ~> (dpc = "idle")
\* (Dispatch calls are finitely many and "done with" is stable: the same as  \A id : id \in Want ~> id done with)
TimerFlushes == <>[](Want(o) \subseteq (Done(o, Kind) \cup cfailed))

------------------------------------------------------------------------------
(* scenario generation (simulation mode, Record = TRUE): the environment history of finished behaviours *)
Terminal == pc = "exited" /\ dpc = "idle" /\ nd > 0
Emit == Terminal => PrintT("@@S " \o ToJson([hist |-> hist]))
=============================================================================
