SPECIFICATION TSpec
CONSTRAINT HighWater
POSTCONDITION Post
CHECK_DEADLOCK FALSE
