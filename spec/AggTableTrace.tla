--------------------------- MODULE AggTableTrace ---------------------------
(* C11 trace specification.  Events recorded from a real table.Table with   *)
(* real aggregators (out = Table.In, injected clock, explicit ticks) and    *)
(* capture routes:                                                           *)
(*  hist     : a fresh table with configuration cfg                          *)
(*  clock    : the injected clock shows t                                    *)
(*  dispatch : raw line (name, val, ts) given to Table.Dispatch; out = what  *)
(*             each capture route received, verbatim                         *)
(*  tick     : aggregator i ticked at time t; out = what the capture routes  *)
(*             received (the aggregate lines, via Table.In)                  *)
(* TLC recomputes every `out` from AggTable's operators.                     *)
EXTENDS AggTableOps, Json, TLCExt, IOUtils

TLog == ndJsonDeserialize("trace.ndjson")
VARIABLES l, tcfg, tnow, tb
tvars == <<l, tcfg, tnow, tb>>
ASSUME TLCSet(1, 0)
Ev == TLog[l]
Is(e) == l <= Len(TLog) /\ Ev.ev = e /\ l' = l + 1

EmptyCfg == [strict |-> FALSE, black |-> <<>>, rw |-> <<>>, aggs |-> <<>>, routes |-> <<>>]
TInit == l = 1 /\ tcfg = EmptyCfg /\ tnow = 0 /\ tb = <<>>

Same(out, exp) == Range(out) = exp /\ Len(out) = Cardinality(exp)

THist  == Is("hist") /\ tcfg' = Ev.cfg /\ tnow' = Ev.now /\ tb' = <<>>
TClock == Is("clock") /\ Ev.t >= tnow /\ tnow' = Ev.t /\ UNCHANGED <<tcfg, tb>>
TDispatch ==
  /\ Is("dispatch")
  /\ LET ln  == [name |-> Ev.name, val |-> Ev.val, ts |-> Ev.ts, vi |-> Ev.vi, ti |-> Ev.ti]
         res == Raw(tcfg, ln)
     IN /\ Same(Ev.out, Deliver(res.routes, res.name, ln.val, ln.ts))
        /\ tb' = Feed(tcfg, tb, res.fed, ln, tnow)
  /\ UNCHANGED <<tcfg, tnow>>
TTick ==
  /\ Is("tick")
  /\ LET em == Emitted(tcfg, tb, Ev.i, Ev.t)
     IN Same(Ev.out, UNION {Deliver(RoutesFor(tcfg, a.name), a.name, a.val, a.ts) : a \in em})
  /\ tb' = [k \in DOMAIN tb \ Due(tcfg, tb, Ev.i, Ev.t) |-> tb[k]]
  /\ UNCHANGED <<tcfg, tnow>>

TNext == THist \/ TClock \/ TDispatch \/ TTick
TSpec == TInit /\ [][TNext]_tvars
HighWater == TLCSet(1, IF l - 1 > TLCGet(1) THEN l - 1 ELSE TLCGet(1))
Post == PrintT("@@TRACE " \o ToJson([matched |-> TLCGet(1)]))
=============================================================================
