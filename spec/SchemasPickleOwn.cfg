SPECIFICATION Spec
INVARIANT EmittedImmutable
CHECK_DEADLOCK FALSE
