SPECIFICATION Spec
INVARIANTS PinnedBody
CHECK_DEADLOCK FALSE
