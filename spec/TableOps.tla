------------------------------ MODULE TableOps ------------------------------
(* C18, level A: the routing table as the property statement talks about it. *)
(* A table list (routes of a table, destinations of a route, blacklist,      *)
(* rewriters, aggregations) is a sequence of entries [id, f]:                *)
(*   id  identity of the entry (fresh for every add); its key is KeyOf(id)   *)
(*   f   its filter: 0 accepts every metric, c > 0 accepts class c only      *)
(* The operators below are the sequential semantics of the admin operations  *)
(* ("deleting by index or key removes that entry only, deleting an unknown   *)
(* route is a no-op, an index beyond the end is rejected with an error and   *)
(* leaves the table unchanged") and the atomicity condition of one Dispatch. *)
(* Shared by TableMem (level B model), TableSched (schedule generator) and   *)
(* TableTrace (validation of what the real code did).                        *)
EXTENDS Integers, Sequences

CONSTANT KeyMod          \* KeyOf(id) = id % KeyMod (several entries may carry one key)

KeyOf(e) == e % KeyMod

\* an operation is a record [op, e, f, i, k] (unused fields 0)
\*   add     append entry e with filter f
\*   delidx  delete the entry at 0-based index i
\*   delkey  delete the first entry whose key is k
\*   updidx  set the filter of the entry at index i to f
\*   updkey  set the filter of the first entry whose key is k to f
RemoveAt(s, i) == SubSeq(s, 1, i - 1) \o SubSeq(s, i + 1, Len(s))

FirstKey(s, k) ==
  IF \E i \in 1..Len(s) : KeyOf(s[i].id) = k
  THEN CHOOSE i \in 1..Len(s) : KeyOf(s[i].id) = k /\ \A j \in 1..(i - 1) : KeyOf(s[j].id) # k
  ELSE 0

\* the operation must be refused with an error (and the table left unchanged)
OpErr(s, o) ==
  IF o.op \in {"delidx", "updidx"} THEN o.i >= Len(s)
  ELSE IF o.op = "updkey" THEN FirstKey(s, o.k) = 0
  ELSE FALSE

ApplyOp(s, o) ==
  CASE o.op = "add"    -> Append(s, [id |-> o.e, f |-> o.f])
    [] o.op = "delidx" -> IF o.i < Len(s) THEN RemoveAt(s, o.i + 1) ELSE s
    [] o.op = "delkey" -> IF FirstKey(s, o.k) = 0 THEN s ELSE RemoveAt(s, FirstKey(s, o.k))
    [] o.op = "updidx" -> IF o.i < Len(s) THEN [s EXCEPT ![o.i + 1].f = o.f] ELSE s
    [] o.op = "updkey" -> IF FirstKey(s, o.k) = 0 THEN s ELSE [s EXCEPT ![FirstKey(s, o.k)].f = o.f]
    [] OTHER -> s

Accepts(f, c) == f = 0 \/ f = c

Ids(v) == [i \in 1..Len(v) |-> v[i].id]
ToSet(s) == {s[i] : i \in 1..Len(s)}
FilterOf(v, e) == LET i == CHOOSE x \in 1..Len(v) : v[x].id = e IN v[i].f

(* Atomicity of one Dispatch of a metric of class c that started when version *)
(* lo was current and ended when version hi was (vs = all versions):         *)
(* the entries it was delivered to, in visiting order, are those of ONE      *)
(* version j of the list (structure: no skip, no duplicate, no foreign       *)
(* entry), and each entry of that version took / refused the metric          *)
(* according to a filter value it had while the dispatch ran (every single   *)
(* filter change is seen entirely before or entirely after).                 *)
AtomicAt(vis, c, lo, hi, vs, j) ==
  LET ids == Ids(vs[j]) IN
    /\ vis = SelectSeq(ids, LAMBDA e : e \in ToSet(vis))
    /\ \A i \in 1..Len(ids) :
         LET e  == ids[i]
             fs == {FilterOf(vs[x], e) : x \in {y \in lo..hi : e \in ToSet(Ids(vs[y]))}} IN
         IF e \in ToSet(vis) THEN \E f \in fs : Accepts(f, c)
                             ELSE \E f \in fs : ~Accepts(f, c)

AtomicObs(vis, c, lo, hi, vs) == \E j \in lo..hi : AtomicAt(vis, c, lo, hi, vs, j)

(* ------------------------------------------------------------------------ *)
(* The WHOLE table.  Table.Dispatch runs a metric through the front end     *)
(* (blacklist, rewriters, aggregators) and then through the routes; all     *)
(* four lists are ONE configuration value.  "Every metric is processed      *)
(* against the complete table as it was either before or after each change" *)
(* is a statement about all lists together, not about each list on its own. *)
(*   front end F = [bl, rw, agg], each a sequence of entries [id, f]:       *)
(*     bl   entry with f = c > 0 drops every class-c metric (f = 0: inert,  *)
(*          matches no metric of the harness)                               *)
(*     rw   every entry rewrites the name (the name = ids applied, in order)*)
(*     agg  a drop-raw aggregator with f = c > 0 consumes every class-c     *)
(*          metric (f = 0: inert)                                           *)
(*   outcome of one Dispatch: [fate, rw, rwobs, vis]                        *)
(*     fate   "bl" dropped by the blacklist | "agg" consumed by an          *)
(*            aggregator | "routed" handed to the route loop (vis = <<>>:   *)
(*            unroutable)                                                   *)
(*     rw     the rewriters that were applied (known iff rwobs: the name is *)
(*            seen by whoever receives the metric)                          *)
(*     vis    the entries of the main list it was delivered to              *)
(* WholeAt: the outcome is the outcome under version j of the whole table   *)
(* (fv[j] front end, mv[j] main list): ONE j for fate, name and routes.     *)
Hits(s, c) == \E i \in 1..Len(s) : s[i].f # 0 /\ s[i].f = c
FateOf(F, c) == IF Hits(F.bl, c) THEN "bl" ELSE IF Hits(F.agg, c) THEN "agg" ELSE "routed"

WholeAt(out, c, lo, hi, mv, fv, j) ==
  /\ out.fate = FateOf(fv[j], c)
  /\ IF out.fate = "routed" THEN AtomicAt(out.vis, c, lo, hi, mv, j) ELSE out.vis = <<>>
  /\ (out.rwobs => out.rw = Ids(fv[j].rw))

WholeObs(out, c, lo, hi, mv, fv) == \E j \in lo..hi : WholeAt(out, c, lo, hi, mv, fv, j)

(* ------------------------------------------------------------------------ *)
(* OVERLAPPING admin operations.  "The table view reflects exactly the      *)
(* sequence of changes applied": when admin operations overlap in time      *)
(* (two goroutines: a command connection and the HTTP API, say) there is no *)
(* given sequence; what the statement then demands is that the view is the  *)
(* result of applying them one after the other in SOME order that respects  *)
(* their real-time order (an operation that had returned before another was *)
(* called comes first), every operation refused exactly when the sequential *)
(* semantics refuse it at its place in that order -- no change is lost or   *)
(* applied to a stale table.                                                *)
(*   H     the operations: a sequence of records with fields                *)
(*           op    the operation ([l, op, e, f, i, k]: list l of the state) *)
(*           err   it returned an error                                     *)
(*           pred  indexes (in H) of the operations that had already        *)
(*                 returned when this one was called                        *)
(*   S0    the state before any of them: a record of lists                  *)
(*   Obs   the state seen after all of them have returned                   *)
ApplyAny(S, o) == [S EXCEPT ![o.l] = ApplyOp(@, o)]
ErrAny(S, o) == OpErr(S[o.l], o)

RECURSIVE LinRun(_, _, _, _, _)
LinRun(H, S, p, k, Obs) ==
  IF k > Len(p) THEN S = Obs
  ELSE /\ H[p[k]].err = ErrAny(S, H[p[k]].op)
       /\ LinRun(H, ApplyAny(S, H[p[k]].op), p, k + 1, Obs)

LinOrders(H) == {p \in [1..Len(H) -> 1..Len(H)] :
                   /\ \A i, j \in 1..Len(H) : i # j => p[i] # p[j]
                   /\ \A i, j \in 1..Len(H) : i < j => p[j] \notin H[p[i]].pred}

Linearizable(H, S0, Obs) == \E p \in LinOrders(H) : LinRun(H, S0, p, 1, Obs)
=============================================================================
