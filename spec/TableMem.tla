------------------------------ MODULE TableMem ------------------------------
(* C18, level B: the routing table in "memory mode", shaped after            *)
(* table/table.go and route/route.go.                                        *)
(*                                                                           *)
(*   heap[a]      backing array a: a sequence of cells (length = capacity),  *)
(*                a cell holds an entry id (0 = never written)               *)
(*   tbl          the published slice <<array, len, cap>> (atomic.Value);    *)
(*                cap <= length of the array: Go's s[:i:i] caps it           *)
(*   flt[e]       the filter inside entry object e (own atomic cell: routes  *)
(*                and destinations are pointers, their filter is swapped     *)
(*                under the entry's own lock)                                *)
(*   admins       take the table mutex, Load, build the new slice, Store:    *)
(*                  add     = Go append: in place when len < cap (writes the *)
(*                            cell len+1 of the shared array: harmless only  *)
(*                            if no published slice ever covered that cell), *)
(*                            otherwise a fresh array of doubled capacity    *)
(*                  delete  = the code: append(s[:i:i], s[i+1:]...), i.e.    *)
(*                            the survivors are copied into a fresh array;   *)
(*                            for the LAST entry nothing is appended: the    *)
(*                            result is s[:n-1:n-1], the same array with the *)
(*                            capacity capped (the next add reallocates)     *)
(*                            TruncateTail (deviation): the last entry is    *)
(*                            removed by s[:n-1], capacity NOT capped: the   *)
(*                            next add appends in place into a cell that     *)
(*                            older, longer published slices still cover     *)
(*                            DeleteInPlace (deviation, the pinned code):    *)
(*                            append(s[:i], s[i+1:]...), the cells of the    *)
(*                            SHARED array are shifted left one by one       *)
(*                filter change of an entry: on the TABLE's route list       *)
(*                (modRoute, ~UpdCow) GetRoute + swap inside the route, no   *)
(*                table lock (AUpd); on a ROUTE's destination list (modDest, *)
(*                UpdCow) copy-on-write like the others: Lock, Load, swap    *)
(*                the filter inside the loaded destination, Store the        *)
(*                configuration as loaded (ABegin, AWork, AStore)            *)
(*                LoadOutsideLock (deviation): Load first, Lock later        *)
(*   dispatchers  Load the slice once (Go range evaluates it once), then     *)
(*                visit cell 1..len one step at a time                       *)
(*                                                                           *)
(*                                                                           *)
(* The whole table: the routes (the list modelled cell by cell above) and    *)
(* the front end fe = [bl, rw, agg] (blacklist, rewriters, aggregators:      *)
(* abstract sequences, see TableOps) are ONE configuration value: an admin   *)
(* operation Loads the value, changes one list and Stores the value; a       *)
(* dispatcher Loads the value ONCE, runs the metric through the front end of *)
(* that value (DFront: dropped by the blacklist / consumed by an aggregator  *)
(* / rewritten) and then through the routes of that same value.              *)
(*   LoadTwice (deviation): the route loop loads the configuration again --  *)
(*   front end of one version, routes of a later one.  One change in between *)
(*   cannot be told from "wholly before / wholly after"; two changes (front  *)
(*   end first, then routes) give an outcome no version of the table has.    *)
(*                                                                           *)
(* Overlapping admin operations (NAdmin >= 2): AdminLinearizable -- once all *)
(* have returned the table is what applying them one after the other gives,  *)
(* in some order that respects which had returned before which was called    *)
(* (ghost ahist: calls / returns; TableOps.Linearizable).  At route level the *)
(* route's own filter (modRoute) is part of the same configuration value as  *)
(* the destination list: it is one of the fe lists here (a change of it by   *)
(* one admin, a stale Store of the whole value by another reverts it).       *)
(*                                                                           *)
(* Ghost variables: vers (the abstract list after every change, by the       *)
(* sequential semantics of TableOps), pub (every slice ever published with   *)
(* the cells it had when it was published), what each dispatcher's snapshot  *)
(* held when it was loaded, the admin results; fvers[j] = the front end of   *)
(* version j (vers[j] and fvers[j] together are version j of the table).     *)
EXTENDS TableOps, FiniteSets, TLC

CONSTANTS InitN,         \* entries 1..InitN in the initial table
          InitCap,       \* capacity of the initial backing array (>= InitN)
          MaxOps,        \* admin operations in a behaviour
          NDisp,         \* dispatcher processes (one dispatch each)
          NAdmin,        \* admin processes
          Classes,       \* metric classes (see TableOps: filter c accepts class c)
          OpKinds,       \* subset of {"add","delidx","delkey","updidx","updkey"}
          DeleteInPlace, \* TRUE = deviation: the pinned delete
          TruncateTail,  \* TRUE = deviation: deleting the last entry publishes s[:n-1] (capacity not capped)
          UseMutex,      \* FALSE = deviation: admin operations do not lock
          FeKinds,       \* front-end operations: subset of {"bl+","bl-","rw+","rw-","agg+","agg-"}
          FeBl, FeRw, FeAgg, \* number of (inert) blacklist / rewriter / aggregator entries in the initial table
          LoadTwice,     \* TRUE = deviation: Dispatch loads the configuration a second time for the route loop
          CoarseAdmin,   \* TRUE = restriction to the schedules of level A (TableSched, the replay): dispatchers
                         \* take steps only between complete admin operations
          UpdCow,        \* TRUE = the list is the destination list of a ROUTE: a filter change (modDest) is a
                         \* copy-on-write operation too -- route.updateDestination takes the route lock, Loads the
                         \* configuration, swaps the filter inside the destination object and Stores the
                         \* configuration it loaded.  FALSE = the list is the route list of the table: modRoute
                         \* is GetRoute (plain Load, no table lock) + the swap inside the route
          LoadOutsideLock, \* deviation: the kinds of copy-on-write operation (subset of OpKinds; {} = none) that do
                         \* conf := Load() BEFORE the mutex is taken (the lock only around build + Store): the
                         \* configuration that is published is built from a snapshot that may be stale -- a
                         \* change that lands between the Load and the Store is reverted.  Needs two admin
                         \* operations that OVERLAP (NAdmin >= 2); {"updidx"} = modDest re-dialling outside the lock
          TrackLin       \* TRUE = keep the ghost history of calls / returns that AdminLinearizable is stated on

ASSUME InitCap >= InitN

Disp  == 1..NDisp
Admin == 1..NAdmin
MaxId == InitN + MaxOps
Filters == {0} \cup Classes
NoOp == [l |-> "main", op |-> "none", e |-> 0, f |-> 0, i |-> 0, k |-> 0]
FeLists == {"bl", "rw", "agg"}
InitFe == [bl  |-> [i \in 1..FeBl  |-> [id |-> 100 + i, f |-> 0]],
           rw  |-> [i \in 1..FeRw  |-> [id |-> 200 + i, f |-> 0]],
           agg |-> [i \in 1..FeAgg |-> [id |-> 300 + i, f |-> 0]]]

VARIABLES heap, tbl, fe, flt, mutex, nops, nextId,
          apc, aop, aloc, anew, ak, afe,
          dpc, dsnap, dfe, didx, dvis, dcls, dfate, dname,
          vers, fvers, pub, dcont, dlo, dhi, results, ahist
vars == <<heap, tbl, fe, flt, mutex, nops, nextId, apc, aop, aloc, anew, ak, afe,
          dpc, dsnap, dfe, didx, dvis, dcls, dfate, dname, vers, fvers, pub, dcont, dlo, dhi, results, ahist>>
avars == <<apc, aop, aloc, anew, ak, afe, ahist>>
dvars == <<dpc, dsnap, dfe, didx, dvis, dcls, dfate, dname, dcont, dlo, dhi>>

Cells(sl) == [i \in 1..sl[2] |-> heap[sl[1]][i]]
Content(sl) == [i \in 1..sl[2] |-> [id |-> heap[sl[1]][i], f |-> flt[heap[sl[1]][i]]]]
GrowCap(c) == IF c = 0 THEN 1 ELSE 2 * c
Max(a, b) == IF a > b THEN a ELSE b

Init ==
  /\ heap = << [i \in 1..InitCap |-> IF i <= InitN THEN i ELSE 0] >>
  /\ tbl = <<1, InitN, InitCap>> /\ fe = InitFe
  /\ flt = [e \in 1..MaxId |-> 0]
  /\ mutex = 0 /\ nops = 0 /\ nextId = InitN + 1
  /\ apc = [a \in Admin |-> "idle"] /\ aop = [a \in Admin |-> NoOp]
  /\ aloc = [a \in Admin |-> <<1, 0, 0>>] /\ anew = [a \in Admin |-> <<1, 0, 0>>] /\ ak = [a \in Admin |-> 0]
  /\ afe = [a \in Admin |-> InitFe]
  /\ dpc = [d \in Disp |-> "idle"] /\ dsnap = [d \in Disp |-> <<1, 0, 0>>] /\ didx = [d \in Disp |-> 0]
  /\ dvis = [d \in Disp |-> <<>>] /\ dcls = [d \in Disp |-> 0]
  /\ dfe = [d \in Disp |-> InitFe] /\ dfate = [d \in Disp |-> ""] /\ dname = [d \in Disp |-> <<>>]
  /\ vers = << [i \in 1..InitN |-> [id |-> i, f |-> 0]] >> /\ fvers = <<InitFe>>
  /\ pub = << [sl |-> <<1, InitN, InitCap>>, cells |-> [i \in 1..InitN |-> i]] >>
  /\ dcont = [d \in Disp |-> <<>>] /\ dlo = [d \in Disp |-> 0] /\ dhi = [d \in Disp |-> 0]
  /\ results = {} /\ ahist = <<>>

-----------------------------------------------------------------------------
(* admin operations *)
KeysNow == {KeyOf(e) : e \in 1..(nextId - 1)}
OpChoices ==
  (IF "add" \in OpKinds THEN {[l |-> "main", op |-> "add", e |-> nextId, f |-> f, i |-> 0, k |-> 0] : f \in Filters} ELSE {})
  \cup (IF "delidx" \in OpKinds THEN {[l |-> "main", op |-> "delidx", e |-> 0, f |-> 0, i |-> i, k |-> 0] : i \in 0..tbl[2]} ELSE {})
  \cup (IF "delkey" \in OpKinds THEN {[l |-> "main", op |-> "delkey", e |-> 0, f |-> 0, i |-> 0, k |-> k] : k \in KeysNow} ELSE {})
  \cup (IF "updidx" \in OpKinds THEN {[l |-> "main", op |-> "updidx", e |-> 0, f |-> f, i |-> i, k |-> 0] : i \in 0..tbl[2], f \in Filters} ELSE {})
  \cup (IF "updkey" \in OpKinds THEN {[l |-> "main", op |-> "updkey", e |-> 0, f |-> f, i |-> 0, k |-> k] : k \in KeysNow, f \in Filters} ELSE {})

\* front-end operations (blacklist / aggregator entries added here hit one class; rewriters apply to every metric)
FeChoices ==
  UNION { (IF (x \o "+") \in FeKinds
           THEN {[l |-> x, op |-> "add", e |-> nextId, f |-> f, i |-> 0, k |-> 0] : f \in (IF x = "rw" THEN {0} ELSE Classes)}
           ELSE {})
          \cup (IF (x \o "-") \in FeKinds
                THEN {[l |-> x, op |-> "delidx", e |-> 0, f |-> 0, i |-> i, k |-> 0] : i \in 0..Len(fe[x])}
                ELSE {}) : x \in FeLists }

IsUpd(o) == o.op \in {"updidx", "updkey"}

\* ghost: the calls and returns of the admin operations (see TableOps.Linearizable): an operation is called,
\* later it returns (err: refused); pred = the operations that had returned when it was called
Called(a, o, dn, e) ==
  IF TrackLin THEN Append(ahist, [a |-> a, op |-> o, err |-> e, done |-> dn,
                                  pred |-> {i \in 1..Len(ahist) : ahist[i].done}])
  ELSE ahist
OpenCall(a) == CHOOSE i \in 1..Len(ahist) : ahist[i].a = a /\ ~ahist[i].done
Returned(a, e) == IF TrackLin THEN [ahist EXCEPT ![OpenCall(a)].done = TRUE, ![OpenCall(a)].err = e] ELSE ahist

\* copy-on-write operations (structural ones; on a route also the filter change of a destination):
\* Lock + Load, as ONE step: nobody else can Store between the two.  LoadOutsideLock (deviation): Load now,
\* the lock later (ALock), other admins may run in between
ABegin(a, o) ==
  /\ apc[a] = "idle" /\ nops < MaxOps /\ (IsUpd(o) => UpdCow)
  /\ IF o.op \in LoadOutsideLock
     THEN /\ apc' = [apc EXCEPT ![a] = "lock"] /\ UNCHANGED mutex
     ELSE /\ (UseMutex => mutex = 0)
          /\ mutex' = IF UseMutex THEN a ELSE mutex
          /\ apc' = [apc EXCEPT ![a] = "work"]
  /\ nops' = nops + 1
  /\ nextId' = IF o.op = "add" THEN nextId + 1 ELSE nextId
  /\ flt' = IF o.op = "add" THEN [flt EXCEPT ![o.e] = o.f] ELSE flt   \* the new object is built before it is published
  /\ aop' = [aop EXCEPT ![a] = o]
  /\ aloc' = [aloc EXCEPT ![a] = tbl] /\ afe' = [afe EXCEPT ![a] = fe]      \* conf := Load(): all lists
  /\ ahist' = Called(a, o, FALSE, FALSE)
  /\ UNCHANGED <<heap, tbl, fe, anew, ak, vers, fvers, pub, results>> /\ UNCHANGED dvars

\* LoadOutsideLock: the mutex is taken only now, with the configuration already loaded
ALock(a) ==
  /\ apc[a] = "lock"
  /\ (UseMutex => mutex = 0)
  /\ mutex' = IF UseMutex THEN a ELSE mutex
  /\ apc' = [apc EXCEPT ![a] = "work"]
  /\ UNCHANGED <<heap, tbl, fe, flt, nops, nextId, aop, aloc, anew, ak, afe, ahist, vers, fvers, pub, results>> /\ UNCHANGED dvars

\* 1-based target cell of a delete / filter change, 0 = none (error / unknown key)
Target(a) ==
  LET s == aloc[a] o == aop[a] c == Cells(s) IN
  IF o.op \in {"delidx", "updidx"} THEN (IF o.i < s[2] THEN o.i + 1 ELSE 0)
  ELSE IF \E i \in 1..s[2] : KeyOf(c[i]) = o.k
       THEN CHOOSE i \in 1..s[2] : KeyOf(c[i]) = o.k /\ \A j \in 1..(i - 1) : KeyOf(c[j]) # o.k
       ELSE 0

AWork(a) ==
  /\ apc[a] = "work"
  /\ LET s == aloc[a] arr == heap[s[1]] n == s[2] cp == s[3] o == aop[a] IN
     IF o.op = "add" THEN
        /\ IF n < cp
           THEN /\ heap' = [heap EXCEPT ![s[1]][n + 1] = o.e]
                /\ anew' = [anew EXCEPT ![a] = <<s[1], n + 1, cp>>]
           ELSE /\ heap' = Append(heap, [i \in 1..GrowCap(cp) |->
                                           IF i <= n THEN arr[i] ELSE IF i = n + 1 THEN o.e ELSE 0])
                /\ anew' = [anew EXCEPT ![a] = <<Len(heap) + 1, n + 1, GrowCap(cp)>>]
        /\ apc' = [apc EXCEPT ![a] = "store"]
        /\ UNCHANGED <<mutex, ak, results, flt, vers, fvers, ahist>>
     ELSE LET t == Target(a) IN
        IF t = 0 THEN    \* refused or no-op: nothing is stored
           /\ results' = results \cup {[op |-> o, v |-> Len(vers), err |-> (o.op # "delkey")]}
           /\ apc' = [apc EXCEPT ![a] = "idle"]
           /\ mutex' = IF UseMutex THEN 0 ELSE mutex
           /\ ahist' = Returned(a, o.op # "delkey")
           /\ UNCHANGED <<heap, anew, ak, flt, vers, fvers>>
        ELSE IF IsUpd(o) THEN   \* (UpdCow) the filter is swapped inside the entry object of the LOADED configuration:
                                \* traffic and the view see it from here on; the configuration as loaded is stored next
           /\ flt' = [flt EXCEPT ![arr[t]] = o.f]
           /\ vers' = Append(vers, ApplyOp(vers[Len(vers)], o)) /\ fvers' = Append(fvers, fvers[Len(fvers)])
           /\ results' = results \cup {[op |-> o, v |-> Len(vers), err |-> FALSE]}
           /\ anew' = [anew EXCEPT ![a] = s]
           /\ apc' = [apc EXCEPT ![a] = "store"]
           /\ UNCHANGED <<heap, mutex, ak, ahist>>
        ELSE IF DeleteInPlace THEN
           /\ ak' = [ak EXCEPT ![a] = t] /\ apc' = [apc EXCEPT ![a] = "shift"]
           /\ UNCHANGED <<heap, anew, mutex, results, flt, vers, fvers, ahist>>
        ELSE IF t = n THEN   \* the last entry: append(s[:n-1:n-1]) appends nothing, the array stays
           /\ anew' = [anew EXCEPT ![a] = <<s[1], n - 1, IF TruncateTail THEN cp ELSE n - 1>>]
           /\ apc' = [apc EXCEPT ![a] = "store"]
           /\ UNCHANGED <<heap, mutex, ak, results, flt, vers, fvers, ahist>>
        ELSE LET nc == Max(2 * (t - 1), n - 1) IN   \* append beyond the capped capacity t-1: fresh array
           /\ heap' = Append(heap, [i \in 1..nc |-> IF i < t THEN arr[i] ELSE IF i < n THEN arr[i + 1] ELSE 0])
           /\ anew' = [anew EXCEPT ![a] = <<Len(heap) + 1, n - 1, nc>>]
           /\ apc' = [apc EXCEPT ![a] = "store"]
           /\ UNCHANGED <<mutex, ak, results, flt, vers, fvers, ahist>>
  /\ UNCHANGED <<tbl, fe, afe, nops, nextId, aop, aloc, pub>> /\ UNCHANGED dvars

\* memmove of append(s[:i], s[i+1:]...) inside the shared array, one cell per step
AShift(a) ==
  /\ apc[a] = "shift"
  /\ LET s == aloc[a] n == s[2] k == ak[a] IN
     IF k < n
     THEN /\ heap' = [heap EXCEPT ![s[1]][k] = heap[s[1]][k + 1]]
          /\ ak' = [ak EXCEPT ![a] = k + 1]
          /\ UNCHANGED <<anew, apc>>
     ELSE /\ anew' = [anew EXCEPT ![a] = <<s[1], n - 1, s[3]>>]
          /\ apc' = [apc EXCEPT ![a] = "store"]
          /\ UNCHANGED <<heap, ak>>
  /\ UNCHANGED <<tbl, fe, afe, flt, mutex, nops, nextId, aop, aloc, vers, fvers, pub, results, ahist>> /\ UNCHANGED dvars

AStore(a) ==
  /\ apc[a] = "store"
  /\ tbl' = anew[a] /\ fe' = afe[a]                     \* Store(conf): the whole value, front end as loaded
  /\ IF IsUpd(aop[a])      \* took effect when the filter was swapped (AWork)
     THEN UNCHANGED <<vers, fvers, results>>
     ELSE /\ vers' = Append(vers, ApplyOp(vers[Len(vers)], aop[a])) /\ fvers' = Append(fvers, fvers[Len(fvers)])
          /\ results' = results \cup {[op |-> aop[a], v |-> Len(vers), err |-> FALSE]}
  /\ pub' = Append(pub, [sl |-> anew[a], cells |-> Cells(anew[a])])
  /\ mutex' = IF UseMutex THEN 0 ELSE mutex
  /\ apc' = [apc EXCEPT ![a] = "idle"]
  /\ ahist' = Returned(a, FALSE)
  /\ UNCHANGED <<heap, flt, nops, nextId, aop, aloc, anew, ak, afe>> /\ UNCHANGED dvars

\* a front-end operation: Lock, Load, change one of blacklist / rewriters / aggregators, Store (the routes as loaded)
AFeBegin(a, o) ==
  /\ apc[a] = "idle" /\ nops < MaxOps
  /\ (UseMutex => mutex = 0)
  /\ nops' = nops + 1
  /\ nextId' = IF o.op = "add" THEN nextId + 1 ELSE nextId
  /\ aop' = [aop EXCEPT ![a] = o]
  /\ IF OpErr(fe[o.l], o)
     THEN /\ results' = results \cup {[op |-> o, v |-> Len(vers), err |-> TRUE]}
          /\ ahist' = Called(a, o, TRUE, TRUE)
          /\ UNCHANGED <<mutex, apc, aloc, afe>>
     ELSE /\ mutex' = IF UseMutex THEN a ELSE mutex
          /\ ahist' = Called(a, o, FALSE, FALSE)
          /\ apc' = [apc EXCEPT ![a] = "festore"]
          /\ aloc' = [aloc EXCEPT ![a] = tbl]
          /\ afe' = [afe EXCEPT ![a] = [fe EXCEPT ![o.l] = ApplyOp(@, o)]]
          /\ UNCHANGED results
  /\ UNCHANGED <<heap, tbl, fe, flt, anew, ak, vers, fvers, pub>> /\ UNCHANGED dvars

AFeStore(a) ==
  /\ apc[a] = "festore"
  /\ tbl' = aloc[a] /\ fe' = afe[a]
  /\ vers' = Append(vers, vers[Len(vers)])
  /\ fvers' = Append(fvers, [fvers[Len(fvers)] EXCEPT ![aop[a].l] = ApplyOp(@, aop[a])])
  /\ results' = results \cup {[op |-> aop[a], v |-> Len(vers), err |-> FALSE]}
  /\ mutex' = IF UseMutex THEN 0 ELSE mutex
  /\ apc' = [apc EXCEPT ![a] = "idle"]
  /\ ahist' = Returned(a, FALSE)
  /\ UNCHANGED <<heap, flt, nops, nextId, aop, aloc, anew, ak, afe, pub>> /\ UNCHANGED dvars

\* filter change on the table's route list (~UpdCow): GetRoute (plain Load) + atomic swap inside the entry object
AUpd(a, o) ==
  /\ apc[a] = "idle" /\ nops < MaxOps /\ IsUpd(o) /\ ~UpdCow
  /\ nops' = nops + 1
  /\ LET c == Cells(tbl)
         t == IF o.op = "updidx" THEN (IF o.i < tbl[2] THEN o.i + 1 ELSE 0)
              ELSE IF \E i \in 1..tbl[2] : KeyOf(c[i]) = o.k
                   THEN CHOOSE i \in 1..tbl[2] : KeyOf(c[i]) = o.k /\ \A j \in 1..(i - 1) : KeyOf(c[j]) # o.k
                   ELSE 0 IN
     IF t = 0 THEN /\ results' = results \cup {[op |-> o, v |-> Len(vers), err |-> TRUE]}
                   /\ ahist' = Called(a, o, TRUE, TRUE)
                   /\ UNCHANGED <<flt, vers, fvers>>
     ELSE /\ flt' = [flt EXCEPT ![c[t]] = o.f]
          /\ vers' = Append(vers, ApplyOp(vers[Len(vers)], o)) /\ fvers' = Append(fvers, fvers[Len(fvers)])
          /\ results' = results \cup {[op |-> o, v |-> Len(vers), err |-> FALSE]}
          /\ ahist' = Called(a, o, TRUE, FALSE)
  /\ UNCHANGED <<heap, tbl, fe, mutex, nextId, pub, apc, aop, aloc, anew, ak, afe>> /\ UNCHANGED dvars

-----------------------------------------------------------------------------
(* dispatchers *)
Quiet == CoarseAdmin => \A a \in Admin : apc[a] = "idle"

DLoad(d, c) ==
  /\ dpc[d] = "idle" /\ Quiet
  /\ dpc' = [dpc EXCEPT ![d] = "front"] /\ dsnap' = [dsnap EXCEPT ![d] = tbl] /\ dfe' = [dfe EXCEPT ![d] = fe]
  /\ didx' = [didx EXCEPT ![d] = 0] /\ dvis' = [dvis EXCEPT ![d] = <<>>] /\ dcls' = [dcls EXCEPT ![d] = c]
  /\ dcont' = [dcont EXCEPT ![d] = Cells(tbl)] /\ dlo' = [dlo EXCEPT ![d] = Len(vers)]
  /\ UNCHANGED <<heap, tbl, fe, flt, mutex, nops, nextId, vers, fvers, pub, dhi, dfate, dname, results>> /\ UNCHANGED avars

\* blacklist, rewriters, aggregators of the loaded value; then on to its routes
\* (LoadTwice: the routes are those of the value that is current NOW)
DFront(d) ==
  /\ dpc[d] = "front" /\ Quiet
  /\ LET ft == FateOf(dfe[d], dcls[d]) IN
     /\ dfate' = [dfate EXCEPT ![d] = ft]
     /\ dname' = [dname EXCEPT ![d] = Ids(dfe[d].rw)]
     /\ IF ft = "routed"
        THEN /\ dpc' = [dpc EXCEPT ![d] = "run"]
             /\ IF LoadTwice
                THEN dsnap' = [dsnap EXCEPT ![d] = tbl] /\ dcont' = [dcont EXCEPT ![d] = Cells(tbl)]
                ELSE UNCHANGED <<dsnap, dcont>>
             /\ UNCHANGED dhi
        ELSE /\ dpc' = [dpc EXCEPT ![d] = "done"] /\ dhi' = [dhi EXCEPT ![d] = Len(vers)]
             /\ UNCHANGED <<dsnap, dcont>>
  /\ UNCHANGED <<heap, tbl, fe, flt, mutex, nops, nextId, vers, fvers, pub, dfe, didx, dvis, dcls, dlo, results>> /\ UNCHANGED avars

DVisit(d) ==
  /\ dpc[d] = "run" /\ didx[d] < dsnap[d][2] /\ Quiet
  /\ LET e == heap[dsnap[d][1]][didx[d] + 1] IN
       dvis' = [dvis EXCEPT ![d] = IF Accepts(flt[e], dcls[d]) THEN Append(@, e) ELSE @]
  /\ didx' = [didx EXCEPT ![d] = @ + 1]
  /\ UNCHANGED <<heap, tbl, fe, flt, mutex, nops, nextId, vers, fvers, pub, dpc, dsnap, dfe, dcls, dfate, dname, dcont, dlo, dhi, results>>
  /\ UNCHANGED avars

DEnd(d) ==
  /\ dpc[d] = "run" /\ didx[d] = dsnap[d][2] /\ Quiet
  /\ dpc' = [dpc EXCEPT ![d] = "done"] /\ dhi' = [dhi EXCEPT ![d] = Len(vers)]
  /\ UNCHANGED <<heap, tbl, fe, flt, mutex, nops, nextId, vers, fvers, pub, dsnap, dfe, didx, dvis, dcls, dfate, dname, dcont, dlo, results>>
  /\ UNCHANGED avars

Next ==
  \/ \E a \in Admin : \/ \E o \in OpChoices : ABegin(a, o) \/ AUpd(a, o)
                      \/ \E o \in FeChoices : AFeBegin(a, o)
                      \/ ALock(a) \/ AWork(a) \/ AShift(a) \/ AStore(a) \/ AFeStore(a)
  \/ \E d \in Disp : (\E c \in Classes : DLoad(d, c)) \/ DFront(d) \/ DVisit(d) \/ DEnd(d)

Spec == Init /\ [][Next]_vars

-----------------------------------------------------------------------------
(* properties *)

\* the cells of ANY slice that was ever published never change (a dispatcher may have loaded it and
\* still be iterating, however many operations ago that was); this includes every loaded snapshot
SnapshotImmutable == /\ \A i \in 1..Len(pub) : Cells(pub[i].sl) = pub[i].cells
                     /\ \A d \in Disp : dpc[d] \in {"front", "run"} => Cells(dsnap[d]) = dcont[d]

\* every dispatch is processed against one complete version of the WHOLE table: its fate (blacklisted / consumed by an
\* aggregator / routed), its rewritten name and the routes it visited are those of ONE version between load and end
Outcome(d) == [fate |-> dfate[d], rw |-> dname[d], rwobs |-> dfate[d] = "routed", vis |-> dvis[d]]
Atomic == \A d \in Disp : dpc[d] = "done" => WholeObs(Outcome(d), dcls[d], dlo[d], dhi[d], vers, fvers)

\* the consequence the statement spells out: an entry that exists (and accepts the
\* metric) throughout the dispatch is delivered to exactly once
NoSkipNoDup ==
  \A d \in Disp : dpc[d] = "done" =>
    \A e \in 1..MaxId :
      (\A j \in dlo[d]..dhi[d] : /\ e \in ToSet(Ids(vers[j])) /\ Accepts(FilterOf(vers[j], e), dcls[d])
                                 /\ FateOf(fvers[j], dcls[d]) = "routed")
        => Cardinality({i \in 1..Len(dvis[d]) : dvis[d][i] = e}) = 1

\* the published table is, at every moment, the result of the sequence of changes applied
ViewOK == Content(tbl) = vers[Len(vers)] /\ fe = fvers[Len(fvers)]

\* overlapping admin operations: once all of them have returned, the table is the result of applying them one
\* after the other in SOME order that respects their real-time order, each refused exactly when the sequential
\* semantics refuse it at its place in that order (no change lost, none applied to a stale table)
State0   == [main |-> vers[1], bl |-> fvers[1].bl, rw |-> fvers[1].rw, agg |-> fvers[1].agg]
StateNow == [main |-> Content(tbl), bl |-> fe.bl, rw |-> fe.rw, agg |-> fe.agg]
AdminLinearizable == (TrackLin /\ \A a \in Admin : apc[a] = "idle") => Linearizable(ahist, State0, StateNow)

\* an operation is refused exactly when the sequential semantics say so
ResultsOK == \A r \in results : r.err = OpErr(IF r.op.l = "main" THEN vers[r.v] ELSE fvers[r.v][r.op.l], r.op)

TypeOK == /\ tbl[2] <= tbl[3] /\ tbl[3] <= Len(heap[tbl[1]])
          /\ \A d \in Disp : didx[d] <= dsnap[d][2]
=============================================================================
