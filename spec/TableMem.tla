------------------------------ MODULE TableMem ------------------------------
(* C18, level B: the routing table in "memory mode", shaped after            *)
(* table/table.go and route/route.go.                                        *)
(*                                                                           *)
(*   heap[a]      backing array a: a sequence of cells (length = capacity),  *)
(*                a cell holds an entry id (0 = never written)               *)
(*   tbl          the published slice <<array, len>> (atomic.Value)          *)
(*   flt[e]       the filter inside entry object e (own atomic cell: routes  *)
(*                and destinations are pointers, their filter is swapped     *)
(*                under the entry's own lock)                                *)
(*   admins       take the table mutex, Load, build the new slice, Store:    *)
(*                  add     = Go append: in place when capacity allows       *)
(*                            (writes a cell beyond every published length), *)
(*                            otherwise a fresh array of doubled capacity    *)
(*                  delete  = DeleteInPlace: append(s[:i], s[i+1:]...), i.e. *)
(*                            the cells of the SHARED array are shifted left *)
(*                            one by one (the pinned code);                  *)
(*                            otherwise the survivors are copied into a      *)
(*                            fresh array                                    *)
(*   dispatchers  Load the slice once (Go range evaluates it once), then     *)
(*                visit cell 1..len one step at a time                       *)
(*                                                                           *)
(* Ghost variables: vers (the abstract list after every change, by the       *)
(* sequential semantics of TableOps), what each dispatcher's snapshot held   *)
(* when it was loaded, the admin results.                                    *)
EXTENDS TableOps, FiniteSets, TLC

CONSTANTS InitN,         \* entries 1..InitN in the initial table
          InitCap,       \* capacity of the initial backing array (>= InitN)
          MaxOps,        \* admin operations in a behaviour
          NDisp,         \* dispatcher processes (one dispatch each)
          NAdmin,        \* admin processes
          Classes,       \* metric classes (see TableOps: filter c accepts class c)
          OpKinds,       \* subset of {"add","delidx","delkey","updidx","updkey"}
          DeleteInPlace, \* TRUE = the pinned delete
          UseMutex       \* FALSE = deviation: admin operations do not lock

ASSUME InitCap >= InitN

Disp  == 1..NDisp
Admin == 1..NAdmin
MaxId == InitN + MaxOps
Filters == {0} \cup Classes
NoOp == [op |-> "none", e |-> 0, f |-> 0, i |-> 0, k |-> 0]

VARIABLES heap, tbl, flt, mutex, nops, nextId,
          apc, aop, aloc, anew, ak,
          dpc, dsnap, didx, dvis, dcls,
          vers, dcont, dlo, dhi, results
vars == <<heap, tbl, flt, mutex, nops, nextId, apc, aop, aloc, anew, ak,
          dpc, dsnap, didx, dvis, dcls, vers, dcont, dlo, dhi, results>>
avars == <<apc, aop, aloc, anew, ak>>
dvars == <<dpc, dsnap, didx, dvis, dcls, dcont, dlo, dhi>>

Cells(sl) == [i \in 1..sl[2] |-> heap[sl[1]][i]]
Content(sl) == [i \in 1..sl[2] |-> [id |-> heap[sl[1]][i], f |-> flt[heap[sl[1]][i]]]]
GrowCap(c) == IF c = 0 THEN 1 ELSE 2 * c

Init ==
  /\ heap = << [i \in 1..InitCap |-> IF i <= InitN THEN i ELSE 0] >>
  /\ tbl = <<1, InitN>>
  /\ flt = [e \in 1..MaxId |-> 0]
  /\ mutex = 0 /\ nops = 0 /\ nextId = InitN + 1
  /\ apc = [a \in Admin |-> "idle"] /\ aop = [a \in Admin |-> NoOp]
  /\ aloc = [a \in Admin |-> <<1, 0>>] /\ anew = [a \in Admin |-> <<1, 0>>] /\ ak = [a \in Admin |-> 0]
  /\ dpc = [d \in Disp |-> "idle"] /\ dsnap = [d \in Disp |-> <<1, 0>>] /\ didx = [d \in Disp |-> 0]
  /\ dvis = [d \in Disp |-> <<>>] /\ dcls = [d \in Disp |-> 0]
  /\ vers = << [i \in 1..InitN |-> [id |-> i, f |-> 0]] >>
  /\ dcont = [d \in Disp |-> <<>>] /\ dlo = [d \in Disp |-> 0] /\ dhi = [d \in Disp |-> 0]
  /\ results = {}

-----------------------------------------------------------------------------
(* admin operations *)
KeysNow == {KeyOf(e) : e \in 1..(nextId - 1)}
OpChoices ==
  (IF "add" \in OpKinds THEN {[op |-> "add", e |-> nextId, f |-> f, i |-> 0, k |-> 0] : f \in Filters} ELSE {})
  \cup (IF "delidx" \in OpKinds THEN {[op |-> "delidx", e |-> 0, f |-> 0, i |-> i, k |-> 0] : i \in 0..tbl[2]} ELSE {})
  \cup (IF "delkey" \in OpKinds THEN {[op |-> "delkey", e |-> 0, f |-> 0, i |-> 0, k |-> k] : k \in KeysNow} ELSE {})
  \cup (IF "updidx" \in OpKinds THEN {[op |-> "updidx", e |-> 0, f |-> f, i |-> i, k |-> 0] : i \in 0..tbl[2], f \in Filters} ELSE {})
  \cup (IF "updkey" \in OpKinds THEN {[op |-> "updkey", e |-> 0, f |-> f, i |-> 0, k |-> k] : k \in KeysNow, f \in Filters} ELSE {})

IsUpd(o) == o.op \in {"updidx", "updkey"}

\* structural operations: Lock + Load
ABegin(a, o) ==
  /\ apc[a] = "idle" /\ nops < MaxOps /\ ~IsUpd(o)
  /\ (UseMutex => mutex = 0)
  /\ mutex' = IF UseMutex THEN a ELSE mutex
  /\ nops' = nops + 1
  /\ nextId' = IF o.op = "add" THEN nextId + 1 ELSE nextId
  /\ flt' = IF o.op = "add" THEN [flt EXCEPT ![o.e] = o.f] ELSE flt   \* the new object is built before it is published
  /\ apc' = [apc EXCEPT ![a] = "work"] /\ aop' = [aop EXCEPT ![a] = o]
  /\ aloc' = [aloc EXCEPT ![a] = tbl]
  /\ UNCHANGED <<heap, tbl, anew, ak, vers, results>> /\ UNCHANGED dvars

\* 1-based target cell of a delete, 0 = none (error / unknown key)
Target(a) ==
  LET s == aloc[a] o == aop[a] c == Cells(s) IN
  IF o.op = "delidx" THEN (IF o.i < s[2] THEN o.i + 1 ELSE 0)
  ELSE IF \E i \in 1..s[2] : KeyOf(c[i]) = o.k
       THEN CHOOSE i \in 1..s[2] : KeyOf(c[i]) = o.k /\ \A j \in 1..(i - 1) : KeyOf(c[j]) # o.k
       ELSE 0

AWork(a) ==
  /\ apc[a] = "work"
  /\ LET s == aloc[a] arr == heap[s[1]] n == s[2] o == aop[a] IN
     IF o.op = "add" THEN
        /\ IF n < Len(arr)
           THEN /\ heap' = [heap EXCEPT ![s[1]][n + 1] = o.e]
                /\ anew' = [anew EXCEPT ![a] = <<s[1], n + 1>>]
           ELSE /\ heap' = Append(heap, [i \in 1..GrowCap(Len(arr)) |->
                                           IF i <= n THEN arr[i] ELSE IF i = n + 1 THEN o.e ELSE 0])
                /\ anew' = [anew EXCEPT ![a] = <<Len(heap) + 1, n + 1>>]
        /\ apc' = [apc EXCEPT ![a] = "store"]
        /\ UNCHANGED <<mutex, ak, results>>
     ELSE LET t == Target(a) IN
        IF t = 0 THEN    \* refused or no-op: nothing is stored
           /\ results' = results \cup {[op |-> o, v |-> Len(vers), err |-> (o.op = "delidx")]}
           /\ apc' = [apc EXCEPT ![a] = "idle"]
           /\ mutex' = IF UseMutex THEN 0 ELSE mutex
           /\ UNCHANGED <<heap, anew, ak>>
        ELSE IF DeleteInPlace THEN
           /\ ak' = [ak EXCEPT ![a] = t] /\ apc' = [apc EXCEPT ![a] = "shift"]
           /\ UNCHANGED <<heap, anew, mutex, results>>
        ELSE
           /\ heap' = Append(heap, [i \in 1..(n - 1) |-> IF i < t THEN arr[i] ELSE arr[i + 1]])
           /\ anew' = [anew EXCEPT ![a] = <<Len(heap) + 1, n - 1>>]
           /\ apc' = [apc EXCEPT ![a] = "store"]
           /\ UNCHANGED <<mutex, ak, results>>
  /\ UNCHANGED <<tbl, flt, nops, nextId, aop, aloc, vers>> /\ UNCHANGED dvars

\* memmove of append(s[:i], s[i+1:]...) inside the shared array, one cell per step
AShift(a) ==
  /\ apc[a] = "shift"
  /\ LET s == aloc[a] n == s[2] k == ak[a] IN
     IF k < n
     THEN /\ heap' = [heap EXCEPT ![s[1]][k] = heap[s[1]][k + 1]]
          /\ ak' = [ak EXCEPT ![a] = k + 1]
          /\ UNCHANGED <<anew, apc>>
     ELSE /\ anew' = [anew EXCEPT ![a] = <<s[1], n - 1>>]
          /\ apc' = [apc EXCEPT ![a] = "store"]
          /\ UNCHANGED <<heap, ak>>
  /\ UNCHANGED <<tbl, flt, mutex, nops, nextId, aop, aloc, vers, results>> /\ UNCHANGED dvars

AStore(a) ==
  /\ apc[a] = "store"
  /\ tbl' = anew[a]
  /\ vers' = Append(vers, ApplyOp(vers[Len(vers)], aop[a]))
  /\ results' = results \cup {[op |-> aop[a], v |-> Len(vers), err |-> FALSE]}
  /\ mutex' = IF UseMutex THEN 0 ELSE mutex
  /\ apc' = [apc EXCEPT ![a] = "idle"]
  /\ UNCHANGED <<heap, flt, nops, nextId, aop, aloc, anew, ak>> /\ UNCHANGED dvars

\* filter change: GetRoute (plain Load) + atomic swap inside the entry object
AUpd(a, o) ==
  /\ apc[a] = "idle" /\ nops < MaxOps /\ IsUpd(o)
  /\ nops' = nops + 1
  /\ LET c == Cells(tbl)
         t == IF o.op = "updidx" THEN (IF o.i < tbl[2] THEN o.i + 1 ELSE 0)
              ELSE IF \E i \in 1..tbl[2] : KeyOf(c[i]) = o.k
                   THEN CHOOSE i \in 1..tbl[2] : KeyOf(c[i]) = o.k /\ \A j \in 1..(i - 1) : KeyOf(c[j]) # o.k
                   ELSE 0 IN
     IF t = 0 THEN /\ results' = results \cup {[op |-> o, v |-> Len(vers), err |-> TRUE]}
                   /\ UNCHANGED <<flt, vers>>
     ELSE /\ flt' = [flt EXCEPT ![c[t]] = o.f]
          /\ vers' = Append(vers, ApplyOp(vers[Len(vers)], o))
          /\ results' = results \cup {[op |-> o, v |-> Len(vers), err |-> FALSE]}
  /\ UNCHANGED <<heap, tbl, mutex, nextId>> /\ UNCHANGED avars /\ UNCHANGED dvars

-----------------------------------------------------------------------------
(* dispatchers *)
DLoad(d, c) ==
  /\ dpc[d] = "idle"
  /\ dpc' = [dpc EXCEPT ![d] = "run"] /\ dsnap' = [dsnap EXCEPT ![d] = tbl]
  /\ didx' = [didx EXCEPT ![d] = 0] /\ dvis' = [dvis EXCEPT ![d] = <<>>] /\ dcls' = [dcls EXCEPT ![d] = c]
  /\ dcont' = [dcont EXCEPT ![d] = Cells(tbl)] /\ dlo' = [dlo EXCEPT ![d] = Len(vers)]
  /\ UNCHANGED <<heap, tbl, flt, mutex, nops, nextId, vers, dhi, results>> /\ UNCHANGED avars

DVisit(d) ==
  /\ dpc[d] = "run" /\ didx[d] < dsnap[d][2]
  /\ LET e == heap[dsnap[d][1]][didx[d] + 1] IN
       dvis' = [dvis EXCEPT ![d] = IF Accepts(flt[e], dcls[d]) THEN Append(@, e) ELSE @]
  /\ didx' = [didx EXCEPT ![d] = @ + 1]
  /\ UNCHANGED <<heap, tbl, flt, mutex, nops, nextId, vers, dpc, dsnap, dcls, dcont, dlo, dhi, results>> /\ UNCHANGED avars

DEnd(d) ==
  /\ dpc[d] = "run" /\ didx[d] = dsnap[d][2]
  /\ dpc' = [dpc EXCEPT ![d] = "done"] /\ dhi' = [dhi EXCEPT ![d] = Len(vers)]
  /\ UNCHANGED <<heap, tbl, flt, mutex, nops, nextId, vers, dsnap, didx, dvis, dcls, dcont, dlo, results>> /\ UNCHANGED avars

Next ==
  \/ \E a \in Admin : \/ \E o \in OpChoices : ABegin(a, o) \/ AUpd(a, o)
                      \/ AWork(a) \/ AShift(a) \/ AStore(a)
  \/ \E d \in Disp : (\E c \in Classes : DLoad(d, c)) \/ DVisit(d) \/ DEnd(d)

Spec == Init /\ [][Next]_vars

-----------------------------------------------------------------------------
(* properties *)

\* cells reachable from a loaded snapshot never change
SnapshotImmutable == \A d \in Disp : dpc[d] = "run" => Cells(dsnap[d]) = dcont[d]

\* every dispatch is processed against one complete version of the table
Atomic == \A d \in Disp : dpc[d] = "done" => AtomicObs(dvis[d], dcls[d], dlo[d], dhi[d], vers)

\* the consequence the statement spells out: an entry that exists (and accepts the
\* metric) throughout the dispatch is delivered to exactly once
NoSkipNoDup ==
  \A d \in Disp : dpc[d] = "done" =>
    \A e \in 1..MaxId :
      (\A j \in dlo[d]..dhi[d] : e \in ToSet(Ids(vers[j])) /\ Accepts(FilterOf(vers[j], e), dcls[d]))
        => Cardinality({i \in 1..Len(dvis[d]) : dvis[d][i] = e}) = 1

\* the published table is, at every moment, the result of the sequence of changes applied
ViewOK == Content(tbl) = vers[Len(vers)]

\* an operation is refused exactly when the sequential semantics say so
ResultsOK == \A r \in results : r.err = OpErr(vers[r.v], r.op)

TypeOK == /\ tbl[2] <= Len(heap[tbl[1]])
          /\ \A d \in Disp : didx[d] <= dsnap[d][2]
=============================================================================
