---------------------------- MODULE OrderedTrace ----------------------------
(* C19 trace specification: concurrent calls of table.Dispatch with order    *)
(* validation on, recorded per register (one "hist" block = every call made  *)
(* on one metric key, with and without the leading dot, by all goroutines):  *)
(*   begin c ts exp  call c is about to start (exp: the result the driver    *)
(*                   saw for it, used to prune the search only, see Decide)  *)
(*   end c fwd       it returned; fwd = the point arrived at the route       *)
(*   fin ooo bad badcall   all calls returned: increase of the out_of_order  *)
(*                   counter, whether bad-metrics holds a record for the key *)
(*                   and the call id inside that record                      *)
(* "Many names" family (one call per name, several hundred thousand names):  *)
(* the registers of different names are independent (Ordered!Independent),   *)
(* so the run is judged on a projection: one block per projected name (every *)
(* name whose point did not arrive exactly once at the route, a seeded       *)
(* sample of the others, and the pairs of names known to collide under       *)
(* common 32-bit hashes), closed by                                          *)
(*   finp bad badcall    like fin, without the counter (it is process-wide)  *)
(* and, after all blocks,                                                    *)
(*   total n fwd ooo     calls made, points that arrived at the route, and   *)
(*                       the increase of the out_of_order counter, for all   *)
(*                       names of the run: both must equal what the blocks   *)
(*                       since the last total explain                        *)
(* "Fold" family (a table with order validation, a rewriter that folds k      *)
(* input names into one emitted name, and a blacklist entry; all goroutines  *)
(* send points of all the names): the register of a point is that of its     *)
(* INPUT name (Ordered!RegOf without the deviation key_after_rewrite), so    *)
(* the history is judged input name by input name (Ordered!Independent): one *)
(* block per input name, closed by finp, then total for the history.  The    *)
(* calls of a blacklisted input name (all of them newer than every earlier   *)
(* point of that name: nothing to reject) end with                           *)
(*   endx c fwd times    the point is dropped behind the order check: it may *)
(*                       arrive nowhere although it was accepted; total      *)
(*                       explains it as dropped, not as rejected             *)
(* The linearization point (Decide, inside the mutex) is not logged: TLC     *)
(* searches an order of Decide steps, each between the begin and the end of  *)
(* its call, under which every result is that of the sequential max-register *)
(* (accept iff ts > last accepted).  Delivery order at the route is not      *)
(* decision order, so nothing else would be sound.                           *)
EXTENDS Integers, Sequences, FiniteSets, Json, TLC, TLCExt, IOUtils

TLog == ndJsonDeserialize("trace.ndjson")

VARIABLES l, last, pend, res, nrej, rejset, totrej, totdrop
tvars == <<l, last, pend, res, nrej, rejset, totrej, totdrop>>

ASSUME TLCSet(1, 0)
Ev == TLog[l]
Is(e) == l <= Len(TLog) /\ Ev.ev = e /\ l' = l + 1

TInit == l = 1 /\ last = 0 /\ pend = <<>> /\ res = <<>> /\ nrej = 0 /\ rejset = {} /\ totrej = 0
         /\ totdrop = 0

THist == Is("hist") /\ last' = 0 /\ pend' = <<>> /\ res' = <<>> /\ nrej' = 0 /\ rejset' = {}
         /\ UNCHANGED <<totrej, totdrop>>

TBegin == /\ Is("begin")
          /\ pend' = (Ev.c :> [ts |-> Ev.ts, exp |-> Ev.exp]) @@ pend
          /\ UNCHANGED <<last, res, nrej, rejset, totrej, totdrop>>

\* internal: the critical section of a pending call.  The search is restricted to canonical linearizations; every
\* linearization can be brought into this form without changing any result, so no explainable history is lost:
\*  (1) a decision is taken only when the next logged event is the return of some call (it commutes with "begin"
\*      events, and it stays inside its own call: the next return is not later than its own);
\*  (2) a REJECTING decision is taken last before the return of its own call (the register never decreases: what is
\*      rejected now is rejected later, and a rejection changes nothing for the others);
\*  (3) exp is the result the driver saw for the call ("a" arrived at the route, "r" did not, "?" not said: a
\*      blacklisted name); TEnd demands exactly that result anyway, so a decision with another result is a dead end, and
\*      so is an accepting decision that leaves a pending call with exp = "a" and a timestamp not above it.
\* exp only prunes the search: a trace is accepted only with a witness in which every return matches its decision.
NextIsReturn == l <= Len(TLog) /\ Ev.ev \in {"end", "endx"}
Decide(c) ==
  /\ c \in DOMAIN pend
  /\ NextIsReturn
  /\ ~(Ev.c \in DOMAIN res /\ ~res[Ev.c])       \* (2): the rejection of the returning call was the last decision
  /\ LET ts == pend[c].ts a == ts > last IN
     /\ (a \/ Ev.c = c)                         \* (2)
     /\ (pend[c].exp = "a" => a) /\ (pend[c].exp = "r" => ~a)
     /\ (a => \A p \in (DOMAIN pend) \ {c} : pend[p].exp = "a" => pend[p].ts > ts)
     /\ res' = (c :> a) @@ res
     /\ last' = IF a THEN ts ELSE last
     /\ nrej' = IF a THEN nrej ELSE nrej + 1
     /\ rejset' = IF a THEN rejset ELSE rejset \cup {c}
  /\ pend' = [x \in (DOMAIN pend) \ {c} |-> pend[x]]
  /\ UNCHANGED <<l, totrej, totdrop>>

TEnd == /\ Is("end") /\ Ev.c \in DOMAIN res
        /\ Ev.fwd = res[Ev.c]                  \* forwarded iff accepted
        /\ Ev.times = (IF res[Ev.c] THEN 1 ELSE 0)   \* and exactly once
        /\ res' = [x \in (DOMAIN res) \ {Ev.c} |-> res[x]]
        /\ UNCHANGED <<last, pend, nrej, rejset, totrej, totdrop>>

\* a call on a blacklisted input name returned: forwarded only if accepted, at most once; accepted and not
\* forwarded = dropped behind the order check
TEndX == /\ Is("endx") /\ Ev.c \in DOMAIN res
         /\ (Ev.fwd => res[Ev.c])
         /\ Ev.times = (IF Ev.fwd THEN 1 ELSE 0)
         /\ totdrop' = totdrop + (IF res[Ev.c] /\ ~Ev.fwd THEN 1 ELSE 0)
         /\ res' = [x \in (DOMAIN res) \ {Ev.c} |-> res[x]]
         /\ UNCHANGED <<last, pend, nrej, rejset, totrej>>

TFin == /\ Is("fin") /\ pend = <<>> /\ res = <<>>
        /\ Ev.ooo = nrej                       \* every rejection counted, nothing else
        /\ Ev.bad = (nrej > 0)                 \* reported as a bad metric
        /\ (Ev.bad => Ev.badcall \in rejset)
        /\ UNCHANGED <<last, pend, res, nrej, rejset, totrej, totdrop>>

\* a block of the many-names projection ends: its rejections are added to those the whole run must account for
TFinP == /\ Is("finp") /\ pend = <<>> /\ res = <<>>
         /\ Ev.bad = (nrej > 0)
         /\ (Ev.bad => Ev.badcall \in rejset)
         /\ totrej' = totrej + nrej
         /\ UNCHANGED <<last, pend, res, nrej, rejset, totdrop>>

\* the whole many-names run: n calls, fwd points at the route, out_of_order counter + ooo
TTotal == /\ Is("total") /\ pend = <<>> /\ res = <<>>
          /\ Ev.ooo = totrej
          /\ Ev.fwd = Ev.n - totrej - totdrop
          /\ totrej' = 0 /\ totdrop' = 0
          /\ UNCHANGED <<last, pend, res, nrej, rejset>>

TNext == THist \/ TBegin \/ TEnd \/ TEndX \/ TFin \/ TFinP \/ TTotal \/ \E c \in DOMAIN pend : Decide(c)
TSpec == TInit /\ [][TNext]_tvars

HighWater == TLCSet(1, IF l - 1 > TLCGet(1) THEN l - 1 ELSE TLCGet(1))
Post == PrintT("@@TRACE " \o ToJson([matched |-> TLCGet(1)]))
=============================================================================
