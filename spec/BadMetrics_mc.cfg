SPECIFICATION Spec
INVARIANTS TypeOK P1_SeenIsLast P2_Paired P3_NotCleanedEarly P4_CleanedInTime P5_NoLoss P6_GetExact P6_Sorted LevelA
CHECK_DEADLOCK FALSE
