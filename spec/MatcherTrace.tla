---------------------------- MODULE MatcherTrace ----------------------------
(* C03 trace specification: TLC re-evaluates Matcher!Accept on what the real *)
(* code was observed to do at every place a filter is used, and replays the  *)
(* lookup / clock / clean-up histories of the aggregation match cache.       *)
(*                                                                           *)
(* One line of trace.ndjson = one event.                                     *)
(*  site   : a filter f (as AST) was installed at place `site` of a real     *)
(*           table, one line whose metric name is `name` was sent through,   *)
(*           obs = what was observed (deliveries per destination / route,    *)
(*           lines produced by the aggregator)                               *)
(*  hist   : a fresh caching aggregator with filter f, output template t,    *)
(*           wait w, drop-raw on/off                                         *)
(*  clock  : the injected clock now shows t                                  *)
(*  lookup : name offered to the aggregator (AddMaybe) at timestamp ts;      *)
(*           got = its return value (the point is consumed: drop-raw is on   *)
(*           and the filter accepts the name)                                *)
(*  tick   : flush + cache clean-up at time t; out = [k |-> output name,     *)
(*           q |-> quantum, c |-> count] of every line the aggregator        *)
(*           produced: every accepted point is counted, under the output     *)
(*           name the template gives for its name, whatever was looked up    *)
(*           before                                                          *)
(*  uhist  : a fresh route / destination with filter f at place `site` of a  *)
(*           real table                                                      *)
(*  update : Table.UpdateRoute / Table.UpdateDestination was called with the *)
(*           options `set`, their new values in val (an empty value clears   *)
(*           the option); the filter now has MatcherUpdOps!Merge of them     *)
(*  uprobe : one line per name of `names` was sent through the table;        *)
(*           obs[i] = what was observed for names[i].  It must be what the   *)
(*           conjunction of the options the filter NOW has requires - none   *)
(*           of the options it had before plays a part                       *)
EXTENDS AggCacheOps, MatcherUpdOps, Json, TLC, TLCExt, IOUtils

TLog == ndJsonDeserialize("trace.ndjson")

VARIABLES l, tf, tt, tdrop, tcache, tnow, twait, pend
tvars == <<l, tf, tt, tdrop, tcache, tnow, twait, pend>>

ASSUME TLCSet(1, 0)

Ev == TLog[l]
Is(e) == l <= Len(TLog) /\ Ev.ev = e /\ l' = l + 1

B(b) == IF b THEN 1 ELSE 0
\* what must be observed at each use site when the filter's verdict on the NAME is acc
Expected(site, acc) ==
  CASE site = "blacklist"     -> <<B(~acc)>>          \* deliveries to a match-all route behind the blacklist
    [] site = "route"         -> <<B(acc)>>           \* deliveries to the destination of a route with filter f
    [] site = "route_first"   -> <<B(acc)>>           \* the same for a sendFirstMatch route
    [] site = "route_chash"   -> <<B(acc)>>           \* ... and a consistentHashing route (one destination)
    [] site = "dest_all"      -> <<B(acc), 1>>        \* sendAllMatch, destinations <<f, match-all>>
    [] site = "dest_first"    -> <<B(acc), B(~acc)>>  \* sendFirstMatch, destinations <<f, match-all>>
    [] site = "agg_keep"      -> <<1, B(acc)>>        \* <<route deliveries, aggregated points>>, dropRaw off
    [] site = "agg_drop"      -> <<B(~acc), B(acc)>>  \* dropRaw on
    [] site = "aggc_drop"     -> <<B(~acc), B(acc)>>  \* dropRaw on, match cache on
    [] site = "aggroute"      -> <<B(acc)>>           \* aggregate line through Table.In, route filter f
    [] site = "aggdest_all"   -> <<B(acc), 1>>
    [] site = "aggdest_first" -> <<B(acc), B(~acc)>>

TInit == l = 1 /\ tf = NoFilter /\ tt = <<>> /\ tdrop = TRUE /\ tcache = <<>> /\ tnow = 0 /\ twait = 1 /\ pend = <<>>

TSite == /\ Is("site")
         /\ Ev.obs = Expected(Ev.site, Accept(Ev.f, Ev.name))
         /\ UNCHANGED <<tf, tt, tdrop, tcache, tnow, twait, pend>>
THist == /\ Is("hist") /\ tf' = Ev.f /\ tt' = Ev.t /\ tdrop' = Ev.drop /\ twait' = Ev.wait
         /\ tcache' = <<>> /\ tnow' = 0 /\ pend' = <<>>
TClock == Is("clock") /\ Ev.t >= tnow /\ tnow' = Ev.t /\ UNCHANGED <<tf, tt, tdrop, tcache, twait, pend>>
\* pend: <<output name, quantum>> -> number of accepted points not yet flushed
TLookup == /\ Is("lookup")
           /\ LET a == Answer(tf, tt, tcache, Ev.name, "none")
                  kq == <<a.key, Ev.ts>>
              IN /\ Ev.got = (tdrop /\ a.m)
                 /\ pend' = IF a.m
                            THEN [x \in DOMAIN pend \cup {kq} |-> (IF x \in DOMAIN pend THEN pend[x] ELSE 0) + (IF x = kq THEN 1 ELSE 0)]
                            ELSE pend
           /\ tcache' = Remember(tf, tt, tcache, Ev.name, tnow, "none")
           /\ UNCHANGED <<tf, tt, tdrop, tnow, twait>>
TTick == /\ Is("tick")
         /\ {<<o.k, o.q, o.c>> : o \in Range(Ev.out)} = {<<x[1], x[2], pend[x]>> : x \in DOMAIN pend}
         /\ Len(Ev.out) = Cardinality(DOMAIN pend)
         /\ pend' = <<>>
         /\ tcache' \in Cleaned(tcache, Ev.t, twait)
         /\ UNCHANGED <<tf, tt, tdrop, tnow, twait>>

\* -- filters reconfigured at run time
TUHist == /\ Is("uhist") /\ tf' = Ev.f
          /\ tt' = <<>> /\ tdrop' = TRUE /\ twait' = 1 /\ tcache' = <<>> /\ tnow' = 0 /\ pend' = <<>>
TUpdate == /\ Is("update") /\ Ev.set # <<>>
           /\ tf' = Merge(tf, Range(Ev.set), Ev.val)
           /\ UNCHANGED <<tt, tdrop, tcache, tnow, twait, pend>>
TUProbe == /\ Is("uprobe") /\ Len(Ev.obs) = Len(Ev.names)
           /\ \A i \in 1..Len(Ev.names) : Ev.obs[i] = Expected(Ev.site, Accept(tf, Ev.names[i]))
           \* route filters: the same names sent as aggregation output (DispatchAggregate) meet the same verdict
           /\ ("obsagg" \in DOMAIN Ev =>
                  /\ Len(Ev.obsagg) = Len(Ev.names)
                  /\ \A i \in 1..Len(Ev.names) : Ev.obsagg[i] = Expected(Ev.site, Accept(tf, Ev.names[i])))
           /\ UNCHANGED <<tf, tt, tdrop, tcache, tnow, twait, pend>>

TNext == TSite \/ THist \/ TClock \/ TLookup \/ TTick \/ TUHist \/ TUpdate \/ TUProbe
TSpec == TInit /\ [][TNext]_tvars

HighWater == TLCSet(1, IF l - 1 > TLCGet(1) THEN l - 1 ELSE TLCGet(1))
Post == PrintT("@@TRACE " \o ToJson([matched |-> TLCGet(1)]))
TFresh == Fresh(tf, tt, tcache)
=============================================================================
