--------------------------- MODULE QueueContract ---------------------------
(* Level A: the persistent FIFO contract of the disk spool queue, exactly as  *)
(* properties C08 and C09 state it.  Nothing here knows about files.          *)
(*                                                                            *)
(* Messages are identified by their enqueue index 1..nenq.                    *)
(*   consumed : number of messages handed to the consumer so far              *)
(*   wSync    : number of messages enqueued when the last sync completed      *)
(*   cSync    : number of messages consumed when the last sync completed      *)
(* A "recovery" is what a queue reopened on the files left by a crash         *)
(* delivers; RecoveryOK is the C08 predicate on that delivery sequence.       *)
EXTENDS Integers, Sequences, FiniteSets, QueueContractOps

\* ------------------------------------------------------------------------
\* The contract as a state machine (used to generate client histories and as
\* the level-A trace specification).
CONSTANTS MaxOps,        \* bound on history length (generation only)
          SizeClasses    \* set of abstract message sizes (generation only)

VARIABLES nenq, consumed, wSync, cSync, up, hist

cvars == <<nenq, consumed, wSync, cSync, up, hist>>

CInit == nenq = 0 /\ consumed = 0 /\ wSync = 0 /\ cSync = 0 /\ up = TRUE /\ hist = <<>>

CPut(s) == /\ up /\ nenq' = nenq + 1
           /\ hist' = Append(hist, [op |-> "put", size |-> s])
           /\ UNCHANGED <<consumed, wSync, cSync, up>>
\* FIFO, exactly once: the only message that can be taken is number consumed+1
CTake(id) == /\ up /\ consumed < nenq /\ id = consumed + 1
             /\ consumed' = id
             /\ hist' = Append(hist, [op |-> "take", size |-> 0])
             /\ UNCHANGED <<nenq, wSync, cSync, up>>
CSync == /\ wSync' = nenq /\ cSync' = consumed
         /\ UNCHANGED <<nenq, consumed, up, hist>>
\* clean close + reopen: a close completes a sync
CReopen == /\ up /\ wSync' = nenq /\ cSync' = consumed
           /\ hist' = Append(hist, [op |-> "reopen", size |-> 0])
           /\ UNCHANGED <<nenq, consumed, up>>

CNext == /\ Len(hist) < MaxOps
         /\ \/ \E s \in SizeClasses : CPut(s)
            \/ CTake(consumed + 1)
            \/ CReopen
CSpec == CInit /\ [][CNext]_cvars

DepthAtRest == nenq - consumed
TypeOK == consumed <= nenq /\ wSync <= nenq /\ cSync <= consumed
=============================================================================
