SPECIFICATION FairSpec
INVARIANTS TypeOK LevelA NeverAbandoned NonBlockingNeverBlocks DropsCounted BlockingNeverDrops AllBufferedFlushed
PROPERTIES ShutdownReturns AckedAtLeastOnce
CHECK_DEADLOCK FALSE
CONSTANTS
  FaultKinds = {"4xx", "5xx", "timeout", "reset"}
  Record = FALSE
