SPECIFICATION FairSpec
INVARIANTS TypeOK AllBufferedFlushed LevelA NeverAbandoned NonBlockingNeverBlocks DropsCounted BlockingNeverDrops
CHECK_DEADLOCK FALSE
CONSTANTS
  FaultKinds = {"4xx", "5xx", "timeout", "reset", "stall"}
  Record = FALSE
