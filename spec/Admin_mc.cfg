SPECIFICATION Spec
INVARIANT Safe TypeOK
PROPERTY RejectKeeps
CHECK_DEADLOCK FALSE
