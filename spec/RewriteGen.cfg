SPECIFICATION Spec
INVARIANT WF Emit
CHECK_DEADLOCK FALSE
