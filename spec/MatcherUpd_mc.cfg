SPECIFICATION USpec
INVARIANT InForceIsConfigured
CHECK_DEADLOCK FALSE
