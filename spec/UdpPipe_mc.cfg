SPECIFICATION Spec
INVARIANTS PrefixOK BufferStable OutBurstOK
PROPERTY AllDispatched
CHECK_DEADLOCK FALSE
