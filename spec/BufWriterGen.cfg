SPECIFICATION GSpec
INVARIANTS Emit StreamOK ReturnOK
CHECK_DEADLOCK FALSE
