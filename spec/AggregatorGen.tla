---------------------------- MODULE AggregatorGen ----------------------------
(* Behaviour generator for the replay binding of C10: run with `-simulate`;    *)
(* every behaviour of Aggregator.tla of Depth steps is printed as one JSON     *)
(* line holding the configuration and, per step, the action with its           *)
(* arguments and what the real aggregator must show after it: the too-old      *)
(* counter delta and, for a tick, the groups of lines (per bucket start, in    *)
(* ascending order) with the exact result of every function.                   *)
EXTENDS Aggregator, Json

CONSTANT Depth
\* values offered by the generator (a cfg file cannot hold negative numbers); |v| <= 100 and at most
\* 8 contributions keep every intermediate product far below 2^31
GenVals == {-7, 0, 1, 2, 3, 10, 33, 100}
VARIABLE hist

StepRec ==
  CASE lastOp'.op = "adv"  -> [op |-> "adv", now |-> lastOp'.now]
    [] lastOp'.op = "proc" -> [op |-> "proc", name |-> lastOp'.name, val |-> lastOp'.val, ts |-> lastOp'.ts,
                               key |-> KeyOf(fmt, lastOp'.name), dTooOld |-> tooOld' - tooOld]
    [] lastOp'.op = "tick" -> [op |-> "tick", t |-> lastOp'.t, dTooOld |-> tooOld' - tooOld,
                               groups |-> ExpectGroups(lastFlush')]

GInit == Init /\ hist = <<>>

(* One successor per state: TLC's simulator evaluates every successor of a state before it picks *)
(* one, and picks uniformly among them -- with the plain Next, ticks would be ~3 % of the steps. *)
(* The witnesses of Next's existentials are therefore drawn with RandomElement (seeded by -seed): *)
(* 55 % points, 20 % clock advances, 25 % ticks (of which most carry the current clock value).   *)
(* Every generated behaviour is a behaviour of Spec (GStep => Next).                            *)
Pick(S) == RandomElement(S)
PCand == {p \in Names \X {t \in TsSet : t >= TsLo /\ t <= TsHi} :
            LET b == <<Quant(p[2]), KeyOf(fmt, p[1])>> IN b \in DOMAIN buckets => Len(buckets[b]) < MaxContrib}
ACand == {n \in 1..MaxT : n > now /\ n <= now + MaxStep}
TCand == {t \in 0..MaxT : t >= lastT /\ t <= now /\ t >= now - MaxLag}
GStep ==
  \E r \in {Pick(1..100)} :
    IF r > 75 /\ TCand # {}
    THEN \E t \in {IF Pick(1..10) <= 6 THEN now ELSE Pick(TCand)} : Tick(t)
    ELSE IF r > 55 /\ ACand # {}
    THEN \E n \in {Pick(ACand)} : Advance(n)
    ELSE \E p \in {Pick(PCand)}, val \in {Pick(Vals)} : Process(p[1], val, p[2])
GNext == Len(hist) < Depth /\ GStep /\ hist' = Append(hist, StepRec)
GSpec == GInit /\ [][GNext]_<<vars, hist>>
\* GStep refines Next (checked by TLC on every generated step)
GStepIsNext == [][Next]_vars

\* the rule table (all strings the drivers use), printed once per run
ASSUME TLCSet(2, 0)
EmitFmts == TLCGet(2) = 1 \/ (TLCSet(2, 1) /\ PrintT("@@F " \o ToJson(NmDriverTable)))

Emit == Len(hist) = Depth =>
          PrintT("@@B " \o ToJson([interval |-> interval, wait |-> wait, fmt |-> fmt, steps |-> hist]))
=============================================================================
