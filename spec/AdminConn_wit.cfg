SPECIFICATION Spec
INVARIANTS TypeOK
CHECK_DEADLOCK FALSE
