--------------------------- MODULE MatcherUpdGen ---------------------------
(* C03 behaviour generator for run-time updates of a filter: TLC (-simulate) *)
(* walks MatcherUpd (start filter, then UDepth updates) and prints every     *)
(* behaviour when it is complete: the start filter, and per step the update, *)
(* the options the filter has afterwards and the verdict of Matcher!Accept   *)
(* under those options for EVERY name of UNameSeq (a string of 0/1; used to  *)
(* choose and explain probes - the recorded observations are judged by       *)
(* MatcherTrace.tla).                                                        *)
EXTENDS MatcherUpd, Json, TLC, SequencesExt

CONSTANT UDepth      \* updates per behaviour

UNameSeq == SetToSeq(UNames)
UN == Cardinality(UNames)
RECURSIVE UBitsFrom(_, _)
UBitsFrom(f, i) == IF i > UN THEN "" ELSE (IF Accept(f, UNameSeq[i]) THEN "1" ELSE "0") \o UBitsFrom(f, i + 1)
UBits(f) == UBitsFrom(f, 1)
RECURSIVE UFlatNames(_)
UFlatNames(i) == IF i > UN THEN <<>> ELSE <<Flat(UNameSeq[i])>> \o UFlatNames(i + 1)
ASSUME PrintT("@@N " \o ToJson([names |-> UFlatNames(1)]))

VARIABLES f0, us
gvars == <<opts, eff, f0, us>>
GInit == UInit /\ f0 = opts /\ us = <<>>
GNext == /\ Len(us) < UDepth
         /\ \E u \in UUpdates : /\ UApply(u)
                                /\ us' = Append(us, [set |-> u.set, val |-> u.val, conf |-> opts'])
         /\ UNCHANGED f0
GSpec == GInit /\ [][GNext]_gvars

Emit == Len(us) = UDepth =>
  PrintT("@@U " \o ToJson([f |-> RenderFilter(f0), ast |-> f0, expect |-> UBits(f0),
                           steps |-> [i \in 1..Len(us) |->
                                        [set |-> us[i].set, val |-> us[i].val, go |-> RenderFilter(us[i].val),
                                         conf |-> RenderFilter(us[i].conf), expect |-> UBits(us[i].conf)]]]))
=============================================================================
