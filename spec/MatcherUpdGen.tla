--------------------------- MODULE MatcherUpdGen ---------------------------
(* C03 behaviour generator for run-time updates of a filter: TLC (-simulate) *)
(* walks MatcherUpd (start filter, then UDepth updates) and prints every     *)
(* behaviour when it is complete: the start filter, and per step the update, *)
(* the options the filter has afterwards and the verdict of Matcher!Accept   *)
(* under those options for EVERY name of UNameSeq (a string of 0/1; used to  *)
(* choose and explain probes - the recorded observations are judged by       *)
(* MatcherTrace.tla).                                                        *)
EXTENDS MatcherUpd, Json, TLC, SequencesExt, Randomization

CONSTANTS UDepth,     \* updates per behaviour
          UFan        \* successors TLC draws per step (random elements of UUpdates; the walk takes one of them)

UNameSeq == SetToSeq(UNames)
UN == Cardinality(UNames)
RECURSIVE UBitsFrom(_, _)
UBitsFrom(f, i) == IF i > UN THEN "" ELSE (IF Accept(f, UNameSeq[i]) THEN "1" ELSE "0") \o UBitsFrom(f, i + 1)
UBits(f) == UBitsFrom(f, 1)
RECURSIVE UFlatNames(_)
UFlatNames(i) == IF i > UN THEN <<>> ELSE <<Flat(UNameSeq[i])>> \o UFlatNames(i + 1)
ASSUME PrintT("@@N " \o ToJson([names |-> UFlatNames(1)]))

\* TLC's simulator evaluates the invariant on EVERY successor it generates, not only on the one it
\* walks to: the behaviour is printed in a final step of its own (one successor), when it is complete
USets == (SUBSET OptNames) \ {{}}
USmallSets == {S \in USets : Cardinality(S) <= 2}      \* an update usually names one or two options
VARIABLES f0, us, done
gvars == <<opts, eff, f0, us, done>>
GInit == UInit /\ f0 = opts /\ us = <<>> /\ done = FALSE
GStep == /\ Len(us) < UDepth
         /\ \E S \in RandomSubset(1, IF RandomElement(1..3) = 1 THEN USets ELSE USmallSets), v \in RandomSubset(UFan, UFilters) :
              LET u == Upd(S, v)             \* an element of UUpdates
              IN                /\ UApply(u)
                                /\ us' = Append(us, [set |-> u.set, val |-> u.val, conf |-> opts'])
         /\ UNCHANGED <<f0, done>>
GDone == Len(us) = UDepth /\ ~done /\ done' = TRUE /\ UNCHANGED <<opts, eff, f0, us>>
GNext == GStep \/ GDone
GSpec == GInit /\ [][GNext]_gvars

Emit == done =>
  PrintT("@@U " \o ToJson([f |-> RenderFilter(f0), ast |-> f0, expect |-> UBits(f0),
                           steps |-> [i \in 1..Len(us) |->
                                        [set |-> us[i].set, val |-> us[i].val, go |-> RenderFilter(us[i].val),
                                         conf |-> RenderFilter(us[i].conf), expect |-> UBits(us[i].conf)]]]))
=============================================================================
