---------------------------- MODULE BufIsoTrace ----------------------------
(* C04 trace specification: events recorded from the real Table / input.Plain *)
(* / routes / destination / aggregator (harness/rw) are replayed as behaviours *)
(* of the faithful BufIso machine, with the forwarded content computed by     *)
(* Rewrite.tla from the raw input line and the scenario's rewriter list.       *)
(*   scn      a new scenario: rules (rewriter list, Rewrite.tla records)       *)
(*   fill     the caller wrote b into its buffer (a line, or garbage = reuse)  *)
(*   handoff  Dispatch is called with the buffer (id = running number)         *)
(*   ret      direct calls only: b = the buffer's content when Dispatch returned*)
(*   deliver  consumer c received line id, at = the bytes it read then         *)
(*   end      capture routes: b = what the slice kept since delivery shows at  *)
(*            the end of the scenario                                          *)
(*   aggsaw   the aggregator (deferred) worked on this name for line id        *)
(* id 0 = the driver could not attribute the bytes to any hand-off.            *)
EXTENDS BufIso, Rewrite, Json, TLCExt, IOUtils

TLog == ndJsonDeserialize("trace.ndjson")

VARIABLES l, rules
tvars == <<l, rules, callerBuf, heap, held, sent, delivered, nextId>>

ASSUME TLCSet(1, 0)

Ev == TLog[l]
Is(e) == l <= Len(TLog) /\ Ev.ev = e /\ l' = l + 1

TInit == l = 1 /\ rules = <<>> /\ BInit(<<>>)

TScn == /\ Is("scn")
        /\ \A k \in 1..Len(Ev.rules) : WellFormedRule(Ev.rules[k])
        /\ rules' = Ev.rules
        /\ callerBuf' = <<>> /\ heap' = <<>> /\ held' = {} /\ sent' = <<>> /\ delivered' = {} /\ nextId' = 1

TFill == Is("fill") /\ CallerFill(Ev.b) /\ UNCHANGED rules

\* the line is handed to the relay; what it must forward is decided here, by the specification
THandOff == /\ Is("handoff") /\ Ev.id = nextId /\ ThreeFields(callerBuf)
            /\ DispatchAs(Forwarded(rules, callerBuf), Consumers)
            /\ UNCHANGED rules

\* the relay did not write into the caller's buffer
TRet == Is("ret") /\ Ev.b = callerBuf /\ UNCHANGED <<rules, callerBuf, heap, held, sent, delivered, nextId>>

TDeliver == /\ Is("deliver")
            /\ \E h \in held : /\ h.c = Ev.c /\ h.id = Ev.id
                               /\ Ev.at = Content(h.ref)
                               /\ Consume(h)
            /\ UNCHANGED rules

TEnd == /\ Is("end")
        /\ \E h \in held : h.c = Ev.c /\ h.id = Ev.id /\ Ev.b = Content(h.ref)
        /\ UNCHANGED <<rules, callerBuf, heap, held, sent, delivered, nextId>>

TAggSaw == /\ Is("aggsaw")
           /\ \E h \in held : /\ h.c = "agg" /\ h.id = Ev.id
                              /\ Ev.name = NamePart(Content(h.ref))
                              /\ Consume(h)
           /\ UNCHANGED rules

TNext == TScn \/ TFill \/ THandOff \/ TRet \/ TDeliver \/ TEnd \/ TAggSaw
TSpec == TInit /\ [][TNext]_tvars

HighWater == TLCSet(1, IF l - 1 > TLCGet(1) THEN l - 1 ELSE TLCGet(1))
Post == PrintT("@@TRACE " \o ToJson([matched |-> TLCGet(1)]))
=============================================================================
