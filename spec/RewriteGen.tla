----------------------------- MODULE RewriteGen -----------------------------
(* C04 case generator: TLC enumerates rewriter rule lists of one family and,  *)
(* for every rule list, every name up to NameMax bytes over Sigma together    *)
(* with the rewritten name and the forwarded line the specification expects.  *)
(* One initial state = one rule list; it is printed as one JSON line.         *)
EXTENDS Rewrite, Json, TLC

CONSTANTS Family,     \* "lit" | "not" | "rx" | "rxg" | "list"
          NameMax,    \* names: 1..NameMax bytes over Sigma
          Big         \* FALSE: the small pools of the quick tier

A == 97
B == 98
D == 46
Sigma == {A, B, D}
\* value and timestamp tokens are opaque to the rewriters; they are spelled with bytes of Sigma so
\* that a rule applied to more than the name shows:  "0xa.bp0" (= 10.6875)  "0xb.ap0" (= 11.625)
VAL == <<48, 120, 97, 46, 98, 112, 48>>
TS  == <<48, 120, 98, 46, 97, 112, 48>>

SeqsUpTo(S, lo, hi) == UNION {[1..k -> S] : k \in lo..hi}
Names == SeqsUpTo(Sigma, 1, NameMax)

Atom(neg, cs, plus) == [neg |-> neg, cs |-> cs, plus |-> plus]
PosCs == {<<A>>, <<B>>, <<D>>, <<A, B>>}
NegCs == {<<>>, <<A>>, <<A, D>>}
AtomsFull  == {Atom(FALSE, cs, p) : cs \in PosCs, p \in BOOLEAN} \cup {Atom(TRUE, cs, p) : cs \in NegCs, p \in BOOLEAN}
AtomsSmall == {Atom(FALSE, <<A>>, FALSE), Atom(FALSE, <<A>>, TRUE), Atom(FALSE, <<B>>, FALSE), Atom(FALSE, <<D>>, FALSE),
               Atom(FALSE, <<A, B>>, TRUE), Atom(TRUE, <<>>, FALSE), Atom(TRUE, <<D>>, TRUE)}

Rx(items, groups, as, ae) == [items |-> items, groups |-> groups, astart |-> as, aend |-> ae]
Lit(c) == [k |-> "lit", c |-> c, n |-> 0, br |-> FALSE]
Ref(n, br) == [k |-> "ref", c |-> 0, n |-> n, br |-> br]

LitRule(old, new, max, notk, notl, notrx) ==
    [re |-> FALSE, old |-> old, new |-> new, rx |-> NoRx, tpl |-> <<>>, notk |-> notk, notl |-> notl,
     notrx |-> notrx, max |-> max]
RxRule(rx, tpl, notk, notl, notrx) ==
    [re |-> TRUE, old |-> <<>>, new |-> <<>>, rx |-> rx, tpl |-> tpl, notk |-> notk, notl |-> notl,
     notrx |-> notrx, max |-> -1]

-----------------------------------------------------------------------------
\* family "lit": literal rules, every Max value around the number of occurrences
Olds == SeqsUpTo(Sigma, 1, 2)
News == {<<>>, <<A>>, <<B>>, <<D>>, <<B, A>>, <<A, A>>} \cup (IF Big THEN {<<A, B>>, <<D, D>>, <<B, D, B>>} ELSE {})
Maxes == {-1, 0, 1, 2} \cup (IF Big THEN {3, 4} ELSE {})
FamLit == {<<LitRule(o, n, m, "none", <<>>, NoRx)>> : o \in Olds, n \in News, m \in Maxes}

\* family "not": a few base rules under every not-clause
NotRxs == {r \in {Rx(it, <<>>, as, ae) : it \in SeqsUpTo(AtomsSmall, 1, IF Big THEN 2 ELSE 1), as \in BOOLEAN, ae \in BOOLEAN}
             : WellFormedRx(r)}
Bases(notk, notl, notrx) ==
    {LitRule(<<A>>, <<B>>, -1, notk, notl, notrx),
     LitRule(<<A, B>>, <<D>>, 1, notk, notl, notrx),
     RxRule(Rx(<<Atom(FALSE, <<A>>, TRUE)>>, <<>>, FALSE, FALSE), <<Ref(0, TRUE), Lit(D)>>, notk, notl, notrx)}
FamNot == {<<r>> : r \in UNION ({Bases("lit", l, NoRx) : l \in SeqsUpTo(Sigma, 1, 2)}
                               \cup {Bases("re", <<>>, x) : x \in NotRxs})}

\* family "rx": every well-formed regex of <= 2 atoms (no groups), all anchor combinations
TplsPlain == {<<>>, <<Ref(0, TRUE), Lit(D)>>, <<Lit(A), Ref(0, FALSE)>>}
             \cup (IF Big THEN {<<Lit(B)>>, <<Ref(0, FALSE), Ref(0, TRUE)>>, <<Ref(1, TRUE)>>} ELSE {})
RxPlain == {r \in {Rx(it, <<>>, as, ae) : it \in SeqsUpTo(IF Big THEN AtomsFull ELSE AtomsSmall, 1, 2),
                                           as \in BOOLEAN, ae \in BOOLEAN} : WellFormedRx(r)}
FamRx == {<<RxRule(x, t, "none", <<>>, NoRx)>> : x \in RxPlain, t \in TplsPlain}

\* family "rxg": capture groups and ${n} / $n references, 2..3 atoms
GroupSets(n) == {<<>>, <<<<1, n>>>>, <<<<1, 1>>>>, <<<<n, n>>>>, <<<<1, 1>>, <<2, n>>>>, <<<<1, n>>, <<1, 1>>>>,
                 <<<<1, n>>, <<2, 2>>>>, <<<<1, 2>>, <<2, 2>>>>}
TplsRef == {<<Ref(2, TRUE), Ref(1, TRUE)>>, <<Ref(1, FALSE), Lit(D), Ref(2, FALSE)>>, <<Ref(3, TRUE), Lit(B), Ref(0, TRUE)>>}
           \cup (IF Big THEN {<<Ref(1, TRUE)>>, <<Lit(B), Ref(2, TRUE), Lit(A)>>, <<Ref(2, FALSE)>>} ELSE {})
AtomsTiny == {Atom(FALSE, <<A>>, FALSE), Atom(FALSE, <<B>>, TRUE), Atom(FALSE, <<D>>, FALSE), Atom(TRUE, <<>>, FALSE)}
RxGrouped == {r \in {Rx(it, g, FALSE, FALSE) : it \in SeqsUpTo(AtomsSmall, 2, 2), g \in GroupSets(2)} : WellFormedRx(r)}
             \cup (IF Big THEN {r \in {Rx(it, g, as, FALSE) : it \in [1..3 -> AtomsTiny], g \in GroupSets(3) \cup {<<<<2, 3>>, <<3, 3>>>>},
                                                              as \in {FALSE}} : WellFormedRx(r)}
                   ELSE {})
FamRxg == {<<RxRule(x, t, "none", <<>>, NoRx)>> : x \in RxGrouped, t \in TplsRef}

\* family "list": rule lists, order matters (each rule sees the output of the previous one,
\* not-clauses included)
ListPool ==
    {LitRule(<<A>>, <<B>>, 1, "none", <<>>, NoRx),
     LitRule(<<B>>, <<A, D>>, -1, "none", <<>>, NoRx),
     LitRule(<<D>>, <<>>, 2, "lit", <<B, B>>, NoRx),
     LitRule(<<A, D>>, <<B>>, -1, "re", <<>>, Rx(<<Atom(FALSE, <<D>>, FALSE)>>, <<>>, TRUE, FALSE)),
     RxRule(Rx(<<Atom(FALSE, <<A, B>>, TRUE)>>, <<<<1, 1>>>>, FALSE, FALSE), <<Ref(1, TRUE), Ref(1, TRUE)>>, "lit", <<D, D>>, NoRx),
     RxRule(Rx(<<Atom(FALSE, <<B>>, FALSE), Atom(TRUE, <<>>, FALSE)>>, <<<<2, 2>>>>, FALSE, FALSE), <<Ref(1, FALSE), Lit(D), Lit(A)>>, "none", <<>>, NoRx)}
    \cup (IF Big THEN
    {LitRule(<<B, A>>, <<A, B>>, 1, "none", <<>>, NoRx),
     RxRule(Rx(<<Atom(TRUE, <<D>>, TRUE)>>, <<>>, TRUE, FALSE), <<Lit(D), Ref(0, TRUE)>>, "re", <<>>, Rx(<<Atom(FALSE, <<B>>, FALSE)>>, <<>>, FALSE, TRUE))}
    ELSE {})
FamList == SeqsUpTo(ListPool, 2, 3)

RuleLists == IF Family = "lit" THEN FamLit
             ELSE IF Family = "not" THEN FamNot
             ELSE IF Family = "rx" THEN FamRx
             ELSE IF Family = "rxg" THEN FamRxg
             ELSE FamList

VARIABLE rules
Init == rules \in RuleLists
Next == UNCHANGED rules
Spec == Init /\ [][Next]_rules

Case == [rules |-> rules, val |-> VAL, ts |-> TS,
         outs |-> {LET e == ApplyAll(rules, nm) IN [n |-> nm, e |-> e, f |-> Join(<<e, VAL, TS>>, 32)] : nm \in Names}]
Emit == PrintT("@@C " \o ToJson(Case))
\* the generator only emits rules for which the specification is defined
WF == \A k \in 1..Len(rules) : WellFormedRule(rules[k])
=============================================================================
