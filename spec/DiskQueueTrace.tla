--------------------------- MODULE DiskQueueTrace ---------------------------
(* Level-B conformance: the stream of hook events recorded inside            *)
(* nsqd/diskqueue.go (one event per filesystem mutation / linearization      *)
(* point, with the in-memory positions and the decoded directory content)    *)
(* must be a behaviour of DiskQueue.tla.  Steps of the model that have no    *)
(* hook (loop top, read-ahead, receiving the write request, tail check,      *)
(* leaving the loop) are silent: TLC searches for them between two events.   *)
(* This is what transfers TLC's exhaustive crash exploration of DiskQueue.tla *)
(* to the code: the code takes the model's steps, in the model's order, with *)
(* the model's positions and file contents.                                   *)
EXTENDS Integers, Sequences, FiniteSets, TLC, TLCExt, Json, IOUtils

CONSTANTS TraceSizes,     \* record sizes (in cells) that occur in the trace
          MaxFile, SyncEvery  \* the queue settings of this group of histories

TLog == ndJsonDeserialize("trace.ndjson")

VARIABLES l,
  seg, meta, tmp,
  rf, rp, wf, wp, depth, nrf, nrp, needSync, count, wopen, pending, pc, ret, up, ropen, rbuf, rfoff,
  enq, lseq, consumed, taken, wSync, cSync, crashes, mark

INSTANCE DiskQueue WITH Sizes <- TraceSizes, MaxPuts <- 1000000,
                        MaxCrashes <- 0, AllowReopen <- TRUE, AllowTick <- FALSE, PostPuts <- 0, Mutant <- ""

tvars == <<l, vars>>

ASSUME TLCSet(1, 0)

Ev == TLog[l]
Is(e) == l <= Len(TLog) /\ Ev.ev = e /\ l' = l + 1
Same == TRUE

\* decoded directory content of an event
SegOf(fs, f) == fs.segs[ToString(f)]
SegsEq(fs) == /\ \A f \in DOMAIN seg' : ToString(f) \in DOMAIN fs.segs /\ fs.segs[ToString(f)] = seg'[f]
              /\ Cardinality(DOMAIN fs.segs) = Cardinality(DOMAIN seg')
\* m[6] = bytes found in the file behind the metadata text (stale tail of an older, longer text)
MetaRec(m) == [depth |-> m[1], rf |-> m[2], rp |-> m[3], wf |-> m[4], wp |-> m[5], tail |-> m[6]]

TInit == l = 1 /\ Init

\* a new history: fresh directory, fresh queue (the first "open" of a history is part of it)
THist == /\ Is("hist") /\ MaxFile = Ev.maxfile /\ SyncEvery = Ev.syncevery
         /\ seg' = <<>> /\ meta' = None /\ tmp' = None
         /\ rf' = 0 /\ rp' = 0 /\ wf' = 0 /\ wp' = 0 /\ depth' = 0 /\ nrf' = 0 /\ nrp' = 0
         /\ needSync' = FALSE /\ count' = 0 /\ wopen' = FALSE /\ pending' = -1 /\ pc' = "top" /\ ret' = "top" /\ up' = TRUE
         /\ ropen' = FALSE /\ rbuf' = <<>> /\ rfoff' = 0
         /\ enq' = <<>> /\ lseq' = <<>> /\ consumed' = 0 /\ taken' = <<>> /\ wSync' = 0 /\ cSync' = 0 /\ crashes' = 0 /\ mark' = None

TOpen    == Is("open") /\ Open /\ Same
TClosed  == Is("closed") /\ Closed /\ Same
TWOpen   == Is("w_open") /\ WOpen /\ Same /\ Ev.st[4] = wf /\ Ev.st[5] = wp /\ SegsEq(Ev.fs)
TWWrite  == Is("w_write") /\ PutWrite /\ Same /\ Ev.id = Len(enq) /\ SegsEq(Ev.fs)
TSyncTmp == Is("m_tmp_write") /\ SyncTmp /\ Same /\ tmp' = MetaRec(Ev.fs.tmp)
TSyncRen == Is("m_rename") /\ SyncRen /\ Same /\ meta' = MetaRec(Ev.fs.meta) /\ "tmp" \notin DOMAIN Ev.fs
TTake    == /\ Is("take") /\ Take /\ Same /\ Ev.id = pending
            /\ Ev.st[2] = rf /\ Ev.st[3] = rp /\ Ev.st[6] = nrf /\ Ev.st[7] = nrp /\ Ev.st[1] = depth
TRm      == Is("r_remove") /\ Rm /\ Same /\ SegsEq(Ev.fs) /\ Ev.st[2] = rf /\ Ev.st[3] = rp /\ Ev.st[1] = depth
TReadErr == Is("bad_rename") /\ ReadErr /\ Same

Silent == /\ (Top \/ Read \/ (\E n \in TraceSizes : PutStart(n)) \/ PutClose \/ Tail_ \/ CleanClose)
          /\ UNCHANGED l

TNext == THist \/ TOpen \/ TClosed \/ TWOpen \/ TWWrite \/ TSyncTmp \/ TSyncRen \/ TTake \/ TRm \/ TReadErr \/ Silent
TSpec == TInit /\ [][TNext]_tvars

HighWater == TLCSet(1, IF l - 1 > TLCGet(1) THEN l - 1 ELSE TLCGet(1))
Post == PrintT("@@TRACE " \o ToJson([matched |-> TLCGet(1)]))
\* the level-B model's own invariants, evaluated in every state of the real execution
TInv == C09Fifo /\ NoGarbage /\ NoSkip
=============================================================================
