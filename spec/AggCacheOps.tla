---------------------------- MODULE AggCacheOps ----------------------------
(* The match cache of an aggregator as operators (no state): shared by the   *)
(* state machine AggCache.tla and the trace specification MatcherTrace.tla.  *)
(* What an aggregator answers for a metric name is a PAIR: whether the       *)
(* filter accepts the name (m) and, if so, the output name the template      *)
(* expands to (key).  The output name may well be the empty string (an empty *)
(* or absent group, a reference to a group that does not exist): that says   *)
(* nothing about m.                                                          *)
EXTENDS Matcher

\* the answer computed afresh for filter f, template t, name n
FreshAns(f, t, n) == IF Accept(f, n) THEN [m |-> TRUE, key |-> OutKey(f, t, n)] ELSE [m |-> FALSE, key |-> <<>>]

\* -- operators shared with the trace specification (filter and template passed explicitly)
\* bug = "none": the specification; other values are named deviations that the invariants must reject
Key(n, bug) == IF bug = "first_char" THEN SubSeq(n, 1, IF Len(n) > 0 THEN 1 ELSE 0) ELSE n
\* what a cache entry e says
Hit(e, bug) == IF bug = "empty_key_means_reject" THEN [m |-> e.key # <<>>, key |-> e.key]    \* "no output name = not accepted"
               ELSE [m |-> e.m, key |-> e.key]
Answer(f, t, ch, n, bug) == IF Key(n, bug) \in DOMAIN ch THEN Hit(ch[Key(n, bug)], bug) ELSE FreshAns(f, t, n)
Remember(f, t, ch, n, now, bug) ==
  LET a == Answer(f, t, ch, n, bug)
  IN [k \in DOMAIN ch \cup {Key(n, bug)} |-> IF k = Key(n, bug) THEN [m |-> a.m, key |-> a.key, seen |-> now] ELSE ch[k]]
Stale(ch, now, wait) == {k \in DOMAIN ch : ch[k].seen < now - 100 * wait}
Cleaned(ch, now, wait) == {[k \in DOMAIN ch \ S |-> ch[k]] : S \in SUBSET Stale(ch, now, wait)}
\* both components of every entry are what a fresh computation gives
Fresh(f, t, ch) == \A k \in DOMAIN ch : [m |-> ch[k].m, key |-> ch[k].key] = FreshAns(f, t, k)

=============================================================================
