---------------------------- MODULE AggCacheOps ----------------------------
(* The match cache of an aggregator as operators (no state): shared by the   *)
(* state machine AggCache.tla and the trace specification MatcherTrace.tla.  *)
EXTENDS Matcher

\* -- operators shared with the trace specification (filter passed explicitly)
Key(n, bug) == IF bug = "first_char" THEN SubSeq(n, 1, IF Len(n) > 0 THEN 1 ELSE 0) ELSE n
Answer(f, ch, n, bug) == IF Key(n, bug) \in DOMAIN ch THEN ch[Key(n, bug)].m ELSE Accept(f, n)
Remember(f, ch, n, t, bug) ==
  [k \in DOMAIN ch \cup {Key(n, bug)} |-> IF k = Key(n, bug) THEN [m |-> Answer(f, ch, n, bug), seen |-> t] ELSE ch[k]]
Stale(ch, t, wait) == {k \in DOMAIN ch : ch[k].seen < t - 100 * wait}
Cleaned(ch, t, wait) == {[k \in DOMAIN ch \ S |-> ch[k]] : S \in SUBSET Stale(ch, t, wait)}
Fresh(f, ch) == \A k \in DOMAIN ch : ch[k].m = Accept(f, k)

=============================================================================
