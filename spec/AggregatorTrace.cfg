SPECIFICATION TSpec
CONSTRAINT HighWater
INVARIANT TInv
POSTCONDITION Post
CHECK_DEADLOCK FALSE
CONSTANTS
  Intervals = {1}
  Waits = {0}
  Fmts = {"flat"}
  Names = {"n1", "n2", "n3"}
  Vals = {1}
  MaxT = 100000
  TsSet = {0}
  MaxLag = 100000
  MaxStep = 100000
  Window = 0
  MaxPoints = 100000
  MaxTicks = 100000
  MaxContrib = 100000
  Mutant = ""
