------------------------------ MODULE Aggregator ------------------------------
(* C10 -- aggregations emit exactly one correct point per bucket, once, in     *)
(* order.                                                                      *)
(*                                                                             *)
(* Implementation-shaped model of aggregator/aggregator.go (run, AddOrCreate,  *)
(* Flush) and exact definitions of the ten processor functions of              *)
(* aggregator/processor.go.                                                    *)
(*                                                                             *)
(*   a.aggregations  map[q] -> map[key] -> Processor                           *)
(*        lvl1     the set of first-level keys q                               *)
(*        buckets  <<q, key>> |-> Seq(<<val, ts>>)  (contribution order kept;  *)
(*                 a Processor is a fold over exactly this sequence)           *)
(*   a.tsList        tsList (kept sorted by AddOrCreate, consumed by Flush)    *)
(*   a.now()         now   (injected clock, non-decreasing)                    *)
(*   numTooOld       tooOld                                                    *)
(*                                                                             *)
(* Model time is relative: the drivers add a base (a multiple of every         *)
(* interval, far from 0) so that the code's unsigned `now - wait` never wraps. *)
(*                                                                             *)
(* Ghost variables (not in the code): closed, dbl, closedUpTo, lastFlush,      *)
(* lastOp.  The property is stated over them: NoDoubleEmit, ClosedStaysClosed, *)
(* AscendingWithinFlush (invariants) and ExactlyOnceContribution (a step       *)
(* property: StepOK, written in terms of the statement only -- bucket start,   *)
(* expanded name, open/closed -- not in terms of lvl1/tsList).                 *)
(*                                                                             *)
(* The expanded output name is computed by AggregatorNames.tla (regex match +  *)
(* Go regexp.Expand template semantics); bucket keys ARE the output names.     *)
EXTENDS Integers, Sequences, FiniteSets, TLC, AggregatorNames

CONSTANTS Intervals, Waits, Fmts,   \* configurations explored (chosen in Init)
          Names,                    \* metric names offered ("nx" never matches the regex)
          Vals,                     \* values (integers; |v| <= 100)
          MaxT,                     \* the clock ranges over 0..MaxT
          TsSet,                    \* timestamps offered (a subset of 0..MaxT)
          MaxLag,                   \* a tick value is at most this far behind the clock
          MaxStep,                  \* largest clock advance in one step
          Window,                   \* 0: timestamps 0..MaxT; w > 0: now-wait-w .. now+w
          MaxPoints, MaxTicks,      \* bounds of the exhaustive configs
          MaxContrib,               \* contributions per bucket (32-bit rationals: <= 8)
          Mutant                    \* "" or a named deviation

VARIABLES interval, wait, fmt,      \* configuration, constant during a behaviour
          now, lvl1, buckets, tsList, tooOld,
          closed, dbl, closedUpTo, lastT, lastFlush, lastOp, nPoints, nTicks

cfgvars == <<interval, wait, fmt>>
vars == <<interval, wait, fmt, now, lvl1, buckets, tsList, tooOld,
          closed, dbl, closedUpTo, lastT, lastFlush, lastOp, nPoints, nTicks>>
\* what the future of a behaviour and all invariants depend on (lastOp only feeds StepOK,
\* which TLC evaluates on every transition, seen or not)
mcview == <<interval, wait, fmt, now, lvl1, buckets, tsList, tooOld,
            closed, dbl, closedUpTo, lastT, lastFlush, nPoints, nTicks>>

Min2(a, b) == IF a < b THEN a ELSE b
Max2(a, b) == IF a > b THEN a ELSE b

(* The statement's "expanded output name" of a point: the output format        *)
(* expanded against the regex match (AggregatorNames.tla: ${n}/$n group text,  *)
(* n = 0 the whole match, unknown group -> empty, $$ -> $, with or without     *)
(* capturing groups in the regex); "" = the rule does not match the name.      *)
(* Rules: flat (no groups, literal format), g1 g12 g0 (regex with groups) and  *)
(* w0 w0t dd mis (NO groups, format that needs expansion).  Names: n1 =        *)
(* raw.a.x, n2 = raw.a.y, n3 = raw.b.x, nx = raw.a.z (passes PreMatch, matches *)
(* no regex).                                                                  *)
OutName(f, name) == NmOut[f][name]

\* Matcher.MatchRegexAndExpand as the aggregator uses it (deviation: a regex without capturing
\* groups "has nothing to expand", the format is returned as it is)
KeyOf(f, name) ==
  IF Mutant = "no_group_template_verbatim" /\ NmGroups[f] = 0 /\ OutName(f, name) # ""
  THEN NmTmplText[f] ELSE OutName(f, name)

\* every bucket key that can occur
Keys == NmAllOut \cup {NmTmplText[f] : f \in NmAllFmts}

\* the statement's "timestamp rounded down to the interval"
BucketStart(ts) == (ts \div interval) * interval

\* run(): quantized := ts - ts % Interval
Quant(ts) == CASE Mutant = "wrong_quant" -> ts - (ts % (interval + 1))
               [] OTHER -> ts - (ts % interval)

\* AddOrCreate: `quantized > now - wait`
OpenCond(q) == IF Mutant = "ge_open" THEN q >= now - wait ELSE q > now - wait

RECURSIVE InsSorted(_, _)
InsSorted(s, x) == IF s = <<>> THEN <<x>>
                   ELSE IF x < Head(s) THEN <<x>> \o s
                   ELSE <<Head(s)>> \o InsSorted(Tail(s), x)
RECURSIVE SortInts(_)
SortInts(s) == IF s = <<>> THEN <<>> ELSE InsSorted(SortInts(Tail(s)), Head(s))

\* append, then sort if the previous last element is larger
AppendTs(l, q) ==
  LET a == Append(l, q) IN
  IF Mutant # "no_sort" /\ Len(a) > 1 /\ a[Len(a) - 1] > q THEN SortInts(a) ELSE a

Put(b, x, c) == IF x \in DOMAIN b THEN [b EXCEPT ![x] = Append(@, c)]
                ELSE [y \in DOMAIN b \cup {x} |-> IF y = x THEN <<c>> ELSE b[y]]

Init ==
  /\ interval \in Intervals /\ wait \in Waits /\ fmt \in Fmts
  /\ now = 0 /\ lvl1 = {} /\ buckets = <<>> /\ tsList = <<>> /\ tooOld = 0
  /\ closed = {} /\ dbl = FALSE /\ closedUpTo = -1 /\ lastT = 0 /\ lastFlush = <<>>
  /\ lastOp = [op |-> "init"] /\ nPoints = 0 /\ nTicks = 0

-------------------------------------------------------------------------------
Advance(n) ==
  /\ n > now /\ n <= MaxT /\ n <= now + MaxStep
  /\ now' = n
  /\ lastOp' = [op |-> "adv", now |-> n]
  /\ lastFlush' = <<>>
  /\ UNCHANGED <<cfgvars, lvl1, buckets, tsList, tooOld, closed, dbl, closedUpTo, lastT, nPoints, nTicks>>

\* AddOrCreate(key, ts, quantized, value)
AddOrCreate(key, ts, q, val) ==
  IF q \in lvl1 /\ <<q, key>> \in DOMAIN buckets
  THEN \* both levels exist: only add the value
       /\ buckets' = Put(buckets, <<q, key>>, <<val, ts>>)
       /\ UNCHANGED <<lvl1, tsList, tooOld>>
  ELSE \* the first level is created (and q registered in tsList) even if the point turns
       \* out to be too old
       /\ IF q \in lvl1 THEN UNCHANGED <<lvl1, tsList>>
          ELSE lvl1' = lvl1 \cup {q} /\ tsList' = AppendTs(tsList, q)
       /\ IF OpenCond(q)
          THEN /\ buckets' = (IF Mutant = "two_buckets" /\ q >= interval
                              THEN Put(Put(buckets, <<q, key>>, <<val, ts>>), <<q - interval, key>>, <<val, ts>>)
                              ELSE Put(buckets, <<q, key>>, <<val, ts>>))
               /\ tooOld' = tooOld
          ELSE buckets' = buckets /\ tooOld' = tooOld + 1

Process(name, val, ts) ==
  /\ nPoints < MaxPoints
  /\ nPoints' = nPoints + 1
  /\ lastOp' = [op |-> "proc", name |-> name, val |-> val, ts |-> ts]
  /\ lastFlush' = <<>>
  /\ LET key == KeyOf(fmt, name) q == Quant(ts) IN
     /\ (<<q, key>> \in DOMAIN buckets => Len(buckets[<<q, key>>]) < MaxContrib)
     /\ IF key = "" THEN UNCHANGED <<lvl1, buckets, tsList, tooOld>>     \* `continue` in run()
        ELSE AddOrCreate(key, ts, q, val)
  /\ UNCHANGED <<cfgvars, now, closed, dbl, closedUpTo, lastT, nTicks>>

\* Flush: walk tsList until the first entry beyond the cutoff
FlushLen(cut) ==
  LET ok(n) == \A i \in 1..n : (IF Mutant = "lt_cutoff" THEN tsList[i] < cut ELSE tsList[i] <= cut)
  IN CHOOSE n \in 0..Len(tsList) : ok(n) /\ (n = Len(tsList) \/ ~ok(n + 1))

Flush(cut) ==
  LET n == FlushLen(cut)
      qs == {tsList[i] : i \in 1..n}
      group(q) == [q |-> q, lines |-> {[key |-> k, contrib |-> buckets[<<q, k>>]] :
                                        k \in {k \in Keys : <<q, k>> \in DOMAIN buckets}}]
      em == {x \in DOMAIN buckets : x[1] \in qs}
  IN /\ lastFlush' = [i \in 1..n |-> group(tsList[i])]
     /\ tsList' = SubSeq(tsList, n + 1, Len(tsList))
     /\ IF Mutant = "no_delete" THEN UNCHANGED <<lvl1, buckets>>
        ELSE /\ lvl1' = lvl1 \ qs
             /\ buckets' = [x \in DOMAIN buckets \ em |-> buckets[x]]
     /\ closed' = closed \cup em
     /\ dbl' = (dbl \/ em \cap closed # {})
     /\ closedUpTo' = Max2(closedUpTo, cut)

\* tick value t: produced by the ticker no later than the clock reading of any later step
Tick(t) ==
  /\ nTicks < MaxTicks
  /\ nTicks' = nTicks + 1
  /\ t >= lastT /\ t <= now /\ t >= now - MaxLag
  /\ lastT' = t
  /\ lastOp' = [op |-> "tick", t |-> t]
  /\ Flush(t - wait)
  /\ UNCHANGED <<cfgvars, now, tooOld, nPoints>>

TsLo == IF Window = 0 THEN 0 ELSE Max2(0, now - wait - Window)
TsHi == IF Window = 0 THEN MaxT ELSE Min2(MaxT, now + Window)

Next ==
  \/ \E n \in 1..MaxT : Advance(n)
  \/ \E name \in Names, val \in Vals, ts \in TsSet : ts >= TsLo /\ ts <= TsHi /\ Process(name, val, ts)
  \/ \E t \in 0..MaxT : Tick(t)

Spec == Init /\ [][Next]_vars

-------------------------------------------------------------------------------
(* Invariants                                                                  *)
TypeOK ==
  /\ now \in 0..MaxT /\ tooOld \in Nat /\ lvl1 \subseteq 0..MaxT
  /\ \A x \in DOMAIN buckets : x[1] \in 0..MaxT /\ x[2] \in Keys /\ Len(buckets[x]) \in 1..MaxContrib
  /\ dbl \in BOOLEAN

\* implementation invariant: the list Flush walks is strictly ascending and is the first level
SortedTsList == /\ \A i, j \in 1..Len(tsList) : i < j => tsList[i] < tsList[j]
                /\ {tsList[i] : i \in 1..Len(tsList)} = lvl1
                /\ \A x \in DOMAIN buckets : x[1] \in lvl1

\* a <<bucket start, output name>> is emitted at most once, ever
NoDoubleEmit == ~dbl

\* within one flush, bucket starts are strictly ascending
AscendingWithinFlush == \A i, j \in 1..Len(lastFlush) : i < j => lastFlush[i].q < lastFlush[j].q

\* once a tick found a bucket due it is gone for good: nothing at or below a past cutoff is
\* open, and no emitted <<q,key>> is open again
ClosedStaysClosed == \A x \in DOMAIN buckets : x[1] > closedUpTo /\ x \notin closed

Flat(fl) == UNION {{[q |-> fl[i].q, key |-> l.key, contrib |-> l.contrib] : l \in fl[i].lines} : i \in 1..Len(fl)}

\* ExactlyOnceContribution, as a property of every step (level of the statement)
ProcOK(name, val, ts) ==
  LET key == OutName(fmt, name)
      b == <<BucketStart(ts), key>>
      isOpen == b \in DOMAIN buckets \/ b[1] > now - wait
  IN /\ closed' = closed
     /\ IF key = "" THEN buckets' = buckets /\ tooOld' = tooOld
        ELSE IF isOpen
        THEN \* contributes exactly once, to exactly that bucket, and to no other
             buckets' = Put(buckets, b, <<val, ts>>) /\ tooOld' = tooOld
        ELSE \* too old: counted, no contribution anywhere
             buckets' = buckets /\ tooOld' = tooOld + 1
     \* a closed bucket never takes a point
     /\ (key # "" /\ (b \in closed \/ b[1] <= closedUpTo)) => (buckets' = buckets /\ tooOld' = tooOld + 1)

TickOK(t) ==
  LET due == {x \in DOMAIN buckets : x[1] <= t - wait} IN
  \* exactly the due buckets are emitted, each once, with exactly their contributions; the
  \* others are untouched
  /\ Flat(lastFlush') = {[q |-> x[1], key |-> x[2], contrib |-> buckets[x]] : x \in due}
  /\ \A i \in 1..Len(lastFlush') : Cardinality({l.key : l \in lastFlush'[i].lines}) = Cardinality(lastFlush'[i].lines)
  /\ buckets' = [x \in DOMAIN buckets \ due |-> buckets[x]]
  /\ tooOld' = tooOld

StepOK ==
  CASE lastOp'.op = "proc" -> ProcOK(lastOp'.name, lastOp'.val, lastOp'.ts)
    [] lastOp'.op = "tick" -> TickOK(lastOp'.t)
    [] OTHER -> buckets' = buckets /\ tooOld' = tooOld /\ closed' = closed /\ lastFlush' = <<>>
ExactlyOnceContribution == [][StepOK]_vars

-------------------------------------------------------------------------------
(* The processor functions, exactly, over a contribution sequence c of         *)
(* <<val, ts>>; rationals are <<num, den>> with den > 0 (not reduced).         *)
RECURSIVE SumV(_)
SumV(c) == IF c = <<>> THEN 0 ELSE Head(c)[1] + SumV(Tail(c))
RECURSIVE SumSq(_)
SumSq(c) == IF c = <<>> THEN 0 ELSE Head(c)[1] * Head(c)[1] + SumSq(Tail(c))
ValSet(c) == {c[i][1] : i \in 1..Len(c)}
MinV(c) == CHOOSE v \in ValSet(c) : \A w \in ValSet(c) : v <= w
MaxV(c) == CHOOSE v \in ValSet(c) : \A w \in ValSet(c) : v >= w
FCount(c) == Len(c)
FSum(c) == SumV(c)
FMin(c) == MinV(c)
FMax(c) == MaxV(c)
FLast(c) == c[Len(c)][1]
FDelta(c) == MaxV(c) - MinV(c)
FAvg(c) == <<SumV(c), Len(c)>>
\* population variance (stdev = its square root): (n*sum(v^2) - sum(v)^2) / n^2
FVar(c) == <<Len(c) * SumSq(c) - SumV(c) * SumV(c), Len(c) * Len(c)>>
\* derive: (newest value - oldest value) / (newest ts - oldest ts); no result when the bucket
\* holds a single timestamp.  Which of several contributions with the same extreme timestamp
\* counts is not fixed by the statement: every choice is acceptable.
CTs(c) == {c[i][2] : i \in 1..Len(c)}
MinTs(c) == CHOOSE t \in CTs(c) : \A u \in CTs(c) : t <= u
MaxTs(c) == CHOOSE t \in CTs(c) : \A u \in CTs(c) : t >= u
FDeriveOk(c) == MinTs(c) # MaxTs(c)
FDerive(c) == {<<c[j][1] - c[i][1], MaxTs(c) - MinTs(c)>> :
                  <<i, j>> \in {p \in (1..Len(c)) \X (1..Len(c)) : c[p[1]][2] = MinTs(c) /\ c[p[2]][2] = MaxTs(c)}}
\* percentile p, method R6 (Hyndman & Fan) as in processor.go: rank = p/100 * (n+1);
\* rank < 1 -> smallest; floor(rank) >= n -> largest; else linear interpolation
SortedVals(c) == SortInts([i \in 1..Len(c) |-> c[i][1]])
FPct(c, p) ==
  LET s == SortedVals(c) n == Len(c) r == p * (n + 1) fl == r \div 100 fr == r % 100 IN
  IF r < 100 THEN <<s[1], 1>>
  ELSE IF fl >= n THEN <<s[n], 1>>
  ELSE <<100 * s[fl] + fr * (s[fl + 1] - s[fl]), 100>>

Results(c) ==
  [count |-> FCount(c), sum |-> FSum(c), min |-> FMin(c), max |-> FMax(c), last |-> FLast(c),
   delta |-> FDelta(c), avg |-> FAvg(c), var |-> FVar(c),
   deriveok |-> FDeriveOk(c), derive |-> IF FDeriveOk(c) THEN FDerive(c) ELSE {},
   p25 |-> FPct(c, 25), p50 |-> FPct(c, 50), p75 |-> FPct(c, 75), p90 |-> FPct(c, 90),
   p95 |-> FPct(c, 95), p99 |-> FPct(c, 99)]

\* what a flush must put on `out`: per non-empty bucket start, in order, the set of lines
ExpectGroups(fl) ==
  LET g(i) == [q |-> fl[i].q,
               lines |-> {[key |-> l.key, n |-> Len(l.contrib), res |-> Results(l.contrib)] : l \in fl[i].lines}]
      keep == SelectSeq([i \in 1..Len(fl) |-> i], LAMBDA i : fl[i].lines # {})
  IN [k \in 1..Len(keep) |-> g(keep[k])]
=============================================================================
