SPECIFICATION FairSpec
INVARIANTS TypeOK P2_Quiet P2_NoLate P2_Refuse P4_NoExit P_Udp
PROPERTIES L2_StopTerminates L4_Reopens
CHECK_DEADLOCK FALSE
