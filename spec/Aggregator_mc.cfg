SPECIFICATION Spec
VIEW mcview
INVARIANTS TypeOK SortedTsList NoDoubleEmit AscendingWithinFlush ClosedStaysClosed
PROPERTY ExactlyOnceContribution
CHECK_DEADLOCK FALSE
