---------------------------- MODULE Destination ----------------------------
(* Level-B model of carbon-relay-ng's destination (destination/destination.go, conn.go,      *)
(* keepsafe.go, spool.go, slowchan.go) for C06 and C07.                                       *)
(*                                                                                            *)
(* Processes (one TLA+ action per critical section / select branch of the Go code):           *)
(*   Sender      the route's `dest.In <- buf` (unbuffered hand-off)                           *)
(*   Relay       destination.relay(): RelayTop = the code between `for {` and `select`,       *)
(*               then one action per select branch (inConnUpdate, connUpdates, ticker,        *)
(*               toUnspool, In); nonBlockingSend / nonBlockingSpool are select-default        *)
(*   Connector   updateConn(): announce (inConnUpdate<-true), dial, deliver, finish           *)
(*   ConnWriter  Conn.HandleData of connection k: receive from In, keepSafe.Add, Write,       *)
(*               flush (tick or full bufio), exit on shutdown (random select: may still       *)
(*               take from In while a shutdown is queued)                                     *)
(*   EofWatcher  Conn.checkEOF of connection k                                                *)
(*   KeepSafe    rotation tick of connection k's two-generation buffer                        *)
(*   Redo        collectRedo(k): getRedo drains In item by item, GetAll, Spool.Ingest (bulk)  *)
(*   Spool       Writer (InRT / InBulk -> queueBuffer), Buffer (queueBuffer -> disk FIFO,     *)
(*               abstract here, concrete in DiskQueue.tla), SlowChan (read-ahead of one)      *)
(*   Operator    address update (Destination.Update addr=..., route.UpdateDestination, `modDest .. addr=`):  *)
(*               updateConn(newaddr) in the caller's goroutine -- the connector's handshake, but     *)
(*               possibly while the relay holds a live connection, which is then simply replaced     *)
(*   Endpoint    mode \in {absent, blackhole, slow, healthy, closing, paused}, changes at any  *)
(*               step; "paused" = a healthy endpoint that makes no progress for a while (keeps  *)
(*               the connection, reads nothing) and then resumes and reads everything          *)
(*                                                                                            *)
(* Timing assumptions made explicit (the code relies on them, see conn.go:18-20):             *)
(*   A1 keepSafe rotation never discards a line the endpoint has not received (the keep       *)
(*      period exceeds the time to detect a dead connection) -- guard of KsRotate;            *)
(*   A2 the relay handles a connector's announcement before the next reconnect tick           *)
(*      (one connector at a time) -- guard of RelayTick.                                      *)
EXTENDS DestinationContract, Integers, Sequences, FiniteSets, TLC

CONSTANTS N,            \* number of lines the sender hands off
          Q,            \* cap(conn.In)            (connbuf)
          IOB,          \* lines fitting the bufio writer (iobuf)
          KB,           \* lines fitting the kernel socket buffers towards a non-reading endpoint
          RT,           \* cap(spool.InRT)         (10 in the code)
          SB,           \* cap(spool.queueBuffer)  (spoolbuf)
          MaxConn,      \* connection incarnations
          MaxChanges,   \* endpoint mode changes + socket closes
          Spool,        \* BOOLEAN: spooling enabled
          InitModes,    \* set of initial endpoint modes
          Modes,        \* set of modes the endpoint may switch to
          FixRedoWaits, \* TRUE: getRedo waits for HandleData to have exited (the F10 repair)
          AddrUpd,      \* BOOLEAN: the operator may point the destination at another endpoint (address update; counts as a change)
          Mutant        \* "" or the name of a deviation (non-vacuity / what a defect would look like)

AllModes == {"absent", "blackhole", "slow", "healthy", "closing", "paused"}
ASSUME InitModes \subseteq AllModes /\ Modes \subseteq AllModes
ASSUME Mutant \in {"", "BlockingSend", "DialInLoop", "DropNoCount", "RedoSkipDrain", "DropSafeOld",
                   "NoIngest", "UnspoolWhileSlow", "LoseReadAhead", "SpoolDropNoCount", "DownDropNoCount",
                   "WriteTimeoutDrop", "DeadDropNoCount", "BlockingUnspool", "SyncFlushOldConn", "KsCapRotate"}
ASSUME AddrUpd \in BOOLEAN

VARIABLES
  next, sender,                          \* Sender: next line 1..N+1; "idle" | "waiting"
  rpc, conn, unspoolOK, slowNow, slowLast, numCU, rhold,   \* Relay
  ctor, newconn,                         \* Connector: "none"|"ann"|"dial"|"deliver"|"fin"; conn id on connUpdates
  nconn, cin, alive, shut, hd, hdl,      \* per connection k
  ksOld, ksNew, ksdone, wbuf, kern, sock,
  redo, redolist,                        \* redo collector of connection k
  inrt, sbuf, disk, slow,                \* spool
  mode, changes, steady, received,       \* endpoint
  nSlowConn, nSlowSpool, nDownNoSpool    \* drop counters

senderV == <<next, sender>>
relayV  == <<rpc, conn, unspoolOK, slowNow, slowLast, numCU, rhold>>
ctorV   == <<ctor, newconn>>
connV   == <<nconn, cin, alive, shut, hd, hdl, ksOld, ksNew, ksdone, wbuf, kern, sock>>
redoV   == <<redo, redolist>>
spoolV  == <<inrt, sbuf, disk, slow>>
epV     == <<mode, changes, steady, received>>
cntV    == <<nSlowConn, nSlowSpool, nDownNoSpool>>
vars    == <<senderV, relayV, ctorV, connV, redoV, spoolV, epV, cntV>>

K == 1..MaxConn
Range(s) == {s[i] : i \in 1..Len(s)}
Dialable(m) == m \in {"blackhole", "slow", "healthy", "closing", "paused"}
\* an endpoint that is healthy with pauses stays in the steady state "healthy": it never closes a
\* connection and finally reads everything it was sent
Up(m) == m \in {"healthy", "paused"}

Init ==
  /\ next = 1 /\ sender = "idle"
  /\ rpc = "top" /\ conn = 0 /\ unspoolOK = FALSE /\ slowNow = FALSE /\ slowLast = FALSE /\ numCU = 0 /\ rhold = 0
  /\ ctor = "ann" /\ newconn = 0            \* relay() starts with `go dest.updateConn(dest.Addr)`
  /\ nconn = 0
  /\ cin = [k \in K |-> <<>>] /\ alive = [k \in K |-> FALSE] /\ shut = [k \in K |-> FALSE]
  /\ hd = [k \in K |-> "exit"] /\ hdl = [k \in K |-> 0]
  /\ ksOld = [k \in K |-> <<>>] /\ ksNew = [k \in K |-> <<>>] /\ ksdone = [k \in K |-> FALSE]
  /\ wbuf = [k \in K |-> <<>>] /\ kern = [k \in K |-> <<>>] /\ sock = [k \in K |-> "none"]
  /\ redo = [k \in K |-> "none"] /\ redolist = [k \in K |-> <<>>]
  /\ inrt = <<>> /\ sbuf = <<>> /\ disk = <<>> /\ slow = 0
  /\ mode \in InitModes /\ changes = 0 /\ steady = (IF mode = "paused" THEN "healthy" ELSE mode) /\ received = {}
  /\ nSlowConn = 0 /\ nSlowSpool = 0 /\ nDownNoSpool = 0

-----------------------------------------------------------------------------
(* Sender: route.Dispatch -> dest.In <- buf                                   *)
SenderOffer ==
  /\ sender = "idle" /\ next <= N /\ sender' = "waiting"
  /\ UNCHANGED <<next, relayV, ctorV, connV, redoV, spoolV, epV, cntV>>

-----------------------------------------------------------------------------
(* Relay                                                                      *)
RelayTop ==       \* destination.go: loop head up to the select
  /\ rpc = "top" /\ rpc' = "sel"
  /\ LET dead == IF conn = 0 THEN FALSE ELSE ~alive[conn]
         c2   == IF dead THEN 0 ELSE conn IN
     /\ conn' = c2
     /\ IF dead
          THEN IF Spool THEN redo' = [redo EXCEPT ![conn] = "drain"] /\ UNCHANGED ksdone
                        ELSE ksdone' = [ksdone EXCEPT ![conn] = TRUE] /\ UNCHANGED redo     \* clearRedo
          ELSE UNCHANGED <<redo, ksdone>>
     \* without spool nobody collects the dead connection: what is still queued in its In is gone
     /\ IF dead /\ ~Spool THEN cin' = [cin EXCEPT ![conn] = <<>>] ELSE UNCHANGED cin
     /\ unspoolOK' = (c2 # 0 /\ Spool /\ (Mutant = "UnspoolWhileSlow" \/ (~slowLast /\ ~slowNow)))
  /\ UNCHANGED <<senderV, slowNow, slowLast, numCU, rhold, ctorV, redolist, spoolV, epV, cntV,
                 nconn, alive, shut, hd, hdl, ksOld, ksNew, wbuf, kern, sock>>

\* src = "in" (line taken from dest.In) | "unspool" (line taken from the spool's Out channel).
\* Deviation "BlockingUnspool": the toUnspool branch hands its line over with a plain `conn.In <- buf` ("the line has
\* already left the disk queue, and we only unspool while the connection was not slow"): when the connection writer has
\* stopped taking lines meanwhile (endpoint not reading, or connection dead with a full queue) the relay loop sits there
\* and dest.In is not read any more.
SendCase(k, src) == IF Len(cin[k]) < Q THEN "ok"
                    ELSE IF Mutant = "BlockingSend" \/ (Mutant = "BlockingUnspool" /\ src = "unspool") THEN "block" ELSE "drop"
\* nonBlockingSend(l) to connection k; sets cin, nSlowConn, slowNow, rpc, rhold.
\* The connection may have died after the aliveness check of RelayTop (CheckEOF / a failed flush between
\* RelayTop and the select branch): a line that then finds In full never enters In or keepSafe, so the
\* redo collector never sees it -- it must be counted like any other slow_conn drop.  Deviation
\* "DeadDropNoCount": the default branch returns without counting when the connection is not alive.
DeadNoCount(k) == Mutant = "DeadDropNoCount" /\ ~alive[k]
DoSend(k, l, src) ==
  CASE SendCase(k, src) = "ok"    -> /\ cin' = [cin EXCEPT ![k] = Append(@, l)] /\ rpc' = "top"
                                /\ UNCHANGED <<nSlowConn, slowNow, rhold>>
    [] SendCase(k, src) = "drop"  -> /\ nSlowConn' = IF Mutant = "DropNoCount" \/ DeadNoCount(k) THEN nSlowConn ELSE nSlowConn + 1
                                /\ slowNow' = (IF DeadNoCount(k) THEN slowNow ELSE TRUE)
                                /\ rpc' = "top" /\ UNCHANGED <<cin, rhold>>
    [] SendCase(k, src) = "block" -> /\ rpc' = "bsend" /\ rhold' = l /\ UNCHANGED <<cin, nSlowConn, slowNow>>

RelayIn ==        \* case buf := <-dest.In
  /\ rpc = "sel" /\ sender = "waiting" /\ sender' = "idle" /\ next' = next + 1
  /\ IF conn # 0 THEN DoSend(conn, next, "in") /\ UNCHANGED <<inrt, nSlowSpool, nDownNoSpool>>
     ELSE /\ rpc' = "top" /\ UNCHANGED <<cin, nSlowConn, slowNow, rhold>>
          /\ IF Spool
               THEN IF Len(inrt) < RT THEN inrt' = Append(inrt, next) /\ UNCHANGED <<nSlowSpool, nDownNoSpool>>
                    ELSE /\ nSlowSpool' = IF Mutant = "SpoolDropNoCount" THEN nSlowSpool ELSE nSlowSpool + 1
                         /\ UNCHANGED <<inrt, nDownNoSpool>>
               ELSE /\ nDownNoSpool' = IF Mutant = "DownDropNoCount" THEN nDownNoSpool ELSE nDownNoSpool + 1
                    /\ UNCHANGED <<inrt, nSlowSpool>>
  /\ UNCHANGED <<conn, unspoolOK, slowLast, numCU, ctorV, redoV, sbuf, disk, slow, epV,
                 nconn, alive, shut, hd, hdl, ksOld, ksNew, ksdone, wbuf, kern, sock>>

RelayUnspool ==   \* case buf := <-toUnspool
  /\ rpc = "sel" /\ unspoolOK /\ slow # 0 /\ conn # 0
  /\ slow' = 0
  /\ IF Mutant = "LoseReadAhead" /\ ~alive[conn]
       THEN rpc' = "top" /\ UNCHANGED <<cin, nSlowConn, slowNow, rhold>>
       ELSE DoSend(conn, slow, "unspool")
  /\ UNCHANGED <<senderV, conn, unspoolOK, slowLast, numCU, ctorV, redoV, inrt, sbuf, disk, epV,
                 nSlowSpool, nDownNoSpool, nconn, alive, shut, hd, hdl, ksOld, ksNew, ksdone, wbuf, kern, sock>>

RelayBSendDone == \* only with Mutant = "BlockingSend" / "BlockingUnspool": `conn.In <- buf` without default
  /\ rpc = "bsend" /\ Len(cin[conn]) < Q
  /\ cin' = [cin EXCEPT ![conn] = Append(@, rhold)] /\ rhold' = 0 /\ rpc' = "top"
  /\ UNCHANGED <<senderV, conn, unspoolOK, slowNow, slowLast, numCU, ctorV, redoV, spoolV, epV, cntV,
                 nconn, alive, shut, hd, hdl, ksOld, ksNew, ksdone, wbuf, kern, sock>>

NewConn(k) ==     \* NewConn succeeded: sets nconn, alive, sock, hd
  /\ nconn' = k /\ alive' = [alive EXCEPT ![k] = TRUE] /\ sock' = [sock EXCEPT ![k] = "open"]
  /\ hd' = [hd EXCEPT ![k] = "idle"]

RelayTick ==      \* case <-ticker.C
  /\ rpc = "sel"
  /\ slowLast' = slowNow /\ slowNow' = FALSE
  /\ IF conn = 0 /\ numCU = 0 /\ ctor = "none" /\ nconn < MaxConn
       THEN IF Mutant = "DialInLoop" THEN rpc' = "dial" /\ UNCHANGED ctor
            ELSE ctor' = "ann" /\ rpc' = "top"
       ELSE rpc' = "top" /\ UNCHANGED ctor
  /\ UNCHANGED <<senderV, conn, unspoolOK, numCU, rhold, newconn, connV, redoV, spoolV, epV, cntV>>

RelayDialDone ==  \* only with Mutant = "DialInLoop": NewConn called from the relay goroutine
  /\ rpc = "dial" /\ rpc' = "top"
  /\ IF Dialable(mode) THEN NewConn(nconn + 1) /\ conn' = nconn + 1 /\ slowNow' = FALSE /\ slowLast' = FALSE
     ELSE UNCHANGED <<nconn, alive, sock, hd, conn, slowNow, slowLast>>
  /\ UNCHANGED <<senderV, unspoolOK, numCU, rhold, ctorV, redoV, spoolV, epV, cntV,
                 cin, shut, hdl, ksOld, ksNew, ksdone, wbuf, kern>>

RelayInConn ==    \* case inConnUpdate := <-dest.inConnUpdate
  /\ rpc = "sel" /\ ctor \in {"ann", "fin"} /\ rpc' = "top"
  /\ IF ctor = "ann" THEN numCU' = numCU + 1 /\ ctor' = "dial"
                     ELSE numCU' = numCU - 1 /\ ctor' = "none"
  /\ UNCHANGED <<senderV, conn, unspoolOK, slowNow, slowLast, rhold, newconn, connV, redoV, spoolV, epV, cntV>>

\* A connection delivered while one is still held (conn # 0) happens only after an address update (OpAddrUpdate; a
\* reconnect is started only with conn = nil).  The code just overwrites `conn`: the previous connection is abandoned
\* without waiting for anything (its writer may sit in a socket write to an endpoint that never reads).
\* Deviation "SyncFlushOldConn": the relay flushes and closes the previous connection inline before it takes the new
\* one (conn.Flush() is a synchronous handshake with that connection's writer, conn.Close() waits for it to exit):
\* with the writer parked in a write that never completes the relay loop sits there and dest.In is not read any more.
RelayConnUpdate == \* case conn = <-dest.connUpdates
  /\ rpc = "sel" /\ ctor = "deliver" /\ ctor' = "fin"
  /\ IF Mutant = "SyncFlushOldConn" /\ conn # 0
       THEN rpc' = "oflush" /\ UNCHANGED <<conn, newconn, slowNow, slowLast>>     \* newconn = the relay's local newConn
       ELSE rpc' = "top" /\ conn' = newconn /\ newconn' = 0 /\ slowNow' = FALSE /\ slowLast' = FALSE
  /\ UNCHANGED <<senderV, unspoolOK, numCU, rhold, connV, redoV, spoolV, epV, cntV>>

\* only with Mutant = "SyncFlushOldConn": the previous connection's writer was in its select, took the flush request,
\* got everything out of the io buffer and answered; Close(): alive(false), shutdown, socket closed, writer gone
RelayOldFlushDone ==
  /\ rpc = "oflush" /\ hd[conn] = "idle" /\ wbuf[conn] = <<>>
  /\ alive' = [alive EXCEPT ![conn] = FALSE] /\ shut' = [shut EXCEPT ![conn] = TRUE] /\ sock' = [sock EXCEPT ![conn] = "closed"]
  /\ hd' = [hd EXCEPT ![conn] = "exit"] /\ ksdone' = [ksdone EXCEPT ![conn] = TRUE]
  /\ rpc' = "top" /\ conn' = newconn /\ newconn' = 0 /\ slowNow' = FALSE /\ slowLast' = FALSE
  /\ UNCHANGED <<senderV, unspoolOK, numCU, rhold, ctor, redoV, spoolV, epV, cntV,
                 nconn, cin, hdl, ksOld, ksNew, wbuf, kern>>

RelayBranch == RelayIn \/ RelayUnspool \/ RelayTick \/ RelayInConn \/ RelayConnUpdate
Relay == RelayTop \/ RelayBranch \/ RelayBSendDone \/ RelayDialDone \/ RelayOldFlushDone

-----------------------------------------------------------------------------
(* Connector: updateConn's NewConn (the handshake with the relay is in RelayInConn/RelayConnUpdate) *)
Dial ==
  /\ ctor = "dial"
  /\ IF Dialable(mode) /\ nconn < MaxConn
       THEN NewConn(nconn + 1) /\ newconn' = nconn + 1 /\ ctor' = "deliver"
       ELSE ctor' = "fin" /\ UNCHANGED <<nconn, alive, sock, hd, newconn>>
  /\ UNCHANGED <<senderV, relayV, redoV, spoolV, epV, cntV, cin, shut, hdl, ksOld, ksNew, ksdone, wbuf, kern>>

\* Operator: the destination is pointed at another endpoint, which behaves like m (dest.Update -> updateConn(addr) in the
\* caller's goroutine: announce, dial the new address, deliver, finish -- the connector's steps; one connector at a
\* time, cf. A2).  The relay may hold a live connection to the previous address at that moment.  From here on `mode`
\* is the behaviour of the endpoint at the new address; the endpoint at the previous address, if a connection to it
\* is left over, either behaves the same or never reads again (nothing is assumed about EpRead in Spec06).  If the
\* dial fails the address is not taken over.  No steady state is claimed across an address update.
OpAddrUpdate(m) ==
  /\ AddrUpd /\ Dialable(m) /\ ctor = "none" /\ nconn < MaxConn /\ changes < MaxChanges
  /\ ctor' = "ann" /\ mode' = m /\ changes' = changes + 1 /\ steady' = "none"
  /\ UNCHANGED <<senderV, relayV, newconn, connV, redoV, spoolV, received, cntV>>

-----------------------------------------------------------------------------
(* Connection k                                                               *)
\* Conn.close(): alive(false); shutdown <- true; conn.Close()
Close(k) == /\ alive' = [alive EXCEPT ![k] = FALSE] /\ shut' = [shut EXCEPT ![k] = TRUE]
            /\ sock' = [sock EXCEPT ![k] = "closed"]

HdRecv(k) ==      \* case buf := <-c.In   (also possible while a shutdown is queued)
  /\ hd[k] = "idle" /\ cin[k] # <<>>
  /\ hdl' = [hdl EXCEPT ![k] = Head(cin[k])] /\ cin' = [cin EXCEPT ![k] = Tail(@)] /\ hd' = [hd EXCEPT ![k] = "got"]
  /\ UNCHANGED <<senderV, relayV, ctorV, redoV, spoolV, epV, cntV, nconn, alive, shut, ksOld, ksNew, ksdone, wbuf, kern, sock>>

\* (deviation "KsCapRotate": a generation that holds one line already -- its capacity in this model -- is rotated out by
\* the next Add instead of growing: keepSafe then keeps a bounded number of lines, not the lines of the last keep period)
HdAdd(k) ==       \* c.keepSafe.Add(buf)
  /\ hd[k] = "got" /\ hd' = [hd EXCEPT ![k] = "added"]
  /\ IF Mutant = "KsCapRotate" /\ Len(ksNew[k]) >= 1
     THEN ksOld' = [ksOld EXCEPT ![k] = ksNew[k]] /\ ksNew' = [ksNew EXCEPT ![k] = <<hdl[k]>>]
     ELSE ksNew' = [ksNew EXCEPT ![k] = Append(@, hdl[k])] /\ UNCHANGED ksOld
  /\ UNCHANGED <<senderV, relayV, ctorV, redoV, spoolV, epV, cntV, nconn, cin, alive, shut, hdl, ksdone, wbuf, kern, sock>>

HdWrite(k) ==     \* c.Write(buf) into the bufio writer (room left)
  /\ hd[k] = "added" /\ Len(wbuf[k]) < IOB
  /\ wbuf' = [wbuf EXCEPT ![k] = Append(@, hdl[k])] /\ hdl' = [hdl EXCEPT ![k] = 0] /\ hd' = [hd EXCEPT ![k] = "idle"]
  /\ UNCHANGED <<senderV, relayV, ctorV, redoV, spoolV, epV, cntV, nconn, cin, alive, shut, ksOld, ksNew, ksdone, kern, sock>>

\* flush of the bufio writer: flush tick (idle) or inside Write when the buffer is full (added).
\* open socket with room: bytes reach the kernel; socket closed by the peer: the write may still
\* succeed (bytes are lost on the wire) or fail; socket closed locally: fails.  A failure closes the
\* connection and ends HandleData.  No room (endpoint not reading): blocked.
HdFlushOK(k) ==
  /\ hd[k] \in {"idle", "added"} /\ wbuf[k] # <<>>
  /\ \/ sock[k] = "open" /\ Len(kern[k]) + Len(wbuf[k]) <= KB /\ kern' = [kern EXCEPT ![k] = @ \o wbuf[k]]
     \/ sock[k] = "peerclosed" /\ UNCHANGED kern
  /\ wbuf' = [wbuf EXCEPT ![k] = <<>>]
  /\ UNCHANGED <<senderV, relayV, ctorV, redoV, spoolV, epV, cntV, nconn, cin, alive, shut, hd, hdl, ksOld, ksNew, ksdone, sock>>

HdFlushErr(k) ==
  /\ hd[k] \in {"idle", "added"} /\ wbuf[k] # <<>> /\ sock[k] \in {"peerclosed", "closed"}
  /\ wbuf' = [wbuf EXCEPT ![k] = <<>>] /\ Close(k) /\ hd' = [hd EXCEPT ![k] = "exit"] /\ hdl' = [hdl EXCEPT ![k] = 0]
  /\ UNCHANGED <<senderV, relayV, ctorV, redoV, spoolV, epV, cntV, nconn, cin, ksOld, ksNew, ksdone, kern>>

\* Deviation "WriteTimeoutDrop" (the code has no write deadline: a writer that finds no room blocks until
\* the endpoint reads again): a relay-side write timeout fails the blocked flush although the endpoint
\* never closed; the connection is closed, the unsent io buffer and the line in hand are gone and
\* (without spool) RelayTop discards what is queued in In -- none of it counted.
HdWriteTimeout(k) ==
  /\ Mutant = "WriteTimeoutDrop"
  /\ hd[k] \in {"idle", "added"} /\ wbuf[k] # <<>> /\ sock[k] = "open" /\ Len(kern[k]) + Len(wbuf[k]) > KB
  /\ wbuf' = [wbuf EXCEPT ![k] = <<>>] /\ Close(k) /\ hd' = [hd EXCEPT ![k] = "exit"] /\ hdl' = [hdl EXCEPT ![k] = 0]
  /\ UNCHANGED <<senderV, relayV, ctorV, redoV, spoolV, epV, cntV, nconn, cin, ksOld, ksNew, ksdone, kern>>

HdExit(k) ==      \* case <-c.shutdown
  /\ hd[k] = "idle" /\ shut[k] /\ hd' = [hd EXCEPT ![k] = "exit"]
  /\ UNCHANGED <<senderV, relayV, ctorV, redoV, spoolV, epV, cntV, nconn, cin, alive, shut, hdl, ksOld, ksNew, ksdone, wbuf, kern, sock>>

CheckEOF(k) ==    \* checkEOF: Read returned EOF -> c.close()
  /\ alive[k] /\ sock[k] = "peerclosed" /\ Close(k)
  /\ UNCHANGED <<senderV, relayV, ctorV, redoV, spoolV, epV, cntV, nconn, cin, hd, hdl, ksOld, ksNew, ksdone, wbuf, kern>>

\* The tick rotates whether or not anything was added since the last one: two ticks without traffic empty
\* both generations (seen in the hook traces of the real code, XDESTB); a tick with both empty is a stutter.
KsRotate(k) ==    \* keepSafe.keepClean tick (assumption A1 in the guard)
  /\ nconn >= k /\ ~ksdone[k] /\ (ksNew[k] # <<>> \/ ksOld[k] # <<>>) /\ Range(ksOld[k]) \subseteq received
  /\ ksOld' = [ksOld EXCEPT ![k] = ksNew[k]] /\ ksNew' = [ksNew EXCEPT ![k] = <<>>]
  /\ UNCHANGED <<senderV, relayV, ctorV, redoV, spoolV, epV, cntV, nconn, cin, alive, shut, hd, hdl, ksdone, wbuf, kern, sock>>

ConnWriter(k) == HdRecv(k) \/ HdAdd(k) \/ HdWrite(k) \/ HdFlushOK(k) \/ HdFlushErr(k) \/ HdExit(k) \/ HdWriteTimeout(k)

-----------------------------------------------------------------------------
(* Redo collector of connection k: collectRedo -> getRedo -> Spool.Ingest     *)
RedoDrain(k) ==   \* getRedo: case buf := <-c.In: keepSafe.Add(buf)
  /\ redo[k] = "drain" /\ cin[k] # <<>> /\ Mutant # "RedoSkipDrain"
  /\ (FixRedoWaits => hd[k] = "exit")
  /\ ksNew' = [ksNew EXCEPT ![k] = Append(@, Head(cin[k]))] /\ cin' = [cin EXCEPT ![k] = Tail(@)]
  /\ UNCHANGED <<senderV, relayV, ctorV, redoV, spoolV, epV, cntV, nconn, alive, shut, hd, hdl, ksOld, ksdone, wbuf, kern, sock>>

RedoGetAll(k) ==  \* getRedo: default: return keepSafe.GetAll()  (+ deferred clearRedo)
  /\ redo[k] = "drain" /\ (cin[k] = <<>> \/ Mutant = "RedoSkipDrain")
  /\ (FixRedoWaits => hd[k] = "exit")
  /\ redolist' = [redolist EXCEPT ![k] = IF Mutant = "NoIngest" THEN <<>>
                                         ELSE IF Mutant = "DropSafeOld" THEN ksNew[k] ELSE ksOld[k] \o ksNew[k]]
  /\ ksOld' = [ksOld EXCEPT ![k] = <<>>] /\ ksNew' = [ksNew EXCEPT ![k] = <<>>] /\ ksdone' = [ksdone EXCEPT ![k] = TRUE]
  /\ redo' = [redo EXCEPT ![k] = "ingest"]
  /\ UNCHANGED <<senderV, relayV, ctorV, spoolV, epV, cntV, nconn, cin, alive, shut, hd, hdl, wbuf, kern, sock>>

RedoIngest(k) ==  \* Spool.Ingest: s.InBulk <- buf (blocking); Writer: s.queueBuffer <- buf (blocking)
  /\ redo[k] = "ingest"
  /\ IF redolist[k] = <<>> THEN redo' = [redo EXCEPT ![k] = "done"] /\ UNCHANGED <<redolist, sbuf>>
     ELSE /\ Len(sbuf) < SB
          /\ sbuf' = Append(sbuf, Head(redolist[k])) /\ redolist' = [redolist EXCEPT ![k] = Tail(@)] /\ UNCHANGED redo
  /\ UNCHANGED <<senderV, relayV, ctorV, connV, inrt, disk, slow, epV, cntV>>

Redo(k) == RedoDrain(k) \/ RedoGetAll(k) \/ RedoIngest(k)

-----------------------------------------------------------------------------
(* Spool                                                                      *)
SpoolRT ==        \* Writer: case buf := <-s.InRT: s.queueBuffer <- buf
  /\ inrt # <<>> /\ Len(sbuf) < SB /\ sbuf' = Append(sbuf, Head(inrt)) /\ inrt' = Tail(inrt)
  /\ UNCHANGED <<senderV, relayV, ctorV, connV, redoV, disk, slow, epV, cntV>>
SpoolPut ==       \* Buffer: s.queue.Put(buf)
  /\ sbuf # <<>> /\ disk' = Append(disk, Head(sbuf)) /\ sbuf' = Tail(sbuf)
  /\ UNCHANGED <<senderV, relayV, ctorV, connV, redoV, inrt, slow, epV, cntV>>
SlowRead ==       \* NewSlowChan goroutine: v := <-backend, then blocked in c <- v
  /\ slow = 0 /\ disk # <<>> /\ slow' = Head(disk) /\ disk' = Tail(disk)
  /\ UNCHANGED <<senderV, relayV, ctorV, connV, redoV, inrt, sbuf, epV, cntV>>
SpoolProc == SpoolRT \/ SpoolPut \/ SlowRead

-----------------------------------------------------------------------------
(* Endpoint                                                                   *)
EpRead(k) ==
  /\ sock[k] = "open" /\ kern[k] # <<>> /\ mode \in {"slow", "healthy", "closing"}
  /\ IF mode = "slow" THEN received' = received \cup {Head(kern[k])} /\ kern' = [kern EXCEPT ![k] = Tail(@)]
                      ELSE received' = received \cup Range(kern[k]) /\ kern' = [kern EXCEPT ![k] = <<>>]
  /\ UNCHANGED <<senderV, relayV, ctorV, redoV, spoolV, cntV, mode, changes, steady,
                 nconn, cin, alive, shut, hd, hdl, ksOld, ksNew, ksdone, wbuf, sock>>

\* every socket close leaves a spare connection incarnation (bound of the model, not of the code)
EpCloseSock(k) == \* "closing": closes an accepted connection mid-stream; unread bytes are gone
  /\ mode = "closing" /\ sock[k] = "open" /\ changes < MaxChanges /\ nconn < MaxConn
  /\ sock' = [sock EXCEPT ![k] = "peerclosed"] /\ kern' = [kern EXCEPT ![k] = <<>>]
  /\ changes' = changes + 1 /\ steady' = "none"
  /\ UNCHANGED <<senderV, relayV, ctorV, redoV, spoolV, cntV, mode, received,
                 nconn, cin, alive, shut, hd, hdl, ksOld, ksNew, ksdone, wbuf>>

\* pausing (healthy -> paused) counts as a change, resuming (paused -> healthy) is free (a pause always
\* may end); neither leaves the steady state "healthy"
EpChange(m) ==
  /\ m # mode /\ (m = "absent" => nconn < MaxConn)
  /\ LET resume == mode = "paused" /\ m = "healthy" IN
       /\ (changes < MaxChanges \/ resume)
       /\ changes' = IF resume THEN changes ELSE changes + 1
  /\ mode' = m /\ steady' = IF Up(mode) /\ Up(m) THEN steady ELSE "none"
  /\ IF m = "absent"
       THEN /\ sock' = [k \in K |-> IF sock[k] = "open" THEN "peerclosed" ELSE sock[k]]
            /\ kern' = [k \in K |-> <<>>]
       ELSE UNCHANGED <<sock, kern>>
  /\ UNCHANGED <<senderV, relayV, ctorV, redoV, spoolV, cntV, received,
                 nconn, cin, alive, shut, hd, hdl, ksOld, ksNew, ksdone, wbuf>>

Endpoint == (\E k \in K : EpRead(k) \/ EpCloseSock(k)) \/ (\E m \in Modes : EpChange(m))

-----------------------------------------------------------------------------
Next == SenderOffer \/ Relay \/ Dial
        \/ (\E k \in K : ConnWriter(k) \/ CheckEOF(k) \/ KsRotate(k) \/ Redo(k))
        \/ SpoolProc \/ Endpoint \/ (\E m \in Modes : OpAddrUpdate(m))

Spec == Init /\ [][Next]_vars

\* C06: fairness on the relay and the sender only.  Go's select picks uniformly among the ready
\* cases, hence strong fairness of the In branch; nothing is assumed about the connection writer,
\* the connector, the spool or the endpoint.
Spec06 == Spec /\ WF_vars(SenderOffer) /\ WF_vars(RelayTop) /\ SF_vars(RelayIn)
               /\ WF_vars(RelayBSendDone) /\ WF_vars(RelayOldFlushDone)

\* ... and with fair connection writers on top (used to reject deviation "SyncFlushOldConn" for the right reason: the
\* writer of the previous connection is not merely unscheduled, it cannot move -- io buffer and kernel buffers full
\* towards an endpoint that does not read)
Spec06W == Spec06 /\ \A k \in K : WF_vars(ConnWriter(k))

\* C07 liveness: every process of the relay is fair; the endpoint reads when it is in a reading mode
Spec07 == Spec /\ WF_vars(SenderOffer) /\ WF_vars(RelayTop)
               /\ SF_vars(RelayIn) /\ SF_vars(RelayUnspool) /\ SF_vars(RelayTick) /\ SF_vars(RelayInConn)
               /\ SF_vars(RelayConnUpdate) /\ WF_vars(Dial)
               /\ \A k \in K : /\ WF_vars(ConnWriter(k)) /\ WF_vars(CheckEOF(k)) /\ WF_vars(Redo(k))
                               /\ WF_vars(EpRead(k))
               /\ WF_vars(SpoolProc)

-----------------------------------------------------------------------------
(* Properties                                                                 *)
Handed == 1..(next - 1)
RECURSIVE SumTo(_, _)
SumTo(f, n) == IF n = 0 THEN 0 ELSE f[n] + SumTo(f, n - 1)

\* where[line]: the places a handed line is in (derived history view; duplicates after a redo
\* make it a set)
Where(l) ==
     (IF l \in received THEN {"received"} ELSE {})
  \cup (IF l = rhold /\ rpc = "bsend" THEN {"relayHand"} ELSE {})
  \cup (IF l \in Range(inrt) THEN {"spoolRT"} ELSE {})
  \cup (IF l \in Range(sbuf) THEN {"spoolBuf"} ELSE {})
  \cup (IF l \in Range(disk) THEN {"disk"} ELSE {})
  \cup (IF l = slow THEN {"slowChan"} ELSE {})
  \cup UNION {   (IF l \in Range(cin[k]) /\ (k = conn \/ k = newconn \/ (Spool /\ redo[k] \in {"none", "drain"} /\ ~ksdone[k])) THEN {"connIn"} ELSE {})
            \cup (IF l = hdl[k] /\ hd[k] = "got" /\ ~ksdone[k] THEN {"writerLocal"} ELSE {})
            \cup (IF (l \in Range(ksOld[k]) \/ l \in Range(ksNew[k])) /\ ~ksdone[k] THEN {"keepSafe"} ELSE {})
            \cup (IF l \in Range(kern[k]) /\ sock[k] = "open" THEN {"wire"} ELSE {})
            \cup (IF l \in Range(redolist[k]) THEN {"redo"} ELSE {})
          : k \in K }

Lost == {l \in Handed : Where(l) = {}}
Counted == nSlowConn + nSlowSpool + nDownNoSpool

\* C07 (and the general form of C06's accounting): no handed line is nowhere unless a drop was counted
Conservation == Cardinality(Lost) <= Counted

Quiescent == /\ next > N /\ sender = "idle" /\ rpc # "bsend" /\ inrt = <<>> /\ sbuf = <<>> /\ disk = <<>> /\ slow = 0
             /\ \A k \in K : /\ cin[k] = <<>> /\ hdl[k] = 0 /\ wbuf[k] = <<>> /\ kern[k] = <<>>
                             /\ redolist[k] = <<>> /\ redo[k] \in {"none", "done"}
                             /\ (k <= nconn => (alive[k] /\ sock[k] = "open") \/ redo[k] = "done")
QuiescentBound == Quiescent /\ Spool => LossBound(next - 1, received, nSlowConn, nSlowSpool)
\* the level-A identities of C06 at quiescence (lines handed before the first connection are, without
\* spool, counted conn_down_no_spool; the driver hands lines only after it has seen Online).  For an
\* endpoint that was healthy with pauses this is PausedIdentity: handed = received + slow_conn + down
SteadyHealthy == Quiescent /\ ~Spool /\ steady = "healthy"
                   => PausedIdentity(next - 1, Cardinality(received), nSlowConn, nDownNoSpool)
SteadyDown == Quiescent /\ ~Spool /\ steady = "absent" => DownIdentity(next - 1, Cardinality(received), nDownNoSpool)

\* C06 steady states: the endpoint has been in one mode since the start
InFlight == Len(inrt) + Len(sbuf) + Len(disk) + (IF slow # 0 THEN 1 ELSE 0) + (IF rpc = "bsend" THEN 1 ELSE 0)
            + SumTo([k \in K |-> Len(cin[k]) + (IF hdl[k] # 0 THEN 1 ELSE 0) + Len(wbuf[k]) + Len(kern[k])], MaxConn)
Conservation_steady ==
  /\ steady = "healthy" => (next - 1) = Cardinality(received) + InFlight + nSlowConn + nSlowSpool + nDownNoSpool
  /\ steady \in {"blackhole", "slow"} => (next - 1) = Cardinality(received) + InFlight + nSlowConn + nSlowSpool + nDownNoSpool
  /\ (steady = "absent" /\ ~Spool) => (next - 1) = nDownNoSpool

\* C06 liveness
SenderReturns == (sender = "waiting") ~> (sender = "idle")

\* C07 liveness: once the endpoint stays up the backlog drains completely
Backlog == Len(inrt) + Len(sbuf) + Len(disk) + (IF slow # 0 THEN 1 ELSE 0)
           + SumTo([k \in K |-> Len(redolist[k]) + (IF redo[k] = "drain" THEN 1 ELSE 0)], MaxConn)
BacklogDrains == (<>[](mode = "healthy")) => <>[](Backlog = 0)

\* mechanism (anchor "while up and not slow"): not demanded by the property statements
UnspoolGating == [][RelayUnspool => (~slowNow /\ ~slowLast)]_vars

TypeOK == /\ next \in 1..(N + 1) /\ conn \in 0..MaxConn /\ numCU \in 0..1 /\ nconn \in 0..MaxConn
          /\ \A k \in K : Len(cin[k]) <= Q /\ Len(wbuf[k]) <= IOB /\ Len(kern[k]) <= KB
          /\ Len(inrt) <= RT /\ Len(sbuf) <= SB
=============================================================================
