----------------------------- MODULE SpoolTrace -----------------------------
(* Trace specification for XSPOOL: replays the events recorded from the real  *)
(* destination.Spool + nsqd.DiskQueue (trace.ndjson, harness/spoolx) into      *)
(* Spool.tla.  One line = one event:                                           *)
(*   hist     a new history starts (fresh directory, fresh spool)              *)
(*   sendrt   the non-blocking send of line id into InRT succeeded   (driver,  *)
(*            recorded atomically with the send)                               *)
(*   rtfull   the non-blocking send found InRT full                            *)
(*   acc      the Writer received line id from InRT / InBulk  (hook spool.rt / *)
(*            spool.bulk)                                                      *)
(*   put      the record of line id is in the queue file      (queue hook      *)
(*            w_write, during the Buffer goroutine's Put)                      *)
(*   putdone  Put returned                                     (hook spool.put)*)
(*   sync     a metadata sync completed                  (queue hook m_rename) *)
(*   take     the SlowChan goroutine received a line from ReadChan, the queue  *)
(*            moved forward                                  (queue hook take) *)
(*   out      the driver received line id from Out (recorded atomically with   *)
(*            the receive)                                                     *)
(*   rec      "had the relay died here": D = what a spool started on a copy of *)
(*            the directory delivered on Out before the sentinel               *)
(* Not recorded (no hook there), searched by TLC: the Writer's send into       *)
(* queueBuffer and the Buffer goroutine's receive from it.                     *)
(* A hook is recorded after the step it reports, so the channel InRT as the    *)
(* specification sees it may hold one line more than the real one: the trace   *)
(* configuration sets RTCap to cap(InRT) + 1.                                  *)
EXTENDS Spool, Json, TLC, TLCExt, IOUtils

CONSTANTS StrictReadAhead   \* TRUE: demand of every recovery that every synced line not yet delivered on Out
                            \* comes back (the ideal DurableUndelivered); FALSE: the queue contract

TLog == ndJsonDeserialize("trace.ndjson")

VARIABLES l, stat
tvars == <<vars, l, stat>>
Zero == [recs |-> 0, nonempty |-> 0, readahead_lost |-> 0, tail_lost |-> 0, mem_lost |-> 0, redelivered |-> 0]

ASSUME TLCSet(1, 0) /\ TLCSet(2, Zero)

Ev == TLog[l]
Is(e) == l <= Len(TLog) /\ Ev.ev = e /\ l' = l + 1

TInit == Init /\ l = 1 /\ stat = Zero

THist ==
  /\ Is("hist")
  /\ lines' = {} /\ path' = [i \in 1..MaxLines |-> "none"]
  /\ up' = TRUE /\ inRT' = <<>> /\ whold' = None /\ qbuf' = <<>> /\ bhold' = None /\ bst' = "idle" /\ sc' = None
  /\ enq' = <<>> /\ consumed' = 0 /\ wSync' = 0 /\ cSync' = 0
  /\ run' = 0 /\ base' = <<>> /\ acc' = <<>> /\ sentRT' = <<>> /\ out' = <<>>
  /\ ndeliv' = [i \in 1..MaxLines |-> 0] /\ lost' = {} /\ last' = NoLast
  /\ UNCHANGED stat

TSendRT  == Is("sendrt") /\ SendRT(Ev.id) /\ UNCHANGED stat
TRtFull  == Is("rtfull") /\ Len(inRT) >= RTCap - 1 /\ UNCHANGED <<vars, stat>>
TAcc     == /\ Is("acc")
            /\ \/ Ev.path = "rt" /\ WriterRT /\ whold' = Ev.id
               \/ Ev.path = "bulk" /\ WriterBulk(Ev.id)
            /\ UNCHANGED stat
TPut     == Is("put") /\ bhold = Ev.id /\ BufferPut /\ UNCHANGED stat
TPutDone == Is("putdone") /\ bhold = Ev.id /\ BufferDone /\ UNCHANGED stat
TSync    == Is("sync") /\ QSync /\ UNCHANGED stat
TTake    == Is("take") /\ SlowTake /\ UNCHANGED stat
TOut     == Is("out") /\ sc = Ev.id /\ OutRecv /\ UNCHANGED stat

Ideal(D) == \A i \in (Len(out) + 1)..wSync : enq[i] \in Range(D)
B(x) == IF x THEN 1 ELSE 0
TRec ==
  /\ Is("rec")
  /\ ~Ev.hang /\ Ev.sentinel /\ Ev.extra = 0
  /\ Recoverable(Ev.D, enq, consumed, wSync, cSync)
  /\ StrictReadAhead => Ideal(Ev.D)
  /\ stat' = [recs |-> stat.recs + 1,
              nonempty |-> stat.nonempty + B(Len(Ev.D) > 0),
              \* the finding: a line the queue had synced, held by the SlowChan goroutine, is not in the queue any more
              readahead_lost |-> stat.readahead_lost + B(sc # None /\ consumed <= wSync /\ sc \notin Range(Ev.D)),
              tail_lost |-> stat.tail_lost + B(\E i \in (Max(wSync, consumed) + 1)..Len(enq) : enq[i] \notin Range(Ev.D)),
              mem_lost |-> stat.mem_lost + B(MemLines # {}),
              redelivered |-> stat.redelivered + B(Range(Ev.D) \cap Range(out) # {})]
  /\ UNCHANGED vars

Silent == (WriterPush \/ BufferTake) /\ UNCHANGED <<l, stat>>

TNext == THist \/ TSendRT \/ TRtFull \/ TAcc \/ TPut \/ TPutDone \/ TSync \/ TTake \/ TOut \/ TRec \/ Silent
TSpec == TInit /\ [][TNext]_tvars

HighWater == IF l - 1 > TLCGet(1) THEN TLCSet(1, l - 1) /\ TLCSet(2, stat) ELSE TRUE
Post == PrintT("@@TRACE " \o ToJson([matched |-> TLCGet(1), stat |-> TLCGet(2)]))
=============================================================================
