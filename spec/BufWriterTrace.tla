---------------------------- MODULE BufWriterTrace ----------------------------
(* Trace specification binding BufWriter.tla to the real destination.Writer:  *)
(* replays what the driver recorded (trace.ndjson) while it called            *)
(* NewWriter / Write / Flush / Buffered / Available on top of a recording     *)
(* io.Writer.  One line = one event:                                          *)
(*   hist   a new Writer of capacity B                                        *)
(*   call   Write(p) starts, |p| = len; the bytes of p are numbered           *)
(*          consecutively from the first byte not yet consumed (mod 251)      *)
(*   u      the Writer called the underlying writer with `data` (len bytes),  *)
(*          which took k bytes and returned error e  -> one loop iteration    *)
(*   ret    Write returned (nn, err); Buffered(), Available(), bytes on the   *)
(*          wire so far                                                       *)
(*   flush  Flush() as one event: called = it reached the underlying writer   *)
(* Every event must be a step of BufWriter.tla with exactly the recorded      *)
(* values; StreamOK / ReturnOK / FlushOK are invariants of the replay.        *)
EXTENDS BufWriter, Json, TLC, TLCExt, IOUtils

TLog == ndJsonDeserialize("trace.ndjson")

VARIABLES l
tvars == <<bwvars, l>>

ASSUME TLCSet(1, 0)

Ev == TLog[l]
Is(e) == l <= Len(TLog) /\ Ev.ev = e /\ l' = l + 1

ByteMod == 251
Enc(s) == [i \in 1 .. Len(s) |-> s[i] % ByteMod]
NewP(L) == [i \in 1 .. L |-> Len(acc) + i]
Unlimited == 1000000000

TInit == l = 1 /\ BWInit(Unlimited)

THist == Is("hist") /\ BWReset(Unlimited)
TCall == Is("call") /\ CallWrite(NewP(Ev.len))
TU    == /\ Is("u") /\ pc = "write" /\ LoopCond
         /\ Ev.len = Len(IterQ) /\ Ev.data = Enc(IterQ)        \* what reached the socket is what the model sends
         /\ WIter([k |-> Ev.k, e |-> Ev.e])
TRet  == /\ Is("ret") /\ WRet
         /\ Ev.nn = ret'.nn /\ Ev.err = ret'.err
         /\ Ev.buffered = n' /\ Ev.avail = B - n' /\ Ev.wl = Len(wire')
TFlush == /\ Is("flush")
          /\ Ev.called = FlushCalls(n, err)
          /\ (Ev.called => (Ev.len = n /\ Ev.data = Enc(Pending)))
          /\ DoFlush(IF Ev.called THEN [k |-> Ev.k, e |-> Ev.e] ELSE OkOutcome(Pending))
          /\ Ev.err = ret'.err
          /\ Ev.buffered = n' /\ Ev.avail = B - n' /\ Ev.wl = Len(wire')

TNext == THist \/ TCall \/ TU \/ TRet \/ TFlush
TSpec == TInit /\ [][TNext]_tvars

HighWater == TLCSet(1, IF l - 1 > TLCGet(1) THEN l - 1 ELSE TLCGet(1))
Post == PrintT("@@TRACE " \o ToJson([matched |-> TLCGet(1)]))
=============================================================================
