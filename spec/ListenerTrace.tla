--------------------------- MODULE ListenerTrace ---------------------------
(* XLISTEN -- level-A trace specification: the events recorded by            *)
(* harness/lsn from the real input.Listener (real TCP/UDP sockets, real       *)
(* TimeoutConn, real Plain handler, Stop through manager.Stop with the        *)
(* relay's shutdown timeout) are decided against ListenerOps / FramingOps.    *)
(* One scenario = one "hist" line (the scripts of the clients: symbol stream, *)
(* byte fragment per symbol, cumulative byte counts, write boundaries)        *)
(* followed by its events in real-time order:                                 *)
(*   cdial/cfail/cconn, wb/we, cclose, sclosed      client side               *)
(*   hstart, rd, hret, ustart, uret, disp           handler side              *)
(*   fault/blocked, barrier, stopcall, stopret, end orchestrator              *)
(* What is claimed (only what the relay can be held to):                      *)
(*  T1 every Dispatch is the next item NextItems allows for exactly one       *)
(*     connection, given the bytes ITS HANDLER HAS READ (rd events): whole     *)
(*     lines, once, in order; the open partial line only after the terminal    *)
(*     condition and only as the last item;                                    *)
(*  T2 when a handler returns, ConnOK: nothing it had received is missing      *)
(*     (also when the connection was shut down by Stop);                       *)
(*  T3 a read timeout only with a read timeout configured, and only from a     *)
(*     Read that blocked at least that long (the deadline is re-armed per      *)
(*     Read); a read fails with "closed" only after Stop was called;           *)
(*  T4 StopReturn: manager.Stop answered true (i.e. within the relay's own     *)
(*     shutdown timeout -- the only time bound), no handler is running;        *)
(*     afterwards no handler starts, nothing is dispatched, no Read is made,   *)
(*     a dial begun after StopReturn does not succeed;                         *)
(*  T5 barriers (before Stop): every send-and-close client of the phase was    *)
(*     accepted, served to EOF with all its lines dispatched, while hung /     *)
(*     idle / half-line connections are still open; after a fault this is the  *)
(*     statement that the listener accepts again;                              *)
(*  T6 every idle client sees its connection closed by the relay (Stop or      *)
(*     read timeout) and not never; with a read timeout configured the idle    *)
(*     clients of the first phase see it before the barrier, i.e. without Stop.*)
EXTENDS ListenerOps, Json, TLC, TLCExt, IOUtils

TLog == ndJsonDeserialize("trace.ndjson")

VARIABLES l, h, wb, cl, das, hs, rb, e, tm, out, du, uout, ucur, stop, scl
tvars == <<l, h, wb, cl, das, hs, rb, e, tm, out, du, uout, ucur, stop, scl>>

ASSUME TLCSet(1, 0)

Ev == TLog[l]
Is(x) == l <= Len(TLog) /\ Ev.ev = x /\ l' = l + 1

NC == Len(h.sym)
ND == Len(h.dsym)
CC == 1..NC
DD == 1..ND

RECURSIVE Cat(_, _, _)
Cat(f, a, b) == IF a > b THEN "" ELSE f[a] \o Cat(f, a + 1, b)
\* bytes of the first k symbols of connection c
Cum(c, k) == IF k = 0 THEN 0 ELSE h.cum[c][k]
Avail(c) == IF wb[c] = 0 THEN 0 ELSE h.wcut[c][wb[c]]

Empty == [sym |-> <<>>, dsym |-> <<>>]
TInit == /\ l = 1 /\ h = Empty /\ wb = <<>> /\ cl = <<>> /\ das = <<>> /\ hs = <<>> /\ rb = <<>> /\ e = <<>>
         /\ tm = <<>> /\ out = <<>> /\ du = <<>> /\ uout = <<>> /\ ucur = 0 /\ stop = "no" /\ scl = <<>>

THist == /\ Is("hist") /\ h' = Ev
         /\ wb' = [c \in 1..Len(Ev.sym) |-> 0] /\ cl' = [c \in 1..Len(Ev.sym) |-> FALSE]
         /\ das' = [c \in 1..Len(Ev.sym) |-> FALSE] /\ hs' = [c \in 1..Len(Ev.sym) |-> "none"]
         /\ rb' = [c \in 1..Len(Ev.sym) |-> 0] /\ e' = [c \in 1..Len(Ev.sym) |-> 0]
         /\ tm' = [c \in 1..Len(Ev.sym) |-> "none"] /\ out' = [c \in 1..Len(Ev.sym) |-> <<>>]
         /\ du' = [d \in 1..Len(Ev.dsym) |-> "none"] /\ uout' = [d \in 1..Len(Ev.dsym) |-> <<>>]
         /\ ucur' = 0 /\ stop' = "no" /\ scl' = [c \in 1..Len(Ev.sym) |-> FALSE]

Same(vs) == UNCHANGED vs
TSkip == /\ l <= Len(TLog) /\ Ev.ev \in {"we", "use", "cfail", "fault", "blocked", "end"} /\ l' = l + 1
         /\ UNCHANGED <<h, wb, cl, das, hs, rb, e, tm, out, du, uout, ucur, stop, scl>>
TDial == /\ Is("cdial") /\ das' = [das EXCEPT ![Ev.c] = (stop = "ret")]
         /\ UNCHANGED <<h, wb, cl, hs, rb, e, tm, out, du, uout, ucur, stop, scl>>
\* T4: nothing listens after StopReturn
TConn == /\ Is("cconn") /\ ~das[Ev.c]
         /\ UNCHANGED <<h, wb, cl, das, hs, rb, e, tm, out, du, uout, ucur, stop, scl>>
TWb == /\ Is("wb") /\ Ev.j = wb[Ev.c] + 1 /\ wb' = [wb EXCEPT ![Ev.c] = Ev.j]
       /\ UNCHANGED <<h, cl, das, hs, rb, e, tm, out, du, uout, ucur, stop, scl>>
TCclose == /\ Is("cclose") /\ cl' = [cl EXCEPT ![Ev.c] = TRUE]
           /\ UNCHANGED <<h, wb, das, hs, rb, e, tm, out, du, uout, ucur, stop, scl>>
\* T6: the client's own read deadline (60 s) never fires
TSclosed == /\ Is("sclosed") /\ Ev.err \in {"eof", "reset"} /\ scl' = [scl EXCEPT ![Ev.c] = TRUE]
            /\ UNCHANGED <<h, wb, cl, das, hs, rb, e, tm, out, du, uout, ucur, stop>>
THstart == /\ Is("hstart") /\ stop # "ret" /\ hs[Ev.c] = "none" /\ hs' = [hs EXCEPT ![Ev.c] = "run"]
           /\ UNCHANGED <<h, wb, cl, das, rb, e, tm, out, du, uout, ucur, stop, scl>>
TRd == /\ Is("rd") /\ stop # "ret" /\ hs[Ev.c] = "run"
       /\ Ev.err \in {"none", "eof", "timeout", "closed", "reset"}
       /\ (Ev.err = "timeout" => h.rt_us > 0 /\ Ev.blocked_us >= h.rt_us)           \* T3
       /\ (Ev.err = "closed" => stop = "called")                                    \* T3
       /\ (Ev.err = "eof" => cl[Ev.c])
       /\ LET c == Ev.c
              b == rb[c] + Ev.nb
          IN  /\ rb' = [rb EXCEPT ![c] = b]
              /\ \E k \in e[c]..Avail(c) : Cum(c, k) = b /\ e' = [e EXCEPT ![c] = k]      \* only what was written
              /\ tm' = [tm EXCEPT ![c] = IF Ev.err = "none" THEN @ ELSE IF Ev.err = "reset" THEN "timeout" ELSE Ev.err]
       /\ UNCHANGED <<h, wb, cl, das, hs, out, du, uout, ucur, stop, scl>>
\* T1
TDispTcp == /\ Is("disp") /\ stop # "ret"
            /\ \E c \in CC : /\ hs[c] = "run"
                             /\ \E r \in NextItems(h.sym[c], e[c], tm[c], out[c]) :
                                   /\ Cat(h.frag[c], r[1], r[2]) = Ev.line
                                   /\ out' = [out EXCEPT ![c] = Append(@, r)]
            /\ UNCHANGED <<h, wb, cl, das, hs, rb, e, tm, du, uout, ucur, stop, scl>>
TDispUdp == /\ Is("disp") /\ stop # "ret" /\ ucur # 0
            /\ \E r \in NextItems(h.dsym[ucur], Len(h.dsym[ucur]), "eof", uout[ucur]) :
                  /\ Cat(h.dfrag[ucur], r[1], r[2]) = Ev.line
                  /\ uout' = [uout EXCEPT ![ucur] = Append(@, r)]
            /\ UNCHANGED <<h, wb, cl, das, hs, rb, e, tm, out, du, ucur, stop, scl>>
\* T2
THret == /\ Is("hret") /\ hs[Ev.c] = "run" /\ tm[Ev.c] # "none"
         /\ ConnOK(h.sym[Ev.c], e[Ev.c], tm[Ev.c], out[Ev.c])
         /\ hs' = [hs EXCEPT ![Ev.c] = "ret"]
         /\ UNCHANGED <<h, wb, cl, das, rb, e, tm, out, du, uout, ucur, stop, scl>>
TUsb == /\ Is("usb") /\ du[Ev.d] = "none" /\ du' = [du EXCEPT ![Ev.d] = "sent"]
        /\ UNCHANGED <<h, wb, cl, das, hs, rb, e, tm, out, uout, ucur, stop, scl>>
\* a datagram is handled at most once, only after it was sent, never after StopReturn
TUstart == /\ Is("ustart") /\ stop # "ret" /\ ucur = 0
           /\ \E d \in DD : /\ du[d] = "sent" /\ Cat(h.dfrag[d], 1, Len(h.dfrag[d])) = Ev.data
                            /\ du' = [du EXCEPT ![d] = "handling"] /\ ucur' = d
           /\ UNCHANGED <<h, wb, cl, das, hs, rb, e, tm, out, uout, stop, scl>>
TUret == /\ Is("uret") /\ ucur # 0 /\ uout[ucur] \in Acceptable(h.dsym[ucur], "eof")
         /\ du' = [du EXCEPT ![ucur] = "done"] /\ ucur' = 0
         /\ UNCHANGED <<h, wb, cl, das, hs, rb, e, tm, out, uout, stop, scl>>
\* T5
Served(c) == /\ hs[c] = "ret" /\ cl[c]
             /\ (tm[c] = "eof" => e[c] = Len(h.sym[c]) /\ out[c] = Lines(h.sym[c]))
TBarrier == /\ Is("barrier") /\ stop = "no"
            /\ LET must  == IF Ev.phase = "pre" THEN h.must_pre ELSE h.must_post
                   gmust == IF Ev.phase = "pre" THEN h.gmust_pre ELSE h.gmust_post
               IN  /\ \A i \in 1..Len(must) : Served(must[i])
                   /\ \A i \in 1..Len(gmust) : \E d \in DD : h.dgrp[d] = gmust[i] /\ du[d] = "done"
                   \* (3) with a read timeout configured, the idle connections of the phase have been closed by the relay
                   /\ (Ev.phase = "pre" /\ h.rt_us > 0) => \A i \in 1..Len(h.idle_pre) : scl[h.idle_pre[i]]
            /\ UNCHANGED <<h, wb, cl, das, hs, rb, e, tm, out, du, uout, ucur, stop, scl>>
TStopCall == /\ Is("stopcall") /\ stop = "no" /\ stop' = "called"
             /\ UNCHANGED <<h, wb, cl, das, hs, rb, e, tm, out, du, uout, ucur, scl>>
\* T4
TStopRet == /\ Is("stopret") /\ stop = "called" /\ Ev.ok
            /\ \A c \in CC : hs[c] # "run"
            /\ ucur = 0
            /\ stop' = "ret"
            /\ UNCHANGED <<h, wb, cl, das, hs, rb, e, tm, out, du, uout, ucur, scl>>

TNext == THist \/ TSkip \/ TDial \/ TConn \/ TWb \/ TCclose \/ TSclosed \/ THstart \/ TRd \/ TDispTcp \/ TDispUdp
         \/ THret \/ TUsb \/ TUstart \/ TUret \/ TBarrier \/ TStopCall \/ TStopRet
TSpec == TInit /\ [][TNext]_tvars

HighWater == TLCSet(1, IF l - 1 > TLCGet(1) THEN l - 1 ELSE TLCGet(1))
Post == PrintT("@@TRACE " \o ToJson([matched |-> TLCGet(1)]))
\* evaluated in every state of every real execution
RunInv == \A c \in DOMAIN hs : hs[c] = "run" /\ tm[c] = "none" => RunOK(h.sym[c], e[c], out[c])
=============================================================================
