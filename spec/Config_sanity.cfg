SPECIFICATION Spec
INVARIANTS EachOptionItsOwnField SyntaxesAgree CacheAsymmetry DefaultsWhenUnset OnlyDocVarsSubstituted NoVarNoChange
CHECK_DEADLOCK FALSE
