SPECIFICATION Spec
INVARIANTS EachOptionItsOwnField SyntaxesAgree CacheAsymmetry DefaultsWhenUnset OnlyDocVarsSubstituted NoVarNoChange UnsetTakesDefaultInList OptionStaysInItsEntry EntriesIndependent
CHECK_DEADLOCK FALSE
