SPECIFICATION Spec
INVARIANTS ExplicitZeroHonoured AcceptanceAgrees EachOptionItsOwnField LayoutIrrelevant SyntaxesAgree CacheAsymmetry DefaultsWhenUnset OnlyDocVarsSubstituted NoVarNoChange UnsetTakesDefaultInList OptionStaysInItsEntry EntriesIndependent ZeroHonouredInList
CHECK_DEADLOCK FALSE
