---------------------------- MODULE ValidateGen ----------------------------
(* Generator for C02: the line classes of Validate.tla, each printed with the *)
(* set of allowed verdicts for every (legacy level, m20 level) pair.          *)
EXTENDS Validate, Json, TLC

CONSTANT MaxNodes    \* 2 (quick) or 3: longest node sequence enumerated exhaustively
VARIABLE line

SeqsUpTo(K, n) == UNION {[1..m -> K] : m \in 1..n}
InteriorEmpty(s) == \A i \in DOMAIN s : s[i] = "empty" => (1 < i /\ i < Len(s))

\* every node sequence up to three nodes, without appendix
Keys1 == [lead : BOOLEAN, nodes : {s \in SeqsUpTo(NodeKinds, MaxNodes) : InteriorEmpty(s)}, app : {"none"}]
\* every appendix kind behind one or two nodes of the kinds that interact with it
Keys2 == [lead : BOOLEAN, nodes : SeqsUpTo({"w", "ill", "hi", "tag_eq", "unit_eq", "tag_is"}, 2),
          app : AppKinds \ {"none"}]
Keys3 == [lead : {FALSE}, nodes : {<<"unit_eq", "mtype_eq", "tag_eq">>, <<"unit_is", "mtype_is", "w">>}, app : AppKinds]
Keys4 == [lead : BOOLEAN, app : {"none"},
          nodes : {<<"unit_eq", "mtype_eq", "w">>, <<"w", "empty", "w">>, <<"w", "unit_eq", "mtype_eq">>, <<"tag_eq", "unit_eq", "mtype_eq">>,
                   <<"unit_is", "mtype_is", "tag_is">>, <<"unit_eq", "mtype_is", "w">>, <<"unit_is", "mtype_is", "tag_eq">>,
                   <<"w", "w", "w">>, <<"w", "ill", "w">>, <<"w", "w", "tag_eq">>}]
Keys == Keys1 \cup Keys2 \cup Keys3 \cup Keys4

FewKeys == {PlainKey,
            [lead |-> FALSE, nodes |-> <<"unit_eq", "mtype_eq", "tag_eq">>, app |-> "none"],
            [lead |-> FALSE, nodes |-> <<"ill">>, app |-> "none"],
            [lead |-> TRUE,  nodes |-> <<"w", "hi">>, app |-> "none"],
            [lead |-> FALSE, nodes |-> <<"w", "w">>, app |-> "ok1"],
            [lead |-> FALSE, nodes |-> <<"w", "w">>, app |-> "noval"],
            [lead |-> FALSE, nodes |-> <<"tag_is", "w">>, app |-> "none"]}

GenLines == [nf : {3}, key : Keys, val : {"int"}, ts : {"int"}]
       \cup [nf : {3}, key : FewKeys, val : {"int", "float", "bad"}, ts : {"int", "float", "bad"}]
       \cup [nf : {0, 1, 2, 4, 5}, key : {PlainKey}, val : {"int"}, ts : {"int"}]

Init == line \in GenLines
Next == UNCHANGED line
GSpec == Init /\ [][Next]_line

Emit == PrintT("@@L " \o ToJson([line |-> line,
                                 v |-> [cl \in LegacyLevels |-> [cm \in M20Levels |-> Verdicts(line, cl, cm)]]]))

\* sanity of the decision table itself
Sane == /\ WellFormedKey(line.key) /\ Monotone(line.key)
        /\ \A cl \in LegacyLevels \cup {""}, cm \in M20Levels \cup {""} : Verdicts(line, cl, cm) # {}
        /\ Verdicts(line, "", "") = Verdicts(line, "medium", "medium")
        \* a plain well-formed line is accepted at every level, a line without 3 fields never
        /\ (line.key = PlainKey /\ line.nf = 3 /\ line.val # "bad" /\ line.ts = "int"
              => \A cl \in LegacyLevels, cm \in M20Levels : Verdicts(line, cl, cm) = {TRUE})
        /\ (line.nf # 3 => \A cl \in LegacyLevels, cm \in M20Levels : Verdicts(line, cl, cm) = {FALSE})
=============================================================================
