SPECIFICATION TSpec
CONSTRAINT HighWater
INVARIANTS BWTypeOK StreamOK ReturnOK FlushOK
POSTCONDITION Post
CHECK_DEADLOCK FALSE
