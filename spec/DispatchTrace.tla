---------------------------- MODULE DispatchTrace ----------------------------
(* C01 + C02 trace specification: every Dispatch the conformance driver       *)
(* (harness/disp) ran on a real table.Table is decided here.                  *)
(*   tbl   a new table was built: t = its abstract description (as the driver *)
(*         built it with AddBlacklist/AddRewriter/AddAggregator/AddRoute),    *)
(*         lvl / lvm = the validation levels as written in the configuration  *)
(*         text the table was created from ("" = option absent)               *)
(*   d     one Dispatch: nm = abstract name, line = abstract line record the  *)
(*         bytes were built from, o = observed counter deltas / hand-overs /  *)
(*         aggregator intake, bad = the bad-metrics records that appeared,    *)
(*         text/key/keynd = hex of the bytes sent, of the key token and of    *)
(*         the key token without its leading dot                              *)
(* Verdict: DispatchOps!DeclOK (C01) for one of the verdicts Validate!Verdicts*)
(* allows (C02), and the bad-metrics clause of C02.                           *)
EXTENDS DispatchOps, Validate, Json, TLC, TLCExt, IOUtils

TLog == ndJsonDeserialize("trace.ndjson")

VARIABLES l, tbl, lvl, lvm
tvars == <<l, tbl, lvl, lvm>>

ASSUME TLCSet(1, 0)

Ev == TLog[l]
Is(e) == l <= Len(TLog) /\ Ev.ev = e /\ l' = l + 1

\* JSON arrays are tuples: turn the accept-sets back into sets
NormT(j) ==
    [black  |-> [i \in DOMAIN j.black |-> SeqToSet(j.black[i])],
     rw     |-> [i \in DOMAIN j.rw |-> [from |-> j.rw[i].from, to |-> j.rw[i].to]],
     aggs   |-> [i \in DOMAIN j.aggs |-> [acc |-> SeqToSet(j.aggs[i].acc), drop |-> j.aggs[i].drop]],
     routes |-> [k \in DOMAIN j.routes |->
                   [kind  |-> j.routes[k].kind, acc |-> SeqToSet(j.routes[k].acc),
                    dests |-> [d \in DOMAIN j.routes[k].dests |-> SeqToSet(j.routes[k].dests[d])]]]]

Empty == [black |-> <<>>, rw |-> <<>>, aggs |-> <<>>, routes |-> <<>>]
TInit == l = 1 /\ tbl = Empty /\ lvl = "" /\ lvm = ""

TTbl == /\ Is("tbl")
        /\ tbl' = NormT(Ev.t) /\ lvl' = Ev.lvl /\ lvm' = Ev.lvm
        /\ Ev.lvl \in LegacyLevels \cup {""} /\ Ev.lvm \in M20Levels \cup {""}

Obs(o) == [in |-> o.in, invalid |-> o.invalid, black |-> o.black, unroutable |-> o.unroutable,
           rt |-> o.rt, agg |-> SeqToSet(o.agg)]

\* C02: "becomes visible in the bad-metrics report under its name with the rejected text and the reason"
BadOK(e) ==
    IF e.o.invalid = 0 THEN e.bad = <<>>                        \* nothing reported for a forwarded line
    ELSE IF e.line.nf = 3
         THEN /\ Len(e.bad) = 1
              /\ e.bad[1].msg = e.text
              /\ e.bad[1].metric \in {e.key, e.keynd}
              /\ ReasonOK(e.line, lvl, lvm, e.bad[1].err)
         ELSE \* "provided the message could be parsed": there is no name to file it under
              /\ Len(e.bad) <= 1
              /\ (Len(e.bad) = 1 => /\ e.bad[1].msg = e.text /\ e.bad[1].metric \in {"", e.key}
                                    /\ ReasonOK(e.line, lvl, lvm, e.bad[1].err))

TDisp == /\ Is("d")
         /\ DeclOK(tbl, Ev.nm, Verdicts(Ev.line, lvl, lvm), Obs(Ev.o))
         /\ BadOK(Ev)
         /\ UNCHANGED <<tbl, lvl, lvm>>

TNext == TTbl \/ TDisp
TSpec == TInit /\ [][TNext]_tvars

HighWater == TLCSet(1, IF l - 1 > TLCGet(1) THEN l - 1 ELSE TLCGet(1))
Post == PrintT("@@TRACE " \o ToJson([matched |-> TLCGet(1)]))
TypeInv == WellFormedTable(tbl)
=============================================================================
