---------------------------- MODULE DispatchTrace ----------------------------
(* C01 + C02 trace specification: every Dispatch the conformance driver       *)
(* (harness/disp) ran on a real table.Table is decided here.                  *)
(*   tbl   a new table was built: t = its abstract description (as the driver *)
(*         built it with AddBlacklist/AddRewriter/AddAggregator/AddRoute),    *)
(*         lvl / lvm = the validation levels as written in the configuration  *)
(*         text the table was created from ("" = option absent), ord =        *)
(*         validate_order as written there ("", "false", "true")              *)
(*   d     one Dispatch: nm = abstract name, line = abstract line record the  *)
(*         bytes were built from, o = observed counter deltas / hand-overs /  *)
(*         aggregator intake, bad = the bad-metrics records that appeared,    *)
(*         text/key/keynd = hex of the bytes sent, of the key token and of    *)
(*         the key token without its leading dot, tsn = the timestamp the     *)
(*         driver wrote as a whole number of seconds (-1: not a number);      *)
(*         o.ooo = delta of the out_of_order counter                          *)
(* Verdict: DispatchOps!DeclOK (C01) for one of the verdicts Validate!Verdicts*)
(* allows (C02), and the bad-metrics clause of C02.                           *)
(* Order validation (configured per table, C02's configuration dimension):    *)
(* reg is the order register of validate/ordered.go seen sequentially -- it   *)
(* is process-wide and keyed by name, so it is never reset between tables.    *)
(* A point that passed validation on a table with validate_order = true is    *)
(* newer iff its timestamp exceeds the one registered for its name (a name    *)
(* never seen: iff positive); an accepted point is registered (the check sits *)
(* before the blacklist, so whatever happens to the line afterwards).  The    *)
(* concurrency of the register is C19's matter.                               *)
EXTENDS DispatchOps, Validate, Json, TLC, TLCExt, IOUtils

TLog == ndJsonDeserialize("trace.ndjson")

VARIABLES l, tbl, lvl, lvm, ord, reg
tvars == <<l, tbl, lvl, lvm, ord, reg>>

ASSUME TLCSet(1, 0)

Ev == TLog[l]
Is(e) == l <= Len(TLog) /\ Ev.ev = e /\ l' = l + 1

\* JSON arrays are tuples: turn the accept-sets back into sets
NormT(j) ==
    [black  |-> [i \in DOMAIN j.black |-> SeqToSet(j.black[i])],
     rw     |-> [i \in DOMAIN j.rw |-> [from |-> j.rw[i].from, to |-> j.rw[i].to]],
     aggs   |-> [i \in DOMAIN j.aggs |-> [acc |-> SeqToSet(j.aggs[i].acc), drop |-> j.aggs[i].drop]],
     routes |-> [k \in DOMAIN j.routes |->
                   [kind  |-> j.routes[k].kind, acc |-> SeqToSet(j.routes[k].acc),
                    dests |-> [d \in DOMAIN j.routes[k].dests |-> SeqToSet(j.routes[k].dests[d])]]]]

Empty == [black |-> <<>>, rw |-> <<>>, aggs |-> <<>>, routes |-> <<>>]
NoReg == [x \in {} |-> 0]
TInit == l = 1 /\ tbl = Empty /\ lvl = "" /\ lvm = "" /\ ord = "" /\ reg = NoReg

TTbl == /\ Is("tbl")
        /\ tbl' = NormT(Ev.t) /\ lvl' = Ev.lvl /\ lvm' = Ev.lvm /\ ord' = Ev.ord
        /\ Ev.lvl \in LegacyLevels \cup {""} /\ Ev.lvm \in M20Levels \cup {""} /\ Ev.ord \in OrderSettings
        /\ UNCHANGED reg

Obs(o) == [in |-> o.in, invalid |-> o.invalid, ooo |-> o.ooo, black |-> o.black, unroutable |-> o.unroutable,
           rt |-> o.rt, agg |-> SeqToSet(o.agg)]

\* C02: "becomes visible in the bad-metrics report under its name with the rejected text and the reason"
BadOK(e) ==
    IF e.o.invalid = 0 /\ e.o.ooo = 0 THEN e.bad = <<>>         \* nothing reported for a forwarded line
    ELSE IF e.o.invalid = 0                                     \* rejected by the order check: "reported as a bad metric"
         THEN /\ Len(e.bad) = 1
              /\ e.bad[1].msg = e.text
              /\ e.bad[1].metric \in {e.key, e.keynd}
              /\ e.bad[1].err # ""
    ELSE IF e.line.nf = 3
         THEN /\ Len(e.bad) = 1
              /\ e.bad[1].msg = e.text
              /\ e.bad[1].metric \in {e.key, e.keynd}
              /\ ReasonOK(e.line, lvl, lvm, e.bad[1].err)
         ELSE \* "provided the message could be parsed": there is no name to file it under
              /\ Len(e.bad) <= 1
              /\ (Len(e.bad) = 1 => /\ e.bad[1].msg = e.text /\ e.bad[1].metric \in {"", e.key}
                                    /\ ReasonOK(e.line, lvl, lvm, e.bad[1].err))

\* what the order register answers for this point (by its name as graphite sees it: without the leading dot)
Newers(e) == IF e.keynd \in DOMAIN reg THEN {e.tsn > reg[e.keynd]} ELSE {e.tsn > 0}
Passed(o) == o.invalid = 0 /\ o.ooo = 0

TDisp == /\ Is("d")
         /\ DeclOKO(tbl, ord, Ev.nm, Verdicts(Ev.line, lvl, lvm), Newers(Ev), Obs(Ev.o))
         /\ BadOK(Ev)
         /\ reg' = IF OrdOn(ord) /\ Passed(Ev.o) THEN (Ev.keynd :> Ev.tsn) @@ reg ELSE reg
         /\ UNCHANGED <<tbl, lvl, lvm, ord>>

TNext == TTbl \/ TDisp
TSpec == TInit /\ [][TNext]_tvars

HighWater == TLCSet(1, IF l - 1 > TLCGet(1) THEN l - 1 ELSE TLCGet(1))
Post == PrintT("@@TRACE " \o ToJson([matched |-> TLCGet(1)]))
TypeInv == WellFormedTable(tbl)
=============================================================================
