SPECIFICATION Spec
CHECK_DEADLOCK FALSE
CONSTANTS
  KeyMod = 2
