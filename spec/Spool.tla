------------------------------- MODULE Spool -------------------------------
(* XSPOOL: the spool of a destination across relay restarts.                  *)
(*                                                                            *)
(* destination/spool.go composed with the disk queue at level A (the C08/C09  *)
(* contract of QueueContractOps.tla: a persistent FIFO with the marks         *)
(* "enqueued / consumed when the last sync completed"; no file operations).   *)
(*                                                                            *)
(*   sender --InRT (cap RTCap)--> Writer --queueBuffer (cap BufCap)--> Buffer *)
(*   Ingest --InBulk (unbuffered)-^                         DiskQueue.Put <-' *)
(*   DiskQueue.ReadChan --> SlowChan goroutine (holds one line) --> Out       *)
(*                                                                            *)
(* main() never closes the spools on SIGTERM, so every relay restart is a     *)
(* Crash of this machine: everything in memory is gone, the queue files stay, *)
(* and Restart (= NewSpool on the same directory) continues with whatever the *)
(* C08 contract lets a reopened queue deliver.                                *)
(*                                                                            *)
(* Lines are identified by unique ids 1..MaxLines (None = 0 = no line).       *)
EXTENDS Integers, Sequences, FiniteSets, QueueContractOps

CONSTANTS MaxLines,    \* lines offered over all runs
          RTCap,       \* cap(Spool.InRT)          (10 in the code)
          BufCap,      \* cap(Spool.queueBuffer)   (spoolbuf; 0 = unbuffered)
          MaxCrashes,  \* relay restarts
          ReadAhead,   \* TRUE = the code: the SlowChan goroutine takes a line out of the queue (the queue
                       \* advances its read position) before anybody receives it on Out.
                       \* FALSE = a protocol in which the queue advances only when Out delivers.
          Dev          \* named deviation ("" = the code)

None == 0

VARIABLES
  lines, path,                          \* ids created so far; id -> "rt" | "bulk"
  up, inRT, whold, qbuf, bhold, bst, sc,    \* one run of the process (memory)
  enq, consumed, wSync, cSync,          \* the disk queue of this incarnation, level A
  run, base, acc, sentRT, out,          \* history of the current run
  ndeliv, lost, last                    \* history over all runs

mem   == <<up, inRT, whold, qbuf, bhold, bst, sc>>
queue == <<enq, consumed, wSync, cSync>>
hrun  == <<run, base, acc, sentRT, out>>
hall  == <<ndeliv, lost, last>>
vars  == <<lines, path, mem, queue, hrun, hall>>

S(x)     == IF x = None THEN <<>> ELSE <<x>>
Range(s) == {s[i] : i \in DOMAIN s}
NoDup(s) == \A i, j \in DOMAIN s : i # j => s[i] # s[j]
Min(a, b) == IF a < b THEN a ELSE b
Max(a, b) == IF a > b THEN a ELSE b
RunSeq(lo, hi) == [i \in 1..(hi - lo + 1) |-> lo + i - 1]
IsRT(x)   == path[x] = "rt"
IsBulk(x) == path[x] = "bulk"
NoLast == [none |-> TRUE]

(* What a queue reopened on the files of a crashed incarnation (content q, c   *)
(* consumed, marks ws/cs) may hold: a contiguous stretch lo..hi of q admitted   *)
(* by the C08 contract.                                                        *)
Stretch(q, c, ws, cs, lo, hi) ==
    /\ lo \in 1..(Len(q) + 1) /\ hi \in 0..Len(q) /\ hi >= lo - 1
    /\ RecoveryOK(RunSeq(lo, hi), Len(q), c, ws, cs)
Recoverable(D, q, c, ws, cs) ==
    IF D = <<>> THEN RecoveryOK(<<>>, Len(q), c, ws, cs)
    ELSE \E lo \in 1..Len(q) :
           /\ q[lo] = D[1]
           /\ LET hi == lo + Len(D) - 1 IN
                /\ hi <= Len(q) /\ D = SubSeq(q, lo, hi)
                /\ RecoveryOK(RunSeq(lo, hi), Len(q), c, ws, cs)

Init ==
  /\ lines = {} /\ path = [i \in 1..MaxLines |-> "none"]
  /\ up = TRUE /\ inRT = <<>> /\ whold = None /\ qbuf = <<>> /\ bhold = None /\ bst = "idle" /\ sc = None
  /\ enq = <<>> /\ consumed = 0 /\ wSync = 0 /\ cSync = 0
  /\ run = 0 /\ base = <<>> /\ acc = <<>> /\ sentRT = <<>> /\ out = <<>>
  /\ ndeliv = [i \in 1..MaxLines |-> 0] /\ lost = {} /\ last = NoLast

-----------------------------------------------------------------------------
(* senders *)
SendRT(id) ==      \* dest.spool.InRT <- buf  (the relay loop sends without blocking: only when there is room)
  /\ up /\ id \notin lines /\ Len(inRT) < RTCap
  /\ lines' = lines \cup {id} /\ path' = [path EXCEPT ![id] = "rt"]
  /\ inRT' = Append(inRT, id) /\ sentRT' = Append(sentRT, id)
  /\ UNCHANGED <<up, whold, qbuf, bhold, bst, sc, queue, run, base, acc, out, hall>>

(* Spool.Writer *)
WriterRT ==        \* case buf := <-s.InRT            (hook spool.rt)
  /\ up /\ whold = None /\ inRT # <<>>
  /\ LET x == IF Dev = "rt_overtakes" THEN inRT[Len(inRT)] ELSE Head(inRT) IN
       /\ whold' = x /\ acc' = Append(acc, x)
       /\ inRT' = IF Dev = "rt_overtakes" THEN SubSeq(inRT, 1, Len(inRT) - 1) ELSE Tail(inRT)
  /\ UNCHANGED <<lines, path, up, qbuf, bhold, bst, sc, queue, run, base, sentRT, out, hall>>
WriterBulk(id) ==  \* Ingest: s.InBulk <- buf  meets  case buf := <-s.InBulk   (hook spool.bulk)
  /\ up /\ whold = None /\ id \notin lines
  /\ lines' = lines \cup {id} /\ path' = [path EXCEPT ![id] = "bulk"]
  /\ whold' = id /\ acc' = Append(acc, id)
  /\ UNCHANGED <<up, inRT, qbuf, bhold, bst, sc, queue, run, base, sentRT, out, hall>>
WriterPush ==      \* s.queueBuffer <- buf  (blocking)
  /\ up /\ whold # None
  /\ IF BufCap = 0
       THEN /\ bhold = None /\ bhold' = whold /\ bst' = "got" /\ UNCHANGED qbuf    \* unbuffered: meets the Buffer goroutine
       ELSE /\ Len(qbuf) < BufCap /\ UNCHANGED <<bhold, bst>>
            /\ qbuf' = IF Dev = "writer_lifo" THEN <<whold>> \o qbuf ELSE Append(qbuf, whold)
  /\ whold' = None
  /\ UNCHANGED <<lines, path, up, inRT, sc, queue, hrun, hall>>
WriterDropFull ==  \* deviation: a Writer that does not block on a full queueBuffer
  /\ Dev = "writer_drop_when_full" /\ up /\ whold # None /\ Len(qbuf) >= BufCap
  /\ whold' = None
  /\ UNCHANGED <<lines, path, up, inRT, qbuf, bhold, bst, sc, queue, hrun, hall>>

(* Spool.Buffer *)
BufferTake ==      \* case buf := <-s.queueBuffer
  /\ up /\ bhold = None /\ qbuf # <<>>
  /\ bhold' = Head(qbuf) /\ bst' = "got" /\ qbuf' = Tail(qbuf)
  /\ UNCHANGED <<lines, path, up, inRT, whold, sc, queue, hrun, hall>>
BufferPut ==       \* s.queue.Put(buf): the record is in the queue file          (queue hook w_write)
  /\ up /\ bhold # None
  /\ bst = "got" \/ (Dev = "buffer_put_twice" /\ bst = "written")
  /\ enq' = Append(enq, bhold) /\ bst' = "written"
  /\ UNCHANGED <<lines, path, up, inRT, whold, qbuf, bhold, sc, consumed, wSync, cSync, hrun, hall>>
BufferDone ==      \* Put returned                                              (hook spool.put)
  /\ up /\ bst = "written"
  /\ bhold' = None /\ bst' = "idle"
  /\ UNCHANGED <<lines, path, up, inRT, whold, qbuf, sc, queue, hrun, hall>>

(* the disk queue, level A *)
QSync ==           \* a metadata sync completed (every syncEvery-th loop, sync period, segment roll)
  /\ up /\ wSync' = Len(enq) /\ cSync' = consumed
  /\ UNCHANGED <<lines, path, mem, enq, consumed, hrun, hall>>

(* SlowChan goroutine over DiskQueue.ReadChan *)
SlowTake ==        \* v := <-backend : the queue hands the line over and moves forward   (queue hook take)
  /\ ReadAhead /\ up /\ sc = None /\ consumed < Len(enq)
  /\ sc' = enq[consumed + 1] /\ consumed' = consumed + 1
  /\ UNCHANGED <<lines, path, up, inRT, whold, qbuf, bhold, bst, enq, wSync, cSync, hrun, hall>>
OutRecv ==         \* the user of the spool receives from Out
  /\ up
  /\ IF ReadAhead
       THEN /\ sc # None /\ out' = Append(out, sc)
            /\ ndeliv' = [ndeliv EXCEPT ![sc] = @ + 1]
            /\ sc' = IF Dev = "slowchan_resend" /\ ndeliv[sc] = run THEN sc ELSE None
            /\ UNCHANGED consumed
       ELSE /\ consumed < Len(enq) /\ out' = Append(out, enq[consumed + 1])
            /\ ndeliv' = [ndeliv EXCEPT ![enq[consumed + 1]] = @ + 1]
            /\ consumed' = consumed + 1 /\ UNCHANGED sc
  /\ UNCHANGED <<lines, path, up, inRT, whold, qbuf, bhold, bst, enq, wSync, cSync, run, base, acc, sentRT, lost, last>>

(* a relay restart *)
MemLines == Range(inRT) \cup Range(S(whold)) \cup Range(qbuf) \cup (IF bst = "got" THEN {bhold} ELSE {})
Crash ==
  /\ up /\ run < MaxCrashes
  /\ up' = FALSE
  /\ last' = [enq |-> enq, c |-> consumed, ws |-> wSync, cs |-> cSync, out |-> out, sc |-> sc, mem |-> MemLines]
  /\ inRT' = <<>> /\ whold' = None /\ qbuf' = <<>> /\ bhold' = None /\ bst' = "idle" /\ sc' = None
  /\ UNCHANGED <<lines, path, queue, hrun, ndeliv, lost>>

Category(L, id) ==
  IF id \in L.mem THEN "notput"
  ELSE LET p == CHOOSE i \in DOMAIN L.enq : L.enq[i] = id IN
       IF p > L.ws THEN "unsynced"
       ELSE IF id = L.sc THEN "readahead"
       ELSE "unexplained"

Restart ==         \* NewSpool on the same directory
  /\ ~up
  /\ \E lo \in 1..(Len(enq) + 1), hi \in 0..Len(enq) :
       /\ hi >= lo - 1
       /\ CASE Dev = "restart_other_dir" -> hi = lo - 1                         \* finds no queue files
            [] Dev = "restart_rewind"    -> lo = 1 /\ hi >= wSync               \* ignores the persisted read position
            [] Dev = "restart_skips_one" -> lo <= consumed + 2 /\ lo > cSync /\ hi >= wSync
            [] OTHER                     -> Stretch(enq, consumed, wSync, cSync, lo, hi)
       /\ base' = SubSeq(enq, lo, hi)
       /\ wSync' = Max(0, Min(hi, wSync) - lo + 1)       \* a restart does not change what is persisted
       /\ LET gone == {id \in (last.mem \cup Range(enq) \cup Range(S(last.sc))) :
                          ndeliv[id] = 0 /\ id \notin Range(SubSeq(enq, lo, hi))} IN
            lost' = lost \cup {[id |-> id, cat |-> Category(last, id), run |-> run] : id \in gone}
  /\ enq' = base' /\ consumed' = 0 /\ cSync' = 0
  /\ up' = TRUE /\ run' = run + 1 /\ acc' = <<>> /\ sentRT' = <<>> /\ out' = <<>>
  /\ UNCHANGED <<lines, path, inRT, whold, qbuf, bhold, bst, sc, ndeliv, last>>

NewId == IF Cardinality(lines) < MaxLines THEN {Cardinality(lines) + 1} ELSE {}

Next ==
  \/ \E id \in NewId : SendRT(id) \/ WriterBulk(id)
  \/ WriterRT \/ WriterPush \/ WriterDropFull \/ BufferTake \/ BufferPut \/ BufferDone
  \/ QSync \/ SlowTake \/ OutRecv \/ Crash \/ Restart

Spec == Init /\ [][Next]_vars
\* every stage keeps running and Out keeps being read (liveness only)
Fair == /\ WF_vars(WriterRT) /\ WF_vars(WriterPush) /\ WF_vars(BufferTake) /\ WF_vars(BufferPut)
        /\ WF_vars(BufferDone) /\ WF_vars(SlowTake) /\ WF_vars(OutRecv) /\ WF_vars(Restart)
LiveSpec == Spec /\ Fair

-----------------------------------------------------------------------------
(* Where every line is *)
Pipeline == out \o S(sc) \o SubSeq(enq, consumed + 1, Len(enq))
                \o (IF bst = "got" THEN <<bhold>> ELSE <<>>) \o qbuf \o S(whold)
InFlight == Range(Pipeline) \cup Range(inRT)
Where(id) ==
  IF ~up THEN "crashed"
  ELSE IF id \in Range(inRT) THEN "InRT"
  ELSE IF id = whold THEN "writer"
  ELSE IF id \in Range(qbuf) THEN "queueBuffer"
  ELSE IF id = bhold /\ bst = "got" THEN "buffer"
  ELSE IF id = sc THEN "slowchan"
  ELSE IF id \in Range(SubSeq(enq, consumed + 1, wSync)) THEN "queue-synced"
  ELSE IF id \in Range(SubSeq(enq, consumed + 1, Len(enq))) THEN "queue-unsynced"
  ELSE IF id \in Range(out) THEN "delivered"
  ELSE IF ndeliv[id] > 0 THEN "delivered-earlier"
  ELSE IF \E r \in lost : r.id = id THEN "lost"
  ELSE "nowhere"

TypeOK ==
  /\ lines \subseteq 1..MaxLines /\ consumed <= Len(enq) /\ wSync <= Len(enq) /\ cSync <= consumed
  /\ bst \in {"idle", "got", "written"} /\ (bst = "idle") = (bhold = None)
  /\ Len(inRT) <= RTCap /\ Len(qbuf) <= Max(BufCap, 0)
  /\ (~ReadAhead => sc = None)

(* (1) within one run *)
\* Out delivers exactly the accepted lines (after what the restart recovered), in acceptance order, each
\* once; every accepted line that is not out yet sits in exactly one stage
Conservation == up => Pipeline = base \o acc
NoDupRun     == NoDup(out)
\* acceptance order = sending order, per input path
RTOrder      == up => SelectSeq(acc, IsRT) \o inRT = sentRT
BulkOrder    == LET b == SelectSeq(acc, IsBulk) IN \A i \in 1..(Len(b) - 1) : b[i] < b[i + 1]
Accounted    == up => \A id \in lines : Where(id) # "nowhere"
AtMostOncePerRun == \A id \in lines : ndeliv[id] <= run + 1

(* (2) across crash + restart; `last` is the picture taken at the crash that ended the previous run *)
After == up /\ last # NoLast
\* nothing invented, order preserved: the recovered content is a contiguous stretch of the old queue
NothingInvented == After => \E lo \in 1..(Len(last.enq) + 1) : base = SubSeq(last.enq, lo, lo + Len(base) - 1)
\* what the queue had not handed out and had synced is delivered again after the restart
Durable == After => \A i \in (last.c + 1)..last.ws : last.enq[i] \in Range(base)
\* the ideal: what the *spool* had not delivered on Out and the queue had synced is delivered after the restart.
\* FALSE for the code (ReadAhead = TRUE): the line held by the SlowChan goroutine.
DurableUndelivered == After => \A i \in (Len(last.out) + 1)..last.ws : last.enq[i] \in Range(base)
\* at-least-once, not at-will: only what was consumed since the last sync is delivered twice
RedeliveryBounded == After => \A i \in 1..last.cs : last.enq[i] \notin Range(base)
\* the lines that can be lost are exactly: not yet Put, un-synced tail, SlowChan read-ahead
LossExact == \A r \in lost : r.cat \in {"notput", "unsynced", "readahead"}
LossNoReadAhead == \A r \in lost : r.cat \in {"notput", "unsynced"}
\* witnesses (each must be violated: every category of loss really occurs)
NeverLostNotPut    == \A r \in lost : r.cat # "notput"
NeverLostUnsynced  == \A r \in lost : r.cat # "unsynced"
NeverLostReadAhead == \A r \in lost : r.cat # "readahead"
NeverAllLossKinds  == ~(\A k \in {"notput", "unsynced", "readahead"} : \E r \in lost : r.cat = k)
NeverRedelivered   == \A id \in lines : ndeliv[id] <= 1

(* liveness: a line in the spool is eventually delivered or accounted as lost *)
Settles == \A id \in 1..MaxLines : (id \in lines) ~> (ndeliv[id] > 0 \/ \E r \in lost : r.id = id)
=============================================================================
