------------------------ MODULE DestinationContract ------------------------
(* Level A for C06 and C07: the accounting identities of the property statements, as operators  *)
(* shared by the level-B model (Destination.tla: QuiescentBound, SteadyHealthy, SteadyDown) and  *)
(* the trace specification (DestinationTrace.tla) that evaluates them on what the real code did. *)
EXTENDS Integers, FiniteSets

\* C07: the number of distinct handed lines (ids 1..handed) never received is at most the sum of the
\* slow-connection and slow-spool drop counters (duplicates are allowed)
LossBound(handed, rcv, slowConn, slowSpool) == Cardinality((1..handed) \ rcv) <= slowConn + slowSpool

\* C06, endpoint healthy the whole time: every handed line is received or counted as slow_conn
HealthyIdentity(handed, nreceived, slowConn) == handed = nreceived + slowConn

\* C06, endpoint connected the whole time but pausing (no progress for a while, then it reads everything):
\* every handed line is received or counted; should the relay have seen a down phase although the endpoint
\* never closed, the lines it dropped meanwhile are counted as conn_down_no_spool
PausedIdentity(handed, nreceived, slowConn, downNoSpool) == HealthyIdentity(handed - downNoSpool, nreceived, slowConn)

\* C06, endpoint down the whole time, spooling disabled: every line is counted as conn_down_no_spool
DownIdentity(handed, nreceived, downNoSpool) == handed = downNoSpool /\ nreceived = 0

\* C06: handing a metric to a route returns within the bound (microseconds)
LatencyBoundUs == 5000000
WithinBound(maxUs, over, stuck) == maxUs <= LatencyBoundUs /\ over = 0 /\ ~stuck
=============================================================================
