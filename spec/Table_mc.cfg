SPECIFICATION Spec
INVARIANTS TypeOK DispatchLoopIsDecl ExactlyOneFate NothingEarly OrderSeesValidOnly InvalidNeverOoo OooOnlyWhenOn
CHECK_DEADLOCK FALSE
