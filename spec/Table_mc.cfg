SPECIFICATION Spec
INVARIANTS TypeOK DispatchLoopIsDecl ExactlyOneFate NothingEarly
CHECK_DEADLOCK FALSE
