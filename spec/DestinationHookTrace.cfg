SPECIFICATION TSpec
CONSTRAINT HighWater
INVARIANT TInv
POSTCONDITION Post
CHECK_DEADLOCK FALSE
CONSTANTS AddrUpd = FALSE
