---------------------------- MODULE QueueHistGen ----------------------------
(* Generator: every client history (put/take/reopen) of the level-A contract *)
(* up to MaxOps operations, printed one per line as JSON.                     *)
EXTENDS QueueContract, Json, TLC
Emit == PrintT("@@H " \o ToJson(hist))
=============================================================================
