------------------------------ MODULE Listener ------------------------------
(* XLISTEN -- the lifecycle of a network input (input/listen.go), level B:   *)
(* one process per goroutine of the listener plus its environment.           *)
(*                                                                           *)
(*  Acceptor     run("tcp") + acceptTcp: AcceptTCP -> wg.Add(1); go          *)
(*               acceptTcpConn; on an accept error (not shutting down) close *)
(*               the listener, return to run(), re-listen (retry after a     *)
(*               backoff sleep while listen fails), accept again             *)
(*  TCloser      the goroutine started by run(): <-shutdown; listener.Close()*)
(*  Handler(c)   acceptTcpConn + HandleConn + Plain.Handle (bufio.Scanner):  *)
(*               Read (deadline re-armed per Read by TimeoutConn) -> one     *)
(*               Dispatch per line in the buffer -> ... -> at EOF / read     *)
(*               error the open partial token -> c.Close(); wg.Done()        *)
(*  Watcher(c)   the goroutine of acceptTcpConn: shutdown -> c.Close(), or   *)
(*               connClose -> exit                                           *)
(*  UdpReader    run("udp") + consumeUdp: ReadFrom -> HandleData inline;     *)
(*               the same reopen loop                                        *)
(*  UCloser      as TCloser for the UDP socket                               *)
(*  Stopper      Listener.Stop: close(shutdown); wg.Wait()                   *)
(*  Client(c)    connects, performs the writes of its script, then closes or *)
(*               stays idle for ever; the kernel: a connection sits in the   *)
(*               backlog until accepted, is reset when the listening socket  *)
(*               is closed before that, is refused when nothing listens      *)
(*  Fault/UFault the environment makes AcceptTCP / ReadFrom fail while the   *)
(*               listener is not shutting down (at most MaxFaults/MaxUFaults)*)
(*                                                                           *)
(* Protocol = "pinned" is the code as it is: the closer goroutine closes the *)
(* listener VALUE it was given when run() started (l.tcpList at Start), not  *)
(* the one a reopen has put into l.tcpList since.  Protocol = "repaired":    *)
(* the closer closes the current listener and run() looks at the shutdown    *)
(* channel once more after a successful re-listen.                           *)
(* Dev names a deviation (non-vacuity); "" = none.                           *)
EXTENDS ListenerOps, TLC

CONSTANTS Conns,          \* connection identities (each used by one client)
          ScriptNames,    \* the client behaviours to choose from (see Script)
          ReadTimeout,    \* BOOLEAN: plain_read_timeout > 0
          MaxFaults, MaxListenFail, MaxUFaults, MaxDgram,
          TcpOn, UdpOn,   \* BOOLEAN: model the TCP side / the UDP side (the two only share shutdown and the wait group,
                          \* so the exhaustive configs look at one side at a time plus small combined ones)
          Protocol, Dev

Script(name) ==
    CASE name = "close1"    -> [w |-> << <<"x", "LF">> >>, end |-> "close"]
      [] name = "close2"    -> [w |-> << <<"x", "LF">>, <<"y", "LF">> >>, end |-> "close"]
      [] name = "burst"     -> [w |-> << <<"x", "LF", "y", "LF">> >>, end |-> "idle"]
      [] name = "idle1"     -> [w |-> << <<"x", "LF">> >>, end |-> "idle"]
      [] name = "half"      -> [w |-> << <<"x", "LF">>, <<"y">> >>, end |-> "idle"]
      [] name = "halfclose" -> [w |-> << <<"x">> >>, end |-> "close"]
      [] name = "split"     -> [w |-> << <<"x">>, <<"y", "LF">> >>, end |-> "close"]
      [] name = "crhalf"    -> [w |-> << <<"x", "LF", "y", "CR">> >>, end |-> "idle"]
      [] name = "silent"    -> [w |-> << >>, end |-> "idle"]

RECURSIVE Flat(_, _)
Flat(ws, k) == IF k = 0 THEN <<>> ELSE Flat(ws, k - 1) \o ws[k]

VARIABLES script,                         \* [Conns -> ScriptNames], fixed
          cpc, wi,                        \* client: "init" | "conn" | "closed" | "refused"; writes done
          link,                           \* "none" | "backlog" | "est" | "reset"
          hpc, n, lo, out, term,          \* handler: pc, symbols received, first unconsumed, dispatched, terminal condition
          cclosed,                        \* the relay has closed the socket of c
          wpc,                            \* watcher: "none" | "wait" | "done"
          apc, acur, lgen, lopen, faults, lfails,   \* acceptor; generation and state of l.tcpList
          tclpc,                          \* TCP closer goroutine: "wait" | "done"
          upc, ugen, uopen, ufaults, dq, usent, ud, uout, uclpc,    \* UDP reader / socket / closer
          shutdown, spc, wg,              \* Stop
          rxAtStop, late, badTimeout      \* history
vars == <<script, cpc, wi, link, hpc, n, lo, out, term, cclosed, wpc, apc, acur, lgen, lopen, faults, lfails,
          tclpc, upc, ugen, uopen, ufaults, dq, usent, ud, uout, uclpc, shutdown, spc, wg, rxAtStop, late, badTimeout>>
cvars == <<cpc, wi>>
hvars == <<hpc, n, lo, out, term>>
avars == <<apc, acur, lgen, lopen, faults, lfails>>
uvars == <<upc, ugen, uopen, ufaults, dq, usent, ud, uout>>
svars == <<shutdown, spc, rxAtStop>>

W(c)       == Script(script[c]).w
Full(c)    == Flat(W(c), Len(W(c)))
SentLen(c) == Len(Flat(W(c), wi[c]))
NoConn     == "-"

Init ==
    /\ script \in [Conns -> ScriptNames]
    /\ cpc = [c \in Conns |-> "init"] /\ wi = [c \in Conns |-> 0] /\ link = [c \in Conns |-> "none"]
    /\ hpc = [c \in Conns |-> "none"] /\ n = [c \in Conns |-> 0] /\ lo = [c \in Conns |-> 1]
    /\ out = [c \in Conns |-> <<>>] /\ term = [c \in Conns |-> "none"]
    /\ cclosed = [c \in Conns |-> FALSE] /\ wpc = [c \in Conns |-> "none"]
    /\ apc = (IF TcpOn THEN "accept" ELSE "done") /\ lopen = TcpOn /\ tclpc = (IF TcpOn THEN "wait" ELSE "done")
    /\ acur = NoConn /\ lgen = 0 /\ faults = 0 /\ lfails = 0
    /\ upc = (IF UdpOn THEN "read" ELSE "done") /\ uopen = UdpOn /\ uclpc = (IF UdpOn THEN "wait" ELSE "done")
    /\ ugen = 0 /\ ufaults = 0 /\ dq = <<>> /\ usent = 0 /\ ud = 0 /\ uout = <<>>
    /\ shutdown = FALSE /\ spc = "idle"
    /\ wg = (IF TcpOn THEN 1 ELSE 0) + (IF UdpOn THEN 1 ELSE 0)       \* Start: wg.Add(2); go run(tcp); go run(udp)
    /\ rxAtStop = [c \in Conns |-> 0] /\ late = FALSE /\ badTimeout = FALSE

------------------------------------------------------------------------------
\* the kernel: closing the listening socket resets what was not accepted yet
ResetBacklog == [c \in Conns |-> IF link[c] = "backlog" THEN "reset" ELSE link[c]]

\* ---- clients (environment, no fairness)
CConnect(c) == /\ cpc[c] = "init"
               /\ IF lopen THEN link' = [link EXCEPT ![c] = "backlog"] /\ cpc' = [cpc EXCEPT ![c] = "conn"]
                           ELSE link' = link /\ cpc' = [cpc EXCEPT ![c] = "refused"]
               /\ UNCHANGED <<script, wi, hvars, cclosed, wpc, avars, tclpc, uvars, uclpc, svars, wg, late, badTimeout>>
CWrite(c)   == /\ cpc[c] = "conn" /\ wi[c] < Len(W(c))
               /\ wi' = [wi EXCEPT ![c] = @ + 1]         \* into the socket buffer (or nowhere, once reset / closed by the relay)
               /\ UNCHANGED <<script, cpc, link, hvars, cclosed, wpc, avars, tclpc, uvars, uclpc, svars, wg, late, badTimeout>>
CEnd(c)     == /\ cpc[c] = "conn" /\ wi[c] = Len(W(c)) /\ Script(script[c]).end = "close"
               /\ cpc' = [cpc EXCEPT ![c] = "closed"]
               /\ UNCHANGED <<script, wi, link, hvars, cclosed, wpc, avars, tclpc, uvars, uclpc, svars, wg, late, badTimeout>>
Client(c)   == CConnect(c) \/ CWrite(c) \/ CEnd(c)

\* ---- acceptor
AAccept == /\ apc = "accept" /\ lopen
           /\ \E c \in Conns : /\ link[c] = "backlog"
                               /\ link' = [link EXCEPT ![c] = "est"] /\ acur' = c
           /\ apc' = "spawn"
           /\ UNCHANGED <<script, cvars, hvars, cclosed, wpc, lgen, lopen, faults, lfails, tclpc, uvars, uclpc, svars, wg, late, badTimeout>>
\* wg.Add(1); go acceptTcpConn(c)  (which starts the watcher)
ASpawn == /\ apc = "spawn"
          /\ hpc' = [hpc EXCEPT ![acur] = IF Dev = "wg_add_in_handler" THEN "start" ELSE "read"]
          /\ wpc' = [wpc EXCEPT ![acur] = IF Dev \in {"no_conn_close", "close_snapshot"} THEN "done" ELSE "wait"]
          /\ wg' = IF Dev \in {"wg_add_in_handler", "serial_handler"} THEN wg ELSE wg + 1
          /\ apc' = IF Dev = "serial_handler" THEN "inline" ELSE "accept"
          /\ acur' = IF Dev = "serial_handler" THEN acur ELSE NoConn
          /\ UNCHANGED <<script, cvars, link, n, lo, out, term, cclosed, lgen, lopen, faults, lfails, tclpc, uvars, uclpc, svars, late, badTimeout>>
AInline == /\ apc = "inline" /\ hpc[acur] = "done" /\ apc' = "accept" /\ acur' = NoConn
           /\ UNCHANGED <<script, cvars, link, hvars, cclosed, wpc, lgen, lopen, faults, lfails, tclpc, uvars, uclpc, svars, wg, late, badTimeout>>
\* AcceptTCP returned an error (the socket is closed: by the closer goroutine, or the fault below);
\* acceptTcp returns, run() decides
AAcceptErr == /\ apc = "accept" /\ ~lopen /\ apc' = "check"
              /\ UNCHANGED <<script, cvars, link, hvars, cclosed, wpc, acur, lgen, lopen, faults, lfails, tclpc, uvars, uclpc, svars, wg, late, badTimeout>>
ACheck == /\ apc = "check"
          /\ apc' = IF shutdown \/ Dev = "accept_exit_on_error" THEN "exit" ELSE "reopen"
          /\ UNCHANGED <<script, cvars, link, hvars, cclosed, wpc, acur, lgen, lopen, faults, lfails, tclpc, uvars, uclpc, svars, wg, late, badTimeout>>
AReopen == /\ apc = "reopen"
           /\ \/ /\ lgen' = lgen + 1 /\ lopen' = TRUE /\ lfails' = lfails      \* backoffCounter.Reset()
                 /\ apc' = IF Protocol = "repaired" /\ Dev # "no_recheck_after_reopen" THEN "recheck" ELSE "accept"
              \/ /\ lfails < MaxListenFail /\ lfails' = lfails + 1 /\ apc' = "backoff"
                 /\ UNCHANGED <<lgen, lopen>>
           /\ UNCHANGED <<script, cvars, link, hvars, cclosed, wpc, acur, faults, tclpc, uvars, uclpc, svars, wg, late, badTimeout>>
\* listen failed: select { <-shutdown: return; default }; sleep(backoff); try again
ABackoff == /\ apc = "backoff" /\ apc' = IF shutdown THEN "exit" ELSE "reopen"
            /\ UNCHANGED <<script, cvars, link, hvars, cclosed, wpc, acur, lgen, lopen, faults, lfails, tclpc, uvars, uclpc, svars, wg, late, badTimeout>>
ARecheck == /\ apc = "recheck"
            /\ IF shutdown THEN apc' = "exit" /\ lopen' = FALSE /\ link' = ResetBacklog
                           ELSE apc' = "accept" /\ UNCHANGED <<lopen, link>>
            /\ UNCHANGED <<script, cvars, hvars, cclosed, wpc, acur, lgen, faults, lfails, tclpc, uvars, uclpc, svars, wg, late, badTimeout>>
AExit == /\ apc = "exit" /\ apc' = "done" /\ wg' = wg - 1
         /\ UNCHANGED <<script, cvars, link, hvars, cclosed, wpc, acur, lgen, lopen, faults, lfails, tclpc, uvars, uclpc, svars, late, badTimeout>>
Acceptor == AAccept \/ ASpawn \/ AInline \/ AAcceptErr \/ ACheck \/ AReopen \/ ABackoff \/ ARecheck \/ AExit

\* environment: an accept error while not (necessarily) shutting down; the accept loop closes the socket
Fault == /\ faults < MaxFaults /\ lopen /\ apc = "accept"
         /\ faults' = faults + 1 /\ lopen' = FALSE /\ link' = ResetBacklog
         /\ UNCHANGED <<script, cvars, hvars, cclosed, wpc, apc, acur, lgen, lfails, tclpc, uvars, uclpc, svars, wg, late, badTimeout>>

TCloser == /\ tclpc = "wait" /\ shutdown /\ tclpc' = "done"
           /\ IF Protocol = "repaired" \/ lgen = 0
                 THEN lopen' = FALSE /\ link' = (IF lopen THEN ResetBacklog ELSE link)
                 ELSE UNCHANGED <<lopen, link>>        \* closes the listener of Start again; l.tcpList stays open
           /\ UNCHANGED <<script, cvars, hvars, cclosed, wpc, apc, acur, lgen, faults, lfails, uvars, uclpc, svars, wg, late, badTimeout>>

\* ---- handler of connection c
Disp(c, r) == /\ out' = [out EXCEPT ![c] = Append(@, r)]
              /\ late' = (late \/ spc = "returned")
HStart(c) == /\ hpc[c] = "start" /\ hpc' = [hpc EXCEPT ![c] = "read"] /\ wg' = wg + 1     \* deviation only
             /\ UNCHANGED <<script, cvars, link, n, lo, out, term, cclosed, wpc, avars, tclpc, uvars, uclpc, svars, late, badTimeout>>
HRead(c) ==
    /\ hpc[c] = "read"
    /\ \/ /\ cclosed[c] /\ term' = [term EXCEPT ![c] = "closed"] /\ n' = n      \* use of closed network connection
       \/ /\ ~cclosed[c] /\ n[c] < SentLen(c) /\ n' = [n EXCEPT ![c] = SentLen(c)] /\ term' = term
       \/ /\ ~cclosed[c] /\ n[c] = SentLen(c) /\ cpc[c] = "closed"
          /\ term' = [term EXCEPT ![c] = "eof"] /\ n' = n
    /\ hpc' = [hpc EXCEPT ![c] = "scan"] /\ badTimeout' = badTimeout
    /\ UNCHANGED <<script, cvars, link, lo, out, cclosed, wpc, avars, tclpc, uvars, uclpc, svars, wg, late>>
\* the deadline armed by this Read passed before anything arrived
HTimeout(c) ==
    /\ hpc[c] = "read" /\ ReadTimeout /\ ~cclosed[c]
    /\ (n[c] = SentLen(c) /\ cpc[c] # "closed") \/ Dev = "timeout_not_rearmed"
    /\ term' = [term EXCEPT ![c] = "timeout"] /\ hpc' = [hpc EXCEPT ![c] = "scan"]
    /\ badTimeout' = (badTimeout \/ n[c] < SentLen(c))
    /\ UNCHANGED <<script, cvars, link, n, lo, out, cclosed, wpc, avars, tclpc, uvars, uclpc, svars, wg, late>>
HasLF(c)   == \E i \in lo[c]..n[c] : Full(c)[i] = "LF"
FirstLF(c) == CHOOSE i \in lo[c]..n[c] : Full(c)[i] = "LF" /\ \A j \in lo[c]..(i - 1) : Full(c)[j] # "LF"
HScan(c) ==
    /\ hpc[c] = "scan"
    /\ IF Dev = "drop_buffer_on_shutdown" /\ shutdown
          THEN hpc' = [hpc EXCEPT ![c] = "close"] /\ UNCHANGED <<lo, out, late>>
       ELSE IF HasLF(c)
          THEN /\ Disp(c, DropCR(Full(c), lo[c], FirstLF(c) - 1))
               /\ lo' = [lo EXCEPT ![c] = FirstLF(c) + 1] /\ hpc' = hpc
       ELSE /\ hpc' = [hpc EXCEPT ![c] = IF term[c] = "none" THEN "read" ELSE "flush"]
            /\ UNCHANGED <<lo, out, late>>
    /\ UNCHANGED <<script, cvars, link, n, term, cclosed, wpc, avars, tclpc, uvars, uclpc, svars, wg, badTimeout>>
\* bufio.Scanner hands out the unterminated rest as a last token (ScanLines drops a trailing CR)
HFlush(c) ==
    /\ hpc[c] = "flush" /\ hpc' = [hpc EXCEPT ![c] = "close"]
    /\ IF lo[c] <= n[c] THEN Disp(c, DropCR(Full(c), lo[c], n[c])) /\ lo' = [lo EXCEPT ![c] = n[c] + 1]
                        ELSE UNCHANGED <<lo, out, late>>
    /\ UNCHANGED <<script, cvars, link, n, term, cclosed, wpc, avars, tclpc, uvars, uclpc, svars, wg, badTimeout>>
\* HandleConn returned: c.Close(); close(connClose); wg.Done()
HClose(c) ==
    /\ hpc[c] = "close" /\ hpc' = [hpc EXCEPT ![c] = "done"]
    /\ cclosed' = [cclosed EXCEPT ![c] = TRUE]
    /\ wg' = IF Dev = "serial_handler" THEN wg ELSE wg - 1
    /\ wpc' = [wpc EXCEPT ![c] = "done"]                 \* connClose is closed: the watcher goroutine ends
    /\ UNCHANGED <<script, cvars, link, n, lo, out, term, avars, tclpc, uvars, uclpc, svars, late, badTimeout>>
Handler(c) == HStart(c) \/ HRead(c) \/ HTimeout(c) \/ HScan(c) \/ HFlush(c) \/ HClose(c)

Watcher(c) ==
    /\ wpc[c] = "wait" /\ shutdown
    /\ wpc' = [wpc EXCEPT ![c] = "done"]
    /\ cclosed' = [cclosed EXCEPT ![c] = TRUE]
    /\ UNCHANGED <<script, cvars, link, hvars, avars, tclpc, uvars, uclpc, svars, wg, late, badTimeout>>

\* ---- UDP
USend == /\ usent < MaxDgram /\ usent' = usent + 1
         /\ dq' = IF uopen THEN Append(dq, usent + 1) ELSE dq
         /\ UNCHANGED <<script, cvars, link, hvars, cclosed, wpc, avars, tclpc, upc, ugen, uopen, ufaults, ud, uout, uclpc, svars, wg, late, badTimeout>>
URead == /\ upc = "read" /\ uopen /\ dq # <<>> /\ ud' = Head(dq) /\ dq' = Tail(dq) /\ upc' = "handle"
         /\ UNCHANGED <<script, cvars, link, hvars, cclosed, wpc, avars, tclpc, ugen, uopen, ufaults, usent, uout, uclpc, svars, wg, late, badTimeout>>
UHandle == /\ upc = "handle" /\ uout' = Append(uout, ud) /\ late' = (late \/ spc = "returned") /\ upc' = "read"
           /\ UNCHANGED <<script, cvars, link, hvars, cclosed, wpc, avars, tclpc, ugen, uopen, ufaults, dq, usent, ud, uclpc, svars, wg, badTimeout>>
UReadErr == /\ upc = "read" /\ ~uopen /\ upc' = "check"
            /\ UNCHANGED <<script, cvars, link, hvars, cclosed, wpc, avars, tclpc, ugen, uopen, ufaults, dq, usent, ud, uout, uclpc, svars, wg, late, badTimeout>>
UCheck == /\ upc = "check" /\ upc' = IF shutdown \/ Dev = "accept_exit_on_error" THEN "exit" ELSE "reopen"
          /\ UNCHANGED <<script, cvars, link, hvars, cclosed, wpc, avars, tclpc, ugen, uopen, ufaults, dq, usent, ud, uout, uclpc, svars, wg, late, badTimeout>>
UReopen == /\ upc = "reopen" /\ ugen' = ugen + 1 /\ uopen' = TRUE
           /\ upc' = IF Protocol = "repaired" THEN "recheck" ELSE "read"
           /\ UNCHANGED <<script, cvars, link, hvars, cclosed, wpc, avars, tclpc, ufaults, dq, usent, ud, uout, uclpc, svars, wg, late, badTimeout>>
URecheck == /\ upc = "recheck"
            /\ IF shutdown THEN upc' = "exit" /\ uopen' = FALSE /\ dq' = <<>>
                           ELSE upc' = "read" /\ UNCHANGED <<uopen, dq>>
            /\ UNCHANGED <<script, cvars, link, hvars, cclosed, wpc, avars, tclpc, ugen, ufaults, usent, ud, uout, uclpc, svars, wg, late, badTimeout>>
UExit == /\ upc = "exit" /\ upc' = "done" /\ wg' = wg - 1
         /\ UNCHANGED <<script, cvars, link, hvars, cclosed, wpc, avars, tclpc, ugen, uopen, ufaults, dq, usent, ud, uout, uclpc, svars, late, badTimeout>>
UdpReader == URead \/ UHandle \/ UReadErr \/ UCheck \/ UReopen \/ URecheck \/ UExit
UFault == /\ ufaults < MaxUFaults /\ uopen /\ upc = "read"
          /\ ufaults' = ufaults + 1 /\ uopen' = FALSE /\ dq' = <<>>
          /\ UNCHANGED <<script, cvars, link, hvars, cclosed, wpc, avars, tclpc, upc, ugen, usent, ud, uout, uclpc, svars, wg, late, badTimeout>>
UCloser == /\ uclpc = "wait" /\ shutdown /\ uclpc' = "done"
           /\ IF Protocol = "repaired" \/ ugen = 0 THEN uopen' = FALSE /\ dq' = <<>> ELSE UNCHANGED <<uopen, dq>>
           /\ UNCHANGED <<script, cvars, link, hvars, cclosed, wpc, avars, tclpc, upc, ugen, ufaults, usent, ud, uout, svars, wg, late, badTimeout>>

\* ---- Stop
SStop == /\ spc = "idle" /\ shutdown' = TRUE /\ spc' = "waiting" /\ rxAtStop' = n
         /\ cclosed' = IF Dev = "close_snapshot" THEN [c \in Conns |-> cclosed[c] \/ hpc[c] # "none"] ELSE cclosed
         /\ UNCHANGED <<script, cvars, link, hvars, wpc, avars, tclpc, uvars, uclpc, wg, late, badTimeout>>
SReturn == /\ spc = "waiting" /\ (wg = 0 \/ Dev = "stop_no_wait") /\ spc' = "returned"
           /\ UNCHANGED <<script, cvars, link, hvars, cclosed, wpc, avars, tclpc, uvars, uclpc, shutdown, rxAtStop, wg, late, badTimeout>>

Relay == Acceptor \/ TCloser \/ UdpReader \/ UCloser \/ SReturn \/ \E c \in Conns : Handler(c) \/ Watcher(c)
Env   == SStop \/ Fault \/ UFault \/ USend \/ \E c \in Conns : Client(c)
Next  == Relay \/ Env
Spec  == Init /\ [][Next]_vars
FairSpec == /\ Spec
            /\ WF_vars(Acceptor) /\ WF_vars(TCloser) /\ WF_vars(UdpReader) /\ WF_vars(UCloser) /\ WF_vars(SReturn)
            /\ \A c \in Conns : WF_vars(Handler(c)) /\ WF_vars(Watcher(c))

------------------------------------------------------------------------------
\* (1) every line received is dispatched exactly once, whole, in order; a connection shut down by
\*     Stop loses nothing that its handler had already received
P1_Running == \A c \in Conns : hpc[c] \in {"read", "scan"} /\ term[c] = "none" => RunOK(Full(c), n[c], out[c])
P1_Drain   == \A c \in Conns : term[c] # "none" /\ hpc[c] # "done" => DrainOK(Full(c), n[c], term[c], out[c])
P1_ConnOK  == \A c \in Conns : hpc[c] = "done" => ConnOK(Full(c), n[c], term[c], out[c])
P1_BeforeStop == \A c \in Conns : hpc[c] = "done" /\ spc # "idle" =>
                     ReceivedBeforeStopDispatched(Full(c), rxAtStop[c], out[c])
\* (2) after Stop returned: nothing runs, nothing is dispatched, every accepted connection was
\*     closed, nothing listens
P2_Quiet  == spc = "returned" => /\ apc = "done" /\ upc = "done"
                                 /\ \A c \in Conns : hpc[c] \in {"none", "done"} /\ (link[c] = "est" => cclosed[c])
P2_NoLate == ~late
P2_Refuse == spc = "returned" => ~lopen /\ ~uopen
\* (3) a read timeout strikes only a connection on which nothing arrived since the Read was issued
P3_TimeoutOnlyIdle == ~badTimeout /\ (\A c \in Conns : term[c] = "timeout" => ReadTimeout)
\* (4) the accept / read loops end only because of shutdown
P4_NoExit == ((TcpOn /\ apc \in {"exit", "done"}) \/ (UdpOn /\ upc \in {"exit", "done"})) => shutdown
\* UDP: each datagram handled at most once, in arrival order
P_Udp == StrictlyIncreasing(uout) /\ \A i \in 1..Len(uout) : uout[i] <= usent

ConnSym == Permutations(Conns)

TypeOK == /\ wg \in 0..(2 + Cardinality(Conns)) /\ lgen \in 0..MaxFaults /\ ugen \in 0..MaxUFaults
          /\ \A c \in Conns : n[c] <= SentLen(c) /\ lo[c] <= n[c] + 1

\* liveness (FairSpec)
L2_StopTerminates == (spc = "waiting") ~> (spc = "returned")
L3_IdleClosed == ReadTimeout => \A c \in Conns : (link[c] = "est") ~> cclosed[c]
L4_Reopens == /\ (apc \in {"check", "reopen", "backoff"}) ~> (apc \in {"accept", "recheck"} \/ shutdown)
              /\ (upc \in {"check", "reopen"}) ~> (upc \in {"read", "recheck"} \/ shutdown)
L5_Served == \A c \in Conns :
                /\ (link[c] = "backlog") ~> (link[c] # "backlog")
                /\ (hpc[c] \in {"read", "scan"} /\ n[c] < SentLen(c) /\ ~cclosed[c]) ~> (n[c] = SentLen(c) \/ cclosed[c])
                /\ (hpc[c] = "scan" /\ HasLF(c) /\ ~shutdown) ~> (~HasLF(c) \/ shutdown)
=============================================================================
