-------------------------- MODULE DestinationTrace --------------------------
(* Level-A trace specification for C06 and C07: replays the events recorded by harness/dest from  *)
(* real routes / destinations running against harness-made endpoints (trace.ndjson). One line =   *)
(* one event; many scenarios are concatenated (scn resets).                                        *)
(*   scn       a scenario starts                                                                   *)
(*   lat       C06: all Route.Dispatch calls of the scenario: slowest (us), calls over the bound, stuck  *)
(*             (also the only judged event of the spool-replay scenarios: spooling enabled, outage,  *)
(*             endpoint back as black hole / stall-resume / close mid-replay / writer held by the    *)
(*             hook gate; their replay / ugate records are informational -> info)                    *)
(*   phase     C06: counters at quiescence of a steady phase the driver declared after observing   *)
(*             the transition: steady = "healthy" | "down" | "paused" (endpoint stalled for many   *)
(*             flush periods, never closed, then read everything) | "" (no identity demanded)      *)
(*   up/down/cut  C07: endpoint transitions (informational)                                         *)
(*   handed    C07: ids 1..n were handed to the destination                                         *)
(*   recv      C07: the id ranges one endpoint incarnation received intact                          *)
(*   loss      C07: final drop counters -> LossBound                                                *)
(*   drain     C07: spool state after the endpoint stayed up (generous deadline)                    *)
(*   intact    C07: number of malformed lines seen by the endpoint                                  *)
EXTENDS DestinationContract, Json, TLC, TLCExt, IOUtils, Sequences

TLog == ndJsonDeserialize("trace.ndjson")

VARIABLES l, nh, rcv
tvars == <<l, nh, rcv>>

ASSUME TLCSet(1, 0)

Ev == TLog[l]
Is(e) == l <= Len(TLog) /\ Ev.ev = e /\ l' = l + 1
Keep == UNCHANGED <<nh, rcv>>

TInit == l = 1 /\ nh = 0 /\ rcv = {}

TScn   == Is("scn") /\ nh' = 0 /\ rcv' = {}
TSkip  == (Is("up") \/ Is("down") \/ Is("cut") \/ Is("info")) /\ Keep
TLat   == Is("lat") /\ WithinBound(Ev.max_us, Ev.over_bound, Ev.stuck) /\ Keep
TPhase == /\ Is("phase") /\ Keep
          /\ (Ev.steady = "healthy" => HealthyIdentity(Ev.handed, Ev.received, Ev.slow_conn))
          /\ (Ev.steady = "down" => DownIdentity(Ev.handed, Ev.received, Ev.down))
          /\ (Ev.steady = "paused" => PausedIdentity(Ev.handed, Ev.received, Ev.slow_conn, Ev.down))
THanded == Is("handed") /\ nh' = Ev.n /\ UNCHANGED rcv
RangeSet(rs) == UNION {(rs[i][1])..(rs[i][2]) : i \in 1..Len(rs)}
TRecv  == /\ Is("recv") /\ UNCHANGED nh
          /\ \A i \in 1..Len(Ev.ranges) : Ev.ranges[i][1] >= 1 /\ Ev.ranges[i][2] <= nh   \* only handed lines exist
          /\ rcv' = rcv \cup RangeSet(Ev.ranges)
TLoss  == Is("loss") /\ LossBound(nh, rcv, Ev.slow_conn, Ev.slow_spool) /\ Keep
TDrain == Is("drain") /\ Ev.drained /\ Ev.depth = 0 /\ Ev.buffered = 0 /\ Keep
TIntact == Is("intact") /\ Ev.malformed = 0 /\ Keep

TNext == TScn \/ TSkip \/ TLat \/ TPhase \/ THanded \/ TRecv \/ TLoss \/ TDrain \/ TIntact
TSpec == TInit /\ [][TNext]_tvars

HighWater == TLCSet(1, IF l - 1 > TLCGet(1) THEN l - 1 ELSE TLCGet(1))
Post == PrintT("@@TRACE " \o ToJson([matched |-> TLCGet(1)]))
TypeInv == nh >= 0 /\ rcv \subseteq 1..nh
=============================================================================
