----------------------------- MODULE AggTableMC -----------------------------
EXTENDS AggTable, AggTableCfgs
CONSTANTS CfgId, NNames
MCCfg == Cfgs[CfgId]
MCLines == {[name |-> MCCfg.names[i], val |-> ToString(v), ts |-> ToString(t), vi |-> v, ti |-> t] :
              i \in 1..(IF NNames < Len(MCCfg.names) THEN NNames ELSE Len(MCCfg.names)), v \in {2}, t \in {1000, 1012}}
=============================================================================
