------------------------------ MODULE SpoolGen ------------------------------
(* Generator of driver histories for harness/spoolx: every sequence of driver  *)
(* operations up to MaxOps that the driver can execute without waiting for     *)
(* something that cannot happen.                                               *)
(*   rt      non-blocking send of a new line into InRT                         *)
(*   bulk2   Ingest of two new lines (asynchronous; joined at the next bulk /  *)
(*           settle)                                                           *)
(*   recv    receive one line from Out (only when a line is certainly in the   *)
(*           queue: sent before the last settle)                               *)
(*   settle  open the gates, wait until every accepted line is Put and the     *)
(*           SlowChan goroutine holds the next line                            *)
(*   gw / gb park the Writer after its next receive / the Buffer goroutine     *)
(*           after its next Put (until the next settle)                        *)
EXTENDS Integers, Sequences, Json, TLC
CONSTANTS MaxOps
VARIABLES hist, sent, safe, recvd, gw, gb, bulkOpen
gvars == <<hist, sent, safe, recvd, gw, gb, bulkOpen>>
GInit == hist = <<>> /\ sent = 0 /\ safe = 0 /\ recvd = 0 /\ gw = FALSE /\ gb = FALSE /\ bulkOpen = FALSE
Op(o) == hist' = Append(hist, o)
GRt     == Op("rt") /\ sent' = sent + 1 /\ UNCHANGED <<safe, recvd, gw, gb, bulkOpen>>
GBulk   == ~gw /\ ~gb /\ ~bulkOpen /\ Op("bulk2") /\ sent' = sent + 2 /\ bulkOpen' = TRUE /\ UNCHANGED <<safe, recvd, gw, gb>>
GRecv   == recvd < safe /\ Op("recv") /\ recvd' = recvd + 1 /\ UNCHANGED <<sent, safe, gw, gb, bulkOpen>>
GSettle == sent > safe /\ Op("settle") /\ safe' = sent /\ gw' = FALSE /\ gb' = FALSE /\ bulkOpen' = FALSE /\ UNCHANGED <<sent, recvd>>
GGw     == ~gw /\ Op("gw") /\ gw' = TRUE /\ UNCHANGED <<sent, safe, recvd, gb, bulkOpen>>
GGb     == ~gb /\ Op("gb") /\ gb' = TRUE /\ UNCHANGED <<sent, safe, recvd, gw, bulkOpen>>
GNext == Len(hist) < MaxOps /\ (GRt \/ GBulk \/ GRecv \/ GSettle \/ GGw \/ GGb)
GSpec == GInit /\ [][GNext]_gvars
\* a history worth running: it ends after something was sent and is not a prefix that ends with a gate switch
Emit == (Len(hist) = MaxOps /\ sent > 0 /\ hist[Len(hist)] \notin {"gw", "gb"}) => PrintT("@@H " \o ToJson(hist))
=============================================================================
