---------------------------- MODULE BufWriterGen ----------------------------
(* Behaviour generator for the replay binding of C05: BufWriterMC plus a      *)
(* history variable.  Every completed API call is appended to hist with the   *)
(* answers the underlying writer gave during the call (script) and the        *)
(* specification's result: nn, err, Buffered(), the wire.  A behaviour is     *)
(* printed (one JSON line) when MaxCalls calls have completed.  Used both     *)
(* exhaustively (small bounds) and with -simulate.                            *)
(* Faults are injected only from call number armAt on, so that simulated      *)
(* behaviours do not all die in their first call.                             *)
EXTENDS BufWriterMC, Json, TLC

CONSTANT ArmChoices    \* {1}: faults anywhere (exhaustive use); 1..MaxCalls+1: simulation

VARIABLES hist, script, armAt
gvars == <<mcvars, hist, script, armAt>>

GInit == MCInit /\ hist = <<>> /\ script = <<>> /\ armAt \in ArmChoices

Armed(q, o) == IsFault(q, o) => calls >= armAt

GWrite(L) == MCWrite(L) /\ script' = <<>> /\ UNCHANGED <<hist, armAt>>
GIter(o)  == /\ Armed(IterQ, o) /\ MCIter(o)
             /\ script' = Append(script, [k |-> o.k, e |-> o.e])
             /\ UNCHANGED <<hist, armAt>>
GRet      == /\ MCRet
             /\ hist' = Append(hist, [op |-> "w", len |-> ret'.len, first |-> acc0 + 1, script |-> script,
                                      nn |-> ret'.nn, err |-> ret'.err, buffered |-> n', wire |-> wire'])
             /\ script' = <<>> /\ UNCHANGED armAt
GFlush(o) == /\ Armed(Pending, o) /\ MCFlush(o)
             /\ hist' = Append(hist, [op |-> "f", len |-> 0, first |-> 0,
                                      script |-> IF FlushCalls(n, err) THEN <<[k |-> o.k, e |-> o.e]>> ELSE <<>>,
                                      nn |-> 0, err |-> ret'.err, buffered |-> n', wire |-> wire'])
             /\ UNCHANGED <<script, armAt>>

GNext == \/ \E L \in Lens : GWrite(L)
         \/ (pc = "write" /\ LoopCond /\ \E o \in IterOutcomes : GIter(o))
         \/ (pc = "idle" /\ \E o \in FlushOutcomes : GFlush(o))
         \/ GRet
GSpec == GInit /\ [][GNext]_gvars

Done == calls = MaxCalls /\ pc = "idle"
Emit == Done => PrintT("@@B " \o ToJson([B |-> B, calls |-> hist]))
=============================================================================
