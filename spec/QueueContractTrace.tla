------------------------- MODULE QueueContractTrace -------------------------
(* Level-A trace specification for C08 and C09: replays the events recorded  *)
(* from the real nsqd.DiskQueue (trace.ndjson) into the persistent-FIFO      *)
(* contract.  One line = one event:                                           *)
(*   hist    a new history starts (fresh directory)                           *)
(*   put     message id was written to the queue            (hook w_write)    *)
(*   take    message id was handed to the consumer          (hook take)       *)
(*   sync    a metadata sync completed                      (hook m_rename)   *)
(*   depth   Depth() observed at rest                                         *)
(*   rec     "had the process died here": D = what a queue reopened on a copy *)
(*           of the directory delivered before the sentinel                   *)
(*   skip    an event irrelevant at this level                                *)
(*   gen2    second generation: a queue reopened on one of the crash          *)
(*           snapshots of the history is used further (put / take2 / sync)    *)
(*           and crashes again.  Its logical content is L = X ++ new puts,    *)
(*           X = what the recovery of that snapshot delivered (x = |X|,       *)
(*           xs = how many of them were written before the last completed     *)
(*           sync of the first generation); ids are positions in L.           *)
(*   take2   generation 2 handed the message at position id of L to the       *)
(*           consumer (abs = its identity, 0 = not a message ever enqueued)   *)
(* A trace is accepted iff every line is matched (high-water mark = Len).     *)
EXTENDS QueueContractOps, Json, TLC, TLCExt, IOUtils

CONSTANTS Strict09,   \* check the C09 clauses (FIFO identity, depth at rest)
          Strict08    \* check the C08 clause (recovery contract)

TLog == ndJsonDeserialize("trace.ndjson")

VARIABLES l, nenq, consumed, wSync, cSync
tvars == <<l, nenq, consumed, wSync, cSync>>

ASSUME TLCSet(1, 0)

Ev == TLog[l]
Is(e) == l <= Len(TLog) /\ Ev.ev = e /\ l' = l + 1

TInit == l = 1 /\ nenq = 0 /\ consumed = 0 /\ wSync = 0 /\ cSync = 0

THist  == Is("hist") /\ nenq' = 0 /\ consumed' = 0 /\ wSync' = 0 /\ cSync' = 0
\* everything the recovery delivers lies within the persisted positions, the start-up truncation
\* makes the files agree with them; the contract only counts what a completed sync covered (xs)
TGen2  == /\ Is("gen2") /\ Ev.xs <= Ev.x
          /\ nenq' = Ev.x /\ wSync' = Ev.xs /\ consumed' = 0 /\ cSync' = 0
TSkip  == Is("skip") /\ UNCHANGED <<nenq, consumed, wSync, cSync>>
TPut   == Is("put") /\ Ev.id = nenq + 1 /\ nenq' = nenq + 1 /\ UNCHANGED <<consumed, wSync, cSync>>
TTake  == /\ Is("take") /\ consumed < nenq
          /\ (Strict09 => Ev.id = consumed + 1)          \* FIFO, intact, exactly once
          /\ consumed' = consumed + 1 /\ UNCHANGED <<nenq, wSync, cSync>>
\* generation 2 is a reopened queue: it delivers only messages that were enqueued, intact (abs # 0);
\* the marks are positions in L, so the message handed out must be the next one of L
TTake2 == /\ Is("take2") /\ consumed < nenq
          /\ (Strict08 => Ev.abs # 0)
          /\ Ev.id = consumed + 1
          /\ consumed' = consumed + 1 /\ UNCHANGED <<nenq, wSync, cSync>>
TSync  == Is("sync") /\ wSync' = nenq /\ cSync' = consumed /\ UNCHANGED <<nenq, consumed>>
TDepth == /\ Is("depth") /\ (Strict09 => Ev.v = nenq - consumed)
          /\ UNCHANGED <<nenq, consumed, wSync, cSync>>
TRec   == /\ Is("rec")
          /\ (Strict08 => /\ ~Ev.hang /\ Ev.sentinel /\ Ev.extra = 0
                          \* life after the recovery (C08PostFifo of DiskQueue.tla): three more messages, enqueued
                          \* and taken interleaved, come out in enqueue order, each once, nothing else
                          /\ Ev.post = <<1, 2, 3>>
                          /\ RecoveryOK(Ev.D, nenq, consumed, wSync, cSync))
          /\ UNCHANGED <<nenq, consumed, wSync, cSync>>

TNext == THist \/ TGen2 \/ TSkip \/ TPut \/ TTake \/ TTake2 \/ TSync \/ TDepth \/ TRec
TSpec == TInit /\ [][TNext]_tvars

HighWater == TLCSet(1, IF l - 1 > TLCGet(1) THEN l - 1 ELSE TLCGet(1))
Post == PrintT("@@TRACE " \o ToJson([matched |-> TLCGet(1)]))
TypeInv == consumed <= nenq /\ wSync <= nenq /\ cSync <= consumed
=============================================================================
