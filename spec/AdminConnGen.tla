---------------------------- MODULE AdminConnGen ----------------------------
(* XADMIN -- the cases the driver runs against the real front ends, one per  *)
(* initial state.  A case is [fam, pre, steps]:                               *)
(*   pre     commands applied to the table directly (set-up, not observed)   *)
(*   steps   w: one client write on the command connection (wait = the       *)
(*              client first waits until everything sent was answered)       *)
(*           h: one HTTP request (the client waits first)                    *)
(* Texts carry fixed-width place holders that checks/xadmin.py replaces by   *)
(* strings of the same width: UUUUUU (unique per case), PPPPP / QQQQQ (two   *)
(* loopback ports that refuse connections); byte positions are not moved.    *)
(* The expectations are NOT generated here: AdminConnTrace decides what the  *)
(* real code did, by what its reads actually were.                           *)
EXTENDS AdminConnOps, Json

CONSTANTS Cap, Fam

VARIABLE c

U == "UUUUUU"
KP == "k" \o U                \* proper prefix of KA and KAB
KA == KP \o "a"
KAB == KP \o "ab"
KB == KP \o "b"
KX == KP \o "x"               \* never in the table
H1 == "127.0.0.1:PPPPP"
H2 == "127.0.0.1:QQQQQ"
AddRt(k, d) == "addRoute sendAllMatch " \o k \o "  " \o d

PreRoutes == <<AddRt(KAB, H1), AddRt(KA, H1 \o "  " \o H2), AddRt(KB, H2), AddRt(KP, H2)>>
PreBl == <<"addBlack prefix " \o U \o "p1", "addBlack sub " \o U \o "s2", "addBlack prefix " \o U \o "p3">>
PreRw == <<"addRewriter " \o U \o "o1 n1 1", "addRewriter " \o U \o "o2 n2 2", "addRewriter " \o U \o "o3 n3 -1">>
PreAgg == <<"addAgg count regex=^" \o U \o "a1 o1." \o U \o " 10 20", "addAgg sum regex=^" \o U \o "a2 o2." \o U \o " 10 20",
            "addAgg max regex=^" \o U \o "a3 o3." \o U \o " 10 20">>
PreAll == PreRoutes \o PreBl \o PreRw

W(d, w) == [op |-> "w", data |-> d, wait |-> w]
H(m, kind, key, idx) == [op |-> "h", m |-> m, kind |-> kind, key |-> key, idx |-> idx, fun |-> "", old |-> "", new |-> "", max |-> 0]
HPostRw(cls, old, new, max) == [op |-> "h", m |-> "POST", kind |-> "rewriters", key |-> old \o " " \o new \o " " \o ToString(max),
                                idx |-> cls, fun |-> "", old |-> old, new |-> new, max |-> max]
\* old = regex, new = outFmt
HPostAgg(cls, fun, re, fmt) == [op |-> "h", m |-> "POST", kind |-> "aggregators", key |-> fun \o " " \o fmt \o " regex=" \o re,
                                idx |-> cls, fun |-> fun, old |-> re, new |-> fmt, max |-> 0]
HPostRt(key) == [op |-> "h", m |-> "POST", kind |-> "routes", key |-> key, idx |-> "ok", fun |-> "", old |-> "", new |-> "", max |-> 0]
Case(fam, pre, steps) == [fam |-> fam, pre |-> pre, steps |-> steps]

RECURSIVE Pad(_, _)
Pad(ch, n) == IF n <= 0 THEN "" ELSE IF n % 2 = 0 THEN LET h == Pad(ch, n \div 2) IN h \o h ELSE ch \o Pad(ch, n - 1)

(* ---------------------------------------------------------- the commands *)
WellFormed == {
  "view", "help", "addBlack prefix " \o U \o "p", "addBlack sub " \o U \o "s", "addBlack notPrefix " \o U \o "n",
  "addRewriter " \o U \o "o " \o U \o "n 3", "addRewriter " \o U \o "o " \o U \o "n -1",
  "delRoute " \o KA, "delRoute " \o KX, "delRoute " \o KP, "delRoute " \o KAB,
  AddRt(KX, H1), AddRt(KA, H2),
  "addRoute sendFirstMatch " \o KX \o " prefix=" \o U \o "a  " \o H1 \o " pickle=true  " \o H2 \o " sub=" \o U \o "b",
  "modRoute " \o KA \o " prefix=" \o U \o "z", "modRoute " \o KA \o " sub=" \o U \o "a notPrefix=" \o U \o "b",
  "modRoute " \o KAB \o " regex=" \o U \o ".b" }
Malformed == {
  "viewx", "helpme", "addRouteFoo", "view x", "VIEW", "zz", "addfoo", "add", "del", "mod", "help me", "delRoute",
  "delRoute " \o KA \o " junk more", "delRoute  " \o KA, "addBlack prefix", "addBlack foo " \o U \o "a",
  "addBlack  prefix " \o U \o "a", "addBlack prefix  " \o U \o "a", "addBlackFoo prefix " \o U \o "a",
  "addRoute sendAllMatch " \o KX \o " " \o H1, "addRoute sendAllMatch " \o KX \o "   " \o H1,
  "addRoute sendAllMatch " \o KX \o "    " \o H1, "addRoute  sendAllMatch " \o KX \o "  " \o H1,
  "addRoute sendAllMatch " \o KX, "addRoute sendAllMatch " \o KX \o "  ", "addRoute sendAllMatch " \o KX \o " foo  " \o H1,
  "addRoute sendAllMatch " \o KX \o "  " \o H1 \o " spool=maybe", "addRoute sendAllMatch " \o KX \o "  " \o H1 \o " pickle=false extra",
  "addRewriter " \o U \o "o " \o U \o "n", "addRewriter " \o U \o "o " \o U \o "n x", "addRewriter " \o U \o "o " \o U \o "n 10 extra",
  "addDest " \o KA \o " " \o H1, "modRoute " \o KA, "modRoute " \o KA \o " prefix=", "modRoute " \o KX \o " sub=" \o U,
  "modRoute " \o KA \o " pickle=true", "modRoute", "view\tx", "view\nview", "help\nview" }

Solo(cs) == [i \in 1..Len(cs) |-> W(cs[i] \o "\n", TRUE)]

Whole == {Case("whole", PreAll, Solo(<<x>>)) : x \in WellFormed \cup Malformed}
         \cup {Case("whole", PreAll, Solo(s)) : s \in {
                 <<"addBlack prefix " \o U \o "a", "addBlack sub " \o U \o "b", "view", "addBlack prefix " \o U \o "c">>,
                 <<AddRt(KX, H1), "delRoute " \o KX, "delRoute " \o KX, "view">>,
                 <<"delRoute " \o KA, "modRoute " \o KA \o " sub=" \o U, AddRt(KA, H2), "modRoute " \o KA \o " sub=" \o U>>,
                 <<AddRt(KB, H1), "delRoute " \o KB, "delRoute " \o KB, "delRoute " \o KB>>,
                 <<"addRewriter " \o U \o "a b 1", "addRewriter " \o U \o "a b 1", "help", "zz", "view">> }}

(* ------------------------------------------- two commands, every cut point *)
Pairs == { <<"delRoute " \o KA, "delRoute " \o KB>>, <<"addBlack sub " \o U \o "a", "addBlack sub " \o U \o "b">>,
           <<"view", "view">>, <<"view", "help">>, <<"help", "zz">>,
           <<"addRewriter " \o U \o "o n 1", "addRewriter " \o U \o "p q 2">>,
           <<"delRoute " \o KAB, "view">>, <<AddRt(KX, H1), "delRoute " \o KA>>,
           <<"modRoute " \o KA \o " sub=" \o U, "addBlack prefix " \o U>> }
PStream(p) == p[1] \o "\n" \o p[2] \o "\n"
Cut2 == UNION {{Case("cut2", PreAll, <<W(Sub(PStream(p), 1, k), TRUE), W(From(PStream(p), k + 1), w)>>) :
                   k \in 1..(Len(PStream(p)) - 1), w \in BOOLEAN} : p \in Pairs}
Cut1 == {Case("cut1", PreAll, <<W(PStream(p), TRUE)>>) : p \in Pairs}
Cut3 == UNION {{Case("cut3", PreAll, <<W(Sub(PStream(p), 1, j), TRUE), W(Sub(PStream(p), j + 1, k), w1), W(From(PStream(p), k + 1), w2)>>) :
                   j \in {3, 8, 11}, k \in {x \in {15, 18, 22} : x < Len(PStream(p))}, w1 \in BOOLEAN, w2 \in BOOLEAN} : p \in Pairs}

(* ------------------------------------------------- around the buffer size *)
\* total length of the write (text + newline) = Cap + d
LongLens == {Cap - 1, Cap, Cap + 1, Cap + 2, Cap + 60, 2 * Cap + 10}
LongBlack(n) == "addBlack prefix " \o U \o Pad("x", n - 1 - 16 - 6)
\* the byte at which the buffer ends falls into the white space before the key / right before it / inside it
LongDel(n, tail) == "delRoute" \o Pad(" ", n - 1 - 8 - Len(tail)) \o tail
Long == {Case("long", PreAll, <<W(LongBlack(n) \o "\n", TRUE), W("view\n", TRUE)>>) : n \in LongLens}
        \cup {Case("long", PreAll, <<W(LongDel(Cap + d, KA) \o "\n", TRUE)>>) : d \in {0 - 5, 0, 1, 2, 3, 8, 9, 10, 40}}
        \cup {Case("long", PreAll, <<W(LongBlack(Cap) \o "\n" \o "delRoute " \o KA \o "\n", TRUE)>>),
              Case("long", PreAll, <<W(LongBlack(Cap - 7) \o "\n" \o "delRoute " \o KA \o "\n", TRUE)>>),
              Case("long", PreAll, <<W(Sub(LongBlack(Cap + 200), 1, 700), TRUE), W(From(LongBlack(Cap + 200), 701) \o "\n", FALSE)>>),
              Case("long", PreAll, <<W(AddRt(KX \o Pad("y", Cap - 60), H1) \o "\n", TRUE)>>) }

(* ------------------------------------------------ line ends, white space *)
Ends == {Case("ends", PreAll, <<W(pre \o x \o e, TRUE), W("view\n", TRUE)>>) :
            x \in {"view", "delRoute " \o KA, "addBlack prefix " \o U \o "a", "help"},
            e \in {"", "\r\n", " \n", "\n\n", "\t\n", "\n \n"}, pre \in {"", "\n", "  "}}
        \cup {Case("ends", PreAll, <<W(x, TRUE)>>) : x \in {" ", "\n", "\r\n", " \n \t"}}

(* -------------------------------------------------------------- HTTP API *)
IdxOf(n) == {"0", ToString(n - 1), ToString(n), "-1", "-2", "99999999999999999999", "-99999999999999999999", "x", "1x", "",
             "+1", "01", "-0", " 1", "1.0", "0x1"}
PreOf(kind, n) == CASE kind = "blacklists" -> SubSeq(PreBl, 1, n) [] kind = "rewriters" -> SubSeq(PreRw, 1, n)
                    [] kind = "aggregators" -> SubSeq(PreAgg, 1, n) [] OTHER -> <<>>
HttpIdx == {Case("hidx", PreRoutes \o PreOf(k, 3), <<H("DELETE", k, "", i), H("DELETE", k, "", "0")>>) :
               k \in {"blacklists", "rewriters", "aggregators"}, i \in IdxOf(3)}
           \cup {Case("hidx", PreOf(k, n), <<H("DELETE", k, "", i)>>) :
               k \in {"blacklists", "rewriters", "aggregators"}, n \in {0, 1}, i \in {"0", "1", "-1", "x"}}
           \cup {Case("hidx", PreAll, <<H("DELETE", "dests", KA, i), H("DELETE", "dests", KA, "0"), H("DELETE", "dests", KA, "0")>>) : i \in IdxOf(2)}
Keys == {KA, KAB, KB, KP, KX, "k", KA \o "x", "K" \o U \o "a"}
HttpKey == {Case("hkey", PreAll, <<H(m, "routes", k, ""), H("GET", "routes", "", "")>>) : m \in {"GET", "DELETE"}, k \in Keys}
           \cup {Case("hkey", PreAll, <<H("DELETE", "dests", k, "0")>>) : k \in {KX, KP, "k"}}
           \cup {Case("hkey", PreAll, <<H("DELETE", "routes", KA, ""), H("DELETE", "routes", KA, ""), H("GET", "routes", KA, "")>>)}
HttpPost == {Case("hpost", PreAll, <<h, H("GET", "routes", "", "")>>) : h \in {
                HPostRw("ok", U \o "o", U \o "n", 0), HPostRw("ok", U \o "o", U \o "n", 0 - 1), HPostRw("invalid", U \o "o", U \o "n", 0 - 2),
                HPostRw("badjson", U \o "o", U \o "n", 1), HPostRw("invalid", "", U \o "n", 1),
                HPostAgg("ok", "sum", "^" \o U \o "x", "o." \o U), HPostAgg("invalid", "nofunc", "^" \o U \o "x", "o." \o U),
                HPostAgg("invalid", "sum", "", "o." \o U), HPostAgg("badjson", "sum", "^" \o U, "o." \o U),
                HPostRt(KX), HPostRt(KA) }}
Mixed == {Case("mixed", PreAll, s) : s \in {
            <<W("addBlack prefix " \o U \o "m\n", TRUE), H("DELETE", "blacklists", "", "0"), W("view\n", TRUE),
              H("DELETE", "routes", KA, ""), W("delRoute " \o KA \o "\n", TRUE), W("modRoute " \o KA \o " sub=x\n", TRUE)>>,
            <<H("DELETE", "rewriters", "", "2"), W("addRewriter " \o U \o "m n 1\n", TRUE), H("DELETE", "rewriters", "", "2"),
              HPostRw("ok", U \o "o", U \o "n", 5), W("addRewriter " \o U \o "q n 1\n", TRUE), H("DELETE", "rewriters", "", "x")>>,
            <<W(AddRt(KX, H1 \o "  " \o H2) \o "\n", TRUE), H("DELETE", "dests", KX, "1"), H("DELETE", "dests", KX, "1"),
              H("DELETE", "dests", KX, "0"), H("DELETE", "dests", KX, "0"), W("delRoute " \o KX \o "\n", TRUE), H("GET", "routes", KX, "")>> }}

Cases == CASE Fam = "whole" -> Whole [] Fam = "cut" -> Cut1 \cup Cut2 \cup Cut3 [] Fam = "long" -> Long [] Fam = "ends" -> Ends
           [] Fam = "http" -> HttpIdx \cup HttpKey \cup HttpPost \cup Mixed
           [] Fam = "all" -> Whole \cup Cut1 \cup Cut2 \cup Cut3 \cup Long \cup Ends \cup HttpIdx \cup HttpKey \cup HttpPost \cup Mixed

GenSpec == c \in Cases /\ [][FALSE]_c
Emit == PrintT("@@C " \o ToJson(c))
=============================================================================
