----------------------------- MODULE FramingOps -----------------------------
(* C12 / C13 — what "the lines of a byte stream" and "the frames of a pickle  *)
(* connection" are, as pure operators (level A).  Shared by Framing.tla (the  *)
(* reader state machines, model-checked against these operators over every   *)
(* segmentation) and FramingGen.tla (case generators for the real code).      *)
(*                                                                            *)
(* A stream is a sequence of symbols; a dispatched line is named by the range *)
(* <<from, to>> of stream positions it consists of (from = to + 1: the empty  *)
(* line), so the concretisation symbol -> bytes is done by construction in    *)
(* the driver and the expectation stays purely positional.                    *)
EXTENDS Integers, Sequences, FiniteSets

Sym == {"x", "y", "CR", "LF"}

\* one optional trailing carriage return removed
DropCR(s, a, b) == IF b >= a /\ s[b] = "CR" THEN <<a, b - 1>> ELSE <<a, b>>

\* the newline-terminated lines of s from position a on (i = scan position)
RECURSIVE Terminated(_, _, _)
Terminated(s, a, i) ==
    IF i > Len(s) THEN <<>>
    ELSE IF s[i] = "LF" THEN <<DropCR(s, a, i - 1)>> \o Terminated(s, i + 1, i + 1)
    ELSE Terminated(s, a, i + 1)

\* start of the final unterminated line (Len(s) + 1 when the stream ends with LF or is empty)
LastStart(s) == IF \E i \in 1..Len(s) : s[i] = "LF"
                THEN (CHOOSE i \in 1..Len(s) : s[i] = "LF" /\ \A j \in (i + 1)..Len(s) : s[j] # "LF") + 1
                ELSE 1

\* Lines(s): the statement of C12 read literally — split at LF, strip one trailing CR, a final
\* unterminated (non-empty) line included
Lines(s) == Terminated(s, 1, 1) \o
            (IF LastStart(s) <= Len(s) THEN <<DropCR(s, LastStart(s), Len(s))>> ELSE <<>>)

Terms == {"eof", "dataeof", "datatimeout", "timeout"}

(* What a conforming reader may have dispatched when the connection ended with condition `term`    *)
(* after exactly the symbols s were received.  Two points are left open because the statement is   *)
(* silent on them (DESIGN §3 rule 1):                                                              *)
(*  - a final unterminated line that ends in CR: the CR may be the first half of a CRLF whose LF   *)
(*    never arrived — with or without that CR are both accepted (bufio.ScanLines strips it,        *)
(*    bufio.Reader.ReadLine keeps it);                                                             *)
(*  - after a read timeout the partial last line may or may not be dispatched.                     *)
Acceptable(s, term) ==
    LET T  == Terminated(s, 1, 1)
        a  == LastStart(s)
        F  == IF a > Len(s) THEN {<<>>}
              ELSE {<<DropCR(s, a, Len(s))>>, <<<<a, Len(s)>>>>}
        F2 == IF term \in {"datatimeout", "timeout"} THEN F \cup {<<>>} ELSE F
    IN  {T \o f : f \in F2}

(* Continuation after a read error.  A read timeout does not end the byte stream: the listener     *)
(* wraps the connection in a TimeoutConn, which arms a fresh deadline on every Read, so a Read     *)
(* issued after the one that timed out succeeds as soon as the peer has sent more.  s is now       *)
(* everything the peer sends, the error `term` is returned when exactly the first e symbols were   *)
(* received, s[e+1..] (the tail) is what reads issued after the error would get, followed by EOF.  *)
(* A conforming handler invocation                                                                 *)
(*  - stops at the error: it has dispatched one of Acceptable(s[1..e], term) -- nothing of the     *)
(*    tail, the line straddling the error at most once, as the (open) partial fragment; or         *)
(*  - (not forbidden by the statement) carries on as if no error had happened, and then it has     *)
(*    dispatched exactly the lines of the whole s: the straddling line whole and once.             *)
(* What the statement forbids is the mixture: the received part of the straddling line is          *)
(* dispatched at the error and its remainder is dispatched as another line ("a metric split        *)
(* across segments is never processed as two fragments") -- ReadOn gives those lists by name.      *)
TimeoutTerms == {"datatimeout", "timeout"}
Prefix(s, e) == SubSeq(s, 1, e)
Shift(L, e) == [i \in 1..Len(L) |-> <<L[i][1] + e, L[i][2] + e>>]

AcceptableAt(s, e, term) ==
    Acceptable(Prefix(s, e), term) \cup
    (IF term \in TimeoutTerms /\ e < Len(s) THEN Acceptable(s, "eof") ELSE {})

\* the dispatch lists of the named deviation "read_on_after_error" (Framing.tla): the received part
\* of the straddling line is dispatched when the read fails, then reading goes on and the tail is
\* split into lines as if a new stream began at e + 1 (its first line is the second fragment)
ReadOn(s, e) ==
    LET p == Prefix(s, e)
        a == LastStart(p)
    IN  IF a > e THEN {}
        ELSE {Terminated(p, 1, 1) \o <<f>> \o Shift(t, e) :
                 f \in {DropCR(s, a, e), <<a, e>>},
                 t \in Acceptable(SubSeq(s, e + 1, Len(s)), "eof")}

\* the tails the case generators append to a stream for the timeout conditions: the rest of the
\* straddling line (or only its terminator) followed by further, distinguishable lines
ContTails == {<<"y", "CR", "LF", "x", "LF">>, <<"LF", "x", "y", "LF">>, <<"y", "LF", "x", "LF", "y">>}
Conts(s) == {[tail |-> t,
              acc |-> AcceptableAt(s \o t, Len(s), "timeout"),      \* = ... "datatimeout"
              readon |-> ReadOn(s \o t, Len(s))] : t \in ContTails}

\* length of the longest line of s including its terminator (what a bounded reader must hold; an
\* unterminated final line is counted as if its terminator were still to come)
RECURSIVE MaxLineFrom(_, _, _, _)
MaxLineFrom(s, a, i, m) ==
    IF i > Len(s) THEN (IF i > a /\ i - a + 1 > m THEN i - a + 1 ELSE m)
    ELSE IF s[i] = "LF" THEN MaxLineFrom(s, i + 1, i + 1, IF i - a + 1 > m THEN i - a + 1 ELSE m)
    ELSE MaxLineFrom(s, a, i + 1, m)
MaxLine(s) == MaxLineFrom(s, 1, 1, 0)

IsPrefixOf(p, q) == Len(p) <= Len(q) /\ \A i \in 1..Len(p) : p[i] = q[i]

------------------------------------------------------------------------------
(* A reader with a buffer of `cap` symbols (bufio.Reader(cap).ReadLine, the AMQP input; cap = 0:   *)
(* no bound).  "Lines up to the supported limit are processed whole": a line whose CONTENT (the    *)
(* terminator LF / CRLF not counted) is at most cap symbols is dispatched whole and exactly once.  *)
(* Two points are left open because the statement is silent on them:                               *)
(*  - such a reader cannot wait for the terminator of a line that fills its buffer (cap symbols    *)
(*    and no LF among them): it hands the line out when the buffer is full and meets the bare      *)
(*    terminator afterwards.  It may dispatch that terminator as one additional EMPTY line right   *)
(*    after the line (the real code does); where the LF never came (a final line / the partial     *)
(*    line at a read error, ending in CR) what is left of the terminator is that CR by itself;     *)
(*  - a content that itself ends in CR (".. CR CR LF") counts one symbol more: the reader cannot   *)
(*    tell that CR from the first half of a CRLF without the symbol that follows it.               *)
(* Lines beyond the limit are not supported: nothing is claimed for a stream that has one.         *)
Fill(k, cap) == cap > 0 /\ k >= cap       \* k symbols and no LF among them fill the buffer
EmptyAfter(r) == <<r[2] + 1, r[2]>>       \* the empty line between a content and its terminator

NeedOf(s, r) == (r[2] - r[1] + 1) + (IF r[2] >= r[1] /\ s[r[2]] = "CR" THEN 1 ELSE 0)
MaxNeed(s) == LET L == Lines(s)
                  N == {NeedOf(s, L[i]) : i \in 1..Len(L)} \cup {0}
              IN  CHOOSE m \in N : \A k \in N : k <= m

\* the dispatch lists for the LF-terminated lines of s from a on: Terminated, where every line that
\* filled the buffer may be followed by the empty line
RECURSIVE TerminatedC(_, _, _, _)
TerminatedC(s, a, i, cap) ==
    IF i > Len(s) THEN {<<>>}
    ELSE IF s[i] = "LF"
         THEN LET ln == DropCR(s, a, i - 1)
                  H  == IF Fill(i - a, cap) THEN {<<ln>>, <<ln, EmptyAfter(ln)>>} ELSE {<<ln>>}
              IN  {h \o r : h \in H, r \in TerminatedC(s, i + 1, i + 1, cap)}
         ELSE TerminatedC(s, a, i + 1, cap)

\* Acceptable for a reader of capacity cap (cap = 0: exactly Acceptable)
AcceptableC(s, term, cap) ==
    LET a  == LastStart(s)
        m  == Len(s)
        F  == IF a > m THEN {<<>>}
              ELSE {<<DropCR(s, a, m)>>, <<<<a, m>>>>} \cup
                   (IF s[m] = "CR" /\ Fill(m - a + 1, cap) THEN {<<<<a, m - 1>>, <<m, m>>>>} ELSE {})
        F2 == IF term \in {"datatimeout", "timeout"} THEN F \cup {<<>>} ELSE F
    IN  {t \o f : t \in TerminatedC(s, 1, 1, cap), f \in F2}

AcceptableAtC(s, e, term, cap) ==
    AcceptableC(Prefix(s, e), term, cap) \cup
    (IF term \in TimeoutTerms /\ e < Len(s) THEN AcceptableC(s, "eof", cap) ELSE {})

\* While the connection is open and the first m symbols of s were received: complete lines only --
\* except that the line still open may already have been dispatched once it has filled the buffer
\* (whole: its content as it stands in s, all of it received)
NextLF(s, a) == IF \E i \in a..Len(s) : s[i] = "LF"
                THEN CHOOSE i \in a..Len(s) : s[i] = "LF" /\ \A j \in a..(i - 1) : s[j] # "LF"
                ELSE 0
OpenFill(s, m, cap) ==
    LET a == LastStart(Prefix(s, m))
        t == NextLF(s, a)
        C == IF t > 0 THEN {DropCR(s, a, t - 1)} ELSE {DropCR(s, a, Len(s)), <<a, Len(s)>>}
    IN  IF Fill(m - a + 1, cap) THEN {f \in C : f[2] <= m} ELSE {}
DuringOK(out, s, m, cap) ==
    \E L \in TerminatedC(Prefix(s, m), 1, 1, cap) :
        \/ IsPrefixOf(out, L)
        \/ \E f \in OpenFill(s, m, cap) : out = Append(L, f)

------------------------------------------------------------------------------
(* Pickle connection framing (C13), abstracted: symbols are 0/1; a frame is a 2-symbol big-endian  *)
(* length (standing for the 4 bytes) followed by that many payload symbols; payload symbol 1 in    *)
(* first position stands for a valid protocol prefix, 0 for an invalid one.  FParse gives what the *)
(* connection must have produced: the payload position lists of the frames dispatched, and how it  *)
(* ended: "end" (clean EOF at a frame boundary), "error" (malformed frame: EOF inside the length   *)
(* or the payload, bad prefix), "any" (zero-length frame: not a pickle, left open).                *)
FLen(s, i) == 2 * s[i] + s[i + 1]

RECURSIVE FParse(_, _, _)
FParse(s, i, acc) ==
    IF i > Len(s) THEN [out |-> acc, status |-> "end"]
    ELSE IF i + 1 > Len(s) THEN [out |-> acc, status |-> "error"]
    ELSE IF FLen(s, i) = 0 THEN [out |-> acc, status |-> "any"]
    ELSE IF i + 2 > Len(s) THEN [out |-> acc, status |-> "error"]
    ELSE IF s[i + 2] = 0 THEN [out |-> acc, status |-> "error"]
    ELSE IF i + 1 + FLen(s, i) > Len(s) THEN [out |-> acc, status |-> "error"]
    ELSE FParse(s, i + 2 + FLen(s, i), Append(acc, [k \in 1..FLen(s, i) |-> i + 1 + k]))

Frames(s) == FParse(s, 1, <<>>)
=============================================================================
