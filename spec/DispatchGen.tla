---------------------------- MODULE DispatchGen ----------------------------
(* Generator for C01: routing tables built by the admin actions of Table.tla  *)
(* (TLC -simulate picks the shapes), each printed with the expectation        *)
(* DispatchOps!Expect for every name, valid and invalid, as one JSON line.    *)
EXTENDS Table, Json

CONSTANT EmitSizes    \* table sizes (number of admin actions so far) at which the table is printed

GenSpec == Init /\ [][Admin]_vars

RECURSIVE NDests(_, _)
NDests(rs, k) == IF k > Len(rs) THEN 0
                 ELSE NDests(rs, k + 1) + (IF rs[k].kind = "hash" THEN Len(rs[k].dests) - 2 ELSE Len(rs[k].dests))
Size == Len(tbl.black) + Len(tbl.rw) + Len(tbl.aggs) + Len(tbl.routes) + NDests(tbl.routes, 1)

Emit == Size \in EmitSizes =>
          PrintT("@@T " \o ToJson([t |-> tbl,
                                   exp |-> [n \in Names |-> [ok  |-> Expect(tbl, n, TRUE),
                                                             bad |-> Expect(tbl, n, FALSE)]]]))
=============================================================================
