---------------------------- MODULE AdminConnOps ----------------------------
(* XADMIN -- the two admin front ends: the TCP command port                  *)
(* (telnet/telnet.go + the handlers of ui/telnet/telnet.go) and the HTTP API *)
(* (ui/web/web.go).  Pure operators on TEXT (TLC strings: Len, SubSeq and \o *)
(* work on them), shared by AdminConn.tla (model-checked over all            *)
(* segmentations) and AdminConnTrace.tla (what the real front ends did).     *)
(*                                                                           *)
(*  1. strings       TrimSpace, Split on " ", HasPrefix, the "  " -> " ## "  *)
(*                   replacement of imperatives.Apply                         *)
(*  2. the mux       ordered prefixes, first match wins                       *)
(*  3. the tokenizer of imperatives (toki: skip \s+, first pattern of the     *)
(*                   ordered list that matches at the cursor; a word is       *)
(*                   [^ ]+ and therefore swallows newlines and tabs)          *)
(*  4. imperatives.Apply for the commands the check uses (addBlack,           *)
(*                   addRewriter, addRoute sendAllMatch/sendFirstMatch,       *)
(*                   delRoute, modRoute, addDest) on an abstract table, and   *)
(*                   Modelled(cmd): texts outside this fragment get no        *)
(*                   verdict                                                  *)
(*  5. one read of the command connection: ExecRead                           *)
(*  6. the documented meaning of a well-formed command: DocStep (written      *)
(*                   independently of 3./4., word by word)                    *)
(*  7. the HTTP API: Atoi as strconv does it (the handlers drop its error),   *)
(*                   HttpExec: request -> status, table'                      *)
(*                                                                           *)
(* Mutant names a deviation from what the code does ("none": the code as it   *)
(* is); every deviation must be rejected by a guarantee of AdminConn.tla.     *)
EXTENDS Integers, Sequences, FiniteSets, TLC

CONSTANT Mutant

TO == INSTANCE TableOps WITH KeyMod <- 1      \* RemoveAt, and delete-by-index as C18 states it (ApplyOp / OpErr)

(* ------------------------------------------------------------- 1. strings *)
Ch(s, i) == SubSeq(s, i, i)
Sub(s, a, b) == IF a > b THEN "" ELSE SubSeq(s, a, b)
From(s, a) == Sub(s, a, Len(s))
MinOf(S) == CHOOSE x \in S : \A y \in S : x <= y
Min2(a, b) == IF a < b THEN a ELSE b

WS == {" ", "\n", "\t", "\r", "\f"}          \* the ASCII part of unicode.IsSpace / of the regexp class \s
Digit == {"0", "1", "2", "3", "4", "5", "6", "7", "8", "9"}
Lower == {"a", "b", "c", "d", "e", "f", "g", "h", "i", "j", "k", "l", "m", "n", "o", "p", "q", "r", "s", "t", "u", "v", "w", "x", "y", "z"}
Upper == {"A", "B", "C", "D", "E", "F", "G", "H", "I", "J", "K", "L", "M", "N", "O", "P", "Q", "R", "S", "T", "U", "V", "W", "X", "Y", "Z"}

RECURSIVE SkipWs(_, _)          \* first index >= i that is not white space (Len + 1: none)
SkipWs(s, i) == IF i > Len(s) THEN i ELSE IF Ch(s, i) \in WS THEN SkipWs(s, i + 1) ELSE i
RECURSIVE SkipWsBack(_, _)      \* last index <= i that is not white space (0: none)
SkipWsBack(s, i) == IF i < 1 THEN 0 ELSE IF Ch(s, i) \in WS THEN SkipWsBack(s, i - 1) ELSE i
TrimSpace(s) == Sub(s, SkipWs(s, 1), SkipWsBack(s, Len(s)))

RECURSIVE Index(_, _, _)        \* first index >= i at which character c stands (0: none)
Index(s, c, i) == IF i > Len(s) THEN 0 ELSE IF Ch(s, i) = c THEN i ELSE Index(s, c, i + 1)

RECURSIVE SplitSp(_)            \* strings.Split(s, " "): n separators give n + 1 pieces, empty ones included
SplitSp(s) == LET j == Index(s, " ", 1) IN
              IF j = 0 THEN <<s>> ELSE <<Sub(s, 1, j - 1)>> \o SplitSp(From(s, j + 1))
RECURSIVE JoinSp(_)
JoinSp(q) == IF Len(q) = 0 THEN "" ELSE IF Len(q) = 1 THEN q[1] ELSE q[1] \o " " \o JoinSp(Tail(q))
RECURSIVE Fields(_)             \* strings.Fields (used by a deviation only): maximal runs of non-space
Fields(s) == LET a == SkipWs(s, 1) IN
             IF a > Len(s) THEN <<>>
             ELSE LET ws == {i \in a..Len(s) : Ch(s, i) \in WS}
                      b  == IF ws = {} THEN Len(s) + 1 ELSE MinOf(ws)
                  IN  <<Sub(s, a, b - 1)>> \o Fields(From(s, b))

PrefixAt(s, i, p) == i + Len(p) - 1 <= Len(s) /\ Sub(s, i, i + Len(p) - 1) = p
HasPrefix(s, p) == PrefixAt(s, 1, p)

RECURSIVE IndexDbl(_, _)        \* first index >= i at which two spaces stand (0: none)
IndexDbl(s, i) == IF i >= Len(s) THEN 0 ELSE IF Ch(s, i) = " " /\ Ch(s, i + 1) = " " THEN i ELSE IndexDbl(s, i + 1)
RECURSIVE ReplaceDbl(_)         \* strings.Replace(s, "  ", " ## ", -1): left to right, not overlapping
ReplaceDbl(s) == LET j == IndexDbl(s, 1) IN
                 IF j = 0 THEN s ELSE Sub(s, 1, j - 1) \o " ## " \o ReplaceDbl(From(s, j + 2))

AllIn(s, S) == \A i \in 1..Len(s) : Ch(s, i) \in S

(* ----------------------------------------------------------------- 2. mux *)
\* the registrations of ui/telnet.Start, in order; handler names of this module
RealMux == << <<"add", "mod">>, <<"del", "mod">>, <<"mod", "mod">>, <<"view", "view">>, <<"help", "help">>, <<"", "default">> >>

Matching(mux, cmd) == {k \in 1..Len(mux) : HasPrefix(cmd, mux[k][1])}
MaxOf(S) == CHOOSE x \in S : \A y \in S : x >= y
HandlerOf(mux, cmd, toks) ==
    LET ms == Matching(mux, cmd) IN
    CASE Mutant = "last_prefix"  -> IF ms = {} THEN "none" ELSE mux[MaxOf(ms)][2]           \* loop without return
      [] Mutant = "exact_word"   -> LET es == {k \in 1..Len(mux) : toks[1] = mux[k][1]} IN   \* first word = prefix
                                    IF es = {} THEN "none" ELSE mux[MinOf(es)][2]
      [] OTHER                   -> IF ms = {} THEN "none" ELSE mux[MinOf(ms)][2]

(* ----------------------------------------------------------- 3. tokenizer *)
\* imperatives.tokens in order, without the three regular expressions: str ("\".*\"", between flushMaxSize= and ##),
\* num ("[0-9]+( |$)") and word ("[^ ]+"), which come last.  checks/xadmin.py compares this list with the source.
Lits == <<
  <<"addBlack", "addBlack">>, <<"addAgg", "addAgg">>, <<"addRouteSendAllMatch", "addRoute sendAllMatch">>,
  <<"addRouteSendFirstMatch", "addRoute sendFirstMatch">>, <<"addRouteConsistentHashing", "addRoute consistentHashing">>,
  <<"addRouteGrafanaNet", "addRoute grafanaNet">>, <<"addRouteKafkaMdm", "addRoute kafkaMdm">>,
  <<"addRoutePubSub", "addRoute pubsub">>, <<"addDest", "addDest">>, <<"addRewriter", "addRewriter">>,
  <<"delRoute", "delRoute">>, <<"modDest", "modDest">>, <<"modRoute", "modRoute">>,
  <<"optPrefix", "prefix=">>, <<"optNotPrefix", "notPrefix=">>, <<"optAddr", "addr=">>, <<"optCache", "cache=">>,
  <<"optDropRaw", "dropRaw=">>, <<"optBlocking", "blocking=">>, <<"optSub", "sub=">>, <<"optNotSub", "notSub=">>,
  <<"optRegex", "regex=">>, <<"optNotRegex", "notRegex=">>, <<"optFlush", "flush=">>, <<"optReconn", "reconn=">>,
  <<"optConnBufSize", "connbuf=">>, <<"optIoBufSize", "iobuf=">>, <<"optSpoolBufSize", "spoolbuf=">>,
  <<"optSpoolMaxBytesPerFile", "spoolmaxbytesperfile=">>, <<"optSpoolSyncEvery", "spoolsyncevery=">>,
  <<"optSpoolSyncPeriod", "spoolsyncperiod=">>, <<"optSpoolSleep", "spoolsleep=">>, <<"optTLSEnabled", "tlsEnabled=">>,
  <<"optTLSSkipVerify", "tlsSkipVerify=">>, <<"optTLSClientCert", "tlsClientCert=">>, <<"optTLSClientKey", "tlsClientKey=">>,
  <<"optSASLEnabled", "saslEnabled=">>, <<"optSASLMechanism", "saslMechanism=">>, <<"optSASLUsername", "saslUsername=">>,
  <<"optSASLPassword", "saslPassword=">>, <<"optUnspoolSleep", "unspoolsleep=">>, <<"optPickle", "pickle=">>,
  <<"optSpool", "spool=">>, <<"optTrue", "true">>, <<"optFalse", "false">>, <<"optBufSize", "bufSize=">>,
  <<"optFlushMaxNum", "flushMaxNum=">>, <<"optFlushMaxWait", "flushMaxWait=">>, <<"optTimeout", "timeout=">>,
  <<"optSSLVerify", "sslverify=">>, <<"optErrBackoffMin", "errBackoffMin=">>, <<"optErrBackoffFactor", "errBackoffFactor=">>,
  <<"optConcurrency", "concurrency=">>, <<"optOrgId", "orgId=">>, <<"optPubSubProject", "project=">>,
  <<"optPubSubTopic", "topic=">>, <<"optPubSubFormat", "format=">>, <<"optPubSubCodec", "codec=">>,
  <<"optPubSubFlushMaxSize", "flushMaxSize=">>,
  <<"sep", "##">>, <<"avgFn", "avg ">>, <<"maxFn", "max ">>, <<"minFn", "min ">>, <<"sumFn", "sum ">>, <<"lastFn", "last ">>,
  <<"countFn", "count ">>, <<"deltaFn", "delta ">>, <<"deriveFn", "derive ">>, <<"stdevFn", "stdev ">> >>

\* the literal patterns by their first character (a constant, evaluated once: a cheap pre-filter; the order is
\* still that of Lits)
LitFirst == {Ch(Lits[k][2], 1) : k \in 1..Len(Lits)}
LitsBy == [c \in LitFirst |-> {k \in 1..Len(Lits) : Ch(Lits[k][2], 1) = c}]
LitAt(s, i) == IF Ch(s, i) \notin LitFirst THEN 0
               ELSE LET ks == {k \in LitsBy[Ch(s, i)] : PrefixAt(s, i, Lits[k][2])} IN IF ks = {} THEN 0 ELSE MinOf(ks)

RECURSIVE DigitsEnd(_, _)       \* last index of the run of digits that starts at i (i - 1: none)
DigitsEnd(s, i) == IF i <= Len(s) /\ Ch(s, i) \in Digit THEN DigitsEnd(s, i + 1) ELSE i - 1
\* [0-9]+( |$): the value includes the space; $ is the end of the text only
NumAt(s, i) == LET j == DigitsEnd(s, i) IN
               IF j < i THEN "" ELSE IF j = Len(s) THEN Sub(s, i, j) ELSE IF Ch(s, j + 1) = " " THEN Sub(s, i, j + 1) ELSE ""
WordAt(s, i) == LET j == Index(s, " ", i) IN IF j = 0 THEN From(s, i) ELSE Sub(s, i, j - 1)

TokAt(s, i) == LET k == LitAt(s, i) IN
               IF k # 0 THEN [t |-> Lits[k][1], v |-> Lits[k][2]]
               ELSE IF NumAt(s, i) # "" THEN [t |-> "num", v |-> NumAt(s, i)]
               ELSE [t |-> "word", v |-> WordAt(s, i)]
RECURSIVE TokFrom(_, _)
TokFrom(s, i) == LET p == SkipWs(s, i) IN
                 IF p > Len(s) THEN <<>> ELSE LET k == TokAt(s, p) IN <<k>> \o TokFrom(s, p + Len(k.v))
Tokens(cmd) == TokFrom(ReplaceDbl(cmd), 1)
EOFTok == [t |-> "EOF", v |-> ""]
Tk(tk, n) == IF n <= Len(tk) THEN tk[n] ELSE EOFTok

(* ------------------------------------------------- 4. imperatives.Apply    *)
\* The abstract table: what Table.Snapshot() shows, projected by the driver.
\*   bl    sequence of matchers        rw   sequence of "old new max"
\*   rt    sequence of [key, type, m, dests]   (dests: sequence of "addr<matcher>[ pickle][ spool]")
\*   agg   sequence of "fun outFmt<matcher>"
\* a matcher is the text " prefix=.. notPrefix=.. sub=.. notSub=.. regex=.. notRegex=.." of its non-empty fields
MFields == <<"prefix", "notPrefix", "sub", "notSub", "regex", "notRegex">>
NoM == [f \in {MFields[i] : i \in 1..6} |-> ""]
RECURSIVE MStrFrom(_, _)
MStrFrom(m, i) == IF i > 6 THEN "" ELSE (IF m[MFields[i]] = "" THEN "" ELSE " " \o MFields[i] \o "=" \o m[MFields[i]]) \o MStrFrom(m, i + 1)
MStr(m) == MStrFrom(m, 1)
EmptyTable == [bl |-> <<>>, rw |-> <<>>, rt |-> <<>>, agg |-> <<>>]

OptField(t) == CASE t = "optPrefix" -> "prefix" [] t = "optNotPrefix" -> "notPrefix" [] t = "optSub" -> "sub"
                 [] t = "optNotSub" -> "notSub" [] t = "optRegex" -> "regex" [] t = "optNotRegex" -> "notRegex" [] OTHER -> ""
MOpts == {"optPrefix", "optNotPrefix", "optSub", "optNotSub", "optRegex", "optNotRegex"}
BoolOpts == {"optPickle", "optSpool"}
NumOpts == {"optFlush", "optReconn", "optConnBufSize", "optIoBufSize", "optSpoolBufSize", "optSpoolMaxBytesPerFile",
            "optSpoolSyncEvery", "optSpoolSyncPeriod", "optSpoolSleep", "optUnspoolSleep"}
\* a regular expression that is certainly valid (the check uses no others; anything else is outside the fragment)
SafeRe(v) == AllIn(v, Lower \cup Upper \cup Digit \cup {".", "_"})
MSafe(m) == SafeRe(m["regex"]) /\ SafeRe(m["notRegex"])

\* results: [ok, err (tag of the error text), T, md (inside the modelled fragment)]
Ok(T) == [ok |-> TRUE, err |-> "", T |-> T, md |-> TRUE]
Er(T, e) == [ok |-> FALSE, err |-> e, T |-> T, md |-> TRUE]
Un(T) == [ok |-> FALSE, err |-> "unmodelled", T |-> T, md |-> FALSE]

RemoveFirstKey(rt, key) == LET ks == {i \in 1..Len(rt) : rt[i].key = key} IN IF ks = {} THEN rt ELSE TO!RemoveAt(rt, MinOf(ks))
\* a deviation: the key is matched as a prefix
RemoveFirstKeyPfx(rt, key) == LET ks == {i \in 1..Len(rt) : HasPrefix(rt[i].key, key)} IN IF ks = {} THEN rt ELSE TO!RemoveAt(rt, MinOf(ks))

ImpAddBlack(T, tk) ==
    LET t2 == Tk(tk, 2)  t3 == Tk(tk, 3) IN
    IF t2.t # "word" THEN Er(T, "fmtAddBlack")
    ELSE IF t2.v \notin {MFields[i] : i \in 1..6} THEN Er(T, "fmtAddBlack")
    ELSE IF t3.t # "word" THEN Er(T, "fmtAddBlack")
    ELSE IF t2.v \in {"regex", "notRegex"} /\ ~SafeRe(t3.v) THEN Un(T)
    ELSE Ok([T EXCEPT !.bl = Append(@, MStr([NoM EXCEPT ![t2.v] = t3.v]))])

IsNum9(d) == Len(d) >= 1 /\ Len(d) <= 9 /\ AllIn(d, Digit) /\ (Len(d) = 1 \/ Ch(d, 1) # "0")
ImpAddRewriter(T, tk) ==
    LET t2 == Tk(tk, 2)  t3 == Tk(tk, 3)  t4 == Tk(tk, 4)  d == TrimSpace(t4.v) IN
    IF t2.t # "word" \/ t3.t # "word" \/ t4.t \notin {"num", "word"} THEN Er(T, "fmtAddRewriter")
    ELSE IF Ch(t2.v, 1) = "/" THEN Un(T)                                    \* regular-expression rewriters
    ELSE IF t4.t = "num" THEN (IF IsNum9(d) THEN Ok([T EXCEPT !.rw = Append(@, t2.v \o " " \o t3.v \o " " \o d)]) ELSE Un(T))
    ELSE IF d = "-1" THEN Ok([T EXCEPT !.rw = Append(@, t2.v \o " " \o t3.v \o " -1")])
    ELSE IF Ch(d, 1) \in {"+", "-"} \/ AllIn(d, Digit) THEN Un(T)            \* other things Atoi may accept
    ELSE Er(T, "fmtAddRewriter")

ImpDelRoute(T, tk) ==
    LET t2 == Tk(tk, 2) IN
    IF t2.t # "word" THEN Er(T, "needRouteKey")
    ELSE Ok([T EXCEPT !.rt = IF Mutant = "key_prefix_match" THEN RemoveFirstKeyPfx(@, t2.v) ELSE RemoveFirstKey(@, t2.v)])

\* the option loop of readModRoute from token n on, m = the options collected so far ("" = not given)
RECURSIVE ModOpts(_, _, _)
ModOpts(tk, n, m) ==
    LET t == Tk(tk, n) IN
    IF t.t = "EOF" THEN [err |-> "", m |-> m]
    ELSE IF t.t \in MOpts THEN (IF Tk(tk, n + 1).t # "word" THEN [err |-> "fmtModDest", m |-> m]
                                ELSE ModOpts(tk, n + 2, [m EXCEPT ![OptField(t.t)] = Tk(tk, n + 1).v]))
    ELSE [err |-> "fmtModDest", m |-> m]
ImpModRoute(T, tk) ==
    LET t2 == Tk(tk, 2)  r == ModOpts(tk, 3, NoM) IN
    IF t2.t # "word" THEN Er(T, "fmtAddRoute")
    ELSE IF r.err # "" THEN Er(T, r.err)
    ELSE IF r.m = NoM THEN Er(T, "modRouteNeedsOpt")
    ELSE IF ~MSafe(r.m) THEN Un(T)
    ELSE LET ks == {i \in 1..Len(T.rt) : T.rt[i].key = t2.v} IN
         IF ks = {} THEN Er(T, "invalidRoute")
         ELSE LET i == MinOf(ks) IN
              Ok([T EXCEPT !.rt[i].m = [f \in DOMAIN NoM |-> IF r.m[f] = "" THEN @[f] ELSE r.m[f]]])

\* readRouteOpts from token n on: [err, m, n (the next token to read)]
RECURSIVE RouteOpts(_, _, _)
RouteOpts(tk, n, m) ==
    LET t == Tk(tk, n) IN
    IF t.t = "EOF" THEN [err |-> "", m |-> m, n |-> n]
    ELSE IF t.t = "sep" THEN [err |-> "", m |-> m, n |-> n + 1]
    ELSE IF t.t \in MOpts THEN (IF Tk(tk, n + 1).t # "word" THEN [err |-> "badOption", m |-> m, n |-> n]
                                ELSE RouteOpts(tk, n + 2, [m EXCEPT ![OptField(t.t)] = Tk(tk, n + 1).v]))
    ELSE [err |-> "unrecognizedOption", m |-> m, n |-> n]
\* the option loop of readDestination from token n on: [err, m, pickle, spool, n, md]
RECURSIVE DestOpts(_, _, _)
DestOpts(tk, n, d) ==
    LET t == Tk(tk, n)  t1 == Tk(tk, n + 1) IN
    IF t.t = "EOF" THEN [d EXCEPT !.n = n]
    ELSE IF t.t = "sep" THEN [d EXCEPT !.n = n + 1]
    ELSE IF t.t \in MOpts THEN (IF t1.t # "word" THEN [d EXCEPT !.err = "fmtAddRoute"]
                                ELSE DestOpts(tk, n + 2, [d EXCEPT !.m[OptField(t.t)] = t1.v]))
    ELSE IF t.t \in BoolOpts THEN (IF t1.t \notin {"optTrue", "optFalse"} THEN [d EXCEPT !.err = "fmtAddRoute"]
                                   ELSE DestOpts(tk, n + 2, IF t.t = "optPickle" THEN [d EXCEPT !.pickle = (t1.t = "optTrue")]
                                                                                 ELSE [d EXCEPT !.spool = (t1.t = "optTrue")]))
    ELSE IF t.t \in NumOpts THEN (IF t1.t # "num" THEN [d EXCEPT !.err = "fmtAddRoute"] ELSE [d EXCEPT !.md = FALSE])
    ELSE [d EXCEPT !.err = "unrecognizedOption"]
\* readDestinations from token n on: [err, dests, md]
RECURSIVE Dests(_, _, _)
Dests(tk, n, acc) ==
    LET t == Tk(tk, n) IN
    IF t.t = "sep" THEN Dests(tk, n + 1, acc)
    ELSE IF t.t = "EOF" THEN [err |-> "", dests |-> acc, md |-> TRUE]
    ELSE IF t.t # "word" THEN [err |-> "addrNotSet", dests |-> acc, md |-> TRUE]
    ELSE LET d == DestOpts(tk, n + 1, [err |-> "", m |-> NoM, pickle |-> FALSE, spool |-> FALSE, n |-> 0, md |-> TRUE]) IN
         IF ~d.md \/ ~MSafe(d.m) \/ d.spool THEN [err |-> "", dests |-> acc, md |-> FALSE]
         ELSE IF d.err # "" THEN [err |-> d.err, dests |-> acc, md |-> TRUE]
         ELSE Dests(tk, d.n, Append(acc, t.v \o MStr(d.m) \o (IF d.pickle THEN " pickle" ELSE "")))
ImpAddRoute(T, tk, type) ==
    LET t2 == Tk(tk, 2)  o == RouteOpts(tk, 3, NoM) IN
    IF t2.t # "word" THEN Er(T, "fmtAddRoute")
    ELSE IF o.err # "" THEN Er(T, o.err)
    ELSE IF ~MSafe(o.m) THEN Un(T)
    ELSE LET ds == Dests(tk, o.n, <<>>) IN
         IF ~ds.md THEN Un(T)
         ELSE IF ds.err # "" THEN Er(T, ds.err)
         ELSE IF Len(ds.dests) = 0 THEN Er(T, "needDest")
         ELSE Ok([T EXCEPT !.rt = Append(@, [key |-> t2.v, type |-> type, m |-> o.m, dests |-> ds.dests])])

Unmodelled == {"addAgg", "addRouteConsistentHashing", "addRouteGrafanaNet", "addRouteKafkaMdm", "addRoutePubSub", "modDest"}
ImpApply(T, cmd) ==
    LET tk == Tokens(cmd)  t1 == Tk(tk, 1) IN
    IF Index(cmd, "\"", 1) # 0 THEN Un(T)                     \* the str pattern
    ELSE CASE t1.t = "addBlack" -> ImpAddBlack(T, tk)
           [] t1.t = "addRewriter" -> ImpAddRewriter(T, tk)
           [] t1.t = "delRoute" -> ImpDelRoute(T, tk)
           [] t1.t = "modRoute" -> ImpModRoute(T, tk)
           [] t1.t = "addRouteSendAllMatch" -> ImpAddRoute(T, tk, "sendAllMatch")
           [] t1.t = "addRouteSendFirstMatch" -> ImpAddRoute(T, tk, "sendFirstMatch")
           [] t1.t = "addDest" -> Er(T, "addDestNotImplemented")
           [] t1.t \in Unmodelled -> Un(T)
           [] OTHER -> Er(T, "unrecognizedCommand")

(* ------------------------------------- 5. one read of the command connection *)
\* raw = the bytes one conn.Read returned.  Result: [cmd, h, rep, T, md]; rep = the replies written before the
\* next banner: "ok", "view", "help", "uhelp" (help preceded by "unknown command"), "E:<tag>", "unrec"
ModHandler(T, text) ==
    LET r == ImpApply(T, text) IN
    CASE Mutant = "apply_twice" /\ r.ok -> LET r2 == ImpApply(r.T, text) IN [rep |-> <<"ok">>, T |-> r2.T, md |-> r.md]
      [] Mutant = "no_error_reply" /\ ~r.ok -> [rep |-> <<>>, T |-> r.T, md |-> r.md]
      [] Mutant = "ok_on_error" /\ ~r.ok -> [rep |-> <<"ok">>, T |-> r.T, md |-> r.md]
      [] OTHER -> [rep |-> IF r.ok THEN <<"ok">> ELSE <<"E:" \o r.err>>, T |-> r.T, md |-> r.md]

ExecRead(mux, T, raw) ==
    LET cmd  == IF Mutant = "no_trim" THEN raw ELSE TrimSpace(raw)
        toks == IF Mutant = "split_fields" THEN (IF Fields(cmd) = <<>> THEN <<"">> ELSE Fields(cmd)) ELSE SplitSp(cmd)
        h    == HandlerOf(mux, cmd, toks)
        res  == CASE h = "mod"  -> ModHandler(T, JoinSp(toks))
                  [] h = "view" -> [rep |-> IF Len(toks) # 1 THEN <<"E:extraneous">> ELSE <<"view">>, T |-> T, md |-> TRUE]
                  [] h = "help" -> [rep |-> <<"help">>, T |-> T, md |-> TRUE]
                  [] h = "default" -> [rep |-> <<"uhelp">>, T |-> T, md |-> TRUE]
                  [] OTHER -> [rep |-> <<"unrec">>, T |-> T, md |-> TRUE]
    IN  [cmd |-> cmd, h |-> h, rep |-> res.rep, T |-> res.T, md |-> res.md]

(* -------------------- 6. the documented meaning of a well-formed command    *)
\* docs/tcp-admin-interface.md, word by word (no tokenizer): a command is words separated by single spaces; the
\* double space of addRoute separates the route from its destinations.  Defined for the forms below only.
DocWords(c) == SplitSp(c)
PlainWord(w) == Len(w) > 0 /\ AllIn(w, Lower \cup Upper \cup Digit \cup {".", "_", ":", "-"}) /\ Ch(w, 1) \in Lower \cup Upper
               /\ w \notin {"true", "false"}
DocForm(c) ==
    LET w == DocWords(c) IN
    CASE c = "view" -> "view"
      [] c = "help" -> "help"
      [] Len(w) = 3 /\ w[1] = "addBlack" /\ w[2] \in {"prefix", "sub", "notPrefix", "notSub"} /\ PlainWord(w[3]) -> "addBlack"
      [] Len(w) = 4 /\ w[1] = "addRewriter" /\ PlainWord(w[2]) /\ PlainWord(w[3]) /\ IsNum9(w[4]) -> "addRewriter"
      [] Len(w) = 2 /\ w[1] = "delRoute" /\ PlainWord(w[2]) -> "delRoute"
      [] Len(w) = 5 /\ w[1] = "addRoute" /\ w[2] \in {"sendAllMatch", "sendFirstMatch"} /\ PlainWord(w[3]) /\ w[4] = ""
                    /\ PlainWord(w[5]) -> "addRoute"
      [] OTHER -> "none"
DocStep(T, c) ==
    LET w == DocWords(c)  f == DocForm(c) IN
    CASE f = "view" -> [rep |-> <<"view">>, T |-> T]
      [] f = "help" -> [rep |-> <<"help">>, T |-> T]
      [] f = "addBlack" -> [rep |-> <<"ok">>, T |-> [T EXCEPT !.bl = Append(@, " " \o w[2] \o "=" \o w[3])]]
      [] f = "addRewriter" -> [rep |-> <<"ok">>, T |-> [T EXCEPT !.rw = Append(@, w[2] \o " " \o w[3] \o " " \o w[4])]]
      [] f = "delRoute" -> [rep |-> <<"ok">>, T |-> [T EXCEPT !.rt = RemoveFirstKey(@, w[2])]]
      [] f = "addRoute" -> [rep |-> <<"ok">>, T |-> [T EXCEPT !.rt = Append(@, [key |-> w[3], type |-> w[2], m |-> NoM, dests |-> <<w[5]>>])]]
      [] OTHER -> [rep |-> <<>>, T |-> T]

(* ------------------------------------------------------------- 7. HTTP API *)
\* strconv.Atoi as the handlers use it (`idx, _ := strconv.Atoi(index)`): the VALUE it returns, error dropped.
\*   syntax error -> 0; out of range -> the largest / smallest int (Big / -Big here); "+7" and "007" are numbers
Big == 2000000000
SignedDigits(s) == LET b == IF Len(s) > 0 /\ Ch(s, 1) \in {"+", "-"} THEN From(s, 2) ELSE s IN Len(b) > 0 /\ AllIn(b, Digit)
RECURSIVE DigVal(_, _)
DigVal(s, acc) == IF s = "" THEN acc ELSE
                  LET c == Ch(s, 1)
                      d == CHOOSE n \in 0..9 : ToString(n) = c
                  IN  DigVal(From(s, 2), acc * 10 + d)
RECURSIVE StripZeros(_)
StripZeros(s) == IF Len(s) > 1 /\ Ch(s, 1) = "0" THEN StripZeros(From(s, 2)) ELSE s
AtoiVal(s) ==
    IF ~SignedDigits(s) THEN 0
    ELSE LET neg == Ch(s, 1) = "-"
             b   == StripZeros(IF Ch(s, 1) \in {"+", "-"} THEN From(s, 2) ELSE s)
             v   == IF Len(b) > 9 THEN Big ELSE DigVal(b, 0)
         IN  IF neg THEN 0 - v ELSE v
AtoiErr(s) == ~SignedDigits(s)          \* (a range error too, but then the value is already beyond every list)

\* a request: [m, kind, key, idx]   m in GET / DELETE / POST; kind in blacklists / rewriters / aggregators / routes /
\* dests (routes/{key}/destinations/{idx}) / table; key, idx: the path segments as text ("" = segment absent).
\* Result [st, T]; st = HTTP status, 0 = the handler panicked: net/http drops the connection without a response.
\*
\* NotFound: every "could not find" answer of web.go is built as &handlerError{nil, message, 404}, and ServeHTTP
\* formats it with err.Error.Error() -- a nil dereference.  The request is therefore not answered at all (status 0);
\* the table had not been touched.  "notfound_answered" names the behaviour that was intended (a 404 response).
NotFound == IF Mutant = "notfound_answered" THEN 404 ELSE 0
DelIdx(list, s) ==
    LET i == IF Mutant = "idx_strict" /\ AtoiErr(s) THEN Big ELSE AtoiVal(s) IN
    CASE Mutant = "del_off_by_one" /\ i >= 0 /\ i + 1 < Len(list) -> [st |-> 200, l |-> TO!RemoveAt(list, i + 2)]
      [] Mutant = "neg_wraps" /\ i < 0 /\ Len(list) + i >= 0 -> [st |-> 200, l |-> TO!RemoveAt(list, Len(list) + i + 1)]
      [] Mutant = "oob_clamps" /\ i >= Len(list) /\ Len(list) > 0 -> [st |-> 200, l |-> TO!RemoveAt(list, Len(list))]
      [] Mutant = "oob_ok" /\ i >= Len(list) -> [st |-> 200, l |-> list]                 \* the error of the table is dropped
      [] i >= Len(list) -> [st |-> NotFound, l |-> list]
      [] i < 0 -> [st |-> 0, l |-> list]                                             \* slice bounds out of range
      [] OTHER -> [st |-> 200, l |-> TO!RemoveAt(list, i + 1)]

RouteIdx(T, key) == LET ks == {i \in 1..Len(T.rt) : IF Mutant = "key_prefix_match" THEN HasPrefix(T.rt[i].key, key) ELSE T.rt[i].key = key} IN
                    IF ks = {} THEN 0 ELSE MinOf(ks)
HttpExec(T, q) ==
    CASE q.m = "DELETE" /\ q.kind # "routes" /\ q.idx = "" -> [st |-> 404, T |-> T]      \* no such path: not routed to a handler
      [] q.m = "DELETE" /\ q.kind = "blacklists"  -> LET r == DelIdx(T.bl, q.idx) IN [st |-> r.st, T |-> [T EXCEPT !.bl = r.l]]
      [] q.m = "DELETE" /\ q.kind = "rewriters"   -> LET r == DelIdx(T.rw, q.idx) IN [st |-> r.st, T |-> [T EXCEPT !.rw = r.l]]
      [] q.m = "DELETE" /\ q.kind = "aggregators" -> LET r == DelIdx(T.agg, q.idx) IN [st |-> r.st, T |-> [T EXCEPT !.agg = r.l]]
      [] q.m = "DELETE" /\ q.kind = "routes" ->
            LET i == RouteIdx(T, q.key) IN
            IF Mutant = "unknown_key_404" /\ i = 0 THEN [st |-> 404, T |-> T]
            ELSE [st |-> 200, T |-> IF i = 0 THEN T ELSE [T EXCEPT !.rt = TO!RemoveAt(@, i)]]      \* unknown key: 200, no-op
      [] q.m = "DELETE" /\ q.kind = "dests" ->
            LET i == RouteIdx(T, q.key) IN
            IF i = 0 THEN [st |-> NotFound, T |-> T]
            ELSE LET r == DelIdx(T.rt[i].dests, q.idx) IN [st |-> r.st, T |-> [T EXCEPT !.rt[i].dests = r.l]]
      \* POST: q.key = the entry as the table will show it, q.idx = "ok" | "badjson" (class of the body);
      \* POST /routes is always refused: the JSON decoder cannot set the unexported periodFlush / periodReconn of
      \* parseRouteRequest, and destination.New refuses a period of 0
      [] q.m = "POST" /\ q.idx # "ok" -> [st |-> 400, T |-> T]
      [] q.m = "POST" /\ q.kind = "rewriters" -> [st |-> 200, T |-> [T EXCEPT !.rw = Append(@, q.key)]]
      [] q.m = "POST" /\ q.kind = "aggregators" -> [st |-> 200, T |-> [T EXCEPT !.agg = Append(@, q.key)]]
      [] q.m = "POST" /\ q.kind = "routes" -> [st |-> 400, T |-> T]
      [] q.m = "GET" /\ q.kind = "routes" /\ q.key # "" -> [st |-> IF RouteIdx(T, q.key) = 0 THEN NotFound ELSE 200, T |-> T]
      [] q.m = "GET" -> [st |-> 200, T |-> T]
      [] OTHER -> [st |-> 0 - 1, T |-> T]
=============================================================================
