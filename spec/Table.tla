-------------------------------- MODULE Table --------------------------------
(* C01/C02 -- Table.Dispatch of table/table.go and the destination loops of   *)
(* route/route.go, step by step, checked against the declarative statement    *)
(* DispatchOps!Expect for every routing table TLC can build within the bounds.   *)
(*                                                                            *)
(* The table is built by the admin actions AddBlack / AddRw / AddAgg /        *)
(* AddRoute / AddDest (copy-on-write snapshots in the code; here no dispatch  *)
(* is in flight while the table changes -- that is property C18's model).     *)
(* One dispatch runs through the program counter                              *)
(*   validate -> order -> black -> rw -> agg -> route (-> dest)* -> done      *)
(* mirroring the code:                                                        *)
(*   numIn.Inc; ValidatePacket, on error bad.Add + numInvalid.Inc + return    *)
(*   if conf.Validate_order { Ordered(key, ts), on error bad.Add +            *)
(*                            numOutOfOrder.Inc + return }                    *)
(*   (ord = validate_order as written in the configuration the table was      *)
(*    created from; the order register itself is C19's model: a line is       *)
(*    `newer` than what was accepted for its name before, or not)             *)
(*   for blacklist: if Match(name) { numBlacklist.Inc; return }               *)
(*   for rewriters: name = rw.Do(name)                                        *)
(*   for aggregators: if AddMaybe(..) { return }        (drop-raw)            *)
(*   routed := false                                                          *)
(*   for routes: if route.Match(name) { routed = true; route.Dispatch(line) } *)
(*       SendAllMatch.Dispatch:   for dests: if Match { dest.In <- buf }      *)
(*       SendFirstMatch.Dispatch: for dests: if Match { dest.In <- buf; break}*)
(*       ConsistentHashing.Dispatch: dests[hash(name)].In <- buf              *)
(*   if !routed { numUnroutable.Inc }                                         *)
(* Dev names a deliberate deviation of the loop (non-vacuity: TLC must reject *)
(* each of them).                                                             *)
EXTENDS DispatchOps, TLC

CONSTANTS Names,      \* the name universe
          MaxBlack, MaxRw, MaxAgg, MaxRoutes, MaxDests,
          Kinds,      \* route kinds that may be added
          Orders,     \* validate_order settings ("" = absent, "false", "true") a table may be created with
          NewerVals,  \* answers of the order register explored: BOOLEAN, or {TRUE} where order validation is off anyway (C01)
          Dev         \* "" or a named deviation

Devs == {"", "break_after_first_route", "skip_last_route", "blacklist_after_rewrite",
         "first_no_break", "all_breaks", "no_return_invalid", "invalid_not_counted",
         "unroutable_ignores_routed", "unroutable_twice", "no_return_blacklist",
         "dropraw_ignored", "route_filter_on_original_name", "dest_filter_ignored",
         "invalid_counted_as_ooo", "ooo_counted_invalid", "order_check_when_off", "no_return_ooo",
         "order_before_validate"}
ASSUME Dev \in Devs
ASSUME Orders # {} /\ Orders \subseteq OrderSettings
ASSUME NewerVals # {} /\ NewerVals \subseteq BOOLEAN

VARIABLES tbl,      \* the routing table
          ord,      \* validate_order as written in the configuration the table was created from
          pc,       \* "idle" or the stage of the dispatch in flight
          ln,       \* the line in flight: [name, valid, newer]
          nm,       \* fields[0], the (rewritten) name
          i, j,     \* loop indices
          routed,   \* the routed flag
          out       \* outcome so far

vars == <<tbl, ord, pc, ln, nm, i, j, routed, out>>
cvars == <<tbl, ord>>                        \* the configuration

EmptyTable == [black |-> <<>>, rw |-> <<>>, aggs |-> <<>>, routes |-> <<>>]
NoLine == [name |-> "", valid |-> TRUE, newer |-> TRUE]
NoOut  == [in |-> 0, invalid |-> 0, ooo |-> 0, black |-> 0, unroutable |-> 0, rt |-> <<>>, agg |-> {}]

Init == /\ tbl = EmptyTable /\ ord \in Orders /\ pc = "idle" /\ ln = NoLine /\ nm = "" /\ i = 0 /\ j = 0
        /\ routed = FALSE /\ out = NoOut

Filters == SUBSET Names
dvars == <<ord, pc, ln, nm, i, j, routed, out>>     \* everything but the table contents

\* ------------------------------------------------------------ admin actions
AddBlack(S) == /\ pc = "idle" /\ Len(tbl.black) < MaxBlack
               /\ tbl' = [tbl EXCEPT !.black = Append(@, S)] /\ UNCHANGED dvars
AddRw(f, t) == /\ pc = "idle" /\ Len(tbl.rw) < MaxRw /\ f # t
               /\ tbl' = [tbl EXCEPT !.rw = Append(@, [from |-> f, to |-> t])] /\ UNCHANGED dvars
AddAgg(S, d) == /\ pc = "idle" /\ Len(tbl.aggs) < MaxAgg
                /\ tbl' = [tbl EXCEPT !.aggs = Append(@, [acc |-> S, drop |-> d])] /\ UNCHANGED dvars
AddRoute(kind, S) ==
    /\ pc = "idle" /\ Len(tbl.routes) < MaxRoutes
    /\ (kind = "hash" => MaxDests >= 2)
    /\ LET ds == IF kind = "hash" THEN <<Names, Names>> ELSE <<>>     \* a hash ring needs two members
       IN tbl' = [tbl EXCEPT !.routes = Append(@, [kind |-> kind, acc |-> S, dests |-> ds])]
    /\ UNCHANGED dvars
\* destinations are appended to the route added last (canonical construction order)
AddDest(S) == /\ pc = "idle" /\ tbl.routes # <<>>
              /\ LET k == Len(tbl.routes) IN
                   /\ tbl.routes[k].kind \in {"all", "first", "hash"}
                   /\ Len(tbl.routes[k].dests) < MaxDests
                   /\ (tbl.routes[k].kind = "hash" => S = Names)      \* filters of hash members are never consulted
                   /\ tbl' = [tbl EXCEPT !.routes[k].dests = Append(@, S)]
              /\ UNCHANGED dvars

Admin == \/ \E S \in Filters : AddBlack(S) \/ AddDest(S)
         \/ \E f, t \in Names : AddRw(f, t)
         \/ \E S \in Filters, d \in BOOLEAN : AddAgg(S, d)
         \/ \E kind \in Kinds, S \in Filters : AddRoute(kind, S)

\* ---------------------------------------------------------------- dispatch
FirstStage == IF Dev = "order_before_validate" THEN "order" ELSE "validate"
Start(l) == /\ pc = "idle"
            /\ ln' = l /\ nm' = l.name /\ pc' = FirstStage /\ i' = 0 /\ j' = 0 /\ routed' = FALSE
            /\ out' = [NoOut EXCEPT !.in = 1,                                          \* numIn.Inc(1)
                                    !.rt = [k \in DOMAIN tbl.routes |-> Zero(Width(tbl.routes[k]))]]
            /\ UNCHANGED cvars

AfterValidate == IF Dev = "blacklist_after_rewrite" THEN "rw" ELSE "black"
AfterBlack    == IF Dev = "blacklist_after_rewrite" THEN "agg" ELSE "rw"
AfterRw       == IF Dev = "blacklist_after_rewrite" THEN "black" ELSE "agg"

\* the gate: validation, then (if configured) the order check, then the table proper
AfterOrder == IF Dev = "order_before_validate" THEN "validate" ELSE AfterValidate

StepValidate ==
    /\ pc = "validate"
    /\ IF ~ln.valid
       THEN /\ out' = IF Dev = "invalid_not_counted" THEN out
                      ELSE IF Dev = "invalid_counted_as_ooo" /\ OrdOn(ord)   \* counter chosen before it is known which check failed
                           THEN [out EXCEPT !.ooo = @ + 1]
                           ELSE [out EXCEPT !.invalid = @ + 1]
            /\ pc' = IF Dev = "no_return_invalid" THEN "order" ELSE "done"            \* return
       ELSE /\ pc' = IF Dev = "order_before_validate" THEN AfterValidate ELSE "order"
            /\ out' = out
    /\ i' = 1 /\ UNCHANGED <<cvars, ln, nm, j, routed>>

StepOrder ==
    /\ pc = "order"
    /\ IF (OrdOn(ord) \/ Dev = "order_check_when_off") /\ ~ln.newer                   \* validate.Ordered(key, ts) # nil
       THEN /\ out' = IF Dev = "ooo_counted_invalid" THEN [out EXCEPT !.invalid = @ + 1]
                      ELSE [out EXCEPT !.ooo = @ + 1]
            /\ pc' = IF Dev = "no_return_ooo" THEN AfterOrder ELSE "done"              \* return
       ELSE pc' = AfterOrder /\ out' = out
    /\ i' = 1 /\ UNCHANGED <<cvars, ln, nm, j, routed>>

StepBlack ==
    /\ pc = "black"
    /\ IF i > Len(tbl.black) THEN pc' = AfterBlack /\ i' = 1 /\ out' = out
       ELSE IF nm \in tbl.black[i]
            THEN /\ out' = [out EXCEPT !.black = @ + 1]
                 /\ IF Dev = "no_return_blacklist" THEN pc' = pc /\ i' = i + 1
                    ELSE pc' = "done" /\ i' = i                                      \* return
            ELSE pc' = pc /\ i' = i + 1 /\ out' = out
    /\ UNCHANGED <<cvars, ln, nm, j, routed>>

StepRw ==
    /\ pc = "rw"
    /\ IF i > Len(tbl.rw) THEN pc' = AfterRw /\ i' = 1 /\ nm' = nm
       ELSE pc' = pc /\ i' = i + 1 /\ nm' = RwApply(tbl.rw[i], nm)
    /\ UNCHANGED <<cvars, ln, j, routed, out>>

StepAgg ==
    /\ pc = "agg"
    /\ IF i > Len(tbl.aggs) THEN pc' = "route" /\ i' = 1 /\ out' = out
       ELSE IF nm \in tbl.aggs[i].acc
            THEN /\ out' = [out EXCEPT !.agg = @ \cup {i}]                             \* AddMaybe
                 /\ IF tbl.aggs[i].drop /\ Dev # "dropraw_ignored"
                    THEN pc' = "done" /\ i' = i                                       \* return
                    ELSE pc' = pc /\ i' = i + 1
            ELSE pc' = pc /\ i' = i + 1 /\ out' = out
    /\ routed' = FALSE
    /\ UNCHANGED <<cvars, ln, nm, j>>

NRoutes == IF Dev = "skip_last_route" /\ Len(tbl.routes) > 0 THEN Len(tbl.routes) - 1 ELSE Len(tbl.routes)
RouteName == IF Dev = "route_filter_on_original_name" THEN ln.name ELSE nm

StepRoute ==
    /\ pc = "route"
    /\ IF i > NRoutes
       THEN /\ out' = IF ~routed \/ Dev = "unroutable_ignores_routed"
                      THEN [out EXCEPT !.unroutable = @ + (IF Dev = "unroutable_twice" THEN 2 ELSE 1)]
                      ELSE out
            /\ pc' = "done" /\ UNCHANGED <<i, j, routed>>
       ELSE IF RouteName \in tbl.routes[i].acc                                         \* route.Match
            THEN /\ routed' = TRUE
                 /\ CASE tbl.routes[i].kind = "capture" ->
                           /\ out' = [out EXCEPT !.rt[i][1] = @ + 1]
                           /\ pc' = pc /\ j' = j
                           /\ i' = IF Dev = "break_after_first_route" THEN NRoutes + 1 ELSE i + 1
                      [] tbl.routes[i].kind = "hash" ->
                           \E d \in DOMAIN tbl.routes[i].dests :
                              /\ out' = [out EXCEPT !.rt[i][d] = @ + 1]
                              /\ pc' = pc /\ j' = j
                              /\ i' = IF Dev = "break_after_first_route" THEN NRoutes + 1 ELSE i + 1
                      [] OTHER -> pc' = "dest" /\ j' = 1 /\ i' = i /\ out' = out         \* route.Dispatch
            ELSE pc' = pc /\ i' = i + 1 /\ UNCHANGED <<j, routed, out>>
    /\ UNCHANGED <<cvars, ln, nm>>

StepDest ==
    /\ pc = "dest"
    /\ LET r == tbl.routes[i]
           back == /\ pc' = "route" /\ j' = j
                   /\ i' = IF Dev = "break_after_first_route" THEN NRoutes + 1 ELSE i + 1
       IN IF j > Len(r.dests) THEN back /\ out' = out
          ELSE IF nm \in r.dests[j] \/ Dev = "dest_filter_ignored"                     \* dest.Match
               THEN /\ out' = [out EXCEPT !.rt[i][j] = @ + 1]                          \* dest.In <- buf
                    /\ IF (r.kind = "first" /\ Dev # "first_no_break") \/ Dev = "all_breaks"
                       THEN back                                                      \* break
                       ELSE pc' = pc /\ j' = j + 1 /\ i' = i
               ELSE pc' = pc /\ j' = j + 1 /\ i' = i /\ out' = out
    /\ UNCHANGED <<cvars, ln, nm, routed>>

Finish == /\ pc = "done"
          /\ pc' = "idle" /\ ln' = NoLine /\ nm' = "" /\ i' = 0 /\ j' = 0 /\ routed' = FALSE /\ out' = NoOut
          /\ UNCHANGED cvars

Lines == [name : Names, valid : BOOLEAN, newer : NewerVals]

Dispatch == \/ \E l \in Lines : Start(l)
            \/ StepValidate \/ StepOrder \/ StepBlack \/ StepRw \/ StepAgg \/ StepRoute \/ StepDest \/ Finish

Next == Admin \/ Dispatch
Spec == Init /\ [][Next]_vars

\* ------------------------------------------------------------- properties
\* C01 (and the table half of C02): when the loop is through, its outcome is what the
\* declarative statement allows
DispatchLoopIsDecl == pc = "done" => Conforms(out, ExpectO(tbl, ord, ln.name, ln.valid, ln.newer))

\* every line has exactly one fate, counted once
Routed(o) == \E k \in DOMAIN o.rt : \E d \in DOMAIN o.rt[k] : o.rt[k][d] > 0
ExactlyOneFate ==
    pc = "done" =>
      LET e == ExpectO(tbl, ord, ln.name, ln.valid, ln.newer)
      IN /\ out.in = 1
         /\ out.invalid + out.ooo + out.black + out.unroutable <= 1
         /\ (out.invalid + out.ooo + out.black + out.unroutable = 1 => ~Routed(out))
         /\ (e.fate = "consumed" => ~Routed(out) /\ out.unroutable = 0)
\* nothing is handed over before the line is known to be valid and not blacklisted
NothingEarly == pc \in {"validate", "order", "black", "rw"} /\ Dev = "" => ~Routed(out) /\ out.agg = {}
\* C02: an invalid line never reaches the order check (it must not touch the order register, and it is
\* counted invalid, never out-of-order); the check is consulted only when configured
OrderSeesValidOnly == pc = "order" /\ Dev # "no_return_invalid" => ln.valid
InvalidNeverOoo == pc = "done" /\ ~ln.valid /\ Dev \notin {"no_return_invalid", "invalid_not_counted"} => out.invalid = 1 /\ out.ooo = 0
OooOnlyWhenOn == out.ooo > 0 => OrdOn(ord) /\ ~ln.newer

TypeOK == /\ ord \in OrderSettings
          /\ pc \in {"idle", "validate", "order", "black", "rw", "agg", "route", "dest", "done"}
          /\ WellFormedTable(tbl)
=============================================================================
