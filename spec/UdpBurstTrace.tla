--------------------------- MODULE UdpBurstTrace ---------------------------
(* C12, UDP under load: each recorded burst (datagrams sent back to back while the dispatcher was held inside the     *)
(* first one) is judged by BurstOK (UdpBurstOps.tla, the statement UdpPipe.tla is checked against): whole datagrams  *)
(* may be missing, nothing else.                                                                                      *)
EXTENDS UdpBurstOps, Json, TLC, TLCExt, IOUtils
TLog == ndJsonDeserialize("trace.ndjson")
VARIABLES l
ASSUME TLCSet(1, 0)
Ev == TLog[l]
TInit == l = 1
TBurst == /\ l <= Len(TLog) /\ Ev.ev = "burst"
          /\ BurstOK(Ev.lens, Ev.got)
          /\ l' = l + 1
TNext == TBurst
TSpec == TInit /\ [][TNext]_l
HighWater == TLCSet(1, IF l - 1 > TLCGet(1) THEN l - 1 ELSE TLCGet(1))
Post == PrintT("@@TRACE " \o ToJson([matched |-> TLCGet(1)]))
=============================================================================
