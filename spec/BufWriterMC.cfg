SPECIFICATION MCSpec
INVARIANTS BWTypeOK StreamOK ReturnOK FlushOK AccIsIota
PROPERTY StickyMC
CHECK_DEADLOCK FALSE
