---------------------------- MODULE ConnStreamGen ----------------------------
(* C05, two connection generations of ONE destination without spool.          *)
(*                                                                            *)
(* Generation 1 is the connection the relay starts with; the endpoint may     *)
(* close it at any moment (Cut).  checkEOF then marks the conn dead, the relay *)
(* loop notices (RelayDead: clearRedo, conn = nil -- it does NOT wait for the  *)
(* conn's HandleData goroutine) and reconnects (Reconnect: NewConn/NewWriter). *)
(* The HandleData goroutine of generation 1 may still hold a line it has taken *)
(* from In and perform its Writer.Write (and more iterations) arbitrarily late,*)
(* interleaved with everything generation 2 does.                             *)
(*                                                                            *)
(*   store, slot   memory: store[s] is an array of B bytes; slot[g] is the     *)
(*                 array the Writer of generation g uses (NewWriter: fresh).   *)
(*   free          arrays handed back for reuse (only with the deviation)      *)
(*   wn, werr      Writer.n / Writer.err of generation g                       *)
(*   wire          bytes endpoint g received                                   *)
(*   up            endpoint g has not closed its connection                    *)
(*   alive         Conn.up                                                     *)
(*   conn          the relay loop's conn (0 = nil);  gens = connections made   *)
(*   In, accepted  Conn.In of generation g; lines that entered it, in order    *)
(*   hd, cur       HandleData of generation g: "none" | "select" | "line" (has *)
(*                 cur, before Write(line)) | "nl" (before Write("\n")) | "exit"*)
(*                                                                            *)
(* One Writer.Write / Flush call is one step (the loop inside is the one of    *)
(* BufWriter.tla with an underlying writer that takes everything while the     *)
(* endpoint is up; after Cut the first underlying write of a call may fail or  *)
(* be swallowed by the kernel).                                                *)
(*                                                                            *)
(* Property: for every generation the endpoint's stream followed by the bytes  *)
(* pending in that generation's Writer is a prefix of the lines that entered   *)
(* that generation's queue, in order, unbroken (PendingIntact, StreamsIntact); *)
(* once generation 2 is at rest its endpoint has exactly those lines (AtRest2).*)
(* Deviation buffer_shared_across_conns: clearRedo hands the io buffer back    *)
(* and NewWriter reuses it while the old generation's writer can still write.  *)
EXTENDS Integers, Sequences, FiniteSets, ConnStreamOps

CONSTANTS B,          \* iobuf
          Q,          \* connbuf (>= 1)
          N,          \* number of lines handed to the destination
          LineLens,
          Dev

VARIABLES store, slot, free, wn, werr, wire, up, alive, conn, gens,
          In, accepted, hd, cur, handed, lens, slow, noconn
vars == <<store, slot, free, wn, werr, wire, up, alive, conn, gens,
          In, accepted, hd, cur, handed, lens, slow, noconn>>

G == {1, 2}
MaxLineLen == CHOOSE m \in LineLens : \A x \in LineLens : x <= m
K == MaxLineLen + 2
Body(i) == [j \in 1 .. lens[i] |-> i * K + j]
Nl(i)   == i * K
Frame(i) == Body(i) \o <<Nl(i)>>
RECURSIVE Expected(_)
Expected(ids) == IF ids = <<>> THEN <<>> ELSE Frame(Head(ids)) \o Expected(Tail(ids))
IsPrefix(s, t) == Len(s) <= Len(t) /\ SubSeq(t, 1, Len(s)) = s

CopyAt(b, m, q) == [i \in 1 .. B |-> IF i > m /\ i <= m + Len(q) THEN q[i - m] ELSE b[i]]

\* Writer.Write(p) on w = [buf, n, err, out] (out = bytes given to the socket by this call);
\* fails: the first call of the underlying writer returns (0, error)
RECURSIVE WriteRes(_, _, _)
WriteRes(w, p, fails) ==
    IF Len(p) > B - w.n /\ w.err = ""
      THEN IF w.n = 0
             THEN IF fails THEN [w EXCEPT !.err = "E"]
                  ELSE WriteRes([w EXCEPT !.out = @ \o p], <<>>, fails)          \* large write, empty buffer
             ELSE LET c  == B - w.n
                      b1 == CopyAt(w.buf, w.n, SubSeq(p, 1, c))
                  IN IF fails THEN [w EXCEPT !.buf = b1, !.n = B, !.err = "E"]
                     ELSE WriteRes([buf |-> b1, n |-> 0, err |-> "", out |-> w.out \o SubSeq(b1, 1, B)],
                                   SubSeq(p, c + 1, Len(p)), fails)
      ELSE IF w.err # "" THEN w
      ELSE [w EXCEPT !.buf = CopyAt(w.buf, w.n, p), !.n = w.n + Len(p)]

Init ==
    /\ store = [s \in 1 .. 2 |-> [i \in 1 .. B |-> 0]]
    /\ slot = <<1, 0>> /\ free = {}
    /\ wn = <<0, 0>> /\ werr = <<"", "">> /\ wire = << <<>>, <<>> >>
    /\ up = <<TRUE, TRUE>> /\ alive = <<TRUE, FALSE>> /\ conn = 1 /\ gens = 1
    /\ In = << <<>>, <<>> >> /\ accepted = << <<>>, <<>> >>
    /\ hd = <<"select", "none">> /\ cur = <<0, 0>>
    /\ handed = 0 /\ lens = <<>> /\ slow = 0 /\ noconn = 0

\* relay: case buf := <-dest.In
Send(L) ==
    /\ handed < N
    /\ handed' = handed + 1 /\ lens' = Append(lens, L)
    /\ IF conn = 0
         THEN noconn' = noconn + 1 /\ UNCHANGED <<In, accepted, slow>>
         ELSE IF Len(In[conn]) < Q
                THEN /\ In' = [In EXCEPT ![conn] = Append(@, handed + 1)]
                     /\ accepted' = [accepted EXCEPT ![conn] = Append(@, handed + 1)]
                     /\ UNCHANGED <<slow, noconn>>
                ELSE slow' = slow + 1 /\ UNCHANGED <<In, accepted, noconn>>
    /\ UNCHANGED <<store, slot, free, wn, werr, wire, up, alive, conn, gens, hd, cur>>

HdRecv(g) ==
    /\ hd[g] = "select" /\ In[g] # <<>>
    /\ cur' = [cur EXCEPT ![g] = Head(In[g])] /\ In' = [In EXCEPT ![g] = Tail(@)]
    /\ hd' = [hd EXCEPT ![g] = "line"]
    /\ UNCHANGED <<store, slot, free, wn, werr, wire, up, alive, conn, gens, accepted, handed, lens, slow, noconn>>

Fails(g) == IF up[g] THEN {FALSE} ELSE {TRUE, FALSE}

HdWrite(g, fails) ==
    /\ hd[g] \in {"line", "nl"}
    /\ fails \in Fails(g)
    /\ LET p == IF hd[g] = "line" THEN Body(cur[g]) ELSE <<Nl(cur[g])>>
           r == WriteRes([buf |-> store[slot[g]], n |-> wn[g], err |-> werr[g], out |-> <<>>], p, fails)
       IN /\ store' = [store EXCEPT ![slot[g]] = r.buf]
          /\ wn' = [wn EXCEPT ![g] = r.n] /\ werr' = [werr EXCEPT ![g] = r.err]
          /\ wire' = IF up[g] THEN [wire EXCEPT ![g] = @ \o r.out] ELSE wire
          /\ hd' = [hd EXCEPT ![g] = IF r.err # "" THEN "exit" ELSE IF hd[g] = "line" THEN "nl" ELSE "select"]
          /\ alive' = IF r.err # "" THEN [alive EXCEPT ![g] = FALSE] ELSE alive
    /\ UNCHANGED <<slot, free, up, conn, gens, In, accepted, cur, handed, lens, slow, noconn>>

\* ticker flush / manual flush
HdFlush(g, fails) ==
    /\ hd[g] = "select" /\ wn[g] > 0 /\ werr[g] = ""
    /\ fails \in Fails(g)
    /\ IF fails
         THEN /\ werr' = [werr EXCEPT ![g] = "E"] /\ hd' = [hd EXCEPT ![g] = "exit"]
              /\ alive' = [alive EXCEPT ![g] = FALSE]
              /\ UNCHANGED <<wn, wire>>
         ELSE /\ wire' = IF up[g] THEN [wire EXCEPT ![g] = @ \o SubSeq(store[slot[g]], 1, wn[g])] ELSE wire
              /\ wn' = [wn EXCEPT ![g] = 0]
              /\ UNCHANGED <<werr, hd, alive>>
    /\ UNCHANGED <<store, slot, free, up, conn, gens, In, accepted, cur, handed, lens, slow, noconn>>

HdShutdown(g) ==
    /\ hd[g] = "select" /\ ~alive[g]
    /\ hd' = [hd EXCEPT ![g] = "exit"]
    /\ UNCHANGED <<store, slot, free, wn, werr, wire, up, alive, conn, gens, In, accepted, cur, handed, lens, slow, noconn>>

\* the endpoint closes the first connection
Cut ==
    /\ gens = 1 /\ up[1]
    /\ up' = [up EXCEPT ![1] = FALSE]
    /\ UNCHANGED <<store, slot, free, wn, werr, wire, alive, conn, gens, In, accepted, hd, cur, handed, lens, slow, noconn>>
CheckEOF ==
    /\ ~up[1] /\ alive[1]
    /\ alive' = [alive EXCEPT ![1] = FALSE]
    /\ UNCHANGED <<store, slot, free, wn, werr, wire, up, conn, gens, In, accepted, hd, cur, handed, lens, slow, noconn>>
\* relay loop: !conn.isAlive() -> conn.clearRedo(); conn = nil
RelayDead ==
    /\ conn # 0 /\ ~alive[conn]
    /\ conn' = 0
    /\ free' = IF Dev = "buffer_shared_across_conns" THEN free \cup {slot[conn]} ELSE free
    /\ UNCHANGED <<store, slot, wn, werr, wire, up, alive, gens, In, accepted, hd, cur, handed, lens, slow, noconn>>
\* updateConn -> NewConn -> NewWriter; conn = <-connUpdates
Reconnect ==
    /\ conn = 0 /\ gens = 1
    /\ LET s == IF free # {} THEN CHOOSE x \in free : TRUE ELSE 2
       IN slot' = [slot EXCEPT ![2] = s] /\ free' = free \ {s}
    /\ gens' = 2 /\ conn' = 2
    /\ hd' = [hd EXCEPT ![2] = "select"] /\ alive' = [alive EXCEPT ![2] = TRUE]
    /\ UNCHANGED <<store, wn, werr, wire, up, In, accepted, cur, handed, lens, slow, noconn>>

Next == \/ \E L \in LineLens : Send(L)
        \/ \E g \in G : \/ HdRecv(g) \/ HdShutdown(g)
                        \/ \E f \in BOOLEAN : HdWrite(g, f) \/ HdFlush(g, f)
        \/ Cut \/ CheckEOF \/ RelayDead \/ Reconnect
Spec == Init /\ [][Next]_vars

\* ------------------------------------------------------------- properties
TypeOK == /\ \A g \in G : wn[g] \in 0 .. B /\ Len(In[g]) <= Q
          /\ conn \in 0 .. 2 /\ gens \in 1 .. 2
PendingOf(g) == IF slot[g] = 0 THEN <<>> ELSE SubSeq(store[slot[g]], 1, wn[g])
\* what a healthy connection's endpoint has received, and what it will receive with the next flush,
\* are the lines handed to THAT connection, in order, unbroken
StreamsIntact == \A g \in G : IsPrefix(wire[g], Expected(accepted[g]))
PendingIntact == \A g \in G : (up[g] /\ werr[g] = "" /\ hd[g] \in {"select", "line"})
                                 => IsPrefix(wire[g] \o PendingOf(g), Expected(accepted[g]))
AtRest2 == (gens = 2 /\ handed = N /\ In[2] = <<>> /\ hd[2] = "select" /\ wn[2] = 0)
              => wire[2] = Expected(accepted[2])
Conservation == /\ handed = Len(accepted[1]) + Len(accepted[2]) + slow + noconn
                /\ Increasing(accepted[1], 0) /\ Increasing(accepted[2], 0)
Gen2NoError == werr[2] = ""
=============================================================================
