SPECIFICATION GSpec
INVARIANT Sane Emit
CHECK_DEADLOCK FALSE
