SPECIFICATION FairSpec
INVARIANTS TypeOK P1_Running P1_Drain P1_ConnOK P1_BeforeStop P2_Quiet P2_NoLate P2_Refuse P3_TimeoutOnlyIdle P4_NoExit P_Udp
PROPERTIES L2_StopTerminates L3_IdleClosed L4_Reopens L5_Served
CHECK_DEADLOCK FALSE
