------------------------------ MODULE Framing ------------------------------
(* C12 / C13 — input framing is independent of how the network chops the     *)
(* stream.  Level B: three reader state machines shaped after the Go code,    *)
(*   "scanner"  input/plain.go   bufio.Scanner + ScanLines, Dispatch per token *)
(*   "readline" input/amqp.go    bufio.Reader(Cap).ReadLine per delivery; the  *)
(*                               slices of a line that does not fit the buffer *)
(*                               (isPrefix) are put together again and the     *)
(*                               line is dispatched once, when its end is seen *)
(*                               (deviation "isprefix_ignored": the code as it *)
(*                               was pinned -- every slice dispatched by       *)
(*                               itself, so a line that fills the buffer       *)
(*                               exactly is followed by an empty one)          *)
(*   "frames"   input/pickle.go  4-byte length -> peek prefix -> chunk loop -> *)
(*                               decode/dispatch, per connection               *)
(* each consuming ANY segmentation of the stream (a read returns 1..all of the *)
(* remaining symbols; the last read may come together with EOF, or EOF comes   *)
(* alone; for the line readers a read timeout may strike at ANY point of the   *)
(* stream, together with a piece of data or alone, and the rest of the stream  *)
(* -- the tail -- is what the network would deliver to reads issued after the  *)
(* error).  TLC checks them against the level-A operators of FramingOps        *)
(* (Lines / Acceptable / AcceptableAt / Frames) for every stream of up to      *)
(* MaxLen symbols, every segmentation and every position of the error.         *)
EXTENDS FramingOps, TLC, Json

CONSTANTS MaxLen,    \* line readers: streams of 0..MaxLen symbols over {x, y, CR, LF}
          MaxLenF,   \* frame reader: streams of 0..MaxLenF symbols over {0, 1}
          Readers,   \* subset of {"scanner", "readline", "frames"}
          Caps,      \* buffer capacities in symbols (0 = unbounded); bufio.Reader size / max token size
          Mutants    \* {""} = the readers as specified; other members are named deviations, used
                     \* only to show that the invariants are not vacuous (Framing_nv.cfg)

VARIABLES Reader, Cap, Mutant,   \* chosen in the initial state, then fixed
          stream,    \* what the peer sends on this connection
          n,         \* symbols received so far (a prefix of stream)
          lo,        \* first received position not yet consumed by the reader
          out,       \* dispatched so far
          st,        \* "run" | "last" (terminating condition seen, buffer not yet drained) | "done";
                     \* "run2" | "last2": the same after the error, for a reader that reads on (deviation only)
          term,      \* the terminating condition (the first one: EOF, or the read error)
          cut,       \* symbols received when `term` came (meaningful once term # "none"); stream[cut+1..] is the tail
          phase,     \* frames: "hdr" | "peek" | "body"; when done: "end" | "error" | "any" | "toolong";
                     \* readline: "skip" while the deviation "drop_on_isprefix" discards the rest of a line
          need, acc  \* frames: payload symbols still missing / collected
vars == <<Reader, Cap, Mutant, stream, n, lo, out, st, term, cut, phase, need, acc>>
fixed == <<Reader, Cap, Mutant, stream>>

LStreams == UNION {[1..k -> Sym] : k \in 0..MaxLen}
FStreams == UNION {[1..k -> {0, 1}] : k \in 0..MaxLenF}

Init == /\ Reader \in Readers /\ Mutant \in Mutants
        /\ Cap \in (IF Reader = "frames" THEN {0} ELSE Caps)
        /\ stream \in (IF Reader = "frames" THEN FStreams ELSE LStreams)
        /\ n = 0 /\ lo = 1 /\ out = <<>> /\ st = "run" /\ term = "none" /\ cut = 0
        /\ phase = "hdr" /\ need = 0 /\ acc = <<>>

\* one read of the underlying connection: any non-empty piece of what is still to come; the piece
\* that completes the stream may arrive together with EOF, or EOF arrives alone afterwards; a read of
\* a line reader may fail with a timeout at any point (together with a piece or alone) -- what was
\* not yet received then is the tail.  After the error (st = "run2", only a reader that reads on
\* gets there) the reads deliver the tail, then EOF (TimeoutConn re-arms the deadline per Read).
DataTerms(m)  == IF Reader = "frames" THEN (IF m = Len(stream) THEN {"dataeof"} ELSE {})
                 ELSE (IF m = Len(stream) THEN {"dataeof"} ELSE {}) \cup {"datatimeout"}
AloneTerms(m) == IF Reader = "frames" THEN (IF m = Len(stream) THEN {"eof"} ELSE {})
                 ELSE (IF m = Len(stream) THEN {"eof"} ELSE {}) \cup {"timeout"}
Read == \/ /\ st = "run"
           /\ \/ \E k \in 1..(Len(stream) - n) :
                   /\ n' = n + k
                   /\ \E t \in DataTerms(n + k) \cup {"none"} :
                        /\ term' = t
                        /\ st' = IF t = "none" THEN "run" ELSE "last"
                        /\ cut' = IF t = "none" THEN cut ELSE n + k
              \/ /\ n' = n
                 /\ \E t \in AloneTerms(n) : term' = t /\ st' = "last" /\ cut' = n
        \/ /\ st = "run2" /\ UNCHANGED <<term, cut>>
           /\ \/ \E k \in 1..(Len(stream) - n) :
                   /\ n' = n + k
                   /\ st' \in (IF n + k = Len(stream) THEN {"run2", "last2"} ELSE {"run2"})
              \/ n = Len(stream) /\ n' = n /\ st' = "last2"

Avail == n - lo + 1

------------------------------------------------------------------------------
\* line readers
IsT(c)  == c = "LF" \/ (Mutant = "split_on_cr" /\ c = "CR")
HasT(hi) == \E i \in lo..hi : IsT(stream[i])
FirstT(hi) == CHOOSE i \in lo..hi : IsT(stream[i]) /\ \A j \in lo..(i - 1) : ~IsT(stream[j])

\* bufio.Scanner: emit every complete token of the buffer, read only when there is none, at the
\* terminating condition (EOF or any read error) emit what is left
ScEmit == /\ st # "done" /\ HasT(n)
          /\ LET p == FirstT(n)  tok == DropCR(stream, lo, p - 1) IN
               /\ out' = out \o (IF Mutant = "dup" /\ p = n THEN <<tok, tok>> ELSE <<tok>>)
               /\ lo' = p + 1
          /\ UNCHANGED <<fixed, n, st, term, cut, phase, need, acc>>
ScTooLong == /\ st # "done" /\ ~HasT(n) /\ Cap > 0 /\ Avail >= Cap
             /\ st' = "done" /\ phase' = "toolong"
             /\ UNCHANGED <<fixed, n, lo, out, term, cut, need, acc>>
ScRead == /\ ~HasT(n) /\ (Cap = 0 \/ Avail < Cap) /\ Read
          /\ IF Mutant = "partial_at_refill" /\ lo <= n
             THEN out' = Append(out, <<lo, n>>) /\ lo' = n + 1
             ELSE UNCHANGED <<out, lo>>
          /\ UNCHANGED <<fixed, phase, need, acc>>
\* the terminating condition ends the loop: the handler returns, nothing is read any more.  The
\* deviation "read_on_after_error" (shaped after a ReadLine loop that drops the error which came
\* with a partial line): the partial line is dispatched and the loop goes on reading
ReadsOn == Mutant = "read_on_after_error" /\ st = "last" /\ term \in TimeoutTerms /\ lo <= n
Finish == IF ReadsOn THEN st' = "run2" /\ phase' = phase ELSE st' = "done" /\ phase' = "end"
ScFinal == /\ st \in {"last", "last2"} /\ ~HasT(n) /\ (Cap = 0 \/ Avail < Cap)
           /\ out' = IF lo <= n /\ Mutant # "drop_last" THEN Append(out, DropCR(stream, lo, n)) ELSE out
           /\ lo' = n + 1 /\ Finish
           /\ UNCHANGED <<fixed, n, term, cut, need, acc>>
ScNext == ScEmit \/ ScTooLong \/ ScRead \/ ScFinal

\* bufio.Reader(Cap).ReadLine in a loop.  RlFull is ReadLine returning isPrefix = true: the buffer holds Cap
\* symbols and no LF; a CR in the last place is put back (it may be the first half of a CRLF).  The slice is kept
\* (need = where the line being put together starts, 0 = no line in progress) and the line is dispatched as a whole
\* when the slice with isPrefix = false arrives (RlEmit) or the body ends (RlFinal).
\* Deviation "isprefix_ignored" (the pinned code): every slice is dispatched by itself -- a line of exactly Cap
\* symbols (or Cap - 1 and CRLF) still comes out whole, but the next call returns its bare terminator as an empty
\* slice, which is dispatched too.
\* Deviation "drop_on_isprefix" takes isPrefix = true to mean "line longer than Cap": that slice and the rest of
\* the line up to its LF are discarded (phase = "skip"), nothing is dispatched for it.
Win == IF Cap = 0 \/ lo + Cap - 1 > n THEN n ELSE lo + Cap - 1       \* the part of the input the buffer holds
Skipping == phase = "skip"
Joins == Mutant \notin {"isprefix_ignored", "drop_on_isprefix"}
LineStart == IF need > 0 THEN need ELSE lo
RlEmit == /\ st # "done" /\ HasT(Win)
          /\ LET p == FirstT(Win) IN
               /\ out' = IF Skipping THEN out ELSE Append(out, DropCR(stream, LineStart, p - 1))
               /\ lo' = p + 1
          /\ phase' = "hdr" /\ need' = 0
          /\ UNCHANGED <<fixed, n, st, term, cut, acc>>
RlFull == /\ st # "done" /\ Cap > 0 /\ Avail >= Cap /\ ~HasT(Win)
          /\ LET b == lo + Cap - 1
                 e == IF stream[b] = "CR" /\ Cap > 1 THEN b - 1 ELSE b        \* the CR is put back
             IN  /\ out' = IF Mutant = "isprefix_ignored" /\ ~Skipping THEN Append(out, <<lo, e>>) ELSE out
                 /\ need' = IF Joins /\ need = 0 THEN lo ELSE need
                 /\ lo' = e + 1
          /\ phase' = IF Mutant = "drop_on_isprefix" THEN "skip" ELSE phase
          /\ UNCHANGED <<fixed, n, st, term, cut, acc>>
RlRead == /\ ~HasT(Win) /\ (Cap = 0 \/ Avail < Cap) /\ Read
          /\ UNCHANGED <<fixed, lo, out, phase, need, acc>>
RlFinal == /\ st \in {"last", "last2"} /\ ~HasT(Win) /\ (Cap = 0 \/ Avail < Cap)
           /\ out' = IF LineStart <= n /\ ~Skipping THEN Append(out, <<LineStart, n>>) ELSE out       \* no CR stripping without LF
           /\ lo' = n + 1 /\ need' = 0 /\ Finish
           /\ UNCHANGED <<fixed, n, term, cut, acc>>
RlNext == RlEmit \/ RlFull \/ RlRead \/ RlFinal

------------------------------------------------------------------------------
\* pickle frame loop
Done(ph) == st' = "done" /\ phase' = ph /\ UNCHANGED <<fixed, n, lo, out, term, cut, need, acc>>
FHdr == /\ phase = "hdr" /\ st # "done"
        /\ IF Avail >= 2
           THEN IF FLen(stream, lo) = 0 THEN Done("any")
                ELSE /\ lo' = lo + 2 /\ need' = FLen(stream, lo) /\ phase' = "peek" /\ acc' = <<>>
                     /\ UNCHANGED <<fixed, n, out, st, term, cut>>
           ELSE IF st = "last"
                THEN Done(IF Avail = 0 \/ Mutant = "hdr_eof_clean" THEN "end" ELSE "error")
                ELSE Read /\ UNCHANGED <<fixed, lo, out, phase, need, acc>>
FPeek == /\ phase = "peek" /\ st # "done"
         /\ IF Avail >= 1
            THEN IF stream[lo] = 0 /\ Mutant # "prefix_any" THEN Done("error")
                 ELSE phase' = "body" /\ UNCHANGED <<fixed, n, lo, out, st, term, cut, need, acc>>
            ELSE IF st = "last" THEN Done("error")
                 ELSE Read /\ UNCHANGED <<fixed, lo, out, phase, need, acc>>
FBody == /\ phase = "body" /\ st # "done"
         /\ IF Avail >= 1
            THEN LET k == IF Avail < need THEN Avail ELSE need
                     chunk == [j \in 1..k |-> lo + j - 1]
                     acc2 == IF Mutant = "lose_at_cut" THEN chunk ELSE acc \o chunk
                 IN /\ lo' = lo + k /\ need' = need - k
                    /\ IF need = k
                       THEN out' = Append(out, acc2) /\ acc' = <<>> /\ phase' = "hdr"
                       ELSE acc' = acc2 /\ UNCHANGED <<out, phase>>
                    /\ UNCHANGED <<fixed, n, st, term, cut>>
            ELSE IF st = "last" THEN Done("error")
                 ELSE Read /\ UNCHANGED <<fixed, lo, out, phase, need, acc>>
FNext == FHdr \/ FPeek \/ FBody

Next == (Reader = "scanner" /\ ScNext) \/ (Reader = "readline" /\ RlNext) \/ (Reader = "frames" /\ FNext)
Spec == Init /\ [][Next]_vars

------------------------------------------------------------------------------
\* properties
\* the supported limits.  scanner: a line INCLUDING its terminator fits the token buffer (MaxLine);
\* readline: the CONTENT of every line is at most Cap symbols (MaxNeed; FramingOps: a line that fills
\* the buffer exactly is still within the limit -- "lines up to 4 KiB are processed whole")
\* (the reader puts the slices of a line together again: within the limit it owes exactly the lines -- ACap = 0;
\* the C-variants of FramingOps describe what the pinned reader, which dispatched every slice by itself, could do,
\* and PinnedBody keeps that analysis checked)
ACap == IF Reader = "readline" /\ Mutant = "isprefix_ignored" THEN Cap ELSE 0
InLimit == \/ Cap = 0 \/ Mutant = "claim_unlimited"
           \/ IF Reader = "readline" THEN MaxNeed(stream) <= Cap ELSE MaxLine(stream) <= Cap

\* C12: at the end exactly the lines of what was received when the terminating condition came, in
\* order, once each, and nothing of the tail (AcceptableAt: or else the lines of the whole stream);
\* before the end never anything but complete lines (a metric split across reads -- or across a
\* read error -- is never dispatched in pieces).  For the bounded ReadLine reader the C-variants:
\* a line that fills the buffer exactly is dispatched whole and once, possibly before its terminator
\* was seen, and possibly followed by one empty line (ACap = 0: exactly AcceptableAt / Terminated)
LineBody == (Reader # "frames" /\ InLimit) =>
            /\ st = "done" => out \in (IF ACap = 0 THEN AcceptableAt(stream, cut, term)
                                                   ELSE AcceptableAtC(stream, cut, term, ACap))
            /\ st # "done" => IF ACap = 0 THEN IsPrefixOf(out, Terminated(SubSeq(stream, 1, n), 1, 1))
                                          ELSE DuringOK(out, stream, n, ACap)

\* C13 (framing part): exactly the complete well-formed frames before the first malformed one,
\* payloads intact; clean end only at a frame boundary, error otherwise
FrameBody == Reader = "frames" =>
            /\ IsPrefixOf(out, Frames(SubSeq(stream, 1, n)).out)
            /\ st = "done" => LET f == Frames(stream) IN
                                IF f.status = "any" THEN IsPrefixOf(f.out, out) /\ phase = "any"
                                ELSE out = f.out /\ phase = f.status

\* the reader models stop at the terminating condition: once a read returned EOF or an error nothing
\* more is received, and nothing of the tail is ever dispatched
StopsAtError == (Mutant = "" /\ term # "none") =>
                /\ n = cut /\ st \in {"last", "done"}
                /\ \A i \in 1..Len(out) : Reader # "frames" => out[i][2] <= cut

LineOK  == Mutant = "" => LineBody
PinnedBody == Mutant = "isprefix_ignored" => LineBody       \* the pinned reader met the relaxed statement, not the exact one
ExactBody == (Reader # "frames" /\ InLimit) =>
            /\ st = "done" => out \in AcceptableAt(stream, cut, term)
            /\ st # "done" => IsPrefixOf(out, Terminated(SubSeq(stream, 1, n), 1, 1))
FrameOK == Mutant = "" => FrameBody

\* non-vacuity (Framing_nv.cfg): every named deviation must break LineBody or FrameBody somewhere;
\* register 10+i remembers that deviation i was caught, the postcondition demands all of them
MutList == <<"partial_at_refill", "split_on_cr", "drop_last", "dup", "claim_unlimited",
             "lose_at_cut", "prefix_any", "hdr_eof_clean", "read_on_after_error", "drop_on_isprefix", "isprefix_ignored">>
MutIdx(m) == CHOOSE i \in 1..Len(MutList) : MutList[i] = m
ASSUME \A i \in 1..Len(MutList) : TLCSet(10 + i, 0)
\* without a bound the C-variants are the plain operators
ASSUME \A s \in UNION {[1..k -> Sym] : k \in 0..3} : \A t \in Terms :
          /\ AcceptableC(s, t, 0) = Acceptable(s, t)
          /\ TerminatedC(s, 1, 1, 0) = {Terminated(s, 1, 1)}
          /\ \A e \in 0..Len(s) : AcceptableAtC(s, e, t, 0) = AcceptableAt(s, e, t)
\* "read_on_after_error" counts as caught only where the finished connection's dispatch list is one
\* of ReadOn (the lists the case generators name for that deviation) and AcceptableAt rejects it
NoteCaught == (/\ Mutant # "" /\ ~((IF Mutant = "isprefix_ignored" THEN ExactBody ELSE LineBody) /\ FrameBody)
               /\ Mutant = "read_on_after_error" => st = "done" /\ out \in ReadOn(stream, cut))
              => TLCSet(10 + MutIdx(Mutant), 1)
AllCaught == /\ PrintT("@@NV " \o ToJson([caught |-> {m \in Mutants \ {""} : TLCGet(10 + MutIdx(m)) = 1}]))
             /\ \A m \in Mutants \ {""} : TLCGet(10 + MutIdx(m)) = 1

\* every connection is eventually finished by its terminating condition (no reader gets stuck)
Finishes == <>(st = "done")
FairSpec == Spec /\ WF_vars(Next)
=============================================================================
