---------------------------- MODULE ListenerOps ----------------------------
(* XLISTEN -- the lifecycle of the network inputs (input/listen.go,          *)
(* input/timeout_conn.go, input/manager).  Level A: what may be claimed      *)
(* about one connection of a listener, as pure operators on top of           *)
(* FramingOps (the C12 statement of what the lines of a stream are and which *)
(* dispatch lists a reader may have produced when the stream ended).  Shared *)
(* by Listener.tla (level B: the goroutines of the listener, model-checked)  *)
(* and ListenerTrace.tla (events recorded from the real listener).           *)
(*                                                                           *)
(* A connection carries the symbol stream s (FramingOps.Sym); e symbols of   *)
(* it were returned by reads of the handler; the handler's read loop ended   *)
(* with condition t:                                                         *)
(*   "eof"      the peer closed and everything it sent was read              *)
(*   "timeout"  the read deadline (re-armed on every Read) passed            *)
(*   "closed"   the read failed because the relay closed the socket (Stop)   *)
EXTENDS FramingOps

HTerms == {"eof", "timeout", "closed"}

\* the FramingOps terminal condition that governs the partial last line: a read that failed
\* because of shutdown is a read error like the timeout (the partial line may or may not be
\* dispatched; everything terminated must be)
FTerm(t) == IF t = "eof" THEN "eof" ELSE "timeout"

\* (1) when the handler has returned: every line received was dispatched exactly once, whole, in
\* order, and nothing else (the open partial line as Framing's terminal conditions allow)
ConnOK(s, e, t, out) == out \in Acceptable(Prefix(s, e), FTerm(t))

\* while the read loop is running: dispatched = a prefix of the terminated lines received so far
RunOK(s, e, out) == IsPrefixOf(out, Terminated(Prefix(s, e), 1, 1))

\* after the read loop ended (terminal condition seen) and before the handler returned
DrainOK(s, e, t, out) == \E a \in Acceptable(Prefix(s, e), FTerm(t)) : IsPrefixOf(out, a)

\* (1) as the property reads: the lines that had been received (e0 symbols) when Stop began are
\* all in the final dispatch list
ReceivedBeforeStopDispatched(s, e0, out) == IsPrefixOf(Terminated(Prefix(s, e0), 1, 1), out)

\* the item a handler may dispatch next, given what it has dispatched so far: the next terminated
\* line, or -- once the terminal condition was seen and all terminated lines are out -- the open
\* partial line (with or without its trailing CR), after which nothing more
NextItems(s, e, t, out) ==
    LET T == Terminated(Prefix(s, e), 1, 1)
        a == LastStart(Prefix(s, e))
    IN  IF Len(out) < Len(T) THEN {T[Len(out) + 1]}
        ELSE IF Len(out) = Len(T) /\ t # "none" /\ a <= e THEN {DropCR(Prefix(s, e), a, e), <<a, e>>}
        ELSE {}

StrictlyIncreasing(q) == \A i \in 1..(Len(q) - 1) : q[i] < q[i + 1]
=============================================================================
