-------------------------------- MODULE Admin --------------------------------
(* C14 - reference state machine of the admin port / configuration.          *)
(* Every step applies one command of the command space (AdminOps!Commands)   *)
(* to the abstract table; the result is "rej" (table unchanged) or "acc".    *)
(* There is no other outcome: panic / exit is not in the range of any action.*)
(* A command that cannot work (MustReject) is never accepted, everything     *)
(* else may be accepted or rejected (C14 does not say which).                *)
(* Invariant: SafeTable - every accepted table can work.                     *)
(* Deviation (a constant) removes one validation; used to show that the      *)
(* invariant is not vacuous.                                                 *)
EXTENDS AdminOps, TLC

CONSTANTS MaxCmds,      \* commands per history
          MaxRoutes, MaxAggs,
          Deviation     \* "none" or the name of a validation that is dropped

VARIABLES table, ncmd, last
vars == <<table, ncmd, last>>

Dropped(c, t) ==
    CASE Deviation = "zero_interval" -> c.op = "addAgg" /\ c.opt = "interval"
      [] Deviation = "no_regex"      -> c.op = "addAgg" /\ c.opt = "regex"
      [] Deviation = "zero_flush"    -> c.op = "addRoute" /\ c.opt = "flush"
      [] Deviation = "zero_reconn"   -> c.op = "addRoute" /\ c.opt = "reconn"
      [] Deviation = "zero_iobuf"    -> c.op = "addRoute" /\ c.opt = "iobuf"
      [] Deviation = "zero_syncperiod" -> c.op = "addRoute" /\ c.opt = "spoolsyncperiod"
      [] Deviation = "zero_concurrency" -> c.op = "addGnet" /\ c.opt = "concurrency"
      [] Deviation = "neg_bufsize"   -> c.op = "addGnet" /\ c.opt = "bufSize"
      [] Deviation = "ch_empty"      -> c.op = "delDest"
      [] Deviation = "gnet_addr"     -> c.op = "addGnet" /\ c.opt = "addr"
      [] Deviation = "tiny_maxage"   -> c.op = "config" /\ c.opt = "bad_metrics_max_age"
      [] OTHER -> FALSE

Results(c, t) == IF MustReject(c, t) /\ ~Dropped(c, t) THEN {"rej"} ELSE {"acc", "rej"}

Init == table = EmptyTable /\ ncmd = 0 /\ last = "none"

Apply(c) ==
    /\ ncmd < MaxCmds
    /\ (FirstOnly(c) => ncmd = 0)
    /\ (c.op \in {"addRoute", "addGnet"} => Len(table.routes) < MaxRoutes)
    /\ (c.op = "addAgg" => Len(table.aggs) < MaxAggs)
    /\ \E res \in Results(c, table) :
          /\ table' = IF res = "acc" THEN Do(c, table) ELSE table
          /\ last' = res
    /\ ncmd' = ncmd + 1

Next == \E c \in Commands : Apply(c)
Spec == Init /\ [][Next]_vars

Safe == SafeTable(table)
\* rejection leaves the table unchanged (action property)
RejectKeeps == [][last' = "rej" => table' = table]_vars
TypeOK == /\ ncmd \in 0..MaxCmds /\ last \in {"none", "acc", "rej"}
          /\ table.nb \in 0..MaxCmds /\ table.nw \in 0..MaxCmds
          /\ Len(table.routes) <= MaxRoutes /\ Len(table.aggs) <= MaxAggs
=============================================================================
