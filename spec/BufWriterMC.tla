---------------------------- MODULE BufWriterMC ----------------------------
(* Exhaustive model of destination.Writer used by one goroutine: any sequence *)
(* of Write(p) (|p| in Lens) and Flush() calls, every answer of the           *)
(* underlying writer (at most MaxFaults of them faulty).  Bytes are numbered  *)
(* in the order in which they are offered, so "accepted in order" reads       *)
(* acc = <<1, 2, 3, ...>>.                                                    *)
EXTENDS BufWriter

CONSTANTS Lens,        \* set of argument lengths
          MaxCalls,    \* number of API calls
          MaxFaults

VARIABLE calls
mcvars == <<bwvars, calls>>

NewP(L) == [i \in 1 .. L |-> Len(acc) + i]

MCInit == BWInit(MaxFaults) /\ calls = 0
MCWrite(L) == calls < MaxCalls /\ CallWrite(NewP(L)) /\ calls' = calls + 1
MCIter(o)  == WIter(o) /\ UNCHANGED calls
MCRet      == WRet /\ UNCHANGED calls
MCFlush(o) == calls < MaxCalls /\ DoFlush(o) /\ calls' = calls + 1

MCNext == \/ \E L \in Lens : MCWrite(L)
          \/ (pc = "write" /\ LoopCond /\ \E o \in IterOutcomes : MCIter(o))
          \/ (pc = "idle" /\ \E o \in FlushOutcomes : MCFlush(o))
          \/ MCRet
MCSpec == MCInit /\ [][MCNext]_mcvars

\* bytes are offered in numbering order, so the accepted sequence is 1..Len(acc)
AccIsIota == acc = [i \in 1 .. Len(acc) |-> i]
StickyMC == [][err # "" => (wire' = wire /\ err' = err)]_mcvars
=============================================================================
