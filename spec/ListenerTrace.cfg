SPECIFICATION TSpec
CONSTRAINT HighWater
INVARIANT RunInv
POSTCONDITION Post
CHECK_DEADLOCK FALSE
