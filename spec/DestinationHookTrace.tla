----------------------- MODULE DestinationHookTrace -----------------------
(* Level-B conformance of destination/*.go with Destination.tla.                                *)
(*                                                                                              *)
(* The verifEvent hooks of the real destination (relay loop, nonBlockingSend / Spool, HandleData,*)
(* close, getRedo / collectRedo, Spool.Writer / Buffer) and the driver's endpoint operations are *)
(* recorded in ONE log (one mutex, one global sequence number).  This module decides whether     *)
(* that log is a behaviour of Destination.tla: every event is the model action it reports, with  *)
(* the model's line, connection, outcome and flags; model actions that have no hook are silent   *)
(* steps, enabled only where the next event of some goroutine needs them (bounded).              *)
(*                                                                                              *)
(* ORDER.  A hook fires after the state change it reports, and different goroutines log          *)
(* independently: the log order of two events of different goroutines need not be the order of   *)
(* their effects (relay's send.ok may be logged after the writer's hd.recv of the same line).    *)
(* What is certain: an event took effect after the previous hook of its own goroutine returned   *)
(* (lo = that hook's sequence number; for a driver operation: the number at which it began) and  *)
(* not later than its own hook (hi = its own number).  So the log is split per goroutine; each   *)
(* goroutine's events are consumed in order; TLC chooses the merge; the only cross-goroutine     *)
(* constraint is the interval order:  hi(f) < lo(e)  =>  f is consumed before e.                 *)
(* Steps of the model that are one atomic action but several hooks (loop head + dead; receive +  *)
(* send outcome; failed write + close + exit) are one event with lo of the first and hi of the   *)
(* last hook.                                                                                   *)
(*                                                                                              *)
(* Input: trace.ndjson, one line per goroutine: [role, k (connection), evs (sequence of records *)
(* with the same fields)]; lines 1..4 = relay, driver, spool-writer, spool-buffer.               *)
EXTENDS Destination, Json, TLCExt, IOUtils

TLog == ndJsonDeserialize("trace.ndjson")
NG == Len(TLog)
G == 1..NG
RelayG == 1
DriverG == 2
SpoolWG == 3
SpoolBG == 4
WriterGs == {g \in G : TLog[g].role = "writer"}
EofGs == {g \in G : TLog[g].role = "eof"}
RedoGs == {g \in G : TLog[g].role = "redo"}

VARIABLE pos            \* pos[g] = index of the next event of goroutine g

tvars == <<pos, vars>>

ASSUME TLCSet(1, 0) /\ TLCSet(2, <<>>)

Pend(g) == pos[g] <= Len(TLog[g].evs)
Ev(g) == TLog[g].evs[pos[g]]
Kof(g) == TLog[g].k
\* interval order: every pending event of another goroutine may still come later
Can(g) == /\ Pend(g)
          /\ \A h \in G : (h # g /\ Pend(h)) => Ev(h).hi > Ev(g).lo
Take(g) == pos' = [pos EXCEPT ![g] = @ + 1]
NextIs(g, name) == Pend(g) /\ Ev(g).ev = name
Skip == UNCHANGED vars

-----------------------------------------------------------------------------
(* environment steps that are forced as soon as they are possible (they never disable anything): *)
(* a reading endpoint reads what has reached its socket; a cut closes every accepted connection   *)
CanRead(k) == sock[k] = "open" /\ kern[k] # <<>> /\ mode \in {"slow", "healthy", "closing"}
CanCut(k) == mode = "closing" /\ sock[k] = "open"
Urgent == \E k \in K : CanRead(k) \/ CanCut(k)

SEpRead == \E k \in K : EpRead(k) /\ UNCHANGED pos
SEpCut  == \E k \in K : ~CanRead(k) /\ EpCloseSock(k) /\ UNCHANGED pos

-----------------------------------------------------------------------------
(* relay goroutine *)
ObsOut == IF cin' # cin THEN "send.ok"
          ELSE IF nSlowConn' # nSlowConn THEN "send.drop"
          ELSE IF inrt' # inrt THEN "spool.ok"
          ELSE IF nSlowSpool' # nSlowSpool THEN "spool.drop"
          ELSE IF nDownNoSpool' # nDownNoSpool THEN "drop.noconn" ELSE "none"

\* the connection named by the send.ok / send.drop hook is the relay's current connection
SentTo(e) == e.out \in {"send.ok", "send.drop"} => e.oconn = conn

TRelay == LET e == Ev(RelayG) IN
  /\ Can(RelayG) /\ Take(RelayG)
  /\ \/ /\ e.ev = "relay.top"
        /\ e.conn = conn /\ e.dead = (conn # 0 /\ ~alive[conn])
        /\ e.sn = slowNow /\ e.sl = slowLast          \* dest.SlowNow / dest.SlowLastLoop, read at the loop head
        /\ RelayTop
     \/ /\ e.ev = "relay.in"
        /\ e.conn = conn /\ e.id = next /\ SentTo(e)
        /\ RelayIn /\ ObsOut = e.out
     \/ /\ e.ev = "relay.unspool"
        /\ e.conn = conn /\ e.id = slow /\ e.sn = slowNow /\ e.sl = slowLast
        /\ SentTo(e) /\ RelayUnspool /\ ObsOut = e.out
     \/ /\ e.ev = "relay.tick"
        /\ e.conn = conn /\ e.ncu = numCU
        /\ RelayTick /\ e.spawn = (ctor' # ctor)
     \/ /\ e.ev = "relay.inConnUpdate"
        /\ e.conn = conn /\ e.b = (ctor = "ann")
        /\ RelayInConn
     \/ /\ e.ev = "relay.connUpdate"
        /\ e.conn = newconn
        /\ RelayConnUpdate

\* the route's hand-off has no hook: the sender is waiting when the relay takes a line from dest.In
SSender == NextIs(RelayG, "relay.in") /\ rpc = "sel" /\ SenderOffer /\ UNCHANGED pos
\* updateConn's dial has no hook (its outcome shows in the relay's next connector event)
SDial == Dial /\ UNCHANGED pos
\* the SlowChan goroutine has no hook: it holds a line when the relay takes one from toUnspool
SSlowRead == NextIs(RelayG, "relay.unspool") /\ rpc = "sel" /\ SlowRead /\ UNCHANGED pos

-----------------------------------------------------------------------------
(* connection writer (HandleData) of connection k *)
KsObs(k, e) == Len(ksOld[k]) = e.old /\ Len(ksNew[k]) = e.new

TWriter(g) == LET k == Kof(g)  e == Ev(g) IN
  /\ Can(g) /\ Take(g) /\ k <= nconn
  /\ \/ e.ev = "hd.recv" /\ HdRecv(k) /\ hdl'[k] = e.id
     \/ e.ev = "hd.added" /\ hdl[k] = e.id /\ HdAdd(k)
     \/ e.ev = "ks.obs" /\ KsObs(k, e) /\ Skip
     \/ e.ev = "hd.written" /\ hdl[k] = e.id /\ HdWrite(k)
     \/ e.ev = "hd.flush" /\ hd[k] = "idle" /\ (IF wbuf[k] = <<>> THEN Skip ELSE HdFlushOK(k))
     \* a Write fails only when it has to flush (the line does not fit); a tick flush fails with whatever is buffered
     \/ e.ev = "hd.fail" /\ (IF e.src = "write" THEN hd[k] = "added" /\ Len(wbuf[k]) = IOB ELSE hd[k] = "idle") /\ HdFlushErr(k)
     \/ e.ev = "hd.shutdown" /\ HdExit(k)

\* Write flushes the io buffer first when the line does not fit (no hook inside Write)
SFlushFull == \E g \in WriterGs : LET k == Kof(g) IN
  /\ NextIs(g, "hd.written")
  /\ k <= nconn /\ hd[k] = "added" /\ Len(wbuf[k]) = IOB
  /\ HdFlushOK(k) /\ UNCHANGED pos

\* keepSafe rotation has no hook; the sizes of its two generations are observed at hd.added / redo.start / redo.drain
SKsRotate == \E g \in WriterGs \cup RedoGs : LET k == Kof(g) IN
  /\ Pend(g) /\ Ev(g).ev \in {"hd.added", "ks.obs", "redo.drain", "redo.getall"}
  /\ (Ev(g).ev = "ks.obs" => ~KsObs(k, Ev(g)))
  /\ KsRotate(k) /\ UNCHANGED pos

(* checkEOF of connection k: Read returned -> close().  A second close() of a connection that is *)
(* already down changes nothing in the model (alive, shutdown token, socket already closed).     *)
TEof(g) == LET k == Kof(g)  e == Ev(g) IN
  /\ Can(g) /\ Take(g) /\ k <= nconn
  /\ e.ev = "eof.close"
  /\ IF alive[k] THEN CheckEOF(k) ELSE Skip

(* redo collector of connection k *)
TRedo(g) == LET k == Kof(g)  e == Ev(g) IN
  /\ Can(g) /\ Take(g) /\ k <= nconn
  /\ \/ e.ev = "redo.start" /\ redo[k] = "drain" /\ Skip
     \/ e.ev = "ks.obs" /\ KsObs(k, e) /\ Skip
     \/ e.ev = "redo.drain" /\ cin[k] # <<>> /\ Head(cin[k]) = e.id /\ RedoDrain(k)
     \/ e.ev = "redo.getall" /\ RedoGetAll(k) /\ (e.n >= 0 => Len(redolist'[k]) = e.n)
     \/ e.ev = "redo.ingested" /\ redolist[k] = <<>> /\ RedoIngest(k)

-----------------------------------------------------------------------------
(* spool *)
TSpoolW == LET e == Ev(SpoolWG) IN
  /\ Can(SpoolWG) /\ Take(SpoolWG)
  /\ \/ e.ev = "spool.rt" /\ inrt # <<>> /\ Head(inrt) = e.id /\ SpoolRT
     \/ e.ev = "spool.bulk" /\ \E k \in K : /\ redo[k] = "ingest" /\ redolist[k] # <<>> /\ Head(redolist[k]) = e.id
                                              /\ RedoIngest(k)
TSpoolB == LET e == Ev(SpoolBG) IN
  /\ Can(SpoolBG) /\ Take(SpoolBG)
  /\ e.ev = "spool.put" /\ sbuf # <<>> /\ Head(sbuf) = e.id /\ SpoolPut

(* the driver's endpoint *)
TDriver == LET e == Ev(DriverG) IN
  /\ Can(DriverG) /\ Take(DriverG)
  /\ e.ev \in {"ep.up", "ep.down", "ep.pause", "ep.resume", "ep.closing", "ep.closed"}
  /\ EpChange(e.mode)

-----------------------------------------------------------------------------
TInit == Init /\ pos = [g \in G |-> 1]

TNext == \/ SEpRead
         \/ SEpCut
         \/ /\ ~Urgent
            /\ \/ TRelay \/ SSender \/ SDial \/ SSlowRead
               \/ (\E g \in WriterGs : TWriter(g)) \/ SFlushFull \/ SKsRotate
               \/ (\E g \in EofGs : TEof(g))
               \/ (\E g \in RedoGs : TRedo(g))
               \/ TSpoolW \/ TSpoolB \/ TDriver

TSpec == TInit /\ [][TNext]_tvars

RECURSIVE SumPos(_)
SumPos(g) == IF g = 0 THEN 0 ELSE (pos[g] - 1) + SumPos(g - 1)
Consumed == SumPos(NG)

HighWater == IF Consumed > TLCGet(1) THEN TLCSet(1, Consumed) /\ TLCSet(2, pos) ELSE TRUE
Post == PrintT("@@TRACE " \o ToJson([matched |-> TLCGet(1), pos |-> TLCGet(2)]))
\* the model's own invariants on the states of the real execution: the type invariant in every state, the
\* accounting invariants of C06/C07 (no handed line is nowhere unless a drop was counted) at every 32nd event
\* (without spool the lines queued for a connection that died are dropped uncounted by design: only the steady-state form)
TInv == TypeOK /\ (Consumed % 32 = 0 => Conservation_steady /\ (Spool => Conservation))
=============================================================================
