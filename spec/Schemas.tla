------------------------------ MODULE Schemas ------------------------------
(* C16 -- re-encoding a line for pickle, grafana.net or Kafka preserves the   *)
(* datapoint.  Decision specification:                                        *)
(*                                                                            *)
(*  * storage-schemas rules <<priority, file position, pattern, retentions>>; *)
(*    the priority attribute is Absent (no `priority = N` line in the section)*)
(*    or a natural number written out, INCLUDING an explicit 0; an absent     *)
(*    priority IS priority 0 (Graphite/carbon: "priority ... defaults to 0";  *)
(*    persister/whisper_schema.go: p := 0 unless the section has the key);    *)
(*    rule order = priority descending, then file order -- absent and         *)
(*    explicit 0 are the same priority, so only file order separates them     *)
(*    (persister/whisper_schema.go sorts on priority<<32 - position);         *)
(*  * Select(rules, s) = the first rule in that order whose pattern matches   *)
(*    the series name AS GRAPHITE PRESENTS IT: the bare name for an untagged  *)
(*    series, name;tag1=v1;tag2=v2 with the tags sorted for a tagged one;     *)
(*  * MetricData(line, org) = [name = text before the first ';', tags sorted, *)
(*    value, time, org id, interval = first retention of the selected rule];  *)
(*  * lines that cannot be represented (timestamp not an integer in           *)
(*    0..2^32-1, a tag that is not key=value with non-empty key and value)    *)
(*    are Skipped -- never emitted;                                           *)
(*  * PickleOut(line) = [(first token, (timestamp, value))] or Skipped        *)
(*    (counted bad_pickle) when the timestamp is not representable.           *)
(*                                                                            *)
(* Strings are sequences of byte codes; patterns are the regular expressions  *)
(* ^lit$, ^lit, lit$, lit and .* over literals without metacharacters, so     *)
(* their meaning is Equal / HasPrefix / HasSuffix / Contains / TRUE.          *)
(* Values and timestamps are abstract (class + identity); the driver renders  *)
(* them and the check compares bit patterns.                                  *)
(* TLC enumerates every rule list of the bounded space as an initial state    *)
(* and prints it with the expected outcome of every line (Emit).              *)
EXTENDS Integers, Sequences, FiniteSets, TLC, Json
SX == INSTANCE SequencesExt

CONSTANTS MaxSpecific,    \* number of rules besides the default rule: 0..MaxSpecific
          PatPool,        \* subset of 1..Len(AllPats)
          Dev             \* "none" or a named deviation (must change some expectation)

\* ------------------------------------------------------------------ strings
SEMI == 59
Range(s) == {s[i] : i \in DOMAIN s}
HasPrefix(s, p) == Len(p) <= Len(s) /\ SubSeq(s, 1, Len(p)) = p
HasSuffix(s, p) == Len(p) <= Len(s) /\ SubSeq(s, Len(s) - Len(p) + 1, Len(s)) = p
Contains(s, p) == \E i \in 0..(Len(s) - Len(p)) : SubSeq(s, i + 1, i + Len(p)) = p
LexLess(a, b) ==
    \E i \in 1..Len(b) :
        /\ i <= Len(a) + 1
        /\ \A j \in 1..(i - 1) : a[j] = b[j]
        /\ IF i = Len(a) + 1 THEN TRUE ELSE a[i] < b[i]
IndexOf(s, c) == IF c \in Range(s) THEN CHOOSE i \in DOMAIN s : s[i] = c /\ \A j \in 1..(i - 1) : s[j] # c ELSE 0

(* sort a sequence of distinct-or-equal strings byte-wise (sort.Strings) *)
SortStrs(ts) ==
    IF ts = <<>> THEN <<>>
    ELSE CHOOSE q \in [DOMAIN ts -> Range(ts)] :
            /\ \A x \in Range(ts) : Cardinality({i \in DOMAIN ts : q[i] = x}) = Cardinality({i \in DOMAIN ts : ts[i] = x})
            /\ \A i \in 1..(Len(ts) - 1) : ~LexLess(q[i + 1], q[i])
RECURSIVE JoinSemi(_)
JoinSemi(ts) == IF ts = <<>> THEN <<>> ELSE <<SEMI>> \o Head(ts) \o JoinSemi(Tail(ts))

\* ------------------------------------------------------------------ literals (ASCII)
foo == <<102, 111, 111>>
bar == <<98, 97, 114>>
oo  == <<111, 111>>
foobar == foo \o bar
xfoo == <<120>> \o foo
tA1 == <<97, 61, 49>>          \* a=1
tB2 == <<98, 61, 50>>          \* b=2
tAfoo == <<97, 61>> \o foo     \* a=foo
tBadNoVal == <<97, 61>>        \* a=     invalid: empty value
tBadNoKey == <<61, 49>>        \* =1     invalid: empty key
tBadNoEq == <<97, 98, 99>>     \* abc    invalid: no '='

\* ------------------------------------------------------------------ patterns
P(k, l) == [kind |-> k, lit |-> l]
AllPats == << P("anch", foo),                                  \*  1  ^foo$
              P("pre", foo),                                   \*  2  ^foo
              P("suf", foo),                                   \*  3  foo$
              P("sub", oo),                                    \*  4  oo
              P("sub", <<SEMI>>),                              \*  5  ;      tagged series only
              P("anch", foo \o <<SEMI>> \o tA1 \o <<SEMI>> \o tB2),   \*  6  ^foo;a=1;b=2$
              P("sub", tB2 \o <<SEMI>> \o tA1),                \*  7  b=2;a=1   never: tags are presented sorted
              P("suf", bar),                                   \*  8  bar$
              P("anch", foobar),                               \*  9  ^foobar$
              P("pre", xfoo \o <<SEMI>>) >>                    \* 10  ^xfoo;
Default == P("all", <<>>)                                      \*     .*

Matches(pat, s) ==
    CASE pat.kind = "all"  -> TRUE
      [] pat.kind = "anch" -> s = pat.lit
      [] pat.kind = "pre"  -> HasPrefix(s, pat.lit)
      [] pat.kind = "suf"  -> HasSuffix(s, pat.lit)
      [] pat.kind = "sub"  -> Contains(s, pat.lit)

\* ------------------------------------------------------------------ rules
(* a rule: pattern, priority attribute, retentions by file position:
   rule at file position i has first retention Ret1[i] and second retention Ret2[i] seconds per point.
   The priority attribute prio is Absent (the section has no `priority = N` line) or a natural number
   N that the section spells out as `priority = N` -- N = 0 included.  Prio(r) is the priority the
   rule HAS: an absent attribute means priority 0, exactly like an explicit `priority = 0`. *)
Ret1 == <<1, 10, 60, 300>>
Ret2 == <<600, 3600, 7200, 86400>>
Absent == -1
Prio(r) == IF r.prio = Absent THEN 0 ELSE r.prio

(* deviation absent_priority_sorts_first: only a rule WITH a priority line gets the position-adjusted
   sort key prio * Shift - (file position, from 0); a rule without one gets the bare key 0, ties keep
   file order (stable sort).  An explicit `priority = 0` at file position > 0 then has a negative key
   and sorts after every rule that has no priority line, wherever that rule is in the file. *)
Shift == 1024     \* stands for 2^32 (TLC integers are 32 bit): any factor larger than the number of rules
DevKey(rules, i) == IF rules[i].prio = Absent THEN 0 ELSE rules[i].prio * Shift - (i - 1)

Before(rules, i, j) ==      \* rule i is consulted before rule j
    IF Dev = "prio_reversed" THEN Prio(rules[i]) < Prio(rules[j]) \/ (Prio(rules[i]) = Prio(rules[j]) /\ i < j)
    ELSE IF Dev = "file_order_only" THEN i < j
    ELSE IF Dev = "absent_priority_sorts_first" THEN
        DevKey(rules, i) > DevKey(rules, j) \/ (DevKey(rules, i) = DevKey(rules, j) /\ i < j)
    ELSE Prio(rules[i]) > Prio(rules[j]) \/ (Prio(rules[i]) = Prio(rules[j]) /\ i < j)

Select(rules, s) ==
    LET M == {i \in DOMAIN rules : Matches(rules[i].pat, s)}
    IN  IF Dev = "last_match" THEN CHOOSE i \in M : \A j \in M \ {i} : Before(rules, j, i)
        ELSE CHOOSE i \in M : \A j \in M \ {i} : Before(rules, i, j)

\* ------------------------------------------------------------------ lines
(* a line: name, tags in the order written, timestamp class, value identity *)
Names == <<foo, foobar, xfoo>>
TagLists == << <<>>, <<tA1>>, <<tB2, tA1>>, <<tA1, tB2>>, <<tAfoo>> >>
BadTagLists == << <<tBadNoVal>>, <<tA1, tBadNoKey>>, <<tBadNoEq>> >>
TsClasses == {"int", "max", "float", "toobig"}     \* 1500000000-like | 4294967295 | 1500000000.5 | 4294967296
Lines ==
    {[name |-> Names[n], tags |-> TagLists[t], ts |-> "int", bad |-> FALSE] : n \in DOMAIN Names, t \in DOMAIN TagLists}
    \cup {[name |-> foo, tags |-> BadTagLists[t], ts |-> "int", bad |-> TRUE] : t \in DOMAIN BadTagLists}
    \cup {[name |-> foo, tags |-> TagLists[t], ts |-> c, bad |-> FALSE] : t \in {1, 3}, c \in TsClasses \ {"int"}}

TsOK(line) == line.ts \in {"int", "max"}
TagOK(t) == LET e == IndexOf(t, 61) IN e > 1 /\ e < Len(t)
Representable(line) == TsOK(line) /\ \A i \in DOMAIN line.tags : TagOK(line.tags[i])

SortedTags(line) == IF Dev = "tags_unsorted" THEN line.tags ELSE SortStrs(line.tags)
Presented(line) ==
    IF line.tags = <<>> /\ Dev # "always_semicolon" THEN line.name
    ELSE line.name \o (IF line.tags = <<>> THEN <<SEMI>> ELSE JoinSemi(SortedTags(line)))

MetricData(rules, line) ==
    IF ~Representable(line) THEN [skipped |-> TRUE]
    ELSE LET i == Select(rules, Presented(line))
         IN  [skipped |-> FALSE, name |-> line.name, tags |-> SortedTags(line), ts |-> line.ts,
              rule |-> i, interval |-> IF Dev = "second_retention" THEN Ret2[i] ELSE Ret1[i]]

(* the token before the first blank, as written *)
Token(line) == line.name \o JoinSemi(line.tags)
PickleOut(line) == IF TsOK(line) THEN [skipped |-> FALSE, name |-> Token(line), ts |-> line.ts] ELSE [skipped |-> TRUE]

\* ------------------------------------------------------------------ enumeration
VARIABLE rules
(* priority attributes of the enumerated rules: absent, explicit 0, and two positive values -- every
   mix of them at every file position, over patterns that overlap (PatPool) and the default rule *)
PrioAttrs == {Absent, 0, 1, 2}
DefaultPrioAttrs == {Absent, 0, 1}
Specific == [pat : {AllPats[i] : i \in PatPool}, prio : PrioAttrs]
Lists(k) == [1..k -> Specific]
InsertAt(s, i, e) == SubSeq(s, 1, i - 1) \o <<e>> \o SubSeq(s, i, Len(s))
Init ==
    \E k \in 0..MaxSpecific : \E sp \in Lists(k) : \E at \in 1..(k + 1) : \E dp \in DefaultPrioAttrs :
        rules = InsertAt(sp, at, [pat |-> Default, prio |-> dp])
Next == UNCHANGED rules
Spec == Init /\ [][Next]_rules

LineSeq == SX!SetToSeq(Lines)
(* printed once: the lines (with what a pickle destination must emit for each) *)
ASSUME PrintT("@@L " \o ToJson([i \in DOMAIN LineSeq |-> [line |-> LineSeq[i], pk |-> PickleOut(LineSeq[i])]]))
(* long series names for the pickle encoder: the emitted pickle is the same function of the line
   whatever the size of the name (lengths around every power of two up to 2048, i.e. well beyond any
   fixed-size scratch buffer of the encoder) *)
LongName(L) == [j \in 1..L |-> IF j <= 3 THEN foo[j] ELSE IF j % 23 = 4 THEN 46 ELSE 97 + (j % 26)]
PkLongLens == {120, 127, 128, 200, 224, 230, 240, 247, 250, 252, 255, 256, 257, 260, 300, 511, 512, 700, 1024, 1500, 2047, 2048}
PkLongLines ==
    {[name |-> LongName(L), tags |-> TagLists[t], ts |-> "int", bad |-> FALSE] : L \in PkLongLens, t \in {1, 3}}
    \cup {[name |-> LongName(L), tags |-> <<>>, ts |-> c, bad |-> FALSE] : L \in {255, 700}, c \in {"max", "float", "toobig"}}
PkLongSeq == SX!SetToSeq(PkLongLines)
ASSUME PrintT("@@PL " \o ToJson([i \in DOMAIN PkLongSeq |-> [line |-> PkLongSeq[i], pk |-> PickleOut(PkLongSeq[i])]]))
Case == [rules |-> rules, md |-> [i \in DOMAIN LineSeq |-> MetricData(rules, LineSeq[i])]]
Emit == PrintT("@@C " \o ToJson(Case))

(* sanity of the decision itself, checked on every enumerated rule list *)
SelectIsFirst ==
    \A i \in DOMAIN LineSeq :
        LET ln == LineSeq[i] IN
        Representable(ln) =>
            LET s == Presented(ln)
                k == Select(rules, s)
            IN  /\ Matches(rules[k].pat, s)
                /\ \A j \in DOMAIN rules : (Matches(rules[j].pat, s) /\ j # k) =>
                       (Prio(rules[j]) < Prio(rules[k]) \/ (Prio(rules[j]) = Prio(rules[k]) /\ j > k))
(* absent and explicit 0 are one priority: replacing every explicit `priority = 0` by no priority line
   (and the other way round) selects the same rule for every line *)
NoPrioLine(rs) == [i \in DOMAIN rs |-> [rs[i] EXCEPT !.prio = IF rs[i].prio = 0 THEN Absent ELSE rs[i].prio]]
ZeroPrioLine(rs) == [i \in DOMAIN rs |-> [rs[i] EXCEPT !.prio = IF rs[i].prio = Absent THEN 0 ELSE rs[i].prio]]
AbsentIsZero ==
    \A i \in DOMAIN LineSeq : Representable(LineSeq[i]) =>
        LET s == Presented(LineSeq[i]) IN
        /\ Select(rules, s) = Select(NoPrioLine(rules), s)
        /\ Select(rules, s) = Select(ZeroPrioLine(rules), s)
(* an untagged series is presented without ';' : ^lit$ selects it, ';' does not *)
UntaggedPresentation ==
    \A i \in DOMAIN LineSeq :
        (LineSeq[i].tags = <<>> /\ Representable(LineSeq[i])) =>
            /\ SEMI \notin Range(Presented(LineSeq[i]))
            /\ (\A j \in DOMAIN rules : rules[j].pat = P("sub", <<SEMI>>) => MetricData(rules, LineSeq[i]).rule # j)
IntervalIsFirstRetention ==
    \A i \in DOMAIN LineSeq : Representable(LineSeq[i]) =>
        LET m == MetricData(rules, LineSeq[i]) IN m.interval = Ret1[m.rule]
TagsPresentedSorted ==
    \A i \in DOMAIN LineSeq : Representable(LineSeq[i]) =>
        LET t == MetricData(rules, LineSeq[i]).tags IN \A a \in 1..(Len(t) - 1) : ~LexLess(t[a + 1], t[a])
=============================================================================
