---------------------------- MODULE AggTableOps ----------------------------
(* The pipeline of Table o Aggregator as operators (no state): shared by the *)
(* state machine AggTable.tla and the trace specification AggTableTrace.tla. *)
(* See AggTable.tla for the description.                                     *)
EXTENDS Matcher, TLC, SequencesExt

\* ------------------------------------------------- the pipeline, as operators
Valid(cfg, name) == name # <<>> /\ (cfg.strict => ~Contains(name, <<".", ".">>))
Blacklisted(cfg, name) == \E i \in DOMAIN cfg.black : Accept(cfg.black[i], name)

RECURSIVE ReplaceEvery(_, _, _)
ReplaceEvery(s, old, new) ==                      \* bytes.Replace(s, old, new, -1), old non-empty
  IF Len(s) < Len(old) THEN s
  ELSE IF SubSeq(s, 1, Len(old)) = old THEN new \o ReplaceEvery(SubSeq(s, Len(old) + 1, Len(s)), old, new)
  ELSE <<Head(s)>> \o ReplaceEvery(Tail(s), old, new)
RECURSIVE RewriteFrom(_, _, _)
RewriteFrom(cfg, name, i) == IF i > Len(cfg.rw) THEN name
                             ELSE RewriteFrom(cfg, ReplaceEvery(name, cfg.rw[i].old, cfg.rw[i].new), i + 1)
Rewritten(cfg, name) == RewriteFrom(cfg, name, 1)

\* the aggregator loop of Table.Dispatch, as the code runs it
\* (dev = "drop_on_prematch" is a named deviation: the line is consumed as soon as the cheap
\*  conditions hold, whether or not the regular expressions agree)
PreAccept(f, s) == Accept([f EXCEPT !.regex = NoRe, !.notRegex = NoRe], s)
RECURSIVE AggLoop(_, _, _, _, _)
AggLoop(cfg, name, i, fed, dev) ==
  IF i > Len(cfg.aggs) THEN [fed |-> fed, dropped |-> FALSE]
  ELSE IF Accept(cfg.aggs[i].f, name)
       THEN IF cfg.aggs[i].drop THEN [fed |-> fed \cup {i}, dropped |-> TRUE]
            ELSE AggLoop(cfg, name, i + 1, fed \cup {i}, dev)
       ELSE IF dev = "drop_on_prematch" /\ cfg.aggs[i].drop /\ PreAccept(cfg.aggs[i].f, name)
            THEN [fed |-> fed, dropped |-> TRUE]
            ELSE AggLoop(cfg, name, i + 1, fed, dev)
\* ... and as the property states it
Consumes(cfg, i, name) == cfg.aggs[i].drop /\ Accept(cfg.aggs[i].f, name)
FedDecl(cfg, name) == {i \in DOMAIN cfg.aggs : Accept(cfg.aggs[i].f, name) /\ \A j \in 1..(i - 1) : ~Consumes(cfg, j, name)}
DroppedDecl(cfg, name) == \E i \in DOMAIN cfg.aggs : Consumes(cfg, i, name)

RoutesFor(cfg, name) == {r \in DOMAIN cfg.routes : Accept(cfg.routes[r], name)}

\* what a raw line [name, val, ts, vi, ti] does: which aggregators receive it (under which name), which routes
RawDev(cfg, ln, dev) ==
  IF ~Valid(cfg, ln.name) \/ Blacklisted(cfg, ln.name)
  THEN [name |-> ln.name, fed |-> {}, routes |-> {}]
  ELSE LET nm == Rewritten(cfg, ln.name)
           lp == AggLoop(cfg, nm, 1, {}, dev)
       IN [name |-> nm, fed |-> lp.fed, routes |-> IF lp.dropped THEN {} ELSE RoutesFor(cfg, nm)]

Raw(cfg, ln) == RawDev(cfg, ln, "none")

Quantum(cfg, i, ti) == ti - (ti % cfg.aggs[i].interval)
\* buckets: function from <<i, q>> to [cnt, sum]
Feed(cfg, bk, fed, ln, now) ==
  LET keys == {<<i, Quantum(cfg, i, ln.ti)>> : i \in fed}
      open == {k \in keys : k \in DOMAIN bk \/ k[2] > now - cfg.aggs[k[1]].wait}   \* join, or create if not too old
  IN [k \in DOMAIN bk \cup open |->
        IF k \in open THEN [cnt |-> (IF k \in DOMAIN bk THEN bk[k].cnt ELSE 0) + 1,
                            sum |-> (IF k \in DOMAIN bk THEN bk[k].sum ELSE 0) + ln.vi]
        ELSE bk[k]]
Opened(cfg, bk, fed, ln, now) ==
  {k \in {<<i, Quantum(cfg, i, ln.ti)>> : i \in fed} : k \notin DOMAIN bk /\ k[2] > now - cfg.aggs[k[1]].wait}

Due(cfg, bk, i, t) == {k \in DOMAIN bk : k[1] = i /\ k[2] <= t - cfg.aggs[i].wait}
AggValue(cfg, bk, k) == IF cfg.aggs[k[1]].fun = "count" THEN bk[k].cnt ELSE bk[k].sum
\* the aggregate lines aggregator i writes to Table.In on a tick at t
Emitted(cfg, bk, i, t) ==
  {[name |-> cfg.aggs[i].out, val |-> ToString(AggValue(cfg, bk, k)) \o ".000000", ts |-> ToString(k[2])] : k \in Due(cfg, bk, i, t)}
\* deliveries: [r, name, val, ts]
Deliver(rs, name, val, ts) == {[r |-> r, name |-> name, val |-> val, ts |-> ts] : r \in rs}

=============================================================================
