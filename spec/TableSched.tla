----------------------------- MODULE TableSched -----------------------------
(* C18: generator of replay schedules at level A.  Every interleaving of     *)
(* admin operations (atomic at this level) with the steps of dispatchers     *)
(* that hold a loaded version: "dispatcher d has visited k entries, an       *)
(* operation runs, d continues".  A terminal state prints its schedule; the  *)
(* driver forces it on the real table.Table (capture routes / a log hook as  *)
(* scheduler gates) and TableTrace.tla judges what the real code did.        *)
(*   start d c   dispatcher d starts Dispatch of a class-c metric and runs   *)
(*               until it is held at the first gate (or returns)             *)
(*   step d      d is released and runs until held at the next gate/returns  *)
(*   disp d c    (StepWise = FALSE) a whole dispatch between two operations  *)
(*   op ...      one admin operation on list l, complete                     *)
(* DelTail = TRUE restricts deletes to the LAST entry of the list (the case  *)
(* in which a delete needs no copy: the new slice may share the array of the *)
(* old one, see TableMem.TruncateTail); this keeps histories of 3 operations *)
(* (delete-last, delete-last, add with a dispatcher held since before the    *)
(* first of them) small enough to enumerate every interleaving.              *)
(*                                                                           *)
(* FeGate = TRUE: schedules over the WHOLE table (kind "fe").  The table has *)
(* a front end (blacklist bl, rewriters rw, aggregators agg; the first       *)
(* aggregator, id GateId, is the driver's gate: an aggregator that matches   *)
(* nothing and whose mock clock parks the dispatcher inside AddMaybe, i.e.   *)
(* AFTER Dispatch loaded the configuration and BEFORE its route loop).  The  *)
(* first gate of a dispatcher is that one ("front"), then (RouteGates) one   *)
(* gate per capture route as before.  Operations are front-end operations    *)
(* (FeKinds) and route operations (OpKinds) mixed: a metric in flight sees   *)
(* changes to several lists.  FeWindow = TRUE keeps only the schedules in    *)
(* which every operation happens while a dispatcher is held at the front     *)
(* gate; Mixed = TRUE only those that change a front-end list AND the routes.*)
(*                                                                           *)
(* Overlap = TRUE: schedules of OVERLAPPING admin operations on one real     *)
(* route (kind "ovl"; NDisp = 0): the last two operations of the history are *)
(* marked ov1, ov2 -- ov1 a delete of a destination that                     *)
(* exists (the driver parks it inside the destination's Shutdown, where it   *)
(* holds the route lock and has loaded the configuration), ov2 ANY operation *)
(* (started while ov1 is parked; ov1 is released when ov2 waits for the lock *)
(* or has returned).  The pair ends the history (a route that lists a        *)
(* destination whose relay has shut down blocks the next operation that      *)
(* touches it for ever); the operations before it are sequential.            *)
(* List "rt" is the route's own filter (one entry, id 0):                    *)
(* OpKinds "rtupd" = modRoute <key> prefix=...  The operations offered for   *)
(* ov2 are those of the table AFTER ov1 (indexes 0..n-1 of n destinations    *)
(* before: the last one is valid before the delete and beyond the end after).*)
(* Overlap + FeGate (kind "tovl", the TABLE): ov1 is the delete of the gate   *)
(* aggregator (index 0 of agg) -- Table.DelAggregator waits inside the       *)
(* aggregator's Shutdown (its goroutine asks the driver's mock clock), the   *)
(* table lock held, the configuration loaded and not yet stored; ov2 is any  *)
(* operation on any list of the table.                                       *)
EXTENDS TableOps, TLC, Json

CONSTANTS InitN, MaxOps, NDisp, Classes, AddFilters, UpdFilters, OpKinds, StepWise, DelTail,
          FeGate, RouteGates, FeKinds, FeFilters, FeBl, FeRw, FeAgg, FeWindow, Mixed, Overlap

VARIABLES cur, nops, nextId, dst, dleft, dld, dcl, hist
svars == <<cur, nops, nextId, dst, dleft, dld, dcl, hist>>
Disp == 1..NDisp
GateId == 99
FeLists == {"bl", "rw", "agg"}

Rec(ev, d, c, l, op, e, f, i, k) == [ev |-> ev, d |-> d, c |-> c, l |-> l, op |-> op, e |-> e, f |-> f, i |-> i, k |-> k]

\* the initial table (the driver builds it, front end first, before the schedule starts)
InitTable == [main |-> [i \in 1..InitN |-> [id |-> i, f |-> 0]],
              rt   |-> <<[id |-> 0, f |-> 0]>>,
              bl   |-> [i \in 1..FeBl  |-> [id |-> 100 + i, f |-> 0]],
              rw   |-> [i \in 1..FeRw  |-> [id |-> 200 + i, f |-> 0]],
              agg  |-> (IF FeGate THEN <<[id |-> GateId, f |-> 0]>> ELSE <<>>) \o [i \in 1..FeAgg |-> [id |-> 300 + i, f |-> 0]]]

SInit == /\ cur = InitTable
         /\ nops = 0 /\ nextId = InitN + 1
         /\ dst = [d \in Disp |-> "idle"] /\ dleft = [d \in Disp |-> 0]
         /\ dld = [d \in Disp |-> InitTable] /\ dcl = [d \in Disp |-> 0]
         /\ hist = <<>>

Main == cur.main
KeysNow == IF FeGate THEN {KeyOf(Main[i].id) : i \in 1..Len(Main)} ELSE {KeyOf(e) : e \in 1..(nextId - 1)}
DelIdx  == IF DelTail THEN {IF Len(Main) = 0 THEN 0 ELSE Len(Main) - 1} ELSE 0..Len(Main)
DelKeys == IF DelTail THEN (IF Len(Main) = 0 THEN {} ELSE {KeyOf(Main[Len(Main)].id)}) ELSE KeysNow
\* the gate aggregator (index 0 of agg) is never deleted; refused indexes are covered by the per-list kinds
\* (Overlap: the gate aggregator is what ov1 deletes; and the index beyond the end is offered, see above)
FeDelIdx(x) == IF Overlap THEN 0..Len(cur[x])
               ELSE IF x = "agg" /\ FeGate THEN 1..(Len(cur[x]) - 1) ELSE 0..(Len(cur[x]) - 1)
Choices ==
  (IF "add" \in OpKinds THEN {Rec("op", 0, 0, "main", "add", nextId, f, 0, 0) : f \in AddFilters} ELSE {})
  \cup (IF "delidx" \in OpKinds THEN {Rec("op", 0, 0, "main", "delidx", 0, 0, i, 0) : i \in DelIdx} ELSE {})
  \cup (IF "delkey" \in OpKinds THEN {Rec("op", 0, 0, "main", "delkey", 0, 0, 0, k) : k \in DelKeys} ELSE {})
  \cup (IF "updidx" \in OpKinds THEN {Rec("op", 0, 0, "main", "updidx", 0, f, i, 0) : i \in 0..Len(Main), f \in UpdFilters} ELSE {})
  \cup (IF "updkey" \in OpKinds THEN {Rec("op", 0, 0, "main", "updkey", 0, f, 0, k) : k \in KeysNow, f \in UpdFilters} ELSE {})
  \cup (IF "rtupd" \in OpKinds THEN {Rec("op", 0, 0, "rt", "updidx", 0, f, 0, 0) : f \in UpdFilters} ELSE {})
  \cup UNION { (IF (x \o "+") \in FeKinds
                THEN {Rec("op", 0, 0, x, "add", nextId, f, 0, 0) : f \in (IF x = "rw" THEN {0} ELSE FeFilters)} ELSE {})
               \cup (IF (x \o "-") \in FeKinds
                     THEN {Rec("op", 0, 0, x, "delidx", 0, 0, i, 0) : i \in FeDelIdx(x)} ELSE {}) : x \in FeLists }

AtFront == \E d \in Disp : dst[d] = "front"

\* Overlap: how the operation is issued -- "op" on its own, "ov1" parked half-way, "ov2" while ov1 is parked
HasOv1 == \E i \in 1..Len(hist) : hist[i].ev = "ov1"
\* the operations the driver can park half-way, between their Load and their Store, the mutex held
Parkable(o) == IF FeGate THEN o.l = "agg" /\ o.op = "delidx" /\ o.i = 0 /\ cur.agg # <<>> /\ cur.agg[1].id = GateId
               ELSE o.l = "main" /\ o.op = "delidx" /\ o.i < Len(Main)
Labels(o) == IF ~Overlap THEN {"op"}
             ELSE IF hist # <<>> /\ hist[Len(hist)].ev = "ov1" THEN {"ov2"}
             ELSE IF nops = MaxOps - 2 /\ Parkable(o) THEN {"op", "ov1"}
             ELSE {"op"}

SOp(o) == /\ nops < MaxOps /\ nops' = nops + 1
          /\ (FeWindow => AtFront)
          /\ cur' = [cur EXCEPT ![o.l] = ApplyOp(@, o)]
          /\ nextId' = IF o.op = "add" THEN nextId + 1 ELSE nextId
          /\ \E lab \in Labels(o) : hist' = Append(hist, [o EXCEPT !.ev = lab])
          /\ UNCHANGED <<dst, dleft, dld, dcl>>

\* where a dispatcher of class c that loaded table T is held next, having passed its front end
AfterFront(T, c) == IF FateOf(T, c) # "routed" \/ Len(T.main) = 0 \/ ~RouteGates THEN "done" ELSE "run"

SStart(d, c) ==
  /\ dst[d] = "idle" /\ \A x \in 1..(d - 1) : dst[x] # "idle"     \* dispatchers are interchangeable
  /\ ~AtFront                          \* the front gate holds one dispatcher at a time (it is held inside the aggregator's lock)
  /\ dld' = [dld EXCEPT ![d] = cur] /\ dcl' = [dcl EXCEPT ![d] = c]
  /\ IF StepWise
     THEN /\ hist' = Append(hist, Rec("start", d, c, "", "", 0, 0, 0, 0))
          /\ dleft' = [dleft EXCEPT ![d] = Len(Main)]
          /\ dst' = [dst EXCEPT ![d] = IF FeGate THEN (IF Hits(cur.bl, c) THEN "done" ELSE "front")
                                       ELSE IF Len(Main) = 0 THEN "done" ELSE "run"]
     ELSE /\ hist' = Append(hist, Rec("disp", d, c, "", "", 0, 0, 0, 0))
          /\ dst' = [dst EXCEPT ![d] = "done"] /\ UNCHANGED dleft
  /\ UNCHANGED <<cur, nops, nextId>>

SStep(d) ==
  /\ dst[d] \in {"front", "run"}
  /\ hist' = Append(hist, Rec("step", d, 0, "", "", 0, 0, 0, 0))
  /\ IF dst[d] = "front"
     THEN dst' = [dst EXCEPT ![d] = AfterFront(dld[d], dcl[d])] /\ UNCHANGED dleft
     ELSE /\ dleft' = [dleft EXCEPT ![d] = @ - 1]
          /\ dst' = [dst EXCEPT ![d] = IF dleft[d] = 1 THEN "done" ELSE "run"]
  /\ UNCHANGED <<cur, nops, nextId, dld, dcl>>

SNext == \/ \E o \in Choices : SOp(o)
         \/ \E d \in Disp : (\E c \in Classes : SStart(d, c)) \/ SStep(d)
SSpec == SInit /\ [][SNext]_svars

IsMixed == /\ \E i \in 1..Len(hist) : hist[i].ev = "op" /\ hist[i].l = "main"
           /\ \E i \in 1..Len(hist) : hist[i].ev = "op" /\ hist[i].l # "main"
Terminal == nops = MaxOps /\ \A d \in Disp : dst[d] = "done"
Emit == (Terminal /\ (Mixed => IsMixed) /\ (Overlap => HasOv1)) => PrintT("@@S " \o ToJson(hist))
=============================================================================
