----------------------------- MODULE TableSched -----------------------------
(* C18: generator of replay schedules at level A.  Every interleaving of     *)
(* admin operations (atomic at this level) with the steps of dispatchers     *)
(* that hold a loaded version: "dispatcher d has visited k entries, an       *)
(* operation runs, d continues".  A terminal state prints its schedule; the  *)
(* driver forces it on the real table.Table (capture routes / a log hook as  *)
(* scheduler gates) and TableTrace.tla judges what the real code did.        *)
(*   start d c   dispatcher d starts Dispatch of a class-c metric and runs   *)
(*               until it is held at the first entry (or returns)            *)
(*   step d      d is released and runs until held at the next entry/returns *)
(*   disp d c    (StepWise = FALSE) a whole dispatch between two operations  *)
(*   op ...      one admin operation, complete                               *)
(* DelTail = TRUE restricts deletes to the LAST entry of the list (the case  *)
(* in which a delete needs no copy: the new slice may share the array of the *)
(* old one, see TableMem.TruncateTail); this keeps histories of 3 operations *)
(* (delete-last, delete-last, add with a dispatcher held since before the    *)
(* first of them) small enough to enumerate every interleaving.              *)
EXTENDS TableOps, TLC, Json

CONSTANTS InitN, MaxOps, NDisp, Classes, AddFilters, UpdFilters, OpKinds, StepWise, DelTail

VARIABLES cur, nops, nextId, dst, dleft, hist
svars == <<cur, nops, nextId, dst, dleft, hist>>
Disp == 1..NDisp

Rec(ev, d, c, op, e, f, i, k) == [ev |-> ev, d |-> d, c |-> c, op |-> op, e |-> e, f |-> f, i |-> i, k |-> k]

SInit == /\ cur = [i \in 1..InitN |-> [id |-> i, f |-> 0]]
         /\ nops = 0 /\ nextId = InitN + 1
         /\ dst = [d \in Disp |-> "idle"] /\ dleft = [d \in Disp |-> 0]
         /\ hist = <<>>

KeysNow == {KeyOf(e) : e \in 1..(nextId - 1)}
DelIdx  == IF DelTail THEN {IF Len(cur) = 0 THEN 0 ELSE Len(cur) - 1} ELSE 0..Len(cur)
DelKeys == IF DelTail THEN (IF Len(cur) = 0 THEN {} ELSE {KeyOf(cur[Len(cur)].id)}) ELSE KeysNow
Choices ==
  (IF "add" \in OpKinds THEN {Rec("op", 0, 0, "add", nextId, f, 0, 0) : f \in AddFilters} ELSE {})
  \cup (IF "delidx" \in OpKinds THEN {Rec("op", 0, 0, "delidx", 0, 0, i, 0) : i \in DelIdx} ELSE {})
  \cup (IF "delkey" \in OpKinds THEN {Rec("op", 0, 0, "delkey", 0, 0, 0, k) : k \in DelKeys} ELSE {})
  \cup (IF "updidx" \in OpKinds THEN {Rec("op", 0, 0, "updidx", 0, f, i, 0) : i \in 0..Len(cur), f \in UpdFilters} ELSE {})
  \cup (IF "updkey" \in OpKinds THEN {Rec("op", 0, 0, "updkey", 0, f, 0, k) : k \in KeysNow, f \in UpdFilters} ELSE {})

SOp(o) == /\ nops < MaxOps /\ nops' = nops + 1
          /\ cur' = ApplyOp(cur, o)
          /\ nextId' = IF o.op = "add" THEN nextId + 1 ELSE nextId
          /\ hist' = Append(hist, o)
          /\ UNCHANGED <<dst, dleft>>

SStart(d, c) ==
  /\ dst[d] = "idle" /\ \A x \in 1..(d - 1) : dst[x] # "idle"     \* dispatchers are interchangeable
  /\ IF StepWise
     THEN /\ hist' = Append(hist, Rec("start", d, c, "", 0, 0, 0, 0))
          /\ dleft' = [dleft EXCEPT ![d] = Len(cur)]
          /\ dst' = [dst EXCEPT ![d] = IF Len(cur) = 0 THEN "done" ELSE "run"]
     ELSE /\ hist' = Append(hist, Rec("disp", d, c, "", 0, 0, 0, 0))
          /\ dst' = [dst EXCEPT ![d] = "done"] /\ UNCHANGED dleft
  /\ UNCHANGED <<cur, nops, nextId>>

SStep(d) ==
  /\ dst[d] = "run"
  /\ hist' = Append(hist, Rec("step", d, 0, "", 0, 0, 0, 0))
  /\ dleft' = [dleft EXCEPT ![d] = @ - 1]
  /\ dst' = [dst EXCEPT ![d] = IF dleft[d] = 1 THEN "done" ELSE "run"]
  /\ UNCHANGED <<cur, nops, nextId>>

SNext == \/ \E o \in Choices : SOp(o)
         \/ \E d \in Disp : (\E c \in Classes : SStart(d, c)) \/ SStep(d)
SSpec == SInit /\ [][SNext]_svars

Terminal == nops = MaxOps /\ \A d \in Disp : dst[d] = "done"
Emit == Terminal => PrintT("@@S " \o ToJson(hist))
=============================================================================
