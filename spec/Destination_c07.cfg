SPECIFICATION Spec
INVARIANTS TypeOK Conservation QuiescentBound Conservation_steady
CHECK_DEADLOCK FALSE
