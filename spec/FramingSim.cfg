SPECIFICATION SSpec
INVARIANT Emit
CHECK_DEADLOCK FALSE
