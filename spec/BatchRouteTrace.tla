-------------------------- MODULE BatchRouteTrace --------------------------
(* Level-A trace specification for XBATCH: replays the events recorded from  *)
(* the real routes (route.NewKafkaMdm / NewPubSub / NewCloudWatch) and the    *)
(* local fake endpoints (trace.ndjson) into the observation record of         *)
(* BatchRouteOps.  One line = one event:                                      *)
(*   scen     a new execution: kind, blocking, bufsize, fmax, timer           *)
(*   disp     Dispatch(item id, size sz, unparsable bad) is being called      *)
(*   ret      it returned; st = acc | drop (the queue_full counter moved)     *)
(*   stall    the call did not return within the bound                        *)
(*   piece    the endpoint received a request with these items (payload       *)
(*            order) and answered st = ok | fail; a = the attempt it belongs  *)
(*            to (kafka: sarama cuts one SendMessages call into several       *)
(*            ProduceRequests; the pieces of one call carry the same number   *)
(*            of completed attempts, read from numOut + numErrFlush when the  *)
(*            request arrives; pubsub / cloudwatch: one request = one attempt)*)
(*   settle   (timer) the driver waited for everything accepted to be done    *)
(*   idle     (no timer) the run loop is parked in its select, buffer empty   *)
(*   sdcall / sdret / sdtimeout     Shutdown                                  *)
(*   exit     the run loop returned (ok) / did not within the bound           *)
(*   final    counter deltas;  abort: the execution was given up after stall  *)
(*   parked / sdwaits   steering information of the driver, not judged        *)
(* The pieces of one attempt are put together (in arrival order; the attempt  *)
(* is acknowledged iff every piece was) and handed to OSend when a piece of   *)
(* another attempt arrives or an event needs the complete picture.  Every     *)
(* well-formed line is matched; the clauses an execution breaks are printed   *)
(* per execution (@@V): one TLC pass judges all of them.                      *)
EXTENDS BatchRouteOps, Json, TLC, TLCExt, IOUtils

TLog == ndJsonDeserialize("trace.ndjson")

VARIABLES l, o, c, pend
tvars == <<l, o, c, pend>>

ASSUME TLCSet(1, 0)

None == [a |-> -1, ids |-> <<>>, ok |-> TRUE]
NoCfg == [k |-> -1, kind |-> "", blocking |-> FALSE, bufsize |-> 0, fmax |-> 0, timer |-> TRUE]

Ev == TLog[l]
Is(e) == l <= Len(TLog) /\ Ev.ev = e /\ l' = l + 1
Same == UNCHANGED <<c, pend>>
Closed == pend = None            \* no attempt is being put together

TInit == l = 1 /\ o = ObsInit /\ c = NoCfg /\ pend = None

TScen == /\ Is("scen") /\ Closed /\ o' = ObsInit /\ pend' = None
         /\ c' = [k |-> Ev.k, kind |-> Ev.kind, blocking |-> Ev.blocking, bufsize |-> Ev.bufsize, fmax |-> Ev.fmax, timer |-> Ev.timer]
TDisp == Is("disp") /\ o' = ODisp(o, Ev.id, Ev.sz, Ev.asz, Ev.bad, l) /\ Same
TRet == Is("ret") /\ o' = ORet(o, Ev.id, Ev.st, c.blocking, c.bufsize, l) /\ Same
TStall == Is("stall") /\ o' = OStall(o, c.blocking, l) /\ Same
TInfo == (Is("parked") \/ Is("sdwaits")) /\ UNCHANGED o /\ Same

TPiece == /\ Is("piece") /\ (Closed \/ pend.a = Ev.a) /\ UNCHANGED <<o, c>>
          /\ pend' = [a |-> Ev.a, ids |-> pend.ids \o Ev.ids, ok |-> pend.ok /\ Ev.st = "ok"]
\* the attempt is complete
NeedsAll == l > Len(TLog) \/ Ev.ev \in {"settle", "idle", "exit", "final", "abort", "scen", "done"} \/ (Ev.ev = "piece" /\ Ev.a # pend.a)
TFin == /\ ~Closed /\ NeedsAll /\ UNCHANGED <<l, c>> /\ pend' = None
        /\ o' = OSend(o, c.kind, c.fmax, pend.ids, IF pend.ok THEN "ok" ELSE "fail", ~c.timer, l - 1)

TSettle == Is("settle") /\ Closed /\ o' = OSettle(o, c.kind, Ev.ok, l) /\ Same
TIdle == Is("idle") /\ Closed /\ o' = OIdle(o, c.kind, c.fmax, Ev.ok, l) /\ Same
TSdCall == Is("sdcall") /\ o' = OSdCall(o, l) /\ Same
TSdRet == Is("sdret") /\ o' = OSdRet(o, c.kind, l) /\ Same
TSdTimeout == Is("sdtimeout") /\ o' = OSdTimeout(o, l) /\ Same
TExit == Is("exit") /\ Closed /\ o' = OExit(o, Ev.ok, l) /\ Same

Verdict(oo, how) ==
  PrintT("@@V " \o ToJson([k |-> c.k, how |-> how, viol |-> oo.viol, dispatched |-> Len(oo.sz), accepted |-> Cardinality(oo.accd),
                            dropped |-> Cardinality(oo.dropd), bad |-> Cardinality(oo.bad), acked |-> Cardinality(oo.acked),
                            failed |-> Cardinality(oo.failed), unsent |-> Cardinality(Want(oo) \ oo.seen), efail |-> oo.efail,
                            sdret_before_done |-> oo.early]))
TFinal == /\ Is("final") /\ Closed /\ Same
          /\ o' = OFinal(o, c.kind, c.blocking, Ev.drops, Ev.errs, Ev.nout, Ev.nparse, Ev.gauge, l)
          /\ Verdict(o', "final")
TAbort == Is("abort") /\ Closed /\ Same /\ UNCHANGED o /\ Verdict(o, "abort")
TDone == Is("done") /\ Closed /\ Same /\ UNCHANGED o

TNext == TScen \/ TDisp \/ TRet \/ TStall \/ TInfo \/ TPiece \/ TFin \/ TSettle \/ TIdle \/ TSdCall \/ TSdRet \/ TSdTimeout
         \/ TExit \/ TFinal \/ TAbort \/ TDone
TSpec == TInit /\ [][TNext]_tvars

HighWater == TLCSet(1, IF l - 1 > TLCGet(1) THEN l - 1 ELSE TLCGet(1))
Post == PrintT("@@TRACE " \o ToJson([matched |-> TLCGet(1)]))
TypeInv == o.acked \subseteq o.seen /\ o.accd \cap o.dropd = {} /\ o.retd \subseteq Called(o)
=============================================================================
