----------------------------- MODULE TableTrace -----------------------------
(* C18, level A trace specification: what the real table.Table did           *)
(* (trace.ndjson, one event per line) judged against the statement.          *)
(*   hist      a new history starts (fresh, empty table)                     *)
(*   opbegin   an admin operation on list "l" is about to be called          *)
(*   opdone    it returned: err (refused?), view = the list as               *)
(*             Table.Snapshot() shows it now ([id, f] pairs); snaps[x] = for *)
(*             list x, the ids in the cells of EVERY slice the driver has    *)
(*             seen published so far in this history (oldest first, the last *)
(*             one is the slice published now), each read NOW through the    *)
(*             very slice header (array, length) it had when it was          *)
(*             published (white box, VerifRawConfig / VerifRawDests): what a *)
(*             dispatcher that loaded that slice back then and is still      *)
(*             iterating would read                                          *)
(*   start     Dispatch of a class-c metric is about to be called (id d)     *)
(*   end       it returned: vis = entries of the main list the metric was    *)
(*             delivered to, in order; rw = rewriters applied, in order      *)
(*             (rwobs: some receiver saw the name); fate = "bl" dropped by   *)
(*             the blacklist | "agg" consumed by a drop-raw aggregator |     *)
(*             "routed" handed to the route loop                             *)
(* Versions: vers[j] = all lists after the j-th operation (sequential        *)
(* semantics of TableOps).  A dispatch that started after operation lo had   *)
(* returned and ended before operation hi+1 was called may only have loaded  *)
(* a version in lo..hi, and its whole outcome -- fate, rewritten name and    *)
(* visited routes TOGETHER -- must be the outcome of ONE such version of the *)
(* whole table (TableOps.WholeAt): the blacklist of one version with the     *)
(* routes of another is a table that never existed.                          *)
(* The verdict of every clause is computed here, by                          *)
(* TLC; "bad" names the first clause that failed.                            *)
(* SnapshotImmutable: ANY earlier published snapshot (pub[x][i] = its cells  *)
(* as read when it was first seen), read again after any later operation,    *)
(* still shows the same cells; and the slice published by an operation holds *)
(* the list as the sequential semantics define it.                           *)
(*   dead      (in end) number of sends of this dispatch that went into a    *)
(*             destination whose relay had already been shut down by a       *)
(*             delete; nothing reads that channel any more, the driver       *)
(*             received instead.  Clause NoDeadSend (CheckDead): the real    *)
(*             dispatcher would have blocked there for ever, i.e. the metric *)
(*             is skipped for every entry that follows.                      *)
(*                                                                           *)
(* OVERLAPPING admin operations (kind "ovl": one real route; list "main" =   *)
(* its destinations, list "rt" = the route's own filter, one entry, id 0):   *)
(*   acall     operation a (fields as opbegin) is about to be called, in a   *)
(*             goroutine of its own                                          *)
(*   aret      operation a has returned: err                                 *)
(*   aview     all operations called so far have returned: views[x] = list x *)
(*             as Table.Snapshot() shows it now (main = the destinations, rt *)
(*             = the route's filter); snaps as in opdone                     *)
(* Kind "tovl": the same on the TABLE (main = its routes, bl, rw, agg).      *)
(* An operation that was recorded as returned before another was recorded as *)
(* called precedes it; the driver records a call before it makes it and a    *)
(* return after it got it, so operations that overlapped in the real run are *)
(* never ordered here.  Clause AdminLinearizable (TableOps.Linearizable):    *)
(* the view is the result of applying the operations one after the other in  *)
(* SOME order that respects that precedence, each refused exactly when the   *)
(* sequential semantics refuse it at its place in that order.                *)
EXTENDS TableOps, Json, TLC, TLCExt, IOUtils

CONSTANT CheckCells, \* judge the white-box cell comparison (FALSE: only what traffic and the view show)
         CheckDead   \* also demand that no dispatch sent into an entry that had been shut down

TLog == ndJsonDeserialize("trace.ndjson")

VARIABLES l, vers, lop, done, dlo, dcl, bad, kind, pub, ov
tvars == <<l, vers, lop, done, dlo, dcl, bad, kind, pub, ov>>

ASSUME TLCSet(1, 0)

Lists == {"main", "rw", "bl", "agg"}
\* "rt": the filter of the one real route of kinds dest / ovl (exists from the start, accepts everything)
Empty == [x \in Lists \cup {"rt"} |-> IF x = "rt" THEN <<[id |-> 0, f |-> 0]>> ELSE <<>>]
NoSnaps == [x \in Lists |-> <<>>]
Ev == TLog[l]
Is(e) == l <= Len(TLog) /\ Ev.ev = e /\ l' = l + 1
Pairs(v) == [i \in 1..Len(v) |-> [id |-> v[i][1], f |-> v[i][2]]]
Last == vers[Len(vers)]
First(cl) == IF cl = <<>> THEN "" ELSE cl[1]

TInit == l = 1 /\ vers = <<Empty>> /\ lop = [l |-> "main", op |-> "none"] /\ done = 1
         /\ dlo = <<>> /\ dcl = <<>> /\ bad = "" /\ kind = "" /\ pub = NoSnaps /\ ov = <<>>

THist == Is("hist") /\ vers' = <<Empty>> /\ lop' = [l |-> "main", op |-> "none"] /\ done' = 1
         /\ dlo' = <<>> /\ dcl' = <<>> /\ bad' = "" /\ kind' = Ev.kind /\ pub' = NoSnaps /\ ov' = <<>>

TOpBegin == /\ Is("opbegin")
            /\ vers' = Append(vers, [Last EXCEPT ![Ev.l] = ApplyOp(@, Ev)])
            /\ lop' = Ev
            /\ UNCHANGED <<done, dlo, dcl, bad, kind, pub, ov>>

\* every snapshot published earlier reads now as it read when it was first seen
OldIntact(sn) == \A x \in Lists : /\ Len(sn[x]) >= Len(pub[x])
                                   /\ \A i \in 1..Len(pub[x]) : sn[x][i] = pub[x][i]
\* the slice that is published now for the list operated on holds that list
NewIs(sn, x, lst) == x \in Lists => (sn[x] # <<>> /\ sn[x][Len(sn[x])] = Ids(lst))
NewIsList(sn, x) == NewIs(sn, x, Last[x])
Published(sn) == [x \in Lists |-> IF Len(sn[x]) > Len(pub[x])
                                   THEN pub[x] \o SubSeq(sn[x], Len(pub[x]) + 1, Len(sn[x])) ELSE pub[x]]

TOpDone ==
  /\ Is("opdone")
  /\ LET prev == vers[Len(vers) - 1][lop.l]
         sn == Ev.snaps
         clauses == <<
           IF Ev.err # OpErr(prev, lop) THEN "ResultOK" ELSE "",
           IF Pairs(Ev.view) # Last[lop.l] THEN "ViewOK" ELSE "",
           IF CheckCells /\ ~OldIntact(sn) THEN "SnapshotImmutable" ELSE "",
           IF CheckCells /\ ~NewIsList(sn, lop.l) THEN "ViewOK" ELSE "" >> IN
     /\ bad' = First(SelectSeq(clauses, LAMBDA x : x # ""))
     /\ pub' = Published(sn)
  /\ done' = Len(vers)
  /\ UNCHANGED <<vers, lop, dlo, dcl, kind, ov>>

\* ---- overlapping admin operations
TACall == /\ Is("acall")
          /\ ov' = Append(ov, [a |-> Ev.a, op |-> Ev, err |-> FALSE, done |-> FALSE,
                                pred |-> {i \in 1..Len(ov) : ov[i].done}])
          /\ lop' = Ev
          /\ UNCHANGED <<vers, done, dlo, dcl, bad, kind, pub>>

TARet == /\ Is("aret") /\ \E i \in 1..Len(ov) : ov[i].a = Ev.a /\ ~ov[i].done
         /\ LET i == CHOOSE i \in 1..Len(ov) : ov[i].a = Ev.a /\ ~ov[i].done IN
              ov' = [ov EXCEPT ![i].done = TRUE, ![i].err = Ev.err]
         /\ UNCHANGED <<vers, lop, done, dlo, dcl, bad, kind, pub>>

TAView ==
  /\ Is("aview") /\ \A i \in 1..Len(ov) : ov[i].done
  /\ LET obs == [x \in DOMAIN Last |-> IF x \in DOMAIN Ev.views THEN Pairs(Ev.views[x]) ELSE Last[x]]
         sn == Ev.snaps
         clauses == <<
           IF ~Linearizable(ov, Last, obs) THEN "AdminLinearizable" ELSE "",
           IF CheckCells /\ ~OldIntact(sn) THEN "SnapshotImmutable" ELSE "",
           IF CheckCells /\ ~(\A x \in Lists : NewIs(sn, x, obs[x])) THEN "ViewOK" ELSE "" >> IN
     /\ bad' = First(SelectSeq(clauses, LAMBDA x : x # ""))
     /\ pub' = Published(sn)
     /\ vers' = Append(vers, obs)
  /\ done' = Len(vers')
  /\ ov' = <<>>
  /\ UNCHANGED <<lop, dlo, dcl, kind>>

TStart == /\ Is("start")
          /\ dlo' = (Ev.d :> done) @@ dlo
          /\ dcl' = (Ev.d :> Ev.c) @@ dcl
          /\ UNCHANGED <<vers, lop, done, bad, kind, pub, ov>>

MainVers == [x \in 1..Len(vers) |-> vers[x]["main"]]

TEnd ==
  /\ Is("end") /\ Ev.d \in DOMAIN dlo
  /\ LET lo == dlo[Ev.d] hi == Len(vers) mv == MainVers
         out ==[fate |-> Ev.fate, rw |-> Ev.rw, rwobs |-> Ev.rwobs, vis |-> Ev.vis] IN
     \* routes, blacklist, rewriters, aggregators are one configuration value, loaded once: ONE version
     \* for all of them (fate, name and visited routes together); the destinations of a route are that
     \* route's own configuration, loaded when the route is reached: a version of their own
     bad' = IF IF kind \in {"dest", "ovl"}
               THEN /\ \E j \in lo..hi : /\ out.fate = FateOf(vers[j], dcl[Ev.d])
                                          /\ (out.rwobs => out.rw = Ids(vers[j]["rw"]))
                    /\ IF out.fate = "routed" THEN \E j \in lo..hi : AtomicAt(out.vis, dcl[Ev.d], lo, hi, mv, j)
                                              ELSE out.vis = <<>>
               ELSE WholeObs(out, dcl[Ev.d], lo, hi, mv, vers)
            THEN (IF CheckDead /\ Ev.dead > 0 THEN "NoDeadSend" ELSE "") ELSE "Atomic"
  /\ dlo' = [x \in (DOMAIN dlo) \ {Ev.d} |-> dlo[x]]
  /\ dcl' = [x \in (DOMAIN dcl) \ {Ev.d} |-> dcl[x]]
  /\ UNCHANGED <<vers, lop, done, kind, pub, ov>>

TNext == THist \/ TOpBegin \/ TOpDone \/ TStart \/ TEnd \/ TACall \/ TARet \/ TAView
TSpec == TInit /\ [][TNext]_tvars

HighWater == TLCSet(1, IF l - 1 > TLCGet(1) THEN l - 1 ELSE TLCGet(1))
Post == PrintT("@@TRACE " \o ToJson([matched |-> TLCGet(1)]))
Clean == bad = ""
Short == [l |-> l, bad |-> bad]
=============================================================================
