----------------------------- MODULE TableTrace -----------------------------
(* C18, level A trace specification: what the real table.Table did           *)
(* (trace.ndjson, one event per line) judged against the statement.          *)
(*   hist      a new history starts (fresh, empty table)                     *)
(*   opbegin   an admin operation on list "l" is about to be called          *)
(*   opdone    it returned: err (refused?), view = the list as               *)
(*             Table.Snapshot() shows it now ([id, f] pairs), before/after = *)
(*             the ids in the cells of the slice that was published when the *)
(*             operation started, read through the very same slice header    *)
(*             before and after the call (white box, VerifRawConfig)         *)
(*   start     Dispatch of a class-c metric is about to be called (id d)     *)
(*   end       it returned: vis = entries of the main list the metric was    *)
(*             delivered to, in order; rw = rewriters applied, in order      *)
(* Versions: vers[j] = all lists after the j-th operation (sequential        *)
(* semantics of TableOps).  A dispatch that started after operation lo had   *)
(* returned and ended before operation hi+1 was called may only have loaded  *)
(* a version in lo..hi.  The verdict of every clause is computed here, by    *)
(* TLC; "bad" names the first clause that failed.                            *)
(*   dead      (in end) number of sends of this dispatch that went into a    *)
(*             destination whose relay had already been shut down by a       *)
(*             delete; nothing reads that channel any more, the driver       *)
(*             received instead.  Clause NoDeadSend (CheckDead): the real    *)
(*             dispatcher would have blocked there for ever, i.e. the metric *)
(*             is skipped for every entry that follows.                      *)
EXTENDS TableOps, Json, TLC, TLCExt, IOUtils

CONSTANT CheckCells, \* judge the white-box cell comparison (FALSE: only what traffic and the view show)
         CheckDead   \* also demand that no dispatch sent into an entry that had been shut down

TLog == ndJsonDeserialize("trace.ndjson")

VARIABLES l, vers, lop, done, dlo, dcl, bad, kind
tvars == <<l, vers, lop, done, dlo, dcl, bad, kind>>

ASSUME TLCSet(1, 0)

Lists == {"main", "rw", "bl", "agg"}
Empty == [x \in Lists |-> <<>>]
Ev == TLog[l]
Is(e) == l <= Len(TLog) /\ Ev.ev = e /\ l' = l + 1
Pairs(v) == [i \in 1..Len(v) |-> [id |-> v[i][1], f |-> v[i][2]]]
Last == vers[Len(vers)]
First(cl) == IF cl = <<>> THEN "" ELSE cl[1]

TInit == l = 1 /\ vers = <<Empty>> /\ lop = [l |-> "main", op |-> "none"] /\ done = 1
         /\ dlo = <<>> /\ dcl = <<>> /\ bad = "" /\ kind = ""

THist == Is("hist") /\ vers' = <<Empty>> /\ lop' = [l |-> "main", op |-> "none"] /\ done' = 1
         /\ dlo' = <<>> /\ dcl' = <<>> /\ bad' = "" /\ kind' = Ev.kind

TOpBegin == /\ Is("opbegin")
            /\ vers' = Append(vers, [Last EXCEPT ![Ev.l] = ApplyOp(@, Ev)])
            /\ lop' = Ev
            /\ UNCHANGED <<done, dlo, dcl, bad, kind>>

TOpDone ==
  /\ Is("opdone")
  /\ LET prev == vers[Len(vers) - 1][lop.l]
         clauses == <<
           IF Ev.err # OpErr(prev, lop) THEN "ResultOK" ELSE "",
           IF Pairs(Ev.view) # Last[lop.l] THEN "ViewOK" ELSE "",
           IF CheckCells /\ Ev.before # Ev.after THEN "SnapshotImmutable" ELSE "" >> IN
     bad' = First(SelectSeq(clauses, LAMBDA x : x # ""))
  /\ done' = Len(vers)
  /\ UNCHANGED <<vers, lop, dlo, dcl, kind>>

TStart == /\ Is("start")
          /\ dlo' = (Ev.d :> done) @@ dlo
          /\ dcl' = (Ev.d :> Ev.c) @@ dcl
          /\ UNCHANGED <<vers, lop, done, bad, kind>>

MainVers == [x \in 1..Len(vers) |-> vers[x]["main"]]

TEnd ==
  /\ Is("end") /\ Ev.d \in DOMAIN dlo
  /\ LET lo == dlo[Ev.d] hi == Len(vers) mv == MainVers IN
     \* routes, rewriters (blacklist, aggregations) are one configuration value, loaded once: one version
     \* for all of them; the destinations of a route are that route's own configuration, loaded when
     \* the route is reached: a version of their own
     bad' = IF IF kind = "dest"
               THEN /\ \E j \in lo..hi : AtomicAt(Ev.vis, dcl[Ev.d], lo, hi, mv, j)
                    /\ (Ev.rwobs => \E j \in lo..hi : Ev.rw = Ids(vers[j]["rw"]))
               ELSE \E j \in lo..hi : /\ AtomicAt(Ev.vis, dcl[Ev.d], lo, hi, mv, j)
                                      /\ (Ev.rwobs => Ev.rw = Ids(vers[j]["rw"]))
            THEN (IF CheckDead /\ Ev.dead > 0 THEN "NoDeadSend" ELSE "") ELSE "Atomic"
  /\ dlo' = [x \in (DOMAIN dlo) \ {Ev.d} |-> dlo[x]]
  /\ dcl' = [x \in (DOMAIN dcl) \ {Ev.d} |-> dcl[x]]
  /\ UNCHANGED <<vers, lop, done, kind>>

TNext == THist \/ TOpBegin \/ TOpDone \/ TStart \/ TEnd
TSpec == TInit /\ [][TNext]_tvars

HighWater == TLCSet(1, IF l - 1 > TLCGet(1) THEN l - 1 ELSE TLCGet(1))
Post == PrintT("@@TRACE " \o ToJson([matched |-> TLCGet(1)]))
Clean == bad = ""
Short == [l |-> l, bad |-> bad]
=============================================================================
