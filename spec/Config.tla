------------------------------- MODULE Config -------------------------------
(* C20 -- configuration means what the documentation says, in both syntaxes.  *)
(*                                                                            *)
(* This module is a DECISION TABLE, not a behaviour model: it transcribes     *)
(*   docs/config.md              (TOML sections, option tables with defaults) *)
(*   docs/tcp-admin-interface.md (the equivalent init/admin commands)         *)
(*   docs/aggregation.md         (cache default differs per syntax)           *)
(*   docs/rewriting.md           (rewriter fields, ${1} in templates)         *)
(*   examples/carbon-relay-ng.ini + docs/config.md (interpolated variables)   *)
(* as                                                                         *)
(*   Expect(case, form)  the routing-table entry a configuration entry with   *)
(*                       a given set of options must produce, every field,    *)
(*                       unspecified options at their documented defaults;    *)
(*   ExpectAt(l, i, form) the same for entry i of a LIST l of entries of one  *)
(*                       kind written in one file / one command sequence      *)
(*                       (section 4): what the entry means on its own;        *)
(*   Exp(text, 1)        what configuration-file interpolation must turn a    *)
(*                       text into.                                           *)
(* The two little state machines below only ENUMERATE the argument space      *)
(* (option subsets built one option at a time; texts built one token at a     *)
(* time; lists are enumerated as initial states, systematically or by seeded *)
(* random draws) so that TLC prints each case with its expected outcome.      *)
(* The cases are rendered as TOML / command text and loaded by the real code; *)
(* what the real code built is compared with the record printed here.         *)
(*                                                                            *)
(* Where the documentation gives no default the value is taken from the code  *)
(* and marked [code]; nothing undocumented and ambiguous is asserted.         *)
EXTENDS Integers, Sequences, FiniteSets, TLC, Json, Randomization

CONSTANTS
    Mode,        \* "cases": enumerate configuration entries; "expand": enumerate texts;
                 \* "leak", "rlists": enumerate LISTS of entries of one section kind (section 4)
    Kinds,       \* subset of {"black", "rewriter", "agg", "route", "gnet"}
    RouteTypes,  \* subset of {"sendAllMatch", "sendFirstMatch", "consistentHashing"}
    MaxDests,    \* destinations per carbon route: 1..MaxDests (consistentHashing: 2..)
    MaxOpts,     \* at most this many options are set in one case ...
    DeepKinds, DeepTypes, DeepDests, DeepOpts,   \* ... DeepOpts for these kinds (routes: these types, <= DeepDests destinations)
    NVals,       \* distinct values tried per string / integer option
    Alphabet,    \* tokens texts are built from (Mode = "expand")
    MaxLen,      \* texts have at most this many tokens
    Deviation,   \* "" (the documentation) or a named wrong reading, for the non-vacuity runs
    MaxList,     \* lists have at most this many entries
    FullNames,   \* Mode "leak": options with these names are tried at every pair of positions of
                 \* lists of 2..MaxList entries, every other option in lists of two
    RandK,       \* Mode "rlists": random option sets drawn per base entry ...
    RandOpts,    \* ... of about this many options each ...
    RandN,       \* ... and random lists drawn per section kind and list length
    Zeros        \* the value class "explicit zero" of the numeric options (section 2a): "none" (not generated),
                 \* "ok" (only where an explicit 0 can yield an entry) or "all" (also where it must be rejected)

VARIABLES c,     \* the configuration entry under construction (Mode = "cases")
          txt,   \* the text under construction, a sequence of tokens (Mode = "expand")
          lst    \* a list of entries of one section kind: the [[route]] / [[aggregation]] /
                 \* [[rewriter]] sections or blacklist lines of ONE configuration file, in file
                 \* order = the init / admin commands of one sequence (Mode = "leak", "rlists")
vars == <<c, txt, lst>>

(***************************************************************************)
(* 1. Interpolation of the configuration file                              *)
(*                                                                         *)
(* examples/carbon-relay-ng.ini: "supported variables: ${HOST} : hostname" *)
(* docs/config.md (grafanaNet): ${GRAFANA_NET_ADDR} ${GRAFANA_NET_USER_ID} *)
(* ${GRAFANA_NET_API_KEY}.  Nothing else is a variable: $1, ${1} are group *)
(* references of rewriter / aggregation templates and "$" is the regular   *)
(* expression anchor (docs/config.md, docs/rewriting.md).                  *)
(*                                                                         *)
(* A text is a sequence of tokens: "$", "{", "}", identifier tokens (only  *)
(* letters, digits, "_") and punctuation tokens (none of those).  A        *)
(* reference is ${NAME} or $NAME where NAME is the maximal run of          *)
(* identifier characters (shell convention, so $HOSTx is not $HOST).       *)
(***************************************************************************)
DocVars == {"HOST", "GRAFANA_NET_ADDR", "GRAFANA_NET_API_KEY", "GRAFANA_NET_USER_ID"}
PunctToks == {".", ")", " ", "-", "/", "^", "("}
IdentToks == DocVars \cup {"1", "x", "HOSTNAME", "servers", "collectd", "servers_new"}
IsIdent(t) == t \in IdentToks
ASSUME Alphabet \subseteq ({"$", "{", "}"} \cup PunctToks \cup IdentToks)    \* every token has a known class

RECURSIVE RunEnd(_, _)      \* first index >= i that is not an identifier token
RunEnd(t, i) == IF i <= Len(t) /\ IsIdent(t[i]) THEN RunEnd(t, i + 1) ELSE i
RECURSIVE Cat(_, _, _)      \* t[i] \o ... \o t[j-1]
Cat(t, i, j) == IF i >= j THEN "" ELSE t[i] \o Cat(t, i + 1, j)
CatAll(t) == Cat(t, 1, Len(t) + 1)

\* is the "$" at position i the start of a reference to a documented variable?
Braced(t, i) == i < Len(t) /\ t[i + 1] = "{"
SubstAt(t, i) ==
    /\ t[i] = "$"
    /\ IF Braced(t, i)
       THEN LET j == RunEnd(t, i + 2) IN j <= Len(t) /\ t[j] = "}" /\ Cat(t, i + 2, j) \in DocVars
       ELSE Cat(t, i + 1, RunEnd(t, i + 1)) \in DocVars

Lit(s) == [k |-> "lit", s |-> s, br |-> FALSE]
VarP(n, b) == [k |-> "var", s |-> n, br |-> b]

\* the result: a sequence of pieces, literal text or "value of variable s"
RECURSIVE Exp(_, _)
Exp(t, i) ==
    IF i > Len(t) THEN <<>>
    ELSE IF t[i] # "$" THEN <<Lit(t[i])>> \o Exp(t, i + 1)
    ELSE IF SubstAt(t, i)
         THEN IF Braced(t, i)
              THEN LET j == RunEnd(t, i + 2) IN <<VarP(Cat(t, i + 2, j), TRUE)>> \o Exp(t, j + 1)
              ELSE LET j == RunEnd(t, i + 1) IN <<VarP(Cat(t, i + 1, j), FALSE)>> \o Exp(t, j)
    ELSE IF /\ Deviation = "os_expand"     \* wrong reading: ${name} of an unknown name loses its braces
            /\ Braced(t, i)
            /\ LET j == RunEnd(t, i + 2) IN j > i + 2 /\ j <= Len(t) /\ t[j] = "}"
         THEN LET j == RunEnd(t, i + 2) IN <<Lit("$"), Lit(Cat(t, i + 2, j))>> \o Exp(t, j + 1)
    ELSE <<Lit("$")>> \o Exp(t, i + 1)      \* every other "$" stays, and so does what follows it

\* The documentation does not say whether a reference nested in an unknown
\* ${...} group, or directly after another "$", is a reference.  No expectation
\* is emitted for such texts.
Ambiguous(t) ==
    \E i \in 1..Len(t) :
       /\ t[i] = "$"
       /\ \/ i < Len(t) /\ t[i + 1] = "$" /\ SubstAt(t, i + 1)
          \/ /\ Braced(t, i) /\ ~SubstAt(t, i)
             /\ \E j \in (i + 2)..Len(t) : t[j] = "$" /\ \A m \in (i + 2)..(j - 1) : t[m] # "}"

\* pieces -> text, with every variable written back the way it was referenced
RECURSIVE Unexpand(_)
Unexpand(p) == IF p = <<>> THEN ""
               ELSE (IF Head(p).k = "lit" THEN Head(p).s
                     ELSE IF Head(p).br THEN "${" \o Head(p).s \o "}" ELSE "$" \o Head(p).s)
                    \o Unexpand(Tail(p))
\* pieces -> text when no variable occurs (templates of configuration entries)
RECURSIVE Flat(_)
Flat(p) == IF p = <<>> THEN "" ELSE (IF Head(p).k = "lit" THEN Head(p).s ELSE "<" \o Head(p).s \o ">") \o Flat(Tail(p))

\* C20, second sentence: only the documented variables are substituted and
\* everything else is left byte for byte.
OnlyDocVarsSubstituted == Unexpand(Exp(txt, 1)) = CatAll(txt)
NoVarNoChange == (\A i \in 1..Len(txt) : txt[i] \notin DocVars) => Flat(Exp(txt, 1)) = CatAll(txt)

(***************************************************************************)
(* 2. Configuration entries                                                *)
(*                                                                         *)
(* A case: kind, up to three variant tags, number of destinations and the  *)
(* set of options that are set; an option is [scope, name, k]: scope "r"   *)
(* (the entry itself) or "d1".."d3" (a destination), k the index of the    *)
(* value (booleans: 0 = false, 1 = true).  Concrete values are pairwise    *)
(* distinct over (name, scope, k) and differ from every default, so that a *)
(* swapped or misdirected assignment shows.                                *)
(***************************************************************************)
MatchNames == {"prefix", "notPrefix", "sub", "notSub", "regex", "notRegex"}
AggFuns == {"avg", "count", "delta", "derive", "last", "max", "min", "stdev", "sum"}  \* tcp-admin-interface.md
TplKinds == {"plain", "dollar", "brace", "bracex"}

\* integer options: name, field of the entry it sets, documented default, unit
\* (field values are in microseconds where the option is a time), value index.
\* docs/config.md "carbon destination":
DestInts == {
    [name |-> "flush",                field |-> "flush_us",             def |-> 1000,      mul |-> 1000, ix |-> 1],
    [name |-> "reconn",               field |-> "reconn_us",            def |-> 10000,     mul |-> 1000, ix |-> 2],
    [name |-> "connbuf",              field |-> "connbuf",              def |-> 30000,     mul |-> 1,    ix |-> 3],
    [name |-> "iobuf",                field |-> "iobuf",                def |-> 2000000,   mul |-> 1,    ix |-> 4],   \* "2M": 2000000 [code]
    [name |-> "spoolbuf",             field |-> "spoolbuf",             def |-> 10000,     mul |-> 1,    ix |-> 5],
    [name |-> "spoolmaxbytesperfile", field |-> "spoolmaxbytesperfile", def |-> 209715200, mul |-> 1,    ix |-> 6],   \* 200 * 1024 * 1024
    [name |-> "spoolsyncevery",       field |-> "spoolsyncevery",       def |-> 10000,     mul |-> 1,    ix |-> 7],
    [name |-> "spoolsyncperiod",      field |-> "spoolsyncperiod_us",   def |-> 1000,      mul |-> 1000, ix |-> 8],
    [name |-> "spoolsleep",           field |-> "spoolsleep_us",        def |-> 500,       mul |-> 1,    ix |-> 9],
    [name |-> "unspoolsleep",         field |-> "unspoolsleep_us",      def |-> 10,        mul |-> 1,    ix |-> 10] }
DestBools == { [name |-> "pickle", field |-> "pickle", def |-> 0], [name |-> "spool", field |-> "spool", def |-> 0] }

\* docs/config.md "grafanaNet route":
GnetInts == {
    [name |-> "concurrency",   field |-> "concurrency",      def |-> 100,      mul |-> 1,    ix |-> 11],
    [name |-> "bufSize",       field |-> "bufSize",          def |-> 10000000, mul |-> 1,    ix |-> 12],
    [name |-> "flushMaxNum",   field |-> "flushMaxNum",      def |-> 5000,     mul |-> 1,    ix |-> 13],
    [name |-> "flushMaxWait",  field |-> "flushMaxWait_us",  def |-> 500,      mul |-> 1000, ix |-> 14],
    [name |-> "timeout",       field |-> "timeout_us",       def |-> 10000,    mul |-> 1000, ix |-> 15],
    [name |-> "orgId",         field |-> "orgId",            def |-> 1,        mul |-> 1,    ix |-> 16],
    [name |-> "errBackoffMin", field |-> "errBackoffMin_us", def |-> 100,      mul |-> 1000, ix |-> 17] }
GnetBools == { [name |-> "sslverify", field |-> "sslverify", def |-> 1],
               [name |-> "spool",     field |-> "spool",     def |-> 0],
               [name |-> "blocking",  field |-> "blocking",  def |-> 0] }
FactorVals == <<"2.25", "3.75">>       \* errBackoffFactor, default 1.5

ScopeIdx(s) == CASE s = "r" -> 0 [] s = "d1" -> 1 [] s = "d2" -> 2 [] s = "d3" -> 3
DestScope(i) == "d" \o ToString(i)

\* concurrency is a number of goroutines: keep it small.  Everything else 1000*ix + 10*scope + k:
\* never a multiple of 10, hence never a default.  Value index 0 is the value class "explicit zero".
IntVal(d, s, k) == IF k = 0 THEN 0 ELSE IF d.name = "concurrency" THEN 10 + k ELSE 1000 * d.ix + 10 * ScopeIdx(s) + k
StrVal(n, s, k) == n \o "_" \o s \o "_" \o ToString(k)

Has(cc, s, n) == \E o \in cc.opts : o.scope = s /\ o.name = n
K(cc, s, n) == (CHOOSE o \in cc.opts : o.scope = s /\ o.name = n).k
BoolOf(k) == IF Deviation = "bool_inverted" THEN k = 0 ELSE k = 1

(***************************************************************************)
(* 2a. The value class "explicit zero"                                     *)
(*                                                                         *)
(* docs/config.md: every option has a default that applies when the option *)
(* is NOT specified ("default" column); C20: "no option is silently        *)
(* ignored".  A numeric option that IS specified as 0 is therefore either  *)
(* applied -- the field of the entry is 0 -- or the entry is refused with  *)
(* an error; it never means "use the default".  Which of the two is taken  *)
(* from the constructors as they are [code]:                               *)
(*   destination.New      flush, reconn, iobuf must be > 0; spoolsyncperiod *)
(*                        must be > 0 when the destination spools; connbuf, *)
(*                        spoolbuf >= 0; the other spool tunables: any      *)
(*   route.NewGrafanaNet  concurrency >= 1; bufSize >= 0; orgId "must be a  *)
(*                        number > 0" (tcp-admin-interface / errOrgId0)     *)
(*   aggregator.New       interval must be a positive number of seconds     *)
(*   rewriter.New         max >= -1 (0 for a literal rewriter is accepted)  *)
(* Acceptance does not depend on the syntax.                               *)
(*                                                                         *)
(* Named wrong reading "zero_means_unset": an option given as 0 is treated *)
(* as if it had not been given (default applied, nothing refused).         *)
(***************************************************************************)
ZeroUnset == Deviation = "zero_means_unset"
\* integer option n of scope s is given, as 0
Z(cc, s, n) == Has(cc, s, n) /\ K(cc, s, n) = 0
\* ... and is in force (the option is given and not read as "not given")
InForce(cc, s, n) == Has(cc, s, n) /\ ~(ZeroUnset /\ K(cc, s, n) = 0)
DestZeroRefused == {"flush", "reconn", "iobuf"}          \* destination.New: must be > 0
GnetZeroRefused == {"concurrency", "orgId"}              \* NewGrafanaNet / errOrgId0
SpoolOn(cc, s) == Has(cc, s, "spool") /\ BoolOf(K(cc, s, "spool"))
\* the configuration entry is refused with an error (whatever the syntax)
Rejected(cc, form) ==
    /\ ~ZeroUnset
    /\ \/ /\ cc.kind = "route"
          /\ \E i \in 1..cc.nd : LET s == "d" \o ToString(i) IN
                \/ \E n \in DestZeroRefused : Z(cc, s, n)
                \/ Z(cc, s, "spoolsyncperiod") /\ SpoolOn(cc, s)
       \/ cc.kind = "gnet" /\ \E n \in GnetZeroRefused : Z(cc, "r", n)
       \/ cc.kind = "agg" /\ cc.v3 = "i0"

\* ---- field groups -------------------------------------------------------
\* the six filters; TOML sections of aggregations and routes also accept the old
\* spelling "substr" for "sub" (CHANGELOG v0.13.0)
MF(cc, s, pfx, n) ==
    (pfx \o n) :> (IF Has(cc, s, n) THEN StrVal(n, s, K(cc, s, n))
                   ELSE IF n = "sub" /\ Has(cc, s, "substr") /\ Deviation # "substr_dropped"
                        THEN StrVal("substr", s, K(cc, s, "substr"))
                   ELSE "")
MatcherFields(cc, s, pfx) ==
    MF(cc, s, pfx, "prefix") @@ MF(cc, s, pfx, "notPrefix") @@ MF(cc, s, pfx, "sub") @@
    MF(cc, s, pfx, "notSub") @@ MF(cc, s, pfx, "regex") @@ MF(cc, s, pfx, "notRegex")

\* under the "swap_buf" deviation connbuf= and spoolbuf= set each other's field
SrcName(n) == IF Deviation = "swap_buf" /\ n = "connbuf" THEN "spoolbuf"
              ELSE IF Deviation = "swap_buf" /\ n = "spoolbuf" THEN "connbuf" ELSE n
\* (tables are walked as sequences: one string concatenation per field)
SeqOf(S) == LET RECURSIVE F(_)
                F(T) == IF T = {} THEN <<>> ELSE LET x == CHOOSE x \in T : TRUE IN <<x>> \o F(T \ {x})
            IN F(S)
DestIntSeq == SeqOf(DestInts)
DestBoolSeq == SeqOf(DestBools)
GnetIntSeq == SeqOf(GnetInts)
GnetBoolSeq == SeqOf(GnetBools)
Row(tbl, n) == CHOOSE e \in tbl : e.name = n
RECURSIVE IntF(_, _, _, _, _, _)
IntF(cc, s, pfx, tbl, sq, i) ==
    IF i > Len(sq) THEN <<>>
    ELSE LET d == sq[i]
             src == IF Deviation = "swap_buf" THEN Row(tbl, SrcName(d.name)) ELSE d
         IN ((pfx \o d.field) :> (d.mul * (IF InForce(cc, s, src.name) THEN IntVal(src, s, K(cc, s, src.name)) ELSE d.def)))
            @@ IntF(cc, s, pfx, tbl, sq, i + 1)
IntFields(cc, s, pfx, tbl) ==
    IntF(cc, s, pfx, tbl, IF tbl = DestInts THEN DestIntSeq ELSE GnetIntSeq, 1)
RECURSIVE BoolF(_, _, _, _, _)
BoolF(cc, s, pfx, sq, i) ==
    IF i > Len(sq) THEN <<>>
    ELSE LET d == sq[i]
         IN ((pfx \o d.field) :> (IF Has(cc, s, d.name) THEN BoolOf(K(cc, s, d.name)) ELSE d.def = 1))
            @@ BoolF(cc, s, pfx, sq, i + 1)
BoolFields(cc, s, pfx, tbl) ==
    BoolF(cc, s, pfx, IF tbl = DestBools THEN DestBoolSeq ELSE GnetBoolSeq, 1)

\* ---- templates: token sequences, so that interpolation can be applied -----
Tpl(kind) == CASE kind = "plain"  -> <<"servers_new">>
               [] kind = "dollar" -> <<"servers", ".", "$", "1", ".", "collectd">>            \* docs/aggregation.md $1
               [] kind = "brace"  -> <<"servers", ".", "$", "{", "1", "}", ".", "collectd">>  \* docs/rewriting.md ${1}
               [] kind = "bracex" -> <<"servers", ".", "$", "{", "1", "}", "x">>
\* what the entry sees: TOML sections and init commands live in the configuration
\* file and pass through interpolation, admin commands do not.
Through(form, tpl) == IF form = "cmd" THEN CatAll(tpl) ELSE Flat(Exp(tpl, 1))

\* ---- mandatory parameters (concrete; <...> are filled in by the driver) ----
DestAddr(cc, i) == "127.0.0." \o ToString(i) \o ":1"
DestInst(cc, i) == IF cc.v1 = "consistentHashing" THEN "inst" \o ToString(i) ELSE ""
RewOld(cc) == IF cc.v1 = "re" THEN "/old_([a-z]+)/" ELSE "old_lit"
RewMax(cc) == IF cc.v3 = "all" THEN -1 ELSE IF cc.v3 = "z" THEN 0 ELSE 3      \* "z": max = 0, explicit zero
RewNot(cc) == IF ~Has(cc, "r", "not") THEN ""            \* docs/rewriting.md: not = '' in every example
              ELSE IF K(cc, "r", "not") = 1 THEN "not_lit" ELSE "/not_[0-9]+/"
BlackVal(cc) == StrVal(cc.v1, "r", 1) \o cc.v3     \* v3: "" or a tag that tells the lines of one blacklist apart
AggRegex == "^aggre\\.(\\w+)\\.in$"      \* ends in the anchor: a "$" that is not a reference
AggInterval(cc) == IF cc.v3 = "i0" THEN 0 ELSE 7200         \* v3: "", "i0" (interval = 0), "w0" (wait = 0)
AggWait(cc) == IF cc.v3 = "w0" THEN 0 ELSE 10800

Params(cc) ==
    CASE cc.kind = "black"    -> [method |-> cc.v1, value |-> BlackVal(cc)]
      [] cc.kind = "rewriter" -> [old |-> RewOld(cc), new |-> CatAll(Tpl(cc.v2)), max |-> ToString(RewMax(cc))]
      [] cc.kind = "agg"      -> [fun |-> cc.v1, regex |-> AggRegex, format |-> CatAll(Tpl(cc.v2)),
                                  interval |-> ToString(AggInterval(cc)), wait |-> ToString(AggWait(cc))]
      [] cc.kind = "route"    -> [type |-> cc.v1, key |-> "<KEY>",
                                  addrs |-> [i \in 1..cc.nd |-> DestAddr(cc, i) \o
                                               (IF DestInst(cc, i) = "" THEN "" ELSE ":" \o DestInst(cc, i))]]
      [] cc.kind = "gnet"     -> [key |-> "<KEY>", addr |-> "<GNETADDR>", apiKey |-> "apiKey_r_1",
                                  schemasFile |-> "<SCHEMAS>", aggregationFile |-> "<AGGREGATION>"]

\* ---- the expected entry ---------------------------------------------------
ExpectBlack(cc) ==
    [f \in MatchNames |-> IF f = cc.v1 THEN BlackVal(cc) ELSE ""]

ExpectRewriter(cc, form) ==
    [old |-> RewOld(cc), new |-> Through(form, Tpl(cc.v2)), not |-> RewNot(cc), max |-> RewMax(cc)]

\* docs/aggregation.md "caching": "By default, the cache is enabled for aggregators set up via
\* commands (init commands in the config) but disabled for aggregators configured via config sections"
CacheDefault(form) == IF Deviation = "cache_same_default" THEN TRUE ELSE form # "toml"
ExpectAgg(cc, form) ==
    ("regex" :> AggRegex)                                       \* regex is mandatory for an aggregation
    @@ MatcherFields(cc, "r", "")
    @@ [fun |-> cc.v1, format |-> Through(form, Tpl(cc.v2)), interval |-> AggInterval(cc), wait |-> AggWait(cc),
        cache   |-> IF Has(cc, "r", "cache") THEN BoolOf(K(cc, "r", "cache")) ELSE CacheDefault(form),
        dropRaw |-> IF Has(cc, "r", "dropRaw") THEN BoolOf(K(cc, "r", "dropRaw")) ELSE FALSE]   \* docs/config.md example

\* under the "dest_shift" deviation the options written for destination 2 land on destination 1
DScope(i) == IF Deviation = "dest_shift" /\ i = 1 THEN "d2" ELSE DestScope(i)
ExpectDest(cc, i) ==
    LET s == DScope(i)
        p == DestScope(i) \o "."
    IN  ((p \o "addr") :> DestAddr(cc, i)) @@ ((p \o "instance") :> DestInst(cc, i))
        @@ ((p \o "spooldir") :> "<SPOOLDIR>") @@ ((p \o "route") :> "<KEY>")
        @@ MatcherFields(cc, s, p) @@ IntFields(cc, s, p, DestInts) @@ BoolFields(cc, s, p, DestBools)
RECURSIVE ExpectDests(_, _)
ExpectDests(cc, i) == IF i > cc.nd THEN <<>> ELSE ExpectDest(cc, i) @@ ExpectDests(cc, i + 1)
ExpectRoute(cc) ==
    [type |-> cc.v1, key |-> "<KEY>", ndests |-> cc.nd] @@ MatcherFields(cc, "r", "") @@ ExpectDests(cc, 1)

ExpectGnet(cc) ==
    [type |-> "GrafanaNet", key |-> "<KEY>", ndests |-> 0, addr |-> "<GNETADDR>", apiKey |-> "apiKey_r_1",
     schemasFile |-> "<SCHEMAS>", aggregationFile |-> "<AGGREGATION>",
     errBackoffFactor |-> IF ~InForce(cc, "r", "errBackoffFactor") THEN "1.5"
                          ELSE IF K(cc, "r", "errBackoffFactor") = 0 THEN "0"
                          ELSE FactorVals[K(cc, "r", "errBackoffFactor")]]
    @@ MatcherFields(cc, "r", "") @@ IntFields(cc, "r", "", GnetInts) @@ BoolFields(cc, "r", "", GnetBools)

Added(cc) == [added_black    |-> IF cc.kind = "black" THEN 1 ELSE 0,
              added_rewriter |-> IF cc.kind = "rewriter" THEN 1 ELSE 0,
              added_agg      |-> IF cc.kind = "agg" THEN 1 ELSE 0,
              added_route    |-> IF cc.kind \in {"route", "gnet"} THEN 1 ELSE 0]
Expect(cc, form) == Added(cc) @@
    CASE cc.kind = "black"    -> ExpectBlack(cc)
      [] cc.kind = "rewriter" -> ExpectRewriter(cc, form)
      [] cc.kind = "agg"      -> ExpectAgg(cc, form)
      [] cc.kind = "route"    -> ExpectRoute(cc)
      [] cc.kind = "gnet"     -> ExpectGnet(cc)

\* which syntaxes can express the case
\*  - "substr" is a TOML spelling; "not" exists only in [[rewriter]] sections (docs/rewriting.md);
\*    the percentiles function is documented for [[aggregation]] sections only
HasCmd(cc) == /\ ~\E o \in cc.opts : o.name = "substr"
              /\ ~Has(cc, "r", "not")
              /\ ~(cc.kind = "agg" /\ cc.v1 = "percentiles")
Forms(cc) == IF HasCmd(cc) THEN {"toml", "init", "cmd"} ELSE {"toml"}

\* ---- the case space ---------------------------------------------------------
Base(kind, a, b, d, n) == [kind |-> kind, v1 |-> a, v2 |-> b, v3 |-> d, nd |-> n, opts |-> {}]
Bases ==
    (IF "black" \in Kinds THEN {Base("black", m, "", "", 0) : m \in MatchNames} ELSE {})
    \cup (IF "rewriter" \in Kinds
          THEN ({Base("rewriter", o, n, m, 0) : o \in {"lit", "re"}, n \in TplKinds, m \in {"all", "n"}}
                \ {Base("rewriter", "re", n, "n", 0) : n \in TplKinds})     \* regex rewriters need max = -1
               \cup (IF Zeros = "none" THEN {} ELSE {Base("rewriter", "lit", n, "z", 0) : n \in {"plain", "brace"}})
          ELSE {})
    \cup (IF "agg" \in Kinds      \* function and template are independent: no need for the product
          THEN {Base("agg", f, "dollar", "", 0) : f \in AggFuns \cup {"percentiles"}}
               \cup {Base("agg", "sum", t, "", 0) : t \in TplKinds}
               \cup (IF Zeros = "none" THEN {} ELSE {Base("agg", f, "dollar", "w0", 0) : f \in {"sum", "last"}})
               \cup (IF Zeros = "all" THEN {Base("agg", f, "dollar", "i0", 0) : f \in {"sum", "last"}} ELSE {})
          ELSE {})
    \cup (IF "route" \in Kinds
          THEN {Base("route", t, "", "", n) : t \in RouteTypes, n \in 1..MaxDests}
               \ {Base("route", "consistentHashing", "", "", 1)}
          ELSE {})
    \cup (IF "gnet" \in Kinds THEN {Base("gnet", "", "", "", 0)} ELSE {})

O(s, n, k) == [scope |-> s, name |-> n, k |-> k]
StrOpts(s, names) == {O(s, n, k) : n \in names, k \in 1..NVals}
BoolOpts(s, tbl) == {O(s, d.name, k) : d \in tbl, k \in {0, 1}}
ZeroRefusedNames == DestZeroRefused \cup GnetZeroRefused
IntOpts(s, tbl) == {O(s, d.name, k) : d \in tbl, k \in 1..NVals}
                   \cup (IF Zeros = "none" THEN {}
                         ELSE {O(s, d.name, 0) : d \in {d \in tbl : Zeros = "all" \/ d.name \notin ZeroRefusedNames}})

Universe(cc) ==
    CASE cc.kind = "black"    -> {}
      [] cc.kind = "rewriter" -> {O("r", "not", 1), O("r", "not", 2)}
      [] cc.kind = "agg"      -> StrOpts("r", (MatchNames \ {"regex"}) \cup {"substr"})
                                 \cup {O("r", n, k) : n \in {"cache", "dropRaw"}, k \in {0, 1}}
      [] cc.kind = "route"    -> StrOpts("r", MatchNames \cup {"substr"})
                                 \cup UNION { (IF cc.v1 = "consistentHashing" THEN {} ELSE StrOpts(DestScope(i), MatchNames))
                                              \cup IntOpts(DestScope(i), DestInts) \cup BoolOpts(DestScope(i), DestBools)
                                              : i \in 1..cc.nd }
      [] cc.kind = "gnet"     -> StrOpts("r", MatchNames \cup {"substr"}) \cup IntOpts("r", GnetInts)
                                 \cup BoolOpts("r", GnetBools)
                                 \cup {O("r", "errBackoffFactor", k) : k \in (IF Zeros = "none" THEN 1..2 ELSE 0..2)}

Other(n) == IF n = "sub" THEN "substr" ELSE IF n = "substr" THEN "sub" ELSE n
Avail(cc) == {o \in Universe(cc) : ~Has(cc, o.scope, o.name) /\ ~Has(cc, o.scope, Other(o.name))}

OptType(cc, o) ==
    IF o.name \in {"pickle", "spool", "cache", "dropRaw", "sslverify", "blocking"} THEN "bool"
    ELSE IF o.name = "errBackoffFactor" THEN "float"
    ELSE IF \E d \in DestInts \cup GnetInts : d.name = o.name THEN "int"
    ELSE "str"
OptText(cc, o) ==
    LET ty == OptType(cc, o) IN
    IF ty = "bool" THEN (IF o.k = 1 THEN "true" ELSE "false")
    ELSE IF ty = "float" THEN (IF o.k = 0 THEN "0.0" ELSE FactorVals[o.k])
    ELSE IF ty = "int" THEN ToString(IntVal(CHOOSE d \in DestInts \cup GnetInts : d.name = o.name, o.scope, o.k))
    ELSE IF cc.kind = "rewriter" THEN RewNot(cc)
    ELSE StrVal(o.name, o.scope, o.k)

Diff(a, b) == [f \in {f \in DOMAIN a : a[f] # b[f]} |-> b[f]]
IsZeroOpt(cc, o) == o.k = 0 /\ OptType(cc, o) \in {"int", "float"}
OptField(o) == (IF o.scope = "r" THEN "" ELSE o.scope \o ".") \o
               (IF \E d \in DestInts \cup GnetInts : d.name = o.name
                THEN (CHOOSE d \in DestInts \cup GnetInts : d.name = o.name).field ELSE o.name)
ZeroFields(cc) == {OptField(o) : o \in {o \in cc.opts : IsZeroOpt(cc, o)}}
                  \cup (IF cc.kind = "agg" /\ cc.v3 = "i0" THEN {"interval"} ELSE {})
                  \cup (IF cc.kind = "agg" /\ cc.v3 = "w0" THEN {"wait"} ELSE {})
                  \cup (IF cc.kind = "rewriter" /\ cc.v3 = "z" THEN {"max"} ELSE {})
\* cc: what is written (rendered by the driver); ee: the options in force, which decide the entry.
\* The documentation says ee = cc; they differ only under a wrong reading (section 4).
CaseOutE(cc, ee) ==
    LET t == Expect(ee, "toml") IN
    [kind |-> cc.kind, v1 |-> cc.v1, v2 |-> cc.v2, v3 |-> cc.v3, nd |-> cc.nd,
     params |-> Params(cc),
     opts |-> {[scope |-> o.scope, name |-> o.name, ty |-> OptType(cc, o), text |-> OptText(cc, o)] : o \in cc.opts},
     forms |-> Forms(cc),
     reject |-> {f \in Forms(cc) : Rejected(ee, f)},     \* the forms in which the entry must be refused with an error
     zero |-> ZeroFields(cc),                           \* the fields that are written as an explicit 0
     toml |-> t,
     initdiff |-> Diff(t, Expect(ee, "init")),    \* fields where the init-command entry differs
     cmddiff |-> Diff(t, Expect(ee, "cmd"))]
CaseOut(cc) == CaseOutE(cc, cc)

(***************************************************************************)
(* 3. Sanity of the table itself (checked by TLC on every enumerated case) *)
(***************************************************************************)
\* an option decides exactly its own field of the entry and nothing else
OwnFields(o) ==
    LET p == IF o.scope = "r" THEN "" ELSE o.scope \o "." IN
    IF o.name = "substr" THEN {p \o "sub"}
    ELSE IF \E d \in DestInts \cup GnetInts : d.name = o.name
         THEN {p \o (CHOOSE d \in DestInts \cup GnetInts : d.name = o.name).field}
    ELSE {p \o o.name}
Without(cc, o) == [cc EXCEPT !.opts = cc.opts \ {o}]
IsDefault(cc, o) ==      \* an explicit false / true that repeats the default
    \/ o.name = "sslverify" /\ o.k = 1
    \/ o.name \in {"pickle", "spool", "blocking", "dropRaw"} /\ o.k = 0
EachOptionItsOwnField == Mode = "cases" =>
    \A o \in c.opts : \A form \in {"toml", "cmd"} :
        LET d == DOMAIN Diff(Expect(Without(c, o), form), Expect(c, form)) IN
        IF o.name = "cache" THEN d \subseteq {"cache"}
        ELSE IF IsDefault(c, o) THEN d = {} ELSE d = OwnFields(o)
\* A destination string of a [[route]] section is the address followed by blank-separated option=value words
\* (docs/config.md); how many blanks separate the words -- options lined up in columns -- is layout, not meaning
\* (tabs are not claimed: the documentation shows blanks only, and the relay's tokenizer does not take a tab for one).  (In the command forms two blanks are the separator between destinations: there the layout is fixed.)
\* Named wrong reading "double_blank_ends_toml_dest": what follows a double blank in a section's destination string
\* is dropped, as if it were the command syntax.
DestLayouts == {"single", "double", "mixed"}
NoDestOpts(cc) == [cc EXCEPT !.opts = {o \in cc.opts : o.scope = "r"}]
ExpectL(cc, form, layout) ==
    IF Deviation = "double_blank_ends_toml_dest" /\ form = "toml" /\ cc.kind = "route" /\ layout \in {"double", "mixed"}
    THEN Expect(NoDestOpts(cc), form) ELSE Expect(cc, form)
LayoutIrrelevant == Mode = "cases" => \A layout \in DestLayouts : ExpectL(c, "toml", layout) = Expect(c, "toml")
\* the two syntaxes mean the same entry, except for the documented cache default
SyntaxesAgree == Mode = "cases" =>
    DOMAIN Diff(Expect(c, "toml"), Expect(c, "cmd")) \subseteq (IF Has(c, "r", "cache") THEN {} ELSE {"cache"})
\* ... and that difference is there (docs/aggregation.md "caching")
CacheAsymmetry ==
    Mode = "cases" /\ c.kind = "agg" /\ ~Has(c, "r", "cache") =>
        Expect(c, "toml")["cache"] = FALSE /\ Expect(c, "cmd")["cache"] = TRUE /\ Expect(c, "init")["cache"] = TRUE
\* an entry without options is the table of documented defaults
DefaultsWhenUnset ==
    Mode = "cases" /\ c.opts = {} /\ c.kind = "route" =>
        \A i \in 1..c.nd : \A d \in DestInts : Expect(c, "toml")[DestScope(i) \o "." \o d.field] = d.mul * d.def

\* an option written as 0 is applied (its field is 0) or the entry is refused: it is never the default
ZeroVal(f) == IF f = "errBackoffFactor" THEN "0" ELSE 0
ExplicitZeroHonoured == Mode = "cases" =>
    \A o \in c.opts : IsZeroOpt(c, o) =>
        \A form \in {"toml", "init", "cmd"} :
            Rejected(c, form) \/ Expect(c, form)[OptField(o)] = ZeroVal(OptField(o))
\* the syntaxes agree on whether an entry is accepted
AcceptanceAgrees == Mode = "cases" =>
    \A form \in {"init", "cmd"} : Rejected(c, form) = Rejected(c, "toml")

(***************************************************************************)
(* 4. Several entries of one kind in one file / one command sequence       *)
(*                                                                         *)
(* docs/config.md describes every [[route]], [[aggregation]], [[rewriter]] *)
(* section and every blacklist line by itself; the option tables and their *)
(* defaults are per section.  docs/tcp-admin-interface.md describes every  *)
(* command by itself.  Hence the table a LIST of entries must produce is   *)
(* the list of what each entry must produce on its own:                    *)
(*     ExpectAt(l, i, form) = Expect(l[i], form)                           *)
(* in the order written, and nothing else is added.  "Each unspecified     *)
(* option takes its documented default" -- also when the section before    *)
(* set it; "no option is applied to the wrong destination" -- nor to the   *)
(* wrong section.                                                          *)
(*                                                                         *)
(* Named wrong reading "section_leak": an option that an earlier section   *)
(* of the file set and this section leaves out stays in force.             *)
(***************************************************************************)
ListMode == Mode \in {"leak", "rlists"}
Section(cc) == IF cc.kind \in {"route", "gnet"} THEN "route" ELSE cc.kind
Applies(cc, o) == \E u \in Universe(cc) : u.scope = o.scope /\ u.name = o.name

\* the options in force for entry i of list l
RECURSIVE Eff(_, _)
Eff(l, i) ==
    IF Deviation # "section_leak" \/ i = 1 THEN l[i]
    ELSE LET prev == Eff(l, i - 1)
         IN [l[i] EXCEPT !.opts = @ \cup {o \in prev.opts : /\ Applies(l[i], o)
                                                           /\ ~Has(l[i], o.scope, o.name)
                                                           /\ ~Has(l[i], o.scope, Other(o.name))}]
ExpectAt(l, i, form) == Expect(Eff(l, i), form)

CountKinds(l, kinds) == Cardinality({i \in 1..Len(l) : l[i].kind \in kinds})
ListOut(l) ==
    [section |-> Section(l[1]),
     entries |-> [i \in 1..Len(l) |-> CaseOutE(l[i], Eff(l, i))],
     forms   |-> {f \in {"toml", "init", "cmd"} : \A i \in 1..Len(l) : f \in Forms(l[i])},
     \* a file / sequence with an entry that must be refused is refused (what it leaves behind is not documented)
     reject  |-> {f \in {"toml", "init", "cmd"} : \E i \in 1..Len(l) : Rejected(Eff(l, i), f)},
     \* what the whole file / sequence adds to the table: one entry per section, of its kind
     added   |-> [added_black    |-> CountKinds(l, {"black"}),
                  added_rewriter |-> CountKinds(l, {"rewriter"}),
                  added_agg      |-> CountKinds(l, {"agg"}),
                  added_route    |-> CountKinds(l, {"route", "gnet"})]]

\* ---- sanity of the list reading ------------------------------------------
\* an entry means the same whether it stands alone or among others
EntriesIndependent == ListMode =>
    \A i \in 1..Len(lst) : \A form \in {"toml", "cmd"} : ExpectAt(lst, i, form) = Expect(lst[i], form)

\* ... and so is whether it is accepted; an explicit zero is honoured at every position
ZeroHonouredInList == ListMode =>
    \A i \in 1..Len(lst) : \A form \in {"toml", "init", "cmd"} :
        /\ Rejected(Eff(lst, i), form) = Rejected(lst[i], "toml")
        /\ \A o \in lst[i].opts : IsZeroOpt(lst[i], o) =>
              Rejected(lst[i], form) \/ ExpectAt(lst, i, form)[OptField(o)] = ZeroVal(OptField(o))

\* every option an entry leaves out is at its documented default, whatever stands before it
UnsetIsDefault(cc, e, s, p, tblI, tblB) ==
    /\ \A d \in tblI : ~Has(cc, s, d.name) => e[p \o d.field] = d.mul * d.def
    /\ \A d \in tblB : ~Has(cc, s, d.name) => e[p \o d.field] = (d.def = 1)
UnsetMatchers(cc, e, s, p, names) ==
    \A n \in names : (~Has(cc, s, n) /\ ~(n = "sub" /\ Has(cc, s, "substr"))) => e[p \o n] = ""
UnsetTakesDefaultInList == ListMode =>
    \A i \in 1..Len(lst) :
        LET cc == lst[i]
            e  == ExpectAt(lst, i, "toml")
        IN /\ cc.kind = "gnet" =>
                /\ UnsetIsDefault(cc, e, "r", "", GnetInts, GnetBools)
                /\ UnsetMatchers(cc, e, "r", "", MatchNames)
                /\ ~Has(cc, "r", "errBackoffFactor") => e["errBackoffFactor"] = "1.5"
           /\ cc.kind = "route" =>
                /\ UnsetMatchers(cc, e, "r", "", MatchNames)
                /\ \A k \in 1..cc.nd : /\ UnsetIsDefault(cc, e, DestScope(k), DestScope(k) \o ".", DestInts, DestBools)
                                       /\ UnsetMatchers(cc, e, DestScope(k), DestScope(k) \o ".", MatchNames)
           /\ cc.kind = "agg" =>
                /\ UnsetMatchers(cc, e, "r", "", MatchNames \ {"regex"})
                /\ ~Has(cc, "r", "dropRaw") => e["dropRaw"] = FALSE
                /\ ~Has(cc, "r", "cache") => e["cache"] = FALSE /\ ExpectAt(lst, i, "cmd")["cache"] = TRUE
           /\ cc.kind = "rewriter" => (~Has(cc, "r", "not") => e["not"] = "")

\* an option decides fields of its own entry only
OptionStaysInItsEntry == ListMode =>
    \A j \in 1..Len(lst) : \A o \in lst[j].opts :
        LET l2 == [lst EXCEPT ![j] = Without(lst[j], o)]
        IN \A i \in (1..Len(lst)) \ {j} : \A form \in {"toml", "cmd"} : ExpectAt(l2, i, form) = ExpectAt(lst, i, form)

\* ---- the lists ------------------------------------------------------------
\* Values are made distinct per position: a string / integer option of entry i gets value index
\* k + NVals * (i - 1) (so that an option landing in the wrong entry shows even when both set it),
\* blacklist lines get a per-position suffix.
ASSUME NVals * MaxList < 10      \* IntVal: the value index is the last decimal digit, never 0
Taggable(cc, o) == cc.kind # "rewriter" /\ OptType(cc, o) \in {"str", "int"} /\ o.k # 0     \* an explicit zero stays 0
Retag(cc, i) ==
    [cc EXCEPT !.opts = {IF Taggable(cc, o) THEN [o EXCEPT !.k = @ + NVals * (i - 1)] ELSE o : o \in cc.opts},
               !.v3 = IF cc.kind = "black" THEN "_e" \o ToString(i) ELSE @]

BoolNames == {"pickle", "spool", "cache", "dropRaw", "sslverify", "blocking"}
NonDefK(n) == IF n = "sslverify" THEN 0 ELSE 1        \* the value that is not the default (cache: TOML default)

\* representative base entries (function / template / match kind do not matter here)
RepBase(b) ==
    CASE b.kind = "agg"      -> b.v1 \in {"sum", "max"} /\ b.v2 = "dollar"
      [] b.kind = "rewriter" -> b.v3 = "all" /\ ((b.v1 = "lit" /\ b.v2 = "plain") \/ (b.v1 = "re" /\ b.v2 = "brace"))
      [] b.kind = "black"    -> FALSE
      [] OTHER               -> TRUE
RepBases == {b \in Bases : RepBase(b)}
IsFiller(b) ==
    CASE b.kind = "agg"      -> b.v1 = "sum"
      [] b.kind = "rewriter" -> b.v1 = "lit"
      [] b.kind = "route"    -> b.nd = (IF b.v1 = "consistentHashing" THEN 2 ELSE 1)
      [] OTHER               -> TRUE

\* "leak" lists: entry i sets ONE option to a value that is not the default, a later entry j of the
\* same or another type that knows the option leaves it out (bare, or with the other booleans of
\* that scope set); the remaining position, if any, holds a bare entry of any representative type.
LeakOpts(sb) == {o \in Universe(sb) : o.name \in (BoolNames \ {"cache"}) => o.k = NonDefK(o.name)}
BoolFill(ob, o) == {u \in Universe(ob) : u.scope = o.scope /\ u.name \in BoolNames /\ u.name # o.name /\ u.k = NonDefK(u.name)}
Omitters(ob, o) == {ob, [ob EXCEPT !.opts = BoolFill(ob, o)]}
Shapes(m) == {sh \in (2..m) \X (1..m) \X (1..m) : sh[2] < sh[3] /\ sh[3] <= sh[1]}      \* <<length, i, j>>
LeakList(S, M, F, sh) == [p \in 1..sh[1] |-> Retag(IF p = sh[2] THEN S ELSE IF p = sh[3] THEN M ELSE F, p)]
ListsFor(sb, o, ob) ==
    { LeakList([sb EXCEPT !.opts = {o}], M, F, sh) :
        M \in Omitters(ob, o),
        F \in {b \in RepBases : Section(b) = Section(sb) /\ IsFiller(b)},
        sh \in Shapes(IF o.name \in FullNames THEN MaxList ELSE 2) }
LeakLists ==
    IF Mode # "leak" THEN {}
    ELSE UNION { UNION { UNION { ListsFor(sb, o, ob) : ob \in {b \in RepBases : Section(b) = Section(sb) /\ Applies(b, o)} }
                         : o \in LeakOpts(sb) }
                 : sb \in RepBases }

\* "rlists" lists: seeded random option sets (Randomization module, TLC -seed), random lists of them
Conflict(o, u) == u # o /\ u.scope = o.scope /\ (u.name = o.name \/ u.name = Other(o.name))
Less(u, o) == u.k < o.k \/ (u.k = o.k /\ u.name = "sub")
Repair(S) == {o \in S : ~\E u \in S : Conflict(o, u) /\ Less(u, o)}         \* one value per option, sub or substr
MinI(a, b) == IF a < b THEN a ELSE b
RandSets(U) ==
    LET n == IF Cardinality(U) <= RandOpts THEN (Cardinality(U) + 1) \div 2 ELSE RandOpts
    IN IF Cardinality(U) <= 3 THEN SUBSET U ELSE RandomSetOfSubsets(RandK, n, U)     \* black, rewriter: all subsets
\* ("substr" rules out the command forms: half of the draws are made without it)
RandEntries(b) ==
    {[b EXCEPT !.opts = Repair(S)] : S \in RandSets(Universe(b)) \cup RandSets({o \in Universe(b) : o.name # "substr"})}
RECURSIVE Pow(_, _)
Pow(a, n) == IF n = 0 THEN 1 ELSE a * Pow(a, n - 1)
RandListsOf(pool, n) ==
    IF pool = {} THEN {}
    ELSE {[p \in 1..n |-> Retag(f[p], p)] : f \in RandomSubset(MinI(RandN, Pow(Cardinality(pool), n)), [1..n -> pool])}
RandLists ==
    IF Mode # "rlists" THEN {}
    ELSE UNION { LET pool == UNION {RandEntries(b) : b \in {b \in Bases : Section(b) = sec}}
                 IN UNION {RandListsOf(pool, n) \cup RandListsOf({e \in pool : HasCmd(e)}, n) : n \in 1..MaxList}
                 : sec \in {Section(b) : b \in Bases} }

(***************************************************************************)
(* 5. Enumeration                                                          *)
(***************************************************************************)
NoCase == Base("none", "", "", "", 0)
Init == /\ IF Mode = "cases" THEN c \in Bases ELSE c = NoCase
        /\ txt = <<>>
        /\ IF Mode = "leak" THEN lst \in LeakLists
           ELSE IF Mode = "rlists" THEN lst \in RandLists
           ELSE lst = <<>>
Deep(cc) == cc.kind \in DeepKinds /\ (cc.kind = "route" => cc.v1 \in DeepTypes /\ cc.nd <= DeepDests)
Bound(cc) == IF Deep(cc) /\ DeepOpts > MaxOpts THEN DeepOpts ELSE MaxOpts
AddOpt == /\ Mode = "cases" /\ Cardinality(c.opts) < Bound(c)
          /\ \E o \in Avail(c) : c' = [c EXCEPT !.opts = c.opts \cup {o}]
          /\ UNCHANGED <<txt, lst>>
AddTok == /\ Mode = "expand" /\ Len(txt) < MaxLen
          /\ \E a \in Alphabet : txt' = Append(txt, a)
          /\ UNCHANGED <<c, lst>>
Next == AddOpt \/ AddTok          \* lists are enumerated as initial states
Spec == Init /\ [][Next]_vars

EmitCase == Mode = "cases" => PrintT("@@C " \o ToJson(CaseOut(c)))
EmitList == ListMode => PrintT("@@L " \o ToJson(ListOut(lst)))
EmitText == (Mode = "expand" /\ ~Ambiguous(txt) /\ \E i \in 1..Len(txt) : txt[i] = "$")
                => PrintT("@@X " \o ToJson([text |-> txt, expect |-> Exp(txt, 1)]))
=============================================================================
