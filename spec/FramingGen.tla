----------------------------- MODULE FramingGen -----------------------------
(* Case generator for C12: every stream of up to GenMax symbols (one initial  *)
(* state each) with what a conforming reader may dispatch for it, computed by *)
(* TLC from FramingOps.  The expectation does not depend on the segmentation  *)
(* (that is the property; Framing.tla checks the reader models against it for *)
(* every segmentation), so the driver runs each case under every cut set.     *)
(* For the timeout conditions every case also carries continuations (Conts of *)
(* FramingOps): a tail served to reads after the error, with AcceptableAt.    *)
EXTENDS FramingOps, TLC, Json
CONSTANTS GenMax
VARIABLES gs
GInit == gs \in UNION {[1..k -> Sym] : k \in 0..GenMax}
GNext == FALSE /\ gs' = gs
GSpec == GInit /\ [][GNext]_gs
Case(s) == [s |-> s, maxline |-> MaxLine(s),
            eof |-> Acceptable(s, "eof"),            \* = Acceptable(s, "dataeof")
            tmo |-> Acceptable(s, "timeout"),        \* = Acceptable(s, "datatimeout")
            \* s followed by a tail that the network delivers to reads issued after the timeout error:
            \* the acceptable lists (positions of s \o tail) and the lists of the read-on deviation
            conts |-> Conts(s)]
ASSUME \A s \in {<<"x", "CR">>, <<"LF">>, <<>>} :
          Acceptable(s, "eof") = Acceptable(s, "dataeof") /\ Acceptable(s, "timeout") = Acceptable(s, "datatimeout")
Emit == PrintT("@@L " \o ToJson(Case(gs)))
=============================================================================
