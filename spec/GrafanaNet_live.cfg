SPECIFICATION FairSpec
INVARIANTS TypeOK
CHECK_DEADLOCK FALSE
CONSTANTS
  FaultKinds = {"4xx", "5xx", "timeout", "reset", "stall"}
  Record = FALSE
