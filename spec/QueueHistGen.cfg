SPECIFICATION CSpec
INVARIANT Emit TypeOK
CHECK_DEADLOCK FALSE
