------------------------------ MODULE AggTable ------------------------------
(* C11 - the composition Table o Aggregator.                                 *)
(*                                                                           *)
(* Raw lines enter through Dispatch: validate -> blacklist -> rewrite ->     *)
(* aggregators (in order; a drop-raw aggregator whose COMPLETE filter        *)
(* accepts the name consumes the line: earlier aggregators have received it, *)
(* later ones and all routes do not) -> routes.                              *)
(* Aggregators collect accepted raw points in buckets <<aggregator, quantum>>*)
(* and, on a tick, emit one aggregate line per due bucket into Table.In; the *)
(* table routes such a line to every route whose filter accepts its name and *)
(* does NOTHING else with it: it is not validated, blacklisted, rewritten or *)
(* offered to any aggregator (NoRegeneration), so the number of aggregate    *)
(* lines is bounded by the number of buckets opened by raw points (Bounded). *)
(*                                                                           *)
(* A table configuration is a record                                         *)
(*   [strict, black: Seq(filter), rw: Seq([old, new]),                       *)
(*    aggs: Seq([f, out, drop, fun, interval, wait]), routes: Seq(filter)]   *)
EXTENDS AggTableOps

\* ---------------------------------------------------------- state machine
CONSTANTS Cfg,          \* the table
          Lines,        \* raw lines that may arrive
          Times,        \* clock / tick values
          MaxOps,
          Dev           \* "none" | "agg_via_dispatch" (aggregate lines re-enter Dispatch) | "drop_on_prematch"
VARIABLES now, buckets, tin, outs, offered, opened, nagg, nops, lastraw
vars == <<now, buckets, tin, outs, offered, opened, nagg, nops, lastraw>>

Init == /\ now = 1000 /\ buckets = <<>> /\ tin = <<>> /\ outs = {} /\ offered = {} /\ opened = 0 /\ nagg = 0
        /\ nops = 0 /\ lastraw = [name |-> <<>>, fed |-> {}, routes |-> {}, in |-> <<>>]

Pipeline(ln, gen) ==     \* a line walks through Dispatch
  LET res == RawDev(Cfg, ln, Dev)
  IN /\ offered' = offered \cup {<<"validate", gen>>}
                   \cup (IF Valid(Cfg, ln.name) THEN {<<"blacklist", gen>>} ELSE {})
                   \cup (IF Valid(Cfg, ln.name) /\ ~Blacklisted(Cfg, ln.name) THEN {<<"rewrite", gen>>, <<"aggregators", gen>>} ELSE {})
     /\ buckets' = Feed(Cfg, buckets, res.fed, ln, now)
     /\ opened' = opened + Cardinality(Opened(Cfg, buckets, res.fed, ln, now))
     /\ outs' = Deliver(res.routes, res.name, ln.val, ln.ts)
     /\ lastraw' = [name |-> res.name, fed |-> res.fed, routes |-> res.routes, in |-> ln.name]

Dispatch(ln) == /\ nops < MaxOps /\ tin = <<>> /\ nops' = nops + 1
                /\ Pipeline(ln, "raw") /\ UNCHANGED <<now, tin, nagg>>
Advance(t) == t > now /\ tin = <<>> /\ now' = t /\ UNCHANGED <<buckets, tin, outs, offered, opened, nagg, nops, lastraw>>
Tick(i, t) == /\ nops < MaxOps /\ tin = <<>> /\ nops' = nops + 1 /\ Due(Cfg, buckets, i, t) # {}
              /\ LET em == Emitted(Cfg, buckets, i, t)
                 IN /\ tin' = SetToSeq(em)
                    /\ nagg' = nagg + Cardinality(em)
              /\ buckets' = [k \in DOMAIN buckets \ Due(Cfg, buckets, i, t) |-> buckets[k]]
              /\ outs' = {} /\ UNCHANGED <<now, offered, opened, lastraw>>
\* the table goroutine reading Table.In
TableIn == /\ tin # <<>> /\ tin' = Tail(tin)
           /\ LET a == Head(tin)
              IN IF Dev = "agg_via_dispatch"
                 THEN Pipeline([name |-> a.name, val |-> a.val, ts |-> a.ts, vi |-> 1, ti |-> now], "agg") /\ UNCHANGED <<now, nagg, nops>>
                 ELSE /\ outs' = Deliver(RoutesFor(Cfg, a.name), a.name, a.val, a.ts)     \* DispatchAggregate: routes only
                      /\ UNCHANGED <<now, buckets, offered, opened, nagg, nops, lastraw>>
Next == (\E ln \in Lines : Dispatch(ln)) \/ (\E t \in Times : Advance(t))
        \/ (\E i \in DOMAIN Cfg.aggs, t \in Times : Tick(i, t)) \/ TableIn
Spec == Init /\ [][Next]_vars

\* ------------------------------------------------------------- properties
NoRegeneration == \A o \in offered : o[2] = "raw"
Bounded == nagg <= opened
\* drop-raw is exact: the loop the code runs computes what the statement says
DropRawExact == /\ lastraw.fed \subseteq FedDecl(Cfg, lastraw.name)
                /\ (lastraw.in # <<>> /\ Valid(Cfg, lastraw.in) /\ ~Blacklisted(Cfg, lastraw.in)) =>
                     /\ lastraw.fed = FedDecl(Cfg, lastraw.name)
                     /\ lastraw.routes = IF DroppedDecl(Cfg, lastraw.name) THEN {} ELSE RoutesFor(Cfg, lastraw.name)
=============================================================================
