SPECIFICATION FairSpec
INVARIANTS LevelA AtExit
CHECK_DEADLOCK FALSE
