SPECIFICATION FairSpec
INVARIANTS LevelA ExitNothingLeftBehind ExitAllTransmitted ExitErrsCounted ExitSpuriousError ExitOutCounted ExitDropsCounted ExitParseCounted ExitGaugeZero AtExit
CHECK_DEADLOCK FALSE
CONSTANTS
  Record = FALSE
