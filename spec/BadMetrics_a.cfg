SPECIFICATION Spec
INVARIANTS LevelA
CHECK_DEADLOCK FALSE
