SPECIFICATION Spec
INVARIANTS Emit SelectIsFirst UntaggedPresentation TagsPresentedSorted IntervalIsFirstRetention
CHECK_DEADLOCK FALSE
