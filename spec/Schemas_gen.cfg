SPECIFICATION Spec
INVARIANTS Emit SelectIsFirst AbsentIsZero UntaggedPresentation TagsPresentedSorted IntervalIsFirstRetention
CHECK_DEADLOCK FALSE
