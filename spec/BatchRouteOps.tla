--------------------------- MODULE BatchRouteOps ---------------------------
(* Level-A statements for the three "batching" routes (route/kafkamdm.go,    *)
(* route/pubsub.go, route/cloudwatch.go) and their common front end           *)
(* (route/dispatch.go), as operators over an observation record.              *)
(*                                                                            *)
(* The observation is what can be seen from outside a route: the Dispatch     *)
(* calls of ONE dispatcher goroutine (item ids 1, 2, 3, .. in call order, so  *)
(* hand-over order = id order), the outcome of each call (accepted / dropped, *)
(* read from the queue_full counter), every batch the endpoint received       *)
(* (decoded item ids, the answer it gave), Shutdown call / return, the exit   *)
(* of the run loop, the final counters.  The implementation-shaped model      *)
(* (BatchRoute.tla) and the trace specification for the real code             *)
(* (BatchRouteTrace.tla) update the same record with the same operators.      *)
(*                                                                            *)
(* kind "kafka"      : threshold = number of items, flush AFTER append when   *)
(*                     len = fmax, a failed send is repeated (same payload)   *)
(*                     until it succeeds               -> RETRY kind          *)
(* kind "pubsub"     : threshold = bytes, flush BEFORE append when            *)
(*                     size(pending) + size(item) >= fmax, a failed publish   *)
(*                     is counted (numErrFlush) and the batch given up        *)
(* kind "cloudwatch" : threshold = number of items, flush AFTER append when   *)
(*                     len >= fmax, a failed PutMetricData is counted and     *)
(*                     the batch given up              -> GIVE-UP kinds       *)
(*                                                                            *)
(* The exact guarantee per kind (clauses below):                              *)
(*  all    : a batch is a run of consecutive accepted parsable items in       *)
(*           hand-over order (BatchShape), a new batch starts exactly where   *)
(*           the previous one ended (NoSkip, NoResend), unparsable and        *)
(*           dropped items are in no batch (UnknownItem, DropsCounted), an    *)
(*           empty batch is never sent (EmptyBatch)                           *)
(*  kafka  : after a failed send the next send is the same batch (RetrySame); *)
(*           after the loop has exited every accepted parsable item is in     *)
(*           exactly one ACKNOWLEDGED batch (NothingLeftBehind); numErrFlush  *)
(*           = failed sends (ErrsCounted)                                     *)
(*  give-up: a batch is sent once; after the loop has exited every accepted   *)
(*           parsable item is in exactly one batch that was acknowledged or   *)
(*           answered with a failure (AllTransmitted), each failure counted   *)
(*           once in numErrFlush (ErrsCounted, SpuriousError); the weaker     *)
(*           NothingLeftBehind: items that reached no endpoint are at least   *)
(*           covered by a counted failure                                     *)
(*  bound  : kafka / cloudwatch: len(batch) <= fmax; pubsub: a batch of two   *)
(*           or more items is smaller than fmax bytes (BatchBound); without   *)
(*           timer and before Shutdown every batch sent is FULL: len = fmax,  *)
(*           resp. the next accepted item would have reached fmax             *)
(*           (ThresholdExact)                                                 *)
(*  drops  : only a non-blocking route drops (BlockingNeverDrops), only when  *)
(*           bufSize accepted items are still unsent (DropOnlyWhenFull),      *)
(*           every drop counted, a counted drop never sent (DropsCounted);    *)
(*           Dispatch of a non-blocking route returns (NonBlockingNeverBlocks)*)
(*  counters at the end: numOut = items acknowledged (OutCounted), parse      *)
(*           errors = accepted unparsable items where the route counts them   *)
(*           (ParseCounted), numBuffered = 0 (GaugeZero)                      *)
(*  liveness (observed with deadlines): TimerFlush, LoopStuck, LoopExits,     *)
(*           ShutdownReturns                                                  *)
(* o.viol collects <<clause, where>>; an execution satisfies the statements   *)
(* iff o.viol stays empty.                                                    *)
EXTENDS Integers, Sequences, FiniteSets

Clauses == {"Harness", "UnknownItem", "EmptyBatch", "BatchShape", "NoSkip", "NoResend", "RetrySame", "BatchBound",
            "ThresholdExact", "DropsCounted", "DropOnlyWhenFull", "BlockingNeverDrops", "NonBlockingNeverBlocks",
            "TimerFlush", "LoopStuck", "LoopExits", "ShutdownReturns", "NothingLeftBehind", "AllTransmitted", "ErrsCounted",
            "SpuriousError", "OutCounted", "ParseCounted", "GaugeZero"}

RetryKind(kind) == kind = "kafka"
CountKind(kind) == kind \in {"kafka", "cloudwatch"}

ObsInit ==
  [ sz     |-> <<>>,    \* sz[id] = size the threshold test charges for item id (pubsub: len(line) + 1; count kinds: 1)
    asz    |-> <<>>,    \* asz[id] = bytes the item adds to the pending batch (pubsub plain: = sz; pickle: the pickled point)
    bad    |-> {},      \* unparsable items
    retd   |-> {},      \* Dispatch returned
    accd   |-> {},      \* .. and the drop counter did not move
    dropd  |-> {},      \* .. and the drop counter went up
    front  |-> 0,       \* last item of the last batch that is done with (acknowledged, or failed and given up)
    fb     |-> <<>>,    \* retry kind: the batch whose last send failed
    seen   |-> {},      \* items in any batch the endpoint received
    acked  |-> {},      \* items in an acknowledged batch
    failed |-> {},      \* give-up kinds: items in a batch answered with a failure
    efail  |-> 0,       \* sends answered with a failure
    sd     |-> "no",    \* "no" | "called" | "returned" | "timeout"
    exited |-> FALSE,
    early  |-> FALSE,   \* (not a clause) Shutdown returned while accepted items were not yet done with
    viol   |-> {} ]

Called(o) == 1 .. Len(o.sz)
SeqRange(s) == {s[i] : i \in DOMAIN s}
V(vs, cond, clause, where) == IF cond THEN vs \cup {<<clause, where>>} ELSE vs

\* bytes in the pending batch after these items have been appended
RECURSIVE SumSz(_, _)
SumSz(o, ids) == IF ids = <<>> THEN 0 ELSE o.asz[Head(ids)] + SumSz(o, Tail(ids))

\* a set of ids in hand-over order
RECURSIVE Sorted(_)
Sorted(S) == IF S = {} THEN <<>> ELSE LET m == CHOOSE y \in S : \A z \in S : y <= z IN <<m>> \o Sorted(S \ {m})

\* accepted parsable items: what the route owes the endpoint
Want(o) == o.accd \ o.bad
\* every item strictly between a and b was dropped or is unparsable
Gap(o, a, b) == \A j \in (a + 1) .. (b - 1) : j \in o.dropd \/ j \in o.bad

ODisp(o, id, sz, asz, bad, where) ==
  [o EXCEPT !.sz = Append(@, sz), !.asz = Append(@, asz), !.bad = IF bad THEN @ \cup {id} ELSE @,
            !.viol = V(@, id # Len(o.sz) + 1 \/ o.sd # "no" \/ Called(o) # o.retd, "Harness", where)]

\* Dispatch returned; st = "acc" | "drop"
ORet(o, id, st, blocking, bufsize, where) ==
  LET v0 == V(o.viol, id \notin Called(o) \/ id \in o.retd, "Harness", where)
      v1 == V(v0, st = "drop" /\ blocking, "BlockingNeverDrops", where)
      v2 == V(v1, st = "drop" /\ id \in o.seen, "DropsCounted", where)
      \* a full buffer holds bufsize accepted items none of which the endpoint has seen yet
      v3 == V(v2, st = "drop" /\ Cardinality(o.accd \ o.seen) < bufsize, "DropOnlyWhenFull", where)
  IN [o EXCEPT !.retd = @ \cup {id},
               !.accd = IF st = "acc" THEN @ \cup {id} ELSE @,
               !.dropd = IF st = "drop" THEN @ \cup {id} ELSE @,
               !.viol = v3]

\* a Dispatch call did not return within the bound
OStall(o, blocking, where) == [o EXCEPT !.viol = @ \cup {<<IF blocking THEN "LoopStuck" ELSE "NonBlockingNeverBlocks", where>>}]

\* pubsub: every item but the first passed the test "pending bytes + its size < fmax" when it was appended
Bound(o, kind, fmax, ids) ==
  IF CountKind(kind) THEN Len(ids) <= fmax
  ELSE \A i \in 2 .. Len(ids) : SumSz(o, SubSeq(ids, 1, i - 1)) + o.sz[ids[i]] < fmax

\* the batch was cut by the threshold and by nothing else
Full(o, kind, fmax, ids) ==
  IF CountKind(kind) THEN Len(ids) = fmax
  ELSE LET last == ids[Len(ids)]
           size == SumSz(o, ids)
       IN \E t \in Called(o) : /\ t > last /\ t \notin o.dropd /\ size + o.sz[t] >= fmax
                               /\ \A j \in (last + 1) .. (t - 1) : j \in o.dropd \/ (j \in o.bad /\ size + o.sz[j] < fmax)

\* the endpoint received a batch (ids in payload order) and answered st = "ok" | "fail";
\* timerOff and Shutdown not yet called: only the threshold can have cut the batch
OSend(o, kind, fmax, ids, st, timerOff, where) ==
  IF ids = <<>> THEN [o EXCEPT !.viol = @ \cup {<<"EmptyBatch", where>>}]
  ELSE IF \E i \in DOMAIN ids : ids[i] \notin Called(o) \/ ids[i] \in o.bad
  THEN [o EXCEPT !.viol = @ \cup {<<"UnknownItem", where>>}]
  ELSE
  LET n == Len(ids)
      set == SeqRange(ids)
      shape == /\ \A i \in 1 .. n - 1 : ids[i] < ids[i + 1] /\ Gap(o, ids[i], ids[i + 1])
      isretry == RetryKind(kind) /\ o.fb # <<>>
      v1 == V(o.viol, set \cap o.dropd # {}, "DropsCounted", where)
      v2 == V(v1, ~shape, "BatchShape", where)
      v3 == IF isretry THEN V(v2, ids # o.fb, "RetrySame", where)
            ELSE V(V(v2, ids[1] <= o.front, "NoResend", where), ids[1] > o.front /\ ~Gap(o, o.front, ids[1]), "NoSkip", where)
      v4 == V(v3, ~Bound(o, kind, fmax, ids), "BatchBound", where)
      v5 == V(v4, timerOff /\ o.sd = "no" /\ ~Full(o, kind, fmax, ids), "ThresholdExact", where)
      top == IF ids[n] > o.front THEN ids[n] ELSE o.front
  IN IF st = "ok"
     THEN [o EXCEPT !.seen = @ \cup set, !.acked = @ \cup set, !.front = top, !.fb = <<>>, !.viol = v5]
     ELSE IF RetryKind(kind)
     THEN [o EXCEPT !.seen = @ \cup set, !.fb = ids, !.efail = @ + 1, !.viol = v5]
     ELSE [o EXCEPT !.seen = @ \cup set, !.failed = @ \cup set, !.front = top, !.efail = @ + 1, !.viol = v5]

Done(o, kind) == IF RetryKind(kind) THEN o.acked ELSE o.acked \cup o.failed

\* the observer waited (bounded) until everything accepted and parsable was done with; only with a timer
OSettle(o, kind, ok, where) ==
  [o EXCEPT !.viol = V(@, ~ok \/ ~(Want(o) \subseteq Done(o, kind)), "TimerFlush", where)]

\* the run loop is parked in its select with an empty buffer, there is no timer, Shutdown has not been called:
\* what is pending is less than a full batch
\* (ok = FALSE: the loop did not get there within the bound although the endpoint answers)
OIdle(o, kind, fmax, ok, where) ==
  LET pend == Want(o) \ Done(o, kind)
      v1 == V(o.viol, ~ok, "LoopStuck", where)
  IN [o EXCEPT !.viol = V(v1, ok /\ IF CountKind(kind) THEN Cardinality(pend) >= fmax
                                    ELSE ~Bound(o, kind, fmax, Sorted(pend)), "ThresholdExact", where)]

OSdCall(o, where) == [o EXCEPT !.sd = "called", !.viol = V(@, o.sd # "no" \/ Called(o) # o.retd, "Harness", where)]
OSdRet(o, kind, where) == [o EXCEPT !.sd = "returned", !.early = ~(Want(o) \subseteq Done(o, kind)),
                                    !.viol = V(@, o.sd # "called", "Harness", where)]
OSdTimeout(o, where) == [o EXCEPT !.sd = "timeout", !.viol = @ \cup {<<"ShutdownReturns", where>>}]
\* the run loop has returned (ok) / has not returned within the bound after Shutdown
OExit(o, ok, where) == [o EXCEPT !.exited = ok, !.viol = V(@, ~ok, "LoopExits", where)]

\* the end of an execution: counter deltas.  nparse < 0: the route does not count parse errors
OFinal(o, kind, blocking, drops, errs, nout, nparse, gauge, where) ==
  LET cfail == errs - o.efail            \* failures the route counted that no endpoint answered
      unsent == Want(o) \ o.seen
      v1 == V(o.viol, drops # Cardinality(o.dropd), "DropsCounted", where)
      v2 == V(v1, blocking /\ drops # 0, "BlockingNeverDrops", where)
      v3 == V(v2, cfail < 0 \/ (RetryKind(kind) /\ cfail # 0), "ErrsCounted", where)
      v4 == IF ~o.exited THEN v3
            ELSE IF RetryKind(kind) THEN V(v3, ~(Want(o) \subseteq o.acked), "NothingLeftBehind", where)
            ELSE V(V(V(v3, unsent # {} /\ cfail <= 0, "NothingLeftBehind", where),
                       unsent # {}, "AllTransmitted", where),
                   unsent = {} /\ cfail > 0, "SpuriousError", where)
      v5 == V(v4, o.exited /\ nout # Cardinality(o.acked), "OutCounted", where)
      v6 == V(v5, o.exited /\ nparse >= 0 /\ nparse # Cardinality(o.accd \cap o.bad), "ParseCounted", where)
      v7 == V(v6, o.exited /\ Called(o) = o.retd /\ gauge # 0, "GaugeZero", where)
  IN [o EXCEPT !.viol = v7]

ViolatedClauses(o) == {v[1] : v \in o.viol}
=============================================================================
