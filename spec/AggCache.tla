------------------------------ MODULE AggCache ------------------------------
(* C03, third clause: the per-aggregator match cache never changes the      *)
(* answer.  An aggregator decides for a metric name whether it consumes it  *)
(* and under which output name it aggregates it; it may remember that pair  *)
(* per name (entry: decision + output name + last-seen time) and a periodic *)
(* clean-up may drop any entries not seen for 100 x wait.                   *)
(* Property: whatever the history of lookups, clock jumps and clean-ups,    *)
(* the answer given equals the answer computed afresh, in BOTH components   *)
(* (Matcher!Accept, Matcher!OutKey) - in particular the decision is never   *)
(* inferred from the remembered output name.                                *)
EXTENDS AggCacheOps

\* -- the state machine, model-checked for small constants
CONSTANTS CNames, CAggs, CWait, CTimes, CBug
VARIABLES filt, tmpl, cache, now, last
cvars == <<filt, tmpl, cache, now, last>>

CInit == /\ \E a \in CAggs : filt = a.f /\ tmpl = a.t
         /\ cache = <<>> /\ now = 0 /\ last = [n |-> <<>>, ans |-> FreshAns(filt, tmpl, <<>>)]
Advance == \E t \in CTimes : t > now /\ now' = t /\ UNCHANGED <<filt, tmpl, cache, last>>
Lookup(n) == /\ last' = [n |-> n, ans |-> Answer(filt, tmpl, cache, n, CBug)]
             /\ cache' = Remember(filt, tmpl, cache, n, now, CBug)
             /\ UNCHANGED <<filt, tmpl, now>>
Expire == cache' \in Cleaned(cache, now, CWait) /\ UNCHANGED <<filt, tmpl, now, last>>
CNext == Advance \/ (\E n \in CNames : Lookup(n)) \/ Expire
CSpec == CInit /\ [][CNext]_cvars

CachedIsFresh == last.ans = FreshAns(filt, tmpl, last.n)
EntriesFresh  == Fresh(filt, tmpl, cache)
=============================================================================
