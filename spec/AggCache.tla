------------------------------ MODULE AggCache ------------------------------
(* C03, third clause: the per-aggregator match cache never changes the      *)
(* answer.  An aggregator decides for a metric name whether it consumes it; *)
(* it may remember the decision per name (entry: decision + last-seen time) *)
(* and a periodic clean-up may drop any entries not seen for 100 x wait.    *)
(* Property: whatever the history of lookups, clock jumps and clean-ups,    *)
(* the answer given equals the answer computed afresh (Matcher!Accept).     *)
EXTENDS AggCacheOps

\* -- the state machine, model-checked for small constants
CONSTANTS CNames, CFilters, CWait, CTimes, CBug
VARIABLES filt, cache, now, last
cvars == <<filt, cache, now, last>>

CInit == filt \in CFilters /\ cache = <<>> /\ now = 0 /\ last = [n |-> <<>>, ans |-> Accept(filt, <<>>)]
Advance == \E t \in CTimes : t > now /\ now' = t /\ UNCHANGED <<filt, cache, last>>
Lookup(n) == /\ last' = [n |-> n, ans |-> Answer(filt, cache, n, CBug)]
             /\ cache' = Remember(filt, cache, n, now, CBug)
             /\ UNCHANGED <<filt, now>>
Expire == cache' \in Cleaned(cache, now, CWait) /\ UNCHANGED <<filt, now, last>>
CNext == Advance \/ (\E n \in CNames : Lookup(n)) \/ Expire
CSpec == CInit /\ [][CNext]_cvars

CachedIsFresh == last.ans = Accept(filt, last.n)
EntriesFresh  == Fresh(filt, cache)
=============================================================================
