SPECIFICATION TSpec
CONSTRAINT HighWater
INVARIANT Clean
ALIAS Short
POSTCONDITION Post
CHECK_DEADLOCK FALSE
CONSTANTS
  KeyMod = 1000
