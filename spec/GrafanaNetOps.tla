--------------------------- MODULE GrafanaNetOps ---------------------------
(* Level-A statement of C17 (grafana.net route) as operators over an         *)
(* observation record.  The observation is what can be seen from outside the *)
(* route: Dispatch calls and their outcome (accepted / dropped, from the      *)
(* queue_full counter), the POSTs the endpoint received (decoded points and   *)
(* the outcome it answered), Shutdown call / return / timeout, the final      *)
(* counter delta.  Both the implementation-shaped model (GrafanaNet.tla) and  *)
(* the trace specification for the real code (GrafanaNetTrace.tla) update the *)
(* same record with the same operators, so TLC checks the same statement on   *)
(* the model's behaviours and on the recorded executions.                     *)
(*                                                                            *)
(* A point is a pair <<series, id>>; ids grow in dispatch order (checked),    *)
(* so "received order" of the points of one series is the order of their ids. *)
(* o.viol collects <<clause, where>> pairs; the property holds on an          *)
(* execution iff o.viol stays empty.                                          *)
EXTENDS Integers, Sequences, FiniteSets

Clauses == {"AckedAtLeastOnce", "NeverSkipped", "SeriesOrder", "NonBlockingNeverBlocks", "DropsCounted",
            "BlockingNeverDrops", "ShutdownReturns", "AllBufferedFlushed", "UnknownPoint", "Harness"}

ObsInit(SeriesSet) ==
  [ last   |-> [s \in SeriesSet |-> 0],   \* id of the last point of the series handed to Dispatch
    pairs  |-> {},                          \* points handed to Dispatch
    called |-> {},                          \* their ids
    retd   |-> {},                          \* ids whose Dispatch call has returned (a call parked on a full queue of a
                                            \* blocking route has not: its point is not in the buffer yet)
    accd   |-> {},                          \* ids known accepted (Dispatch returned, counter unchanged)
    dropd  |-> {},                          \* ids known dropped (counter went up during the call)
    posted |-> {},                          \* ids seen in any POST
    acked  |-> {},                          \* ids contained in a 2xx-answered POST
    hi     |-> [s \in SeriesSet |-> 0],   \* per series: the latest point acknowledged for the first time
    failed |-> {},                          \* bodies answered with a failure and not yet acknowledged
    sd     |-> "no",                        \* "no" | "called" | "returned" | "timeout"
    viol   |-> {} ]

Ids(body) == {body[i][2] : i \in DOMAIN body}
V(o, cond, clause, where) == IF cond THEN o.viol \cup {<<clause, where>>} ELSE o.viol

\* Dispatch(line of series s, id) is being called
ODisp(o, s, id, where) ==
  [o EXCEPT !.last[s] = id, !.pairs = @ \cup {<<s, id>>}, !.called = @ \cup {id},
            !.viol = V(o, id <= o.last[s] \/ id \in o.called \/ o.sd # "no", "Harness", where)]

\* Dispatch returned; st = "acc" | "drop" | "unk" (unk: several dispatchers, the counter delta cannot be attributed)
ORet(o, id, st, slow, blocking, where) ==
  LET v1 == V(o, slow /\ ~blocking, "NonBlockingNeverBlocks", where)
      v2 == IF st = "drop" /\ blocking THEN v1 \cup {<<"BlockingNeverDrops", where>>} ELSE v1
      v3 == IF st = "drop" /\ id \in o.posted THEN v2 \cup {<<"DropsCounted", where>>} ELSE v2
  IN [o EXCEPT !.retd = @ \cup {id},
               !.accd = IF st = "acc" THEN @ \cup {id} ELSE @,
               !.dropd = IF st = "drop" THEN @ \cup {id} ELSE @,
               !.viol = v3]

\* a Dispatch call of a non-blocking route did not return within the bound
OStall(o, blocking, where) == [o EXCEPT !.viol = V(o, ~blocking, "NonBlockingNeverBlocks", where)]

\* first acknowledgements of the points of one series come in received order
RECURSIVE OrderScan(_, _, _, _, _)
OrderScan(body, i, h, ack, ok) ==
  IF i > Len(body) THEN [ok |-> ok, h |-> h]
  ELSE LET s == body[i][1]
           id == body[i][2]
       IN IF id \in ack THEN OrderScan(body, i + 1, h, ack, ok)
          ELSE OrderScan(body, i + 1, [h EXCEPT ![s] = IF id > @ THEN id ELSE @], ack \cup {id}, ok /\ id > h[s])

\* a failed batch is retried as it is: the next POST that carries any of its points is the same batch
RetryOK(failed, body) == \A B \in failed : (Ids(B) \cap Ids(body) # {}) => B = body

\* the endpoint received a POST with these points and answered with class st
OPost(o, body, st, where) ==
  LET known == \A i \in DOMAIN body : <<body[i][1], body[i][2]>> \in o.pairs
      ids == Ids(body)
  IN IF ~known THEN [o EXCEPT !.viol = @ \cup {<<"UnknownPoint", where>>}]
     ELSE LET v1 == V(o, ids \cap o.dropd # {}, "DropsCounted", where)
              v2 == IF RetryOK(o.failed, body) THEN v1 ELSE v1 \cup {<<"NeverSkipped", where>>}
          IN IF st = "2xx"
             THEN LET sc == OrderScan(body, 1, o.hi, o.acked, TRUE)
                  IN [o EXCEPT !.posted = @ \cup ids, !.acked = @ \cup ids, !.hi = sc.h,
                               !.failed = @ \ {body},
                               !.viol = IF sc.ok THEN v2 ELSE v2 \cup {<<"SeriesOrder", where>>}]
             ELSE [o EXCEPT !.posted = @ \cup ids, !.failed = @ \cup {body}, !.viol = v2]

\* the observer waited for everything accepted to be acknowledged (ok = it happened before the deadline);
\* a blocking route never drops: every call that returned has put its point into the buffer
OQuiesce(o, ok, blocking, where) ==
  [o EXCEPT !.viol = V(o, ~ok \/ ~(o.accd \subseteq o.acked) \/ (blocking /\ ~(o.retd \subseteq o.acked)),
                       "AckedAtLeastOnce", where)]

OSdCall(o, where) == [o EXCEPT !.sd = "called", !.viol = V(o, o.sd # "no", "Harness", where)]

\* Shutdown returned: everything accepted so far (every Dispatch call that has returned, before or while Shutdown
\* ran) has been acknowledged.  Calls still parked on a full queue are not accepted and not judged.
OSdRet(o, blocking, where) ==
  [o EXCEPT !.sd = "returned",
            !.viol = V(o, ~(o.accd \subseteq o.acked) \/ (blocking /\ ~(o.retd \subseteq o.acked)),
                       "AllBufferedFlushed", where)]

\* the driver's count of Dispatch calls that are still parked when the execution ends (not judged; the count must
\* agree with the ret events)
OBlocked(o, n, where) == [o EXCEPT !.viol = V(o, n # Cardinality(o.called \ o.retd), "Harness", where)]

OSdTimeout(o, where) == [o EXCEPT !.sd = "timeout", !.viol = @ \cup {<<"ShutdownReturns", where>>}]

\* end of the execution (after Shutdown returned, or after a successful wait): drops = delta of the queue_full counter
OFinal(o, drops, blocking, where) ==
  LET never == Cardinality(o.retd \ o.acked)       \* handed over (the call returned) and never acknowledged
      v1 == V(o, blocking /\ drops # 0, "BlockingNeverDrops", where)
      v2 == IF never > drops THEN v1 \cup {<<"AckedAtLeastOnce", where>>} ELSE v1   \* accepted (not counted as dropped) but never acknowledged
      v3 == IF never < drops \/ Cardinality(o.dropd) > drops THEN v2 \cup {<<"DropsCounted", where>>} ELSE v2
  IN [o EXCEPT !.viol = v3]
=============================================================================
