SPECIFICATION Spec
INVARIANT NoRegeneration Bounded DropRawExact
CHECK_DEADLOCK FALSE
CONSTANTS
  Cfg <- MCCfg
  Lines <- MCLines
  Times = {1010, 1020, 1030}
