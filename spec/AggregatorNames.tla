--------------------------- MODULE AggregatorNames ---------------------------
(* C10 -- "the bucket identified by its EXPANDED OUTPUT NAME".                 *)
(*                                                                             *)
(* The aggregation rules (regex, output format) the C10 specifications and     *)
(* drivers use, as abstract syntax, and what the output name of an input name  *)
(* is: the output format expanded against the leftmost-first match of the      *)
(* regex, with the template semantics of Go's regexp.Expand                    *)
(*     ${n}, $n   text of group n; n = 0 is the WHOLE match                    *)
(*     $name      longest run of letters, digits and _ ; a name or number that *)
(*                is no group of the regex expands to the empty string         *)
(*     $$         a literal $                                                  *)
(*     other text literal                                                      *)
(* These semantics do not depend on whether the regex has capturing groups:    *)
(* $0, ${0} and $$ mean the same for a group-less regex.                       *)
(*                                                                             *)
(* Regex semantics (Submatch, leftmost-first), group text, rendering to RE2    *)
(* text and the lit/ref/word template parts are those of spec/Matcher.tla      *)
(* (C03), instanced here; this module adds the $$ part and the rule table.     *)
(* The drivers get every concrete string (metric names, regex text, format     *)
(* text, expected output names) from TLC evaluating this module.               *)
EXTENDS Integers, Sequences, FiniteSets

M == INSTANCE Matcher

\* ------------------------------------------------------------------ templates
NmDollar == [k |-> "dollar"]                       \* $$
NmPartText(p, s, m) == IF p.k = "dollar" THEN <<"$">> ELSE M!PartText(p, s, m)
RECURSIVE NmExpandFrom(_, _, _, _)
NmExpandFrom(t, s, m, i) == IF i > Len(t) THEN <<>> ELSE NmPartText(t[i], s, m) \o NmExpandFrom(t, s, m, i + 1)
\* the expanded output name (a string) of input name s; "" when the regex does not match
NmExpand(re, t, s) == LET m == M!Submatch(re, s) IN IF m = <<>> THEN "" ELSE M!Flat(NmExpandFrom(t, s, m[1], 1))

RECURSIVE NmRenderTmplFrom(_, _)
NmRenderTmplFrom(t, i) == IF i > Len(t) THEN ""
                          ELSE (IF t[i].k = "dollar" THEN "$$" ELSE M!RenderTmpl(<<t[i]>>)) \o NmRenderTmplFrom(t, i + 1)
NmRenderTmpl(t) == NmRenderTmplFrom(t, 1)

\* number of capturing groups of a regex (regexp.NumSubexp)
RECURSIVE NmNumGroups(_)
NmNumGroups(re) == CASE re.k = "grp" -> 1 + NmNumGroups(re.x)
                     [] re.k \in {"cat", "alt"} -> NmNumGroups(re.x) + NmNumGroups(re.y)
                     [] re.k \in {"star", "plus", "opt", "rep01"} -> NmNumGroups(re.x)
                     [] OTHER -> 0

\* ---------------------------------------------------------------- the rules
RECURSIVE NmCatAll(_)
NmCatAll(rs) == IF Len(rs) = 1 THEN rs[1] ELSE M!Cat(rs[1], NmCatAll(Tail(rs)))
NmLits(cs) == NmCatAll([i \in 1..Len(cs) |-> M!Lit(cs[i])])

NmRaw == <<"r", "a", "w", ".">>
NmAgg == <<"a", "g", "g", ".">>
\* the metric names offered; nx passes every cheap condition (prefix "raw.", substring ".") but no regex
NmNames == [n1 |-> NmRaw \o <<"a", ".", "x">>, n2 |-> NmRaw \o <<"a", ".", "y">>,
            n3 |-> NmRaw \o <<"b", ".", "x">>, nx |-> NmRaw \o <<"a", ".", "z">>]
NmAllNames == DOMAIN NmNames

NmAB  == M!Class(<<"a", "b">>)
NmXY  == M!Class(<<"x", "y">>)
NmDot == M!Lit(".")
NmReFlat == NmCatAll(<<M!Bol, NmLits(NmRaw), NmAB, NmDot, NmXY, M!Eol>>)                                    \* ^raw\.[ab]\.[xy]$
NmReGrp  == NmCatAll(<<M!Bol, NmLits(NmRaw), M!Grp(1, M!Plus(NmAB)), NmDot, M!Grp(2, NmXY), M!Eol>>)       \* ^raw\.([ab]+)\.([xy])$
NmReTail == NmCatAll(<<NmAB, NmDot, NmXY, M!Eol>>)                                                          \* [ab]\.[xy]$  (unanchored: $0 is a proper part of the name)

NmRule(re, t) == [re |-> re, tmpl |-> <<M!TLit(NmAgg)>> \o t]    \* every output name starts with "agg."
NmRules ==
  [flat |-> NmRule(NmReFlat, <<M!TLit(<<"a", "l", "l">>)>>),                                              \* agg.all
   g1   |-> NmRule(NmReGrp,  <<M!TRef(1), M!TLit(<<".", "o", "u", "t">>)>>),                              \* agg.${1}.out
   g12  |-> NmRule(NmReGrp,  <<M!TRef(2), M!TLit(<<".">>), M!TWord(<<"1">>)>>),                           \* agg.${2}.$1
   g0   |-> NmRule(NmReGrp,  <<M!TRef(0), M!TLit(<<".">>), M!TWord(<<"2">>)>>),                           \* agg.${0}.$2   whole match, regex with groups
   \* regexes WITHOUT capturing groups
   w0   |-> NmRule(NmReFlat, <<M!TRef(0)>>),                                                              \* agg.${0}      one output series per input series
   w0t  |-> NmRule(NmReTail, <<M!TWord(<<"0">>), M!TLit(<<".", "s">>)>>),                                 \* agg.$0.s
   dd   |-> NmRule(NmReFlat, <<NmDollar, M!TLit(<<"1", ".", "a", "l", "l">>), NmDollar>>),                \* agg.$$1.all$$ -> agg.$1.all$
   mis  |-> NmRule(NmReTail, <<M!TRef(1), M!TLit(<<"m">>), M!TWord(<<"2">>), M!TLit(<<".">>),
                               M!TWord(<<"x", "_">>), M!TLit(<<".", "e">>)>>)]                            \* agg.${1}m$2.$x_.e -> agg.m..e
NmAllFmts == DOMAIN NmRules

\* evaluated once by TLC (constant definitions)
NmOut    == [f \in NmAllFmts |-> [n \in NmAllNames |-> NmExpand(NmRules[f].re, NmRules[f].tmpl, NmNames[n])]]
NmGroups == [f \in NmAllFmts |-> NmNumGroups(NmRules[f].re)]
NmTmplText  == [f \in NmAllFmts |-> NmRenderTmpl(NmRules[f].tmpl)]
NmRegexText == [f \in NmAllFmts |-> M!Render(NmRules[f].re)]
NmNameText  == [n \in NmAllNames |-> M!Flat(NmNames[n])]
NmAllOut == {NmOut[f][n] : f \in NmAllFmts, n \in NmAllNames} \ {""}

\* what the drivers are given (strings only)
NmDriverTable == [f \in NmAllFmts |-> [regex |-> NmRegexText[f], outfmt |-> NmTmplText[f], groups |-> NmGroups[f],
                                        names |-> NmNameText, out |-> NmOut[f]]]

\* sanity of the table: nx matches no rule, every other name matches every rule (the trace driver's
\* inbox barrier counts on it); the whole-match rules keep different series apart; the rules
\* without groups whose format needs expansion are present
ASSUME \A f \in NmAllFmts : NmOut[f]["nx"] = "" /\ \A n \in NmAllNames \ {"nx"} : NmOut[f][n] # ""
ASSUME \A f \in {"w0", "w0t", "g0"} : Cardinality({NmOut[f][n] : n \in NmAllNames \ {"nx"}}) = 3
ASSUME \A f \in {"flat", "w0", "w0t", "dd", "mis"} : NmGroups[f] = 0
ASSUME \A f \in {"w0", "w0t", "dd", "mis"}, n \in NmAllNames \ {"nx"} : NmOut[f][n] # NmTmplText[f]
ASSUME NmOut["w0"]["n1"] = "agg.raw.a.x" /\ NmOut["w0t"]["n3"] = "agg.b.x.s" /\ NmOut["dd"]["n2"] = "agg.$1.all$"
       /\ NmOut["mis"]["n1"] = "agg.m..e" /\ NmOut["g12"]["n2"] = "agg.y.a" /\ NmOut["g0"]["n3"] = "agg.raw.b.x.x"
=============================================================================
