------------------------------ MODULE ConnStream ------------------------------
(* C05, connection level: the relay loop's nonBlockingSend into Conn.In, the   *)
(* single HandleData goroutine (keepSafe.Add; Write(line); Write("\n") | tick   *)
(* flush | manual flush) on top of the byte-level Writer of BufWriter.tla, and  *)
(* a healthy socket (the underlying writer takes everything: faults = 0).       *)
(*                                                                              *)
(*   handed     lines handed to the destination so far (numbered 1..handed in   *)
(*              hand-off order); lens[i] = length of line i                     *)
(*   In         Conn.In (capacity Q; Q = 0: unbuffered, a send succeeds only    *)
(*              while HandleData is blocked in its select)                      *)
(*   accepted   hand-offs that entered Conn.In, in order;  slow = slow_conn     *)
(*   hd, cur    HandleData: "select" | "line" (has cur, keepSafe.Add done) |    *)
(*              "w1" | "w2" (first / second Writer.Write of Conn.Write)         *)
(*   out        numOut                                                          *)
(*                                                                              *)
(* Bytes: line i is <<i*K+1 .. i*K+lens[i]>>, its newline is i*K, its pickle    *)
(* length prefix is i*K+K-1.                                                    *)
(*                                                                              *)
(* Property StreamIsHandOffOrder: the wire is a prefix of the concatenation of  *)
(* line+"\n" (pickle mode: prefix+payload) over the ACCEPTED hand-offs in order.*)
EXTENDS BufWriter, ConnStreamOps

CONSTANTS Q,          \* connbuf
          N,          \* number of lines
          LineLens,   \* possible line lengths
          Pickle      \* pickle mode

VARIABLES handed, lens, In, accepted, slow, hd, cur, out
csvars == <<handed, lens, In, accepted, slow, hd, cur, out>>
vars == <<bwvars, csvars>>

MaxLineLen == CHOOSE m \in LineLens : \A x \in LineLens : x <= m
K == MaxLineLen + 2
Body(i) == [j \in 1 .. lens[i] |-> i * K + j]
Nl(i)   == i * K
Pfx(i)  == i * K + K - 1
Frame(i) == IF Pickle THEN <<Pfx(i)>> \o Body(i) ELSE Body(i) \o <<Nl(i)>>

RECURSIVE Expected(_)
Expected(ids) == IF ids = <<>> THEN <<>> ELSE Frame(Head(ids)) \o Expected(Tail(ids))
IsPrefix(s, t) == Len(s) <= Len(t) /\ SubSeq(t, 1, Len(s)) = s

\* Conn.Write: the argument of the first and (if any) second Writer.Write
\* (deviation pfx_stale_long: the length prefix of the longest lines is left at 0 -- it was patched
\*  into a buffer that the encoder had already outgrown)
First(i)  == IF Pickle THEN (IF Dev = "pfx_stale_long" /\ lens[i] = MaxLineLen THEN <<0>> \o Body(i) ELSE Frame(i))
             ELSE IF Dev = "nl_first" THEN <<Nl(i)>> ELSE Body(i)
HasSecond == /\ ~Pickle /\ Dev # "no_nl"
             /\ (Dev = "nl_sometimes" => n > 0)       \* deviation: newline forgotten after an overflow flush
Second(i) == IF Dev = "nl_first" THEN Body(i) ELSE <<Nl(i)>>

Init == /\ BWInit(0)
        /\ handed = 0 /\ lens = <<>> /\ In = <<>> /\ accepted = <<>> /\ slow = 0
        /\ hd = "select" /\ cur = 0 /\ out = 0

\* route: dest.In <- buf; relay: nonBlockingSend
Send(L) ==
    /\ handed < N
    /\ handed' = handed + 1 /\ lens' = Append(lens, L)
    /\ \/ /\ Q > 0 /\ Len(In) < Q                          \* case conn.In <- buf
          /\ In' = Append(In, handed + 1) /\ accepted' = Append(accepted, handed + 1)
          /\ UNCHANGED <<slow, hd, cur>>
       \/ /\ Q = 0 /\ hd = "select"                        \* unbuffered: HandleData is waiting in its select
          /\ hd' = "line" /\ cur' = handed + 1 /\ accepted' = Append(accepted, handed + 1)
          /\ UNCHANGED <<In, slow>>
       \/ /\ (Q > 0 /\ Len(In) >= Q) \/ Q = 0              \* default: drop, count slow_conn
          /\ slow' = slow + 1
          /\ UNCHANGED <<In, accepted, hd, cur>>
    /\ UNCHANGED <<bwvars, out>>

\* HandleData: case buf := <-c.In  (then keepSafe.Add)
HdRecv ==
    /\ hd = "select" /\ In # <<>>
    /\ cur' = Head(In) /\ In' = Tail(In) /\ hd' = "line"
    /\ UNCHANGED <<bwvars, handed, lens, accepted, slow, out>>
HdWrite1 ==
    /\ hd = "line" /\ CallWrite(First(cur)) /\ hd' = "w1"
    /\ UNCHANGED <<handed, lens, In, accepted, slow, cur, out>>
HdIter == /\ pc = "write" /\ LoopCond /\ \E o \in IterOutcomes : WIter(o)
          /\ UNCHANGED csvars
HdRet  == WRet /\ UNCHANGED csvars
HdAfter1 ==
    /\ hd = "w1" /\ pc = "idle"
    /\ IF HasSecond
         THEN /\ CallWrite(Second(cur)) /\ hd' = "w2" /\ UNCHANGED out
         ELSE /\ hd' = "select" /\ out' = out + 1 /\ UNCHANGED bwvars
    /\ UNCHANGED <<handed, lens, In, accepted, slow, cur>>
HdAfter2 ==
    /\ hd = "w2" /\ pc = "idle"
    /\ hd' = "select" /\ out' = out + 1
    /\ UNCHANGED <<bwvars, handed, lens, In, accepted, slow, cur>>
\* case <-tickerFlush.C  /  case <-c.flush   (same effect on the stream)
TickFlush ==
    /\ hd = "select" /\ DoFlush(OkOutcome(Pending))
    /\ UNCHANGED csvars

Next == \/ \E L \in LineLens : Send(L)
        \/ HdRecv \/ HdWrite1 \/ HdIter \/ HdRet \/ HdAfter1 \/ HdAfter2
        \/ TickFlush
Spec == Init /\ [][Next]_vars
FairSpec == Spec /\ WF_vars(HdRecv) /\ WF_vars(HdWrite1) /\ WF_vars(HdIter) /\ WF_vars(HdRet)
                 /\ WF_vars(HdAfter1) /\ WF_vars(HdAfter2) /\ WF_vars(TickFlush /\ n > 0)
                 /\ WF_vars(\E L \in LineLens : Send(L))

\* ------------------------------------------------------------- properties
TypeOK == BWTypeOK /\ Len(In) <= Q /\ hd \in {"select", "line", "w1", "w2"}
StreamIsHandOffOrder == IsPrefix(wire, Expected(accepted))
AcceptedBytesInOrder == IsPrefix(acc, Expected(accepted)) /\ StreamOK
Conservation == handed = Len(accepted) + slow /\ Increasing(accepted, 0)
AtRest == (handed = N /\ In = <<>> /\ hd = "select" /\ n = 0)
            => /\ wire = Expected(accepted)
               /\ Accounted(handed, Len(accepted), slow)
               /\ out = Len(accepted)
NoError == err = ""
EventuallyDelivered == <>[](handed = N /\ wire = Expected(accepted))
=============================================================================
