------------------------------- MODULE BufIso -------------------------------
(* C04, second half — buffer isolation between the input reader and the       *)
(* asynchronous consumers of a dispatched line.                               *)
(*                                                                            *)
(* The caller (input/plain.go: scanner.Bytes()) owns one buffer that it       *)
(* overwrites as soon as Table.Dispatch has returned.  The relay hands the    *)
(* forwarded line to several consumers (routes, destinations behind them,     *)
(* aggregators) that read it later, from other goroutines.                    *)
(*                                                                            *)
(*   callerBuf    content of the caller's buffer                               *)
(*   heap         relay-owned buffers: ref -> content (ref 0 = the caller's)   *)
(*   held         references a consumer still holds: [c, id, ref] (queued in a *)
(*                channel, kept by keepSafe, kept by a route ...)              *)
(*   sent         id -> the forwarded content at the instant of the hand-off   *)
(*   delivered    observations [c, id, at]: what consumer c read for line id   *)
(*                                                                            *)
(* Faithful actions: CallerFill (the caller writes / reuses its buffer, any   *)
(* time), DispatchAs (table.go:123-124 copy, :170 fresh join; every consumer  *)
(* gets a reference to relay-owned memory), Consume (a consumer reads what it *)
(* holds), Release.  Deviations (Dev): "nocopy" (consumers are handed the     *)
(* caller's memory), "aggalias" (only one consumer aliases it), "mutate" (the *)
(* relay writes to a buffer after the hand-off), "clobber" (Dispatch writes   *)
(* into the caller's buffer).                                                  *)
EXTENDS Integers, Sequences, FiniteSets, TLC

CONSTANTS Consumers,   \* e.g. {"k1", "k2", "dest", "agg"}
          Contents,    \* model checking: the possible buffer contents
          MaxLines,    \* model checking: bound on hand-offs
          Dev          \* "" (faithful) or the name of a deviation

VARIABLES callerBuf, heap, held, sent, delivered, nextId
bvars == <<callerBuf, heap, held, sent, delivered, nextId>>

Content(ref) == IF ref = 0 THEN callerBuf ELSE heap[ref]

BInit(c0) == /\ callerBuf = c0
             /\ heap = <<>> /\ held = {} /\ sent = <<>> /\ delivered = {} /\ nextId = 1

\* the caller (re)uses its buffer: allowed at any time, in particular right after Dispatch returned
CallerFill(x) == callerBuf' = x /\ UNCHANGED <<heap, held, sent, delivered, nextId>>

\* Dispatch returns having handed content w (the forwarded line derived from callerBuf) to the
\* consumers in C, each of which now holds a reference to a relay-owned buffer
DispatchAs(w, C) ==
    /\ heap' = Append(heap, w)
    /\ held' = held \cup {[c |-> c, id |-> nextId, ref |-> nextId] : c \in C}
    /\ sent' = Append(sent, w)
    /\ nextId' = nextId + 1
    /\ UNCHANGED <<callerBuf, delivered>>

\* deviation: the consumers in Alias are handed the caller's own memory
DispatchAlias(w, C, Alias) ==
    /\ heap' = Append(heap, w)
    /\ held' = held \cup {[c |-> c, id |-> nextId, ref |-> IF c \in Alias THEN 0 ELSE nextId] : c \in C}
    /\ sent' = Append(sent, w)
    /\ nextId' = nextId + 1
    /\ UNCHANGED <<callerBuf, delivered>>

\* deviation: Dispatch works in place on the caller's buffer
DispatchClobber(w, x, C) ==
    /\ heap' = Append(heap, w)
    /\ held' = held \cup {[c |-> c, id |-> nextId, ref |-> nextId] : c \in C}
    /\ sent' = Append(sent, w)
    /\ nextId' = nextId + 1
    /\ callerBuf' = x /\ UNCHANGED delivered

\* deviation: the relay (or one of the consumers) writes to a buffer that was handed off
Mutate(ref, x) == /\ ref \in DOMAIN heap /\ heap' = [heap EXCEPT ![ref] = x]
                  /\ UNCHANGED <<callerBuf, held, sent, delivered, nextId>>

\* consumer c reads the line it holds (it may keep the reference: keepSafe, capture routes)
Consume(h) == /\ h \in held
              /\ delivered' = delivered \cup {[c |-> h.c, id |-> h.id, at |-> Content(h.ref)]}
              /\ UNCHANGED <<callerBuf, heap, held, sent, nextId>>

Release(h) == /\ h \in held /\ held' = held \ {h}
              /\ UNCHANGED <<callerBuf, heap, sent, delivered, nextId>>

-----------------------------------------------------------------------------
(* the property *)

\* every reference still held shows the content it had at the hand-off
HeldIntact == \A h \in held : Content(h.ref) = sent[h.id]
\* every consumer read exactly the forwarded line ...
DeliveredIntact == \A d \in delivered : d.at = sent[d.id]
\* ... hence all consumers of one line saw identical bytes
SameForAll == \A d1, d2 \in delivered : d1.id = d2.id => d1.at = d2.at
\* the relay does not retain the caller's buffer
NotRetained == \A h \in held : h.ref # 0
\* the relay does not modify the caller's buffer: only CallerFill changes it
CallerUntouched == [][nextId' # nextId => callerBuf' = callerBuf]_bvars

Isolation == HeldIntact /\ DeliveredIntact /\ SameForAll /\ NotRetained

-----------------------------------------------------------------------------
(* model checking: content transformation abstracted to the identity *)

Init == \E c0 \in Contents : BInit(c0)

Next ==
    \/ \E x \in Contents : CallerFill(x)
    \/ /\ nextId <= MaxLines
       /\ \E C \in SUBSET Consumers :
            \/ Dev \notin {"nocopy", "aggalias", "clobber"} /\ DispatchAs(callerBuf, C)
            \/ Dev = "nocopy" /\ DispatchAlias(callerBuf, C, C)
            \/ Dev = "aggalias" /\ \E a \in C : DispatchAlias(callerBuf, C, {a})
            \/ Dev = "clobber" /\ \E x \in Contents : DispatchClobber(callerBuf, x, C)
    \/ Dev = "mutate" /\ \E r \in DOMAIN heap, x \in Contents : Mutate(r, x)
    \/ \E h \in held : Consume(h)
    \/ \E h \in held : Release(h)

Spec == Init /\ [][Next]_bvars
=============================================================================
