----------------------------- MODULE BufWriter -----------------------------
(* C05, byte level.  destination/bufwriter.go transcribed loop by loop.       *)
(*                                                                            *)
(*   buf, n, err   the Writer (buf has capacity B; buf[1..n] is pending)      *)
(*   wire          the bytes the underlying io.Writer (the socket) accepted   *)
(*   pc, p, nn     the Write call in progress: rest of the argument, bytes    *)
(*                 consumed so far (one action = one iteration of the loop)   *)
(*   acc           history: every byte consumed ("accepted") by Write, in     *)
(*                 order; acc0 = Len(acc) when the current call started       *)
(*   ret           what the last completed call returned                      *)
(*   faults        injected faults left for the underlying writer             *)
(*                                                                            *)
(* Bytes are integers.  The underlying writer answers a call Write(q) with an *)
(* outcome [k, e]: k bytes taken, error e ("" = nil).  It takes everything,   *)
(* or fails after k \in 0..Len(q) bytes, or (contract-breaking, but the code  *)
(* copes) takes 1..Len(q)-1 bytes without an error.                           *)
(*                                                                            *)
(* Property (C05, byte level): StreamOK -- wire \o buf[1..n] is exactly the   *)
(* sequence of bytes accepted by Write, in order; ReturnOK -- the count       *)
(* returned is the number of bytes consumed, short only with an error.        *)
EXTENDS Integers, Sequences, FiniteSets

CONSTANTS B,         \* capacity of the buffer (iobuf)
          Dev        \* named deviation of the algorithm; "" = as in the code

VARIABLES buf, n, err, wire, pc, p, nn, acc, acc0, ret, faults
bwvars == <<buf, n, err, wire, pc, p, nn, acc, acc0, ret, faults>>

Min(a, b) == IF a < b THEN a ELSE b
Avail == B - n                                   \* Available()
Pending == SubSeq(buf, 1, n)                     \* buf[0:n]

OkOutcome(q) == [k |-> Len(q), e |-> ""]
\* what the underlying writer may answer to Write(q)
Outcomes(q) ==
    {OkOutcome(q)} \cup
    (IF faults > 0
       THEN {[k |-> j, e |-> "E"] : j \in 0 .. Len(q)} \cup
            {[k |-> j, e |-> ""] : j \in 1 .. Len(q) - 1}
       ELSE {})
IsFault(q, o) == o # OkOutcome(q)

\* copy(b.buf[m:], q): returns the new array
CopyAt(b, m, q) == [i \in 1 .. B |-> IF i > m /\ i <= m + Len(q) THEN q[i - m] ELSE b[i]]

\* ---------------------------------------------------------------- flush()
\* The result of flush() on a writer (b, m, e0) when the underlying writer
\* answers o (o is ignored when flush() does not reach wr.Write).
FlushCalls(m, e0) == e0 = "" /\ m > 0
FlushRes(b, m, e0, o) ==
    IF e0 # "" THEN [buf |-> b, n |-> m, err |-> e0, out |-> <<>>, ret |-> e0]
    ELSE IF m = 0 THEN [buf |-> b, n |-> 0, err |-> "", out |-> <<>>, ret |-> ""]
    ELSE LET k  == o.k
             e1 == IF k < m /\ o.e = "" THEN "short" ELSE o.e      \* io.ErrShortWrite
         IN IF e1 # ""
              THEN [buf |-> IF k > 0 /\ k < m /\ Dev \notin {"no_compaction"}
                              THEN CopyAt(b, 0, SubSeq(b, k + 1, m))    \* copy(buf[0:n-k], buf[k:n])
                              ELSE b,
                    n   |-> CASE Dev = "flush_drops_tail"  -> 0         \* deviation: the unwritten tail is forgotten
                              [] Dev = "dup_after_partial" -> m         \* deviation: written bytes stay pending
                              [] OTHER -> m - k,
                    err |-> e1, out |-> SubSeq(b, 1, k), ret |-> e1]
              ELSE [buf |-> b, n |-> 0, err |-> "", out |-> SubSeq(b, 1, m), ret |-> ""]

\* ----------------------------------------------------------------- Write(p)
CallWrite(q) ==
    /\ pc = "idle"
    /\ pc' = "write" /\ p' = q /\ nn' = 0 /\ acc0' = Len(acc)
    /\ UNCHANGED <<buf, n, err, wire, acc, ret, faults>>

LoopCond == Len(p) > Avail /\ err = ""

\* "Large write, empty buffer": the deviation bypass_nonempty forgets the
\* second half of the condition.
Direct == n = 0 \/ (Dev = "bypass_nonempty" /\ Len(p) >= B)

\* one iteration of `for len(p) > b.Available() && b.err == nil`
\* else-branch: n = copy(b.buf[b.n:], p); b.n += n; b.flush()
IterC  == Min(Avail, Len(p))
IterB1 == CopyAt(buf, n, SubSeq(p, 1, IterC))
IterN1 == IF Dev = "n_off_by_one" THEN n + IterC - 1 ELSE n + IterC
\* the argument of the one call of the underlying writer made by this iteration
IterQ  == IF Direct THEN p ELSE SubSeq(IterB1, 1, IterN1)
IterOutcomes == IF Direct \/ IterN1 > 0 THEN Outcomes(IterQ) ELSE {OkOutcome(IterQ)}

WIter(o) ==
    /\ pc = "write" /\ LoopCond
    /\ o \in IterOutcomes
    /\ faults' = IF IsFault(IterQ, o) THEN faults - 1 ELSE faults
    /\ IF Direct
         THEN /\ wire' = wire \o SubSeq(p, 1, o.k)               \* n, b.err = b.wr.Write(p)
              /\ err' = o.e
              /\ nn' = nn + o.k
              /\ acc' = acc \o SubSeq(p, 1, o.k)
              /\ p' = SubSeq(p, o.k + 1, Len(p))
              /\ UNCHANGED <<buf, n>>
         ELSE /\ LET r == FlushRes(IterB1, IterN1, "", o)          \* b.flush(), result ignored
                 IN /\ buf' = r.buf /\ n' = r.n /\ err' = r.err
                    /\ wire' = wire \o r.out
              /\ nn' = nn + IterC
              /\ acc' = acc \o SubSeq(p, 1, IterC)
              /\ p' = SubSeq(p, IterC + 1, Len(p))
    /\ UNCHANGED <<pc, acc0, ret>>

\* after the loop
WRet ==
    /\ pc = "write" /\ ~LoopCond
    /\ IF err # ""
         THEN /\ ret' = [op |-> "w", nn |-> nn, err |-> err, len |-> nn + Len(p)]
              /\ UNCHANGED <<buf, n, acc>>
         ELSE /\ buf' = CopyAt(buf, n, p)                        \* n := copy(b.buf[b.n:], p)
              /\ n' = n + Len(p)
              /\ acc' = acc \o p
              /\ ret' = [op |-> "w", nn |-> nn + Len(p), err |-> "", len |-> nn + Len(p)]
    /\ pc' = "idle" /\ p' = <<>> /\ nn' = 0
    /\ UNCHANGED <<err, wire, acc0, faults>>

\* ------------------------------------------------------------------ Flush()
FlushOutcomes == IF FlushCalls(n, err) THEN Outcomes(Pending) ELSE {OkOutcome(Pending)}
DoFlush(o) ==
    /\ pc = "idle"
    /\ o \in FlushOutcomes
    /\ faults' = IF IsFault(Pending, o) THEN faults - 1 ELSE faults
    /\ LET r == FlushRes(buf, n, err, o)
       IN /\ buf' = r.buf /\ n' = r.n /\ err' = r.err
          /\ wire' = wire \o r.out
          /\ ret' = [op |-> "f", nn |-> 0, err |-> r.ret, len |-> 0]
    /\ acc0' = Len(acc)
    /\ UNCHANGED <<pc, p, nn, acc>>

BWInit(f) ==
    /\ buf = [i \in 1 .. B |-> 0] /\ n = 0 /\ err = "" /\ wire = <<>>
    /\ pc = "idle" /\ p = <<>> /\ nn = 0 /\ acc = <<>> /\ acc0 = 0
    /\ ret = [op |-> "", nn |-> 0, err |-> "", len |-> 0] /\ faults = f

\* the same as an action (trace specifications start a new history with it)
BWReset(f) ==
    /\ buf' = [i \in 1 .. B |-> 0] /\ n' = 0 /\ err' = "" /\ wire' = <<>>
    /\ pc' = "idle" /\ p' = <<>> /\ nn' = 0 /\ acc' = <<>> /\ acc0' = 0
    /\ ret' = [op |-> "", nn |-> 0, err |-> "", len |-> 0] /\ faults' = f

\* --------------------------------------------------------------- properties
BWTypeOK == n \in 0 .. B /\ nn >= 0 /\ faults >= 0 /\ pc \in {"idle", "write"}
\* the socket's bytes followed by the pending bytes are the accepted bytes, in order
StreamOK == wire \o Pending = acc
\* the count returned by Write is the number of bytes consumed; short only with an error
ReturnOK == (pc = "idle" /\ ret.op = "w") => /\ ret.nn = Len(acc) - acc0
                                              /\ ret.nn <= ret.len
                                              /\ (ret.nn < ret.len => ret.err # "")
                                              /\ (ret.err = "" <=> err = "")
\* a Flush that returns nil has put every accepted byte on the wire
FlushOK == (pc = "idle" /\ ret.op = "f" /\ ret.err = "") => (n = 0 /\ wire = acc)
\* once an error was returned nothing more reaches the socket
Sticky == [][err # "" => (wire' = wire /\ err' = err)]_bwvars
=============================================================================
