SPECIFICATION Spec
INVARIANTS EmitCase EachOptionItsOwnField SyntaxesAgree CacheAsymmetry DefaultsWhenUnset
CHECK_DEADLOCK FALSE
