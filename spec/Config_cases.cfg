SPECIFICATION Spec
INVARIANTS EmitCase ExplicitZeroHonoured AcceptanceAgrees EachOptionItsOwnField SyntaxesAgree CacheAsymmetry DefaultsWhenUnset
CHECK_DEADLOCK FALSE
