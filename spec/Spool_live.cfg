SPECIFICATION LiveSpec
INVARIANTS TypeOK
PROPERTIES Settles
CHECK_DEADLOCK FALSE
