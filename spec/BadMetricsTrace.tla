-------------------------- MODULE BadMetricsTrace --------------------------
(* XBAD -- level-A trace specification: histories recorded by harness/bad     *)
(* from the real badmetrics.BadMetrics (directly, and through a real          *)
(* table.Table built by the configuration path: Dispatch of invalid lines and *)
(* out-of-order points -> table.bad.Add; Table.Bad().Get; the web endpoint     *)
(* /badMetrics/{timespec}.json) are decided against BadMetricsOps -- the same  *)
(* operators that TLC proved of BadMetrics.tla for every interleaving.         *)
(*                                                                           *)
(* One execution = one "hist" line                                            *)
(*    n, rs, a0, a1   per add (rejection): rank of the name in byte order,     *)
(*                    identity of the reason, monotonic clock (microseconds    *)
(*                    since the execution began) read before the call (rounded *)
(*                    down) and after it returned (rounded up)                 *)
(*    maxage, period, slack   the instance's maxAge, maxAge/10, and the only   *)
(*                    time threshold of the check (cleaning, S8)               *)
(* followed by its events, Gets in the order of g1:                           *)
(*    get   g0, g1 (bracket), e (expiry), res = <<n, a, rs, s0, s1>>...:       *)
(*          name rank, add named by the text (0 = a text nobody sent), reason  *)
(*          identity (0 = a reason nobody gave), LastSeen rounded down / up    *)
(*          (web endpoint: the add's bracket)                                  *)
(*    held  In was filled to its capacity while the manage goroutine was kept  *)
(*          waiting for a Get caller to take its answer, then `late` more Adds *)
(*          were started: `returned` of them came back before the manager was  *)
(*          released (must be 0: Add blocks, it does not drop), len = cap      *)
(*    end   the execution ended: every Add returned and every poll ended       *)
(*          before its deadline (`stuck` = 0)                                  *)
(* Diag = TRUE (second run on a rejected execution only): accept everything    *)
(* and print the clauses that fail, for the report.                           *)
EXTENDS BadMetricsOps, Json, TLC, TLCExt, IOUtils

CONSTANT Diag

TLog == ndJsonDeserialize("trace.ndjson")

VARIABLES l, h, kn, ob, dd
tvars == <<l, h, kn, ob, dd>>

ASSUME TLCSet(1, 0) /\ TLCSet(3, <<0, 0, 0, 0>>)

Ev == TLog[l]
Is(x) == l <= Len(TLog) /\ Ev.ev = x /\ l' = l + 1

Empty == [n |-> <<>>, rs |-> <<>>, a0 |-> <<>>, a1 |-> <<>>, maxage |-> 0, period |-> 0, slack |-> 0]
TInit == l = 1 /\ h = Empty /\ kn = <<>> /\ ob = <<>> /\ dd = <<>>

Say(what, set) == PrintT("@@DIAG " \o ToJson([line |-> l, what |-> what, failed |-> set]))

THist == /\ Is("hist")
         /\ Len(Ev.rs) = Len(Ev.n) /\ Len(Ev.a0) = Len(Ev.n) /\ Len(Ev.a1) = Len(Ev.n)
         /\ \A a \in 1..Len(Ev.n) : Ev.a0[a] <= Ev.a1[a]
         /\ h' = Ev
         /\ kn' = [a \in 1..Len(Ev.n) |-> Inf] /\ ob' = [a \in 1..Len(Ev.n) |-> Inf] /\ dd' = [a \in 1..Len(Ev.n) |-> Inf]

TGet == /\ Is("get")
        /\ LET G == [g0 |-> Ev.g0, g1 |-> Ev.g1, e |-> Ev.e, res |-> Ev.res]
               f == Failed(Clauses(h, kn, dd, G, h.maxage, h.period, h.slack))
               d == Decided(h, kn, dd, G, h.maxage)
               c == TLCGet(3)
           IN  /\ G.g0 <= G.g1
               /\ IF f = {} THEN TRUE ELSE Diag /\ Say("get", f)
               /\ TLCSet(3, <<c[1] + d[1], c[2] + d[2], c[3] + d[3], c[4] + Len(G.res)>>)
               /\ kn' = KnNext(h, kn, G) /\ ob' = ObNext(h, ob, G) /\ dd' = DdNext(h, kn, ob, dd, G)
        /\ UNCHANGED h

\* Add blocks while In is full: none of the late Adds returned while nothing could be consumed
THeld == /\ Is("held")
         /\ IF Ev.returned = 0 /\ Ev.len = Ev.cap THEN TRUE ELSE Diag /\ Say("held", {"add_returned_while_full"})
         /\ UNCHANGED <<h, kn, ob, dd>>

TEnd == /\ Is("end")
        /\ IF Ev.stuck = 0 THEN TRUE ELSE Diag /\ Say("end", {"stuck"})
        /\ UNCHANGED <<h, kn, ob, dd>>

TNext == THist \/ TGet \/ THeld \/ TEnd
TSpec == TInit /\ [][TNext]_tvars

HighWater == TLCSet(1, IF l - 1 > TLCGet(1) THEN l - 1 ELSE TLCGet(1))
Post == PrintT("@@TRACE " \o ToJson([matched |-> TLCGet(1), must |-> TLCGet(3)[1], mustnot |-> TLCGet(3)[2],
                                     either |-> TLCGet(3)[3], returned |-> TLCGet(3)[4]]))
=============================================================================
