SPECIFICATION Spec
INVARIANTS C09Fifo C09Depth C09DepthRest GenIdle C08Run C08 C08Sentinel C08PostFifo NoGarbage NoSkip
CHECK_DEADLOCK FALSE
