--------------------------- MODULE ConnStreamTrace ---------------------------
(* Level-A trace specification for C05: judges what a loopback endpoint      *)
(* received from a real destination.  trace.ndjson, one event per line:       *)
(*   run   a new run: `handed` lines (numbered 1..handed in hand-off order)   *)
(*         were handed to the route; gens = 1: over the destination's one     *)
(*         connection.  gens = 2 (spec/ConnStreamGen.tla): the endpoint cut   *)
(*         the first connection, the relay reconnected, and the `handed`      *)
(*         lines are those handed while the SECOND, healthy connection was    *)
(*         the relay's connection; the events describe that connection's      *)
(*         stream (the first connection's writer may still write late)        *)
(*   recv  the next units of the byte stream (a line terminated by a single   *)
(*         newline, or a length-prefixed pickle) are, intact, the lines       *)
(*         a, a+1, .., b                                                      *)
(*   bad   the next unit is not a handed-off line (torn, merged, garbled,     *)
(*         empty, undecodable frame) -- no action matches: rejected           *)
(*   end   the stream has ended: tail = bytes after the last complete unit,   *)
(*         slow = delta of the slow_conn drop counter, conns = connections    *)
(*         the relay opened, stalled = "received + slow_conn" never reached   *)
(*         "handed"                                                           *)
(*         (conns must equal gens: the relay keeps a healthy connection)      *)
(* A trace is accepted iff every line is matched (high-water mark = Len).     *)
EXTENDS ConnStreamOps, Json, TLC, TLCExt, IOUtils

TLog == ndJsonDeserialize("trace.ndjson")

VARIABLES l, handed, last, nrecv, gens
tvars == <<l, handed, last, nrecv, gens>>

ASSUME TLCSet(1, 0)

Ev == TLog[l]
Is(e) == l <= Len(TLog) /\ Ev.ev = e /\ l' = l + 1

TInit == l = 1 /\ handed = 0 /\ last = 0 /\ nrecv = 0 /\ gens = 1

TRun  == Is("run") /\ handed' = Ev.handed /\ last' = 0 /\ nrecv' = 0 /\ gens' = Ev.gens /\ Ev.gens \in {1, 2}
TRecv == /\ Is("recv")
         /\ InOrderOnce(last, Ev.a, Ev.b, handed)
         /\ last' = Ev.b /\ nrecv' = nrecv + (Ev.b - Ev.a + 1)
         /\ UNCHANGED <<handed, gens>>
TEnd  == /\ Is("end")
         /\ Ev.tail = 0                 \* the last line is terminated / the last frame complete
         /\ ~Ev.stalled                 \* every line was received or counted
         /\ Ev.conns = gens             \* the relay kept its (healthy) connection
         /\ Accounted(handed, nrecv, Ev.slow)
         /\ UNCHANGED <<handed, last, nrecv, gens>>

TNext == TRun \/ TRecv \/ TEnd
TSpec == TInit /\ [][TNext]_tvars

HighWater == TLCSet(1, IF l - 1 > TLCGet(1) THEN l - 1 ELSE TLCGet(1))
Post == PrintT("@@TRACE " \o ToJson([matched |-> TLCGet(1)]))
TInv == nrecv <= handed /\ last <= handed
=============================================================================
