SPECIFICATION FairSpec
PROPERTIES LoopExits Unparks TimerFlushes
CHECK_DEADLOCK FALSE
CONSTANTS
  Record = FALSE
