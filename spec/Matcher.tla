------------------------------ MODULE Matcher ------------------------------
(* C03 - what a carbon-relay-ng filter means.                                *)
(*                                                                           *)
(* A metric name is a sequence of one-character strings.  A filter has six   *)
(* options; an empty option imposes no constraint:                           *)
(*   Accept(f, s) == HasPrefix(s, prefix) /\ ~HasPrefix(s, notPrefix)        *)
(*                /\ Contains(s, sub)     /\ ~Contains(s, notSub)            *)
(*                /\ Search(regex, s)     /\ ~Search(notRegex, s)            *)
(* Regular expressions are abstract syntax trees with a set-of-end-positions *)
(* semantics (Ends); Search is the unanchored RE2 search; Render gives the   *)
(* RE2 text that is handed to the real code.  Nothing in here knows about    *)
(* "static prefixes", pre-matching or caches: those are shortcuts of the     *)
(* implementation that must not change the decision.                         *)
EXTENDS Integers, Sequences, FiniteSets

\* ------------------------------------------------------------- sequences
HasPrefix(s, p) == Len(p) <= Len(s) /\ SubSeq(s, 1, Len(p)) = p
Contains(s, p)  == \E i \in 1..(Len(s) - Len(p) + 1) : SubSeq(s, i, i + Len(p) - 1) = p
Range(q)        == {q[i] : i \in DOMAIN q}

RECURSIVE Flat(_)
Flat(s) == IF s = <<>> THEN "" ELSE Head(s) \o Flat(Tail(s))

\* ------------------------------------------------------------- regex AST
NoRe      == [k |-> "none"]                      \* option not set
Lit(c)    == [k |-> "lit", c |-> c]              \* one literal character
AnyC      == [k |-> "any"]                       \* .
Class(cs) == [k |-> "class", cs |-> cs]          \* [abc]   (cs a sequence of characters)
NClass(cs) == [k |-> "nclass", cs |-> cs]        \* [^abc]
Bol       == [k |-> "bol"]                       \* ^
Eol       == [k |-> "eol"]                       \* $
Cat(x, y) == [k |-> "cat", x |-> x, y |-> y]
Alt(x, y) == [k |-> "alt", x |-> x, y |-> y]
Star(x)   == [k |-> "star", x |-> x]             \* x*
Plus(x)   == [k |-> "plus", x |-> x]             \* x+
Opt(x)    == [k |-> "opt", x |-> x]              \* x?
Rep01(x)  == [k |-> "rep01", x |-> x]            \* x{0,1}
Grp(n, x) == [k |-> "grp", n |-> n, x |-> x]     \* (x), the n-th capturing group (numbered by opening parenthesis)

RECURSIVE Ends(_, _, _)
RECURSIVE Closure(_, _, _)
\* all positions reachable from a position of P by zero or more matches of x
Closure(x, s, P) == LET Q == P \cup UNION {Ends(x, s, p) : p \in P}
                    IN IF Q = P THEN P ELSE Closure(x, s, Q)
\* Ends(re, s, i): the set of positions j such that re matches s[i..j-1]
Ends(re, s, i) ==
  CASE re.k = "lit"    -> IF i <= Len(s) /\ s[i] = re.c THEN {i + 1} ELSE {}
    [] re.k = "any"    -> IF i <= Len(s) THEN {i + 1} ELSE {}        \* names never contain a newline
    [] re.k = "class"  -> IF i <= Len(s) /\ s[i] \in Range(re.cs) THEN {i + 1} ELSE {}
    [] re.k = "nclass" -> IF i <= Len(s) /\ s[i] \notin Range(re.cs) THEN {i + 1} ELSE {}
    [] re.k = "bol"    -> IF i = 1 THEN {i} ELSE {}
    [] re.k = "eol"    -> IF i = Len(s) + 1 THEN {i} ELSE {}
    [] re.k = "cat"    -> UNION {Ends(re.y, s, j) : j \in Ends(re.x, s, i)}
    [] re.k = "alt"    -> Ends(re.x, s, i) \cup Ends(re.y, s, i)
    [] re.k = "star"   -> Closure(re.x, s, {i})
    [] re.k = "plus"   -> Closure(re.x, s, Ends(re.x, s, i))
    [] re.k = "opt"    -> {i} \cup Ends(re.x, s, i)
    [] re.k = "rep01"  -> {i} \cup Ends(re.x, s, i)
    [] re.k = "grp"    -> Ends(re.x, s, i)                          \* capturing does not change what matches

\* unanchored search, as regexp.Match does
Search(re, s) == \E i \in 1..(Len(s) + 1) : Ends(re, s, i) # {}

\* ------------------------------------------------------------ the filter
Filter(p, np, sb, nsb, re, nre) ==
  [prefix |-> p, notPrefix |-> np, sub |-> sb, notSub |-> nsb, regex |-> re, notRegex |-> nre]
NoFilter == Filter(<<>>, <<>>, <<>>, <<>>, NoRe, NoRe)

Accept(f, s) ==
  /\ (f.prefix # <<>>    => HasPrefix(s, f.prefix))
  /\ (f.notPrefix # <<>> => ~HasPrefix(s, f.notPrefix))
  /\ (f.sub # <<>>       => Contains(s, f.sub))
  /\ (f.notSub # <<>>    => ~Contains(s, f.notSub))
  /\ (f.regex.k # "none"    => Search(f.regex, s))
  /\ (f.notRegex.k # "none" => ~Search(f.notRegex, s))

\* ------------------------------------------ submatches and output templates
\* An aggregation names its output by a template that may refer to what the capturing groups of
\* the regex matched (RE2: leftmost match, alternatives and greedy quantifiers tried in priority
\* order).  Paths(re, s, i, c) is the sequence, in priority order, of all ways re matches at i:
\* [e |-> end position, c |-> captures so far (group number -> <<from, to>>)].
SetCap(c, n, b, e) == [g \in DOMAIN c \cup {n} |-> IF g = n THEN <<b, e>> ELSE c[g]]
One(e, c) == <<[e |-> e, c |-> c]>>
RECURSIVE Paths(_, _, _, _)
RECURSIVE Then(_, _, _, _)
RECURSIVE Iter(_, _, _, _)
RECURSIVE IterAll(_, _, _, _)
Paths(re, s, i, c) ==
  CASE re.k \in {"lit", "any", "class", "nclass", "bol", "eol"} ->
            IF Ends(re, s, i) = {} THEN <<>> ELSE One(CHOOSE j \in Ends(re, s, i) : TRUE, c)
    [] re.k = "cat"    -> Then(re.y, s, Paths(re.x, s, i, c), 1)
    [] re.k = "alt"    -> Paths(re.x, s, i, c) \o Paths(re.y, s, i, c)
    [] re.k \in {"opt", "rep01"} -> Paths(re.x, s, i, c) \o One(i, c)
    [] re.k = "star"   -> Iter(re.x, s, i, c)
    [] re.k = "plus"   -> Paths(Cat(re.x, Star(re.x)), s, i, c)
    [] re.k = "grp"    -> LET ps == Paths(re.x, s, i, c)
                          IN [k \in 1..Len(ps) |-> [e |-> ps[k].e, c |-> SetCap(ps[k].c, re.n, i, ps[k].e)]]
Then(y, s, ps, k) == IF k > Len(ps) THEN <<>> ELSE Paths(y, s, ps[k].e, ps[k].c) \o Then(y, s, ps, k + 1)
\* greedy x*: prefer one more (non-empty) x, then stopping here
Iter(x, s, i, c) == IterAll(x, s, SelectSeq(Paths(x, s, i, c), LAMBDA p : p.e > i), 1) \o One(i, c)
IterAll(x, s, ps, k) == IF k > Len(ps) THEN <<>> ELSE Iter(x, s, ps[k].e, ps[k].c) \o IterAll(x, s, ps, k + 1)

RECURSIVE FirstFrom(_, _, _)
FirstFrom(re, s, i) == IF i > Len(s) + 1 THEN <<>>
                       ELSE LET ps == Paths(re, s, i, <<>>)
                            IN IF ps # <<>> THEN <<[b |-> i, e |-> ps[1].e, c |-> ps[1].c]>> ELSE FirstFrom(re, s, i + 1)
\* <<>> if re does not match anywhere in s, else <<the leftmost-first match>>
Submatch(re, s) == FirstFrom(re, s, 1)

\* a template is a sequence of parts
TLit(cs)  == [k |-> "lit", cs |-> cs]            \* literal text (no $)
TRef(n)   == [k |-> "ref", n |-> n]              \* ${n}
TWord(w)  == [k |-> "word", w |-> w]             \* $w with w the longest run of letters, digits and _ after the $:
                                                 \* group number w if w is a number, else the group NAMED w (none of ours is named)
Digits == <<"0", "1", "2", "3", "4", "5", "6", "7", "8", "9">>
IsNum(w) == w # <<>> /\ \A i \in DOMAIN w : w[i] \in Range(Digits)
RECURSIVE NumFrom(_, _, _)
NumFrom(w, i, acc) == IF i > Len(w) THEN acc ELSE NumFrom(w, i + 1, 10 * acc + (CHOOSE d \in 1..10 : Digits[d] = w[i]) - 1)
\* text of group n of match m in s; a group that does not exist or did not take part is empty
GroupText(s, m, n) == IF n = 0 THEN SubSeq(s, m.b, m.e - 1)
                      ELSE IF n \in DOMAIN m.c THEN SubSeq(s, m.c[n][1], m.c[n][2] - 1) ELSE <<>>
PartText(p, s, m) == CASE p.k = "lit"  -> p.cs
                       [] p.k = "ref"  -> GroupText(s, m, p.n)
                       [] p.k = "word" -> IF IsNum(p.w) THEN GroupText(s, m, NumFrom(p.w, 1, 0)) ELSE <<>>
RECURSIVE ExpandFrom(_, _, _, _)
ExpandFrom(t, s, m, i) == IF i > Len(t) THEN <<>> ELSE PartText(t[i], s, m) \o ExpandFrom(t, s, m, i + 1)
\* the output name of an aggregation with regex f.regex and template t for input name s (<<>> if the regex does not match)
OutKey(f, t, s) == LET m == Submatch(f.regex, s) IN IF m = <<>> THEN <<>> ELSE ExpandFrom(t, s, m[1], 1)

RECURSIVE RenderTmplFrom(_, _)
RenderTmplFrom(t, i) == IF i > Len(t) THEN ""
                        ELSE (CASE t[i].k = "lit"  -> Flat(t[i].cs)
                                [] t[i].k = "ref"  -> "${" \o Digits[t[i].n + 1] \o "}"               \* n <= 9
                                [] t[i].k = "word" -> "$" \o Flat(t[i].w)) \o RenderTmplFrom(t, i + 1)
RenderTmpl(t) == RenderTmplFrom(t, 1)

\* ----------------------------------------------------- rendering to RE2
\* binding strength: alt 0 < cat 1 < quantified 2 < atom 3
Prec(re) == CASE re.k = "alt" -> 0
              [] re.k = "cat" -> 1
              [] re.k \in {"star", "plus", "opt", "rep01"} -> 2
              [] OTHER -> 3
Esc(c) == IF c \in {".", "*", "+", "?", "(", ")", "[", "]", "{", "}", "|", "^", "$"} THEN "\\" \o c
          ELSE IF c = "\\" THEN "\\\\" ELSE c
RECURSIVE RenderAt(_, _)
\* text of re in a context that needs binding strength >= lvl
RenderAt(re, lvl) ==
  LET body ==
        CASE re.k = "lit"    -> Esc(re.c)
          [] re.k = "any"    -> "."
          [] re.k = "class"  -> "[" \o Flat(re.cs) \o "]"
          [] re.k = "nclass" -> "[^" \o Flat(re.cs) \o "]"
          [] re.k = "bol"    -> "^"
          [] re.k = "eol"    -> "$"
          [] re.k = "cat"    -> RenderAt(re.x, 1) \o RenderAt(re.y, 1)
          [] re.k = "alt"    -> RenderAt(re.x, 0) \o "|" \o RenderAt(re.y, 0)
          [] re.k = "star"   -> RenderAt(re.x, 3) \o "*"
          [] re.k = "plus"   -> RenderAt(re.x, 3) \o "+"
          [] re.k = "opt"    -> RenderAt(re.x, 3) \o "?"
          [] re.k = "rep01"  -> RenderAt(re.x, 3) \o "{0,1}"
          [] re.k = "grp"    -> "(" \o RenderAt(re.x, 0) \o ")"
  IN IF Prec(re) < lvl THEN "(?:" \o body \o ")" ELSE body
Render(re) == IF re.k = "none" THEN "" ELSE RenderAt(re, 0)

\* the option strings handed to matcher.New
RenderFilter(f) == [prefix |-> Flat(f.prefix), notPrefix |-> Flat(f.notPrefix), sub |-> Flat(f.sub),
                    notSub |-> Flat(f.notSub), regex |-> Render(f.regex), notRegex |-> Render(f.notRegex)]
=============================================================================
