------------------------------ MODULE Matcher ------------------------------
(* C03 - what a carbon-relay-ng filter means.                                *)
(*                                                                           *)
(* A metric name is a sequence of one-character strings.  A filter has six   *)
(* options; an empty option imposes no constraint:                           *)
(*   Accept(f, s) == HasPrefix(s, prefix) /\ ~HasPrefix(s, notPrefix)        *)
(*                /\ Contains(s, sub)     /\ ~Contains(s, notSub)            *)
(*                /\ Search(regex, s)     /\ ~Search(notRegex, s)            *)
(* Regular expressions are abstract syntax trees with a set-of-end-positions *)
(* semantics (Ends); Search is the unanchored RE2 search; Render gives the   *)
(* RE2 text that is handed to the real code.  Nothing in here knows about    *)
(* "static prefixes", pre-matching or caches: those are shortcuts of the     *)
(* implementation that must not change the decision.                         *)
EXTENDS Integers, Sequences, FiniteSets

\* ------------------------------------------------------------- sequences
HasPrefix(s, p) == Len(p) <= Len(s) /\ SubSeq(s, 1, Len(p)) = p
Contains(s, p)  == \E i \in 1..(Len(s) - Len(p) + 1) : SubSeq(s, i, i + Len(p) - 1) = p
Range(q)        == {q[i] : i \in DOMAIN q}

RECURSIVE Flat(_)
Flat(s) == IF s = <<>> THEN "" ELSE Head(s) \o Flat(Tail(s))

\* ------------------------------------------------------------- regex AST
NoRe      == [k |-> "none"]                      \* option not set
Lit(c)    == [k |-> "lit", c |-> c]              \* one literal character
AnyC      == [k |-> "any"]                       \* .
Class(cs) == [k |-> "class", cs |-> cs]          \* [abc]   (cs a sequence of characters)
NClass(cs) == [k |-> "nclass", cs |-> cs]        \* [^abc]
Bol       == [k |-> "bol"]                       \* ^
Eol       == [k |-> "eol"]                       \* $
Cat(x, y) == [k |-> "cat", x |-> x, y |-> y]
Alt(x, y) == [k |-> "alt", x |-> x, y |-> y]
Star(x)   == [k |-> "star", x |-> x]             \* x*
Plus(x)   == [k |-> "plus", x |-> x]             \* x+
Opt(x)    == [k |-> "opt", x |-> x]              \* x?
Rep01(x)  == [k |-> "rep01", x |-> x]            \* x{0,1}

RECURSIVE Ends(_, _, _)
RECURSIVE Closure(_, _, _)
\* all positions reachable from a position of P by zero or more matches of x
Closure(x, s, P) == LET Q == P \cup UNION {Ends(x, s, p) : p \in P}
                    IN IF Q = P THEN P ELSE Closure(x, s, Q)
\* Ends(re, s, i): the set of positions j such that re matches s[i..j-1]
Ends(re, s, i) ==
  CASE re.k = "lit"    -> IF i <= Len(s) /\ s[i] = re.c THEN {i + 1} ELSE {}
    [] re.k = "any"    -> IF i <= Len(s) THEN {i + 1} ELSE {}        \* names never contain a newline
    [] re.k = "class"  -> IF i <= Len(s) /\ s[i] \in Range(re.cs) THEN {i + 1} ELSE {}
    [] re.k = "nclass" -> IF i <= Len(s) /\ s[i] \notin Range(re.cs) THEN {i + 1} ELSE {}
    [] re.k = "bol"    -> IF i = 1 THEN {i} ELSE {}
    [] re.k = "eol"    -> IF i = Len(s) + 1 THEN {i} ELSE {}
    [] re.k = "cat"    -> UNION {Ends(re.y, s, j) : j \in Ends(re.x, s, i)}
    [] re.k = "alt"    -> Ends(re.x, s, i) \cup Ends(re.y, s, i)
    [] re.k = "star"   -> Closure(re.x, s, {i})
    [] re.k = "plus"   -> Closure(re.x, s, Ends(re.x, s, i))
    [] re.k = "opt"    -> {i} \cup Ends(re.x, s, i)
    [] re.k = "rep01"  -> {i} \cup Ends(re.x, s, i)

\* unanchored search, as regexp.Match does
Search(re, s) == \E i \in 1..(Len(s) + 1) : Ends(re, s, i) # {}

\* ------------------------------------------------------------ the filter
Filter(p, np, sb, nsb, re, nre) ==
  [prefix |-> p, notPrefix |-> np, sub |-> sb, notSub |-> nsb, regex |-> re, notRegex |-> nre]
NoFilter == Filter(<<>>, <<>>, <<>>, <<>>, NoRe, NoRe)

Accept(f, s) ==
  /\ (f.prefix # <<>>    => HasPrefix(s, f.prefix))
  /\ (f.notPrefix # <<>> => ~HasPrefix(s, f.notPrefix))
  /\ (f.sub # <<>>       => Contains(s, f.sub))
  /\ (f.notSub # <<>>    => ~Contains(s, f.notSub))
  /\ (f.regex.k # "none"    => Search(f.regex, s))
  /\ (f.notRegex.k # "none" => ~Search(f.notRegex, s))

\* ----------------------------------------------------- rendering to RE2
\* binding strength: alt 0 < cat 1 < quantified 2 < atom 3
Prec(re) == CASE re.k = "alt" -> 0
              [] re.k = "cat" -> 1
              [] re.k \in {"star", "plus", "opt", "rep01"} -> 2
              [] OTHER -> 3
Esc(c) == IF c \in {".", "*", "+", "?", "(", ")", "[", "]", "{", "}", "|", "^", "$"} THEN "\\" \o c
          ELSE IF c = "\\" THEN "\\\\" ELSE c
RECURSIVE RenderAt(_, _)
\* text of re in a context that needs binding strength >= lvl
RenderAt(re, lvl) ==
  LET body ==
        CASE re.k = "lit"    -> Esc(re.c)
          [] re.k = "any"    -> "."
          [] re.k = "class"  -> "[" \o Flat(re.cs) \o "]"
          [] re.k = "nclass" -> "[^" \o Flat(re.cs) \o "]"
          [] re.k = "bol"    -> "^"
          [] re.k = "eol"    -> "$"
          [] re.k = "cat"    -> RenderAt(re.x, 1) \o RenderAt(re.y, 1)
          [] re.k = "alt"    -> RenderAt(re.x, 0) \o "|" \o RenderAt(re.y, 0)
          [] re.k = "star"   -> RenderAt(re.x, 3) \o "*"
          [] re.k = "plus"   -> RenderAt(re.x, 3) \o "+"
          [] re.k = "opt"    -> RenderAt(re.x, 3) \o "?"
          [] re.k = "rep01"  -> RenderAt(re.x, 3) \o "{0,1}"
  IN IF Prec(re) < lvl THEN "(?:" \o body \o ")" ELSE body
Render(re) == IF re.k = "none" THEN "" ELSE RenderAt(re, 0)

\* the option strings handed to matcher.New
RenderFilter(f) == [prefix |-> Flat(f.prefix), notPrefix |-> Flat(f.notPrefix), sub |-> Flat(f.sub),
                    notSub |-> Flat(f.notSub), regex |-> Render(f.regex), notRegex |-> Render(f.notRegex)]
=============================================================================
