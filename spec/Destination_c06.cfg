SPECIFICATION Spec06
INVARIANTS TypeOK Conservation_steady SteadyHealthy SteadyDown
PROPERTIES SenderReturns
CHECK_DEADLOCK FALSE
