----------------------------- MODULE MatcherUpd -----------------------------
(* C03 for filters that change at run time.  A route or destination filter   *)
(* is created with some options and then updated any number of times; every  *)
(* update replaces some options (possibly by the empty value) and leaves the *)
(* others alone.  opts = the options the filter now has, eff = the           *)
(* constraints actually in force.                                            *)
(* Property: after every update the filter means exactly the conjunction of  *)
(* the options it now has - for every name, Accept(eff) = Accept(opts).      *)
EXTENDS MatcherUpdOps, FiniteSets

CONSTANTS UBug,     \* "none" or a named deviation of MatcherUpdOps!InForce
          URich     \* 1: one non-empty value per plain option, two per regex option; 2: one more for prefix, sub, regex, notRegex

\* ------------------------------------------------------------ value pools
ua == Lit("a")  ub == Lit("b")  ud == Lit(".")
UPrefix    == {<<>>, <<"a">>} \cup (IF URich >= 2 THEN {<<"a", ".">>} ELSE {})
UNotPrefix == {<<>>, <<"b", ".">>}
USub       == {<<>>, <<"b">>} \cup (IF URich >= 2 THEN {<<".", "a">>} ELSE {})
UNotSub    == {<<>>, <<".", ".">>}
\* ^ab?  (static prefix a)   b$  (none)   ^\.a|^b  (top-level alternation)
URegex     == {NoRe, Cat(Bol, Cat(ua, Opt(ub))), Cat(ub, Eol)}
                \cup (IF URich >= 2 THEN {Alt(Cat(Bol, Cat(ud, ua)), Cat(Bol, ub))} ELSE {})
\* ^a\.*$   a.b   \.$
UNotRegex  == {NoRe, Cat(Bol, Cat(ua, Cat(Star(ud), Eol))), Cat(ud, Eol)}
                \cup (IF URich >= 2 THEN {Cat(ua, Cat(AnyC, ub))} ELSE {})
UFilters == {Filter(p, np, sb, nsb, re, nre) : p \in UPrefix, np \in UNotPrefix, sb \in USub,
                                               nsb \in UNotSub, re \in URegex, nre \in UNotRegex}
\* every way of naming a non-empty set of options and giving each a value of its pool (incl. the empty one)
UUpdates == {Upd(S, v) : S \in (SUBSET OptNames) \ {{}}, v \in UFilters}
UNames   == UNION {[1..n -> {"a", "b", "."}] : n \in 0..3}

\* ------------------------------------------------------------ the machine
VARIABLES opts, eff
uvars == <<opts, eff>>
UInit == opts \in UFilters /\ eff = opts
UApply(u) == /\ opts' = Merge(opts, u.set, u.val)
             /\ eff' = InForce(eff, opts', UBug)
UNext == \E u \in UUpdates : UApply(u)
USpec == UInit /\ [][UNext]_uvars

InForceIsConfigured == \A n \in UNames : Accept(eff, n) = Accept(opts, n)
=============================================================================
