SPECIFICATION Spec
INVARIANTS TypeOK AgreesWithCarbon OrderIndependent ExactlyOne AddMovesOnlyToNew RemoveMovesOnlyOwned UpdateMovesOnlyBetween MovesB
CHECK_DEADLOCK FALSE
