SPECIFICATION Spec
INVARIANTS TypeOK AgreesWithCarbon OrderIndependent ExactlyOne AddMovesOnlyToNew RemoveMovesOnlyOwned MovesB
CHECK_DEADLOCK FALSE
