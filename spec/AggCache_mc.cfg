SPECIFICATION CSpec
INVARIANT CachedIsFresh EntriesFresh
CHECK_DEADLOCK FALSE
CONSTANTS
  CNames <- MCNames
  CAggs <- MCAggs
  CWait = 1
  CTimes = {150, 300}
