--------------------------- MODULE MatcherUpdOps ---------------------------
(* C03 - a filter that is reconfigured at run time (modRoute / modDest, i.e. *)
(* Table.UpdateRoute / Table.UpdateDestination), as operators without state: *)
(* shared by the state machine MatcherUpd.tla and the trace specification    *)
(* MatcherTrace.tla.                                                         *)
(*                                                                           *)
(* An update names a non-empty set of the six options and gives each of them *)
(* a new value, which may be the EMPTY value (the option is cleared); options*)
(* that are not named keep their value ("modify route by updating one or     *)
(* more option strings").  Afterwards the filter means exactly the           *)
(* conjunction Matcher!Accept of the options it now has: a cleared option    *)
(* imposes no constraint any more, a replaced option imposes the new one.    *)
EXTENDS Matcher

OptNames == {"prefix", "notPrefix", "sub", "notSub", "regex", "notRegex"}
EmptyOf(o) == IF o \in {"regex", "notRegex"} THEN NoRe ELSE <<>>

\* value of option o after the options in S were replaced by those of v
Pick(f, S, v, o) == IF o \in S THEN v[o] ELSE f[o]
Merge(f, S, v) == [prefix    |-> Pick(f, S, v, "prefix"),    notPrefix |-> Pick(f, S, v, "notPrefix"),
                   sub       |-> Pick(f, S, v, "sub"),       notSub    |-> Pick(f, S, v, "notSub"),
                   regex     |-> Pick(f, S, v, "regex"),     notRegex  |-> Pick(f, S, v, "notRegex")]
\* canonical form of an update: the options that are not named carry the empty value
Upd(S, v) == [set |-> S, val |-> Merge(NoFilter, S, v)]

\* The constraints IN FORCE after the configured options became `new`, given those in force before.
\* bug = "none": the specification - what is in force is what is configured.
\* Named deviations (the invariant of MatcherUpd.tla must reject them):
\*   stale_regex_after_clear  the compiled regex / notRegex is only replaced when the new option is
\*                            non-empty, so a cleared regex / notRegex keeps being enforced
\*   stale_prefix_after_clear the same for prefix / notPrefix
InForce(old, new, bug) ==
  CASE bug = "stale_regex_after_clear" ->
         [new EXCEPT !.regex    = IF new.regex.k = "none" THEN old.regex ELSE new.regex,
                     !.notRegex = IF new.notRegex.k = "none" THEN old.notRegex ELSE new.notRegex]
    [] bug = "stale_prefix_after_clear" ->
         [new EXCEPT !.prefix    = IF new.prefix = <<>> THEN old.prefix ELSE new.prefix,
                     !.notPrefix = IF new.notPrefix = <<>> THEN old.notPrefix ELSE new.notPrefix]
    [] OTHER -> new
=============================================================================
