------------------------------- MODULE AdminGen -------------------------------
(* Generator of abstract C14 histories: a prefix out of Setups, then up to    *)
(* MaxCmds commands of the command space, then up to MaxItems traffic/stream  *)
(* items.  Exhaustive (BFS) for short histories, -simulate for long ones.     *)
(* SetupMode "routed" + CmdMode "names" + ItemMode "rule": a connected route,  *)
(* a rule that makes degenerate metric names, traffic that rule matches.       *)
(* Every complete history is printed as one JSON line.                        *)
EXTENDS AdminOps, Json, TLC

CONSTANTS MaxCmds, MaxItems,
          SetupMode,    \* "empty": start from the empty history; "typical": one well-formed command first;
                        \* "chdel": a two-destination consistentHashing route of which one destination was deleted
                        \* "routed": one well-formed route (destinations with and without pickle=true, grafanaNet)
                        \* "config": a top-level configuration (every class) the table is built from first
          CmdMode,      \* "all" | "typical" | "api" (deletes) | "mods" (modify/delete/view) | "none"
                        \* "names": the rewriters / aggregations that produce degenerate metric names
          ItemMode      \* "all" | "rule" (only traffic the rules of the history match)

VARIABLES cmds, items, base
gvars == <<cmds, items, base>>

Pool == CASE CmdMode = "all" -> Commands [] CmdMode = "typical" -> Typical
          [] CmdMode = "api" -> ApiCmds \cup DelRouteCmds
          [] CmdMode = "mods" -> ModDestCmds \cup ModRouteCmds \cup DelRouteCmds \cup ApiCmds \cup ViewCmds
          [] CmdMode = "names" -> NameCmds
          [] OTHER -> {}

GInit == /\ items = <<>>
         /\ \/ SetupMode = "empty" /\ cmds = <<>> /\ base = 0
            \/ SetupMode = "typical" /\ base = 1 /\ \E s \in Typical : cmds = <<s>>
            \/ SetupMode = "routed" /\ base = 1 /\ \E s \in SinkRoutes : cmds = <<s>>
            \/ SetupMode = "config" /\ base = 1 /\ \E s \in ConfigCmds : cmds = <<s>>
            \/ /\ SetupMode = "chdel" /\ base = 2
               /\ \E sp \in BOOLEAN :
                     cmds = <<Cmd("addRoute", "cmd", "consistentHashing", "k1", 2, "none", "typical", sp),
                              Cmd("delDest", "api", "-", "k1", 0, "none", "typical", FALSE)>>

AddCmd  == /\ items = <<>> /\ Len(cmds) < base + MaxCmds
           /\ \E c \in Pool : (FirstOnly(c) => cmds = <<>>) /\ cmds' = Append(cmds, c)
           /\ UNCHANGED <<items, base>>
AddItem == /\ Len(cmds) = base + MaxCmds /\ Len(items) < MaxItems
           /\ \E it \in (IF ItemMode = "rule" THEN RuleItems ELSE Items) : items' = Append(items, it)
           /\ UNCHANGED <<cmds, base>>
GNext == AddCmd \/ AddItem
GSpec == GInit /\ [][GNext]_gvars

Complete == Len(cmds) = base + MaxCmds /\ Len(items) = MaxItems
\* u: the history contains a command whose parameters cannot work (always part of the quick tier)
Emit == Complete => PrintT("@@H " \o ToJson([cmds |-> cmds, items |-> items,
                                               u |-> \E i \in 1..Len(cmds) : Unworkable(cmds[i])]))
=============================================================================
