---------------------------- MODULE AggTableCfgs ----------------------------
(* The table configurations explored for C11: self-matching, chained and    *)
(* drop-raw aggregations, plus blacklist entries and rewriters that match   *)
(* the aggregate names and strict validation the aggregate names fail       *)
(* (they contain "..").                                                      *)
EXTENDS Matcher

FRe(r)       == Filter(<<>>, <<>>, <<>>, <<>>, r, NoRe)
A(f, out, drop, fun, iv, w) == [f |-> f, out |-> out, drop |-> drop, fun |-> fun, interval |-> iv, wait |-> w]
RW(o, n)     == [old |-> o, new |-> n]
L(c)         == Lit(c)
dot          == Lit(".")

\* ---- 1: chained by name (A1 -> "m..a" matches A2) and self-matching (A3's output matches A3), strict
Cfg1 == [id |-> 1, strict |-> TRUE,
  black  |-> << Filter(<<>>, <<>>, <<".", ".">>, <<>>, NoRe, NoRe), Filter(<<"k">>, <<>>, <<>>, <<>>, NoRe, NoRe) >>,
  rw     |-> << RW(<<"m", ".", ".">>, <<"z", ".">>), RW(<<"b", ".">>, <<"a", ".">>) >>,
  aggs   |-> << A(FRe(Cat(Bol, Cat(L("a"), dot))), <<"m", ".", ".", "a">>, FALSE, "count", 10, 5),
                A(FRe(Cat(Bol, L("m"))), <<"s", ".", ".", "x">>, FALSE, "sum", 10, 5),
                A(Filter(<<"s">>, <<>>, <<>>, <<>>, Cat(L("x"), Eol), NoRe), <<"s", ".", ".", "x">>, FALSE, "count", 5, 1) >>,
  routes |-> << NoFilter, FRe(Cat(Bol, L("m"))), FRe(Cat(L("a"), Eol)),
                Filter(<<>>, <<>>, <<>>, <<".", ".">>, NoRe, NoRe),
                Filter(<<>>, <<>>, <<>>, <<>>, Cat(L("x"), Eol), Cat(Bol, L("a"))) >>,
  names  |-> << <<"a", ".", "x">>, <<"b", ".", "x">>, <<"m", ".", "x">>, <<"s", ".", "x">>, <<"k", ".", "x">>,
                <<"a", ".", "y">>, <<"a", ".", ".", "x">> >> ]

\* ---- 2: drop-raw mixes; filters with notRegex / sub / notPrefix; an output name ("a.d") that an earlier rule matches
Cfg2 == [id |-> 2, strict |-> FALSE,
  black  |-> << FRe(Cat(Bol, L("k"))) >>,
  rw     |-> << RW(<<".", ".">>, <<".">>) >>,
  aggs   |-> << A(FRe(Cat(Bol, L("a"))), <<"d", ".", ".", "a">>, FALSE, "count", 10, 5),
                A(Filter(<<>>, <<>>, <<>>, <<>>, Cat(Bol, Cat(L("a"), Cat(dot, L("x")))), Cat(L("y"), Eol)), <<"d", ".", ".", "b">>, TRUE, "sum", 10, 5),
                A(Filter(<<"a">>, <<>>, <<"y">>, <<>>, AnyC, NoRe), <<"d", ".", ".", "c">>, TRUE, "count", 10, 5),
                A(Filter(<<>>, <<"d">>, <<>>, <<>>, AnyC, NoRe), <<"d", ".", ".", "d">>, FALSE, "count", 10, 5),
                A(Filter(<<>>, <<>>, <<>>, <<"y">>, Cat(Bol, L("b")), NoRe), <<"a", ".", "d">>, TRUE, "sum", 5, 1) >>,
  routes |-> << NoFilter, FRe(Cat(Bol, L("d"))), FRe(Cat(L("x"), Eol)),
                Filter(<<"a">>, <<>>, <<>>, <<>>, NoRe, Cat(L("y"), Eol)), FRe(Cat(L("d"), Eol)) >>,
  names  |-> << <<"a", ".", "x">>, <<"a", ".", "x", "y">>, <<"a", ".", "y">>, <<"a", ".", "z">>, <<"b", ".", "x">>,
                <<"b", ".", "y">>, <<"k", ".", "x">>, <<"a", ".", ".", "x">>, <<"d", ".", "x">> >> ]

\* ---- 3: a self-matching drop-raw rule first, catch-all behind it, blacklist + rewriter aimed at its output, strict
Cfg3 == [id |-> 3, strict |-> TRUE,
  black  |-> << FRe(Cat(Bol, Cat(L("x"), Cat(dot, dot)))) >>,
  rw     |-> << RW(<<"x", ".">>, <<"y", ".">>) >>,
  aggs   |-> << A(Filter(<<>>, <<>>, <<>>, <<>>, L("x"), Cat(Bol, L("b"))), <<"x", ".", ".", "x">>, TRUE, "sum", 10, 5),
                A(FRe(AnyC), <<"a", "l", "l">>, FALSE, "count", 10, 5) >>,
  routes |-> << NoFilter, FRe(Cat(L("x"), Eol)), Filter(<<>>, <<>>, <<>>, <<>>, NoRe, L("x")) >>,
  names  |-> << <<"a", ".", "x">>, <<"b", ".", "x">>, <<"x", ".", "a">>, <<"a", ".", "b">>, <<"a", "x", "b">> >> ]

\* ---- 4: no aggregations at all accept; only routes (baseline) + chained drop: A1 drop feeds name that A2 would take
Cfg4 == [id |-> 4, strict |-> FALSE,
  black  |-> << >>,
  rw     |-> << RW(<<"a", "g">>, <<"r", "w">>) >>,
  aggs   |-> << A(Filter(<<"a">>, <<"a", "g">>, <<>>, <<>>, Cat(dot, L("x")), NoRe), <<"a", "g", ".", "x">>, TRUE, "count", 10, 5),
                A(Filter(<<"a", "g">>, <<>>, <<>>, <<>>, AnyC, NoRe), <<"a", "g", ".", "y">>, TRUE, "count", 10, 5) >>,
  routes |-> << FRe(Cat(Bol, Cat(L("a"), L("g")))), Filter(<<>>, <<"a", "g">>, <<>>, <<>>, NoRe, NoRe), FRe(Cat(L("x"), Eol)) >>,
  names  |-> << <<"a", ".", "x">>, <<"a", ".", "y">>, <<"b", ".", "x">>, <<"a", "b", ".", "x">> >> ]

Cfgs == <<Cfg1, Cfg2, Cfg3, Cfg4>>

\* rendering for the driver (option strings for matcher.New, plain strings elsewhere)
RenderAgg(a) == [f |-> RenderFilter(a.f), out |-> Flat(a.out), drop |-> a.drop, fun |-> a.fun, interval |-> a.interval, wait |-> a.wait]
RenderCfg(c) == [id |-> c.id, strict |-> c.strict,
                 black |-> [i \in DOMAIN c.black |-> RenderFilter(c.black[i])],
                 rw |-> [i \in DOMAIN c.rw |-> [old |-> Flat(c.rw[i].old), new |-> Flat(c.rw[i].new)]],
                 aggs |-> [i \in DOMAIN c.aggs |-> RenderAgg(c.aggs[i])],
                 routes |-> [i \in DOMAIN c.routes |-> RenderFilter(c.routes[i])],
                 names |-> [i \in DOMAIN c.names |-> Flat(c.names[i])]]
=============================================================================
