SPECIFICATION GSpec
INVARIANT Emit
CHECK_DEADLOCK FALSE
