---------------------------- MODULE RewriteChain ----------------------------
(* C04 under run-time changes of the rewriter list: "the name after applying *)
(* the configured rewriters in order" means the rewriters configured AT THE  *)
(* TIME of the dispatch.  State: the chain (a sequence of rules from a small  *)
(* pool); actions: AddRewriter (append), DelRewriter(i) (remove entry i, the  *)
(* others keep their order), Dispatch(name).  The statement (ChainOK): every  *)
(* dispatched name is forwarded as ApplyAll(chain in force, name) -- what was *)
(* forwarded for the same name under an earlier chain is irrelevant.          *)
(*                                                                           *)
(* Named deviation (constant Memo): the result of the chain is remembered per *)
(* input name and the memory                                                  *)
(*   "none"            does not exist (the code as it is),                    *)
(*   "fresh_on_change" is dropped on every change of the chain (sound),       *)
(*   "kept_on_delete"  is dropped on Add but survives a Del that leaves at    *)
(*                     least one rule (rejected by ChainOK).                  *)
(* Used by TLC in two ways: exhaustively for small bounds (RewriteChain_mc)   *)
(* and with -simulate as generator of histories with expectations that are    *)
(* replayed into a real table (Emit).                                         *)
EXTENDS RewriteGen, Randomization

CONSTANTS Memo, CDepth, CNames

ChainPool == ListPool
CNameSet == IF CNames = "all" THEN Names ELSE {<<A>>, <<A, B>>, <<A, D, B>>, <<B, B>>, <<A, D, A>>, <<D, A, B>>} \cap Names

VARIABLES chain, memo, hist, done
cvars == <<rules, chain, memo, hist, done>>

CInit == rules = <<>> /\ chain = <<>> /\ memo = [n \in {} |-> <<>>] /\ hist = <<>> /\ done = FALSE

Remove(s, i) == [j \in 1..(Len(s) - 1) |-> IF j < i THEN s[j] ELSE s[j + 1]]

CAdd(r) == /\ Len(chain) < 3 /\ Len(hist) < CDepth
           /\ chain' = Append(chain, r)
           /\ memo' = IF Memo = "none" THEN memo ELSE [n \in {} |-> <<>>]
           /\ hist' = Append(hist, [op |-> "add", rule |-> r, i |-> 0, n |-> <<>>, e |-> <<>>, f |-> <<>>, len |-> Len(chain) + 1])
           /\ UNCHANGED <<rules, done>>
CDel(i) == /\ i \in 1..Len(chain) /\ Len(hist) < CDepth
           /\ chain' = Remove(chain, i)
           /\ memo' = IF Memo = "fresh_on_change" \/ (Memo = "kept_on_delete" /\ Len(chain) = 1) THEN [n \in {} |-> <<>>] ELSE memo
           /\ hist' = Append(hist, [op |-> "del", rule |-> chain[i], i |-> i - 1, n |-> <<>>, e |-> <<>>, f |-> <<>>, len |-> Len(chain) - 1])
           /\ UNCHANGED <<rules, done>>
\* what the (possibly memoising) table forwards for the name
Out(nm) == IF Memo # "none" /\ chain # <<>> /\ nm \in DOMAIN memo THEN memo[nm] ELSE ApplyAll(chain, nm)
CDisp(nm) == /\ Len(hist) < CDepth
             /\ LET e == Out(nm) IN
                /\ hist' = Append(hist, [op |-> "disp", rule |-> chain, i |-> 0, n |-> nm, e |-> e, f |-> Join(<<e, VAL, TS>>, 32), len |-> Len(chain)])
                /\ memo' = IF Memo = "none" \/ chain = <<>> THEN memo ELSE [x \in (DOMAIN memo) \cup {nm} |-> IF x = nm THEN e ELSE memo[x]]
             /\ UNCHANGED <<rules, chain, done>>
CDone == Len(hist) = CDepth /\ ~done /\ done' = TRUE /\ UNCHANGED <<rules, chain, memo, hist>>

\* exhaustive: every rule, index and name
CNext == (\E r \in ChainPool : CAdd(r)) \/ (\E i \in 1..3 : CDel(i)) \/ (\E nm \in CNameSet : CDisp(nm)) \/ CDone
CSpec == CInit /\ [][CNext]_cvars
\* generator: a random walk biased towards "dispatch a name, change the chain, dispatch the same name again"
GNext == \/ \E r \in RandomSubset(2, ChainPool) : CAdd(r)
         \/ \E i \in RandomSubset(1, 1..3) : CDel(i)
         \/ \E nm \in RandomSubset(3, CNameSet) : CDisp(nm)
         \/ (hist # <<>> /\ \E k \in RandomSubset(2, 1..Len(hist)) : hist[k].op = "disp" /\ CDisp(hist[k].n))
         \/ CDone
GSpec == CInit /\ [][GNext]_cvars

\* the statement: the last step, if a dispatch, forwarded the name rewritten by the chain then in force
ChainOK == (hist # <<>> /\ hist[Len(hist)].op = "disp") =>
              LET h == hist[Len(hist)] IN h.e = ApplyAll(h.rule, h.n) /\ h.f = Join(<<ApplyAll(h.rule, h.n), VAL, TS>>, 32)
CWF == \A k \in 1..Len(chain) : WellFormedRule(chain[k])
EmitH == done => PrintT("@@H " \o ToJson([steps |-> hist]))
=============================================================================
