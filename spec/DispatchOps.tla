----------------------------- MODULE DispatchOps -----------------------------
(* C01 -- the declarative statement of what Table.Dispatch must do with one   *)
(* line, as pure operators (shared by Table.tla, DispatchGen.tla and the      *)
(* trace specification DispatchTrace.tla).                                    *)
(* (TableOps.tla / TableTrace.tla are property C18's modules.)                *)
(*                                                                            *)
(* A filter is an abstract accept-set of names.  A routing table is           *)
(*   [black  : Seq(accept-set),                                               *)
(*    rw     : Seq([from, to]),            a rewriter renames `from` to `to`  *)
(*    aggs   : Seq([acc, drop]),           drop = the drop-raw option         *)
(*    routes : Seq([kind, acc, dests : Seq(accept-set)])]                     *)
(* kind: "capture" (an observer route without destinations), "all"            *)
(* (sendAllMatch), "first" (sendFirstMatch), "hash" (consistentHashing: the   *)
(* line goes to exactly one destination, which one is property C15's matter). *)
(*                                                                            *)
(* The outcome of one Dispatch is                                             *)
(*   [in, invalid, black, unroutable : counter increments,                    *)
(*    rt  : Seq(vector)  per route, the number of hand-overs per destination  *)
(*                       (capture routes: one component = calls of Dispatch), *)
(*    agg : set of aggregator indices the line was offered to]                *)
EXTENDS Integers, Sequences, FiniteSets

SeqToSet(s) == {s[i] : i \in DOMAIN s}
MinOf(S) == CHOOSE x \in S : \A y \in S : x <= y

Zero(n)       == [i \in 1..n |-> 0]
UnitVec(n, k) == [i \in 1..n |-> IF i = k THEN 1 ELSE 0]
Width(r)      == IF r.kind = "capture" THEN 1 ELSE Len(r.dests)

\* ---- the stages -----------------------------------------------------------
Blacklisted(t, nm) == \E i \in DOMAIN t.black : nm \in t.black[i]

RwApply(rw, nm) == IF nm = rw.from THEN rw.to ELSE nm
RECURSIVE RewriteFrom(_, _, _)
RewriteFrom(rws, i, nm) == IF i > Len(rws) THEN nm ELSE RewriteFrom(rws, i + 1, RwApply(rws[i], nm))
Rewritten(t, nm) == RewriteFrom(t.rw, 1, nm)

\* aggregators that accept the name and have drop-raw set
Droppers(t, nm) == {i \in DOMAIN t.aggs : t.aggs[i].drop /\ nm \in t.aggs[i].acc}
Consumed(t, nm) == Droppers(t, nm) # {}
\* the line must be offered to every accepting aggregator that is not preceded by a
\* consuming one (this includes the first consuming aggregator itself) ...
AggMust(t, nm) == {i \in DOMAIN t.aggs : nm \in t.aggs[i].acc /\ \A j \in Droppers(t, nm) : j >= i}
\* ... what accepting aggregators configured after a consuming one see is not stated
AggMay(t, nm)  == {i \in DOMAIN t.aggs : nm \in t.aggs[i].acc /\ \E j \in Droppers(t, nm) : j < i}

\* allowed hand-over vectors of one route
RouteDecl(r, nm) ==
    IF nm \notin r.acc THEN {Zero(Width(r))}
    ELSE CASE r.kind = "capture" -> {<<1>>}
           [] r.kind = "all"     -> {[i \in 1..Len(r.dests) |-> IF nm \in r.dests[i] THEN 1 ELSE 0]}
           [] r.kind = "first"   -> LET M == {i \in DOMAIN r.dests : nm \in r.dests[i]}
                                    IN IF M = {} THEN {Zero(Len(r.dests))} ELSE {UnitVec(Len(r.dests), MinOf(M))}
           [] r.kind = "hash"    -> {UnitVec(Len(r.dests), k) : k \in 1..Len(r.dests)}

NoDelivery(t) == [k \in DOMAIN t.routes |-> {Zero(Width(t.routes[k]))}]

\* ---- C01/C02: the expectation for one line --------------------------------
\* rt is a sequence of SETS of allowed vectors; aggMust/aggMay bound the aggregator intake
Expect(t, nm, valid) ==
    LET base == [in |-> 1, invalid |-> 0, black |-> 0, unroutable |-> 0,
                 rt |-> NoDelivery(t), aggMust |-> {}, aggMay |-> {}, fate |-> "?"]
    IN IF ~valid THEN [base EXCEPT !.invalid = 1, !.fate = "invalid"]
       ELSE IF Blacklisted(t, nm) THEN [base EXCEPT !.black = 1, !.fate = "blacklisted"]
       ELSE LET n2 == Rewritten(t, nm)
                b2 == [base EXCEPT !.aggMust = AggMust(t, n2), !.aggMay = AggMay(t, n2)]
            IN IF Consumed(t, n2) THEN [b2 EXCEPT !.fate = "consumed"]
               ELSE IF \A k \in DOMAIN t.routes : n2 \notin t.routes[k].acc
                    THEN [b2 EXCEPT !.unroutable = 1, !.fate = "unroutable"]
                    ELSE [b2 EXCEPT !.rt = [k \in DOMAIN t.routes |-> RouteDecl(t.routes[k], n2)],
                                    !.fate = "routed"]

\* an observed / computed outcome o conforms to expectation e
Conforms(o, e) ==
    /\ o.in = e.in /\ o.invalid = e.invalid /\ o.black = e.black /\ o.unroutable = e.unroutable
    /\ Len(o.rt) = Len(e.rt)
    /\ \A k \in DOMAIN e.rt : o.rt[k] \in e.rt[k]
    /\ e.aggMust \subseteq o.agg /\ o.agg \subseteq (e.aggMust \cup e.aggMay)

\* C01 over a set of possible validity verdicts (C02 allows both where the
\* documentation is silent): the outcome must be right for one of them
DeclOK(t, nm, verdicts, o) == \E v \in verdicts : Conforms(o, Expect(t, nm, v))

WellFormedTable(t) ==
    /\ \A k \in DOMAIN t.routes :
          /\ t.routes[k].kind \in {"capture", "all", "first", "hash"}
          /\ (t.routes[k].kind = "capture" => t.routes[k].dests = <<>>)
          /\ (t.routes[k].kind = "hash" => Len(t.routes[k].dests) >= 2)
=============================================================================
