----------------------------- MODULE DispatchOps -----------------------------
(* C01 -- the declarative statement of what Table.Dispatch must do with one   *)
(* line, as pure operators (shared by Table.tla, DispatchGen.tla and the      *)
(* trace specification DispatchTrace.tla).                                    *)
(* (TableOps.tla / TableTrace.tla are property C18's modules.)                *)
(*                                                                            *)
(* A filter is an abstract accept-set of names.  A routing table is           *)
(*   [black  : Seq(accept-set),                                               *)
(*    rw     : Seq([from, to]),            a rewriter renames `from` to `to`  *)
(*    aggs   : Seq([acc, drop]),           drop = the drop-raw option         *)
(*    routes : Seq([kind, acc, dests : Seq(accept-set)])]                     *)
(* kind: "capture" (an observer route without destinations), "all"            *)
(* (sendAllMatch), "first" (sendFirstMatch), "hash" (consistentHashing: the   *)
(* line goes to exactly one destination, which one is property C15's matter). *)
(*                                                                            *)
(* The table is created from a configuration; validate_order as written      *)
(* there is "" (option absent), "false" or "true".  The order check itself    *)
(* (a process-wide max-register per name) is property C19's model; here a     *)
(* point is `newer` or not, and the check is one stage of the gate: after     *)
(* validation, before the blacklist, only when the option is "true".          *)
(*                                                                            *)
(* The outcome of one Dispatch is                                             *)
(*   [in, invalid, ooo, black, unroutable : counter increments                *)
(*                       (ooo = the out_of_order counter),                    *)
(*    rt  : Seq(vector)  per route, the number of hand-overs per destination  *)
(*                       (capture routes: one component = calls of Dispatch), *)
(*    agg : set of aggregator indices the line was offered to]                *)
EXTENDS Integers, Sequences, FiniteSets

SeqToSet(s) == {s[i] : i \in DOMAIN s}
MinOf(S) == CHOOSE x \in S : \A y \in S : x <= y

Zero(n)       == [i \in 1..n |-> 0]
UnitVec(n, k) == [i \in 1..n |-> IF i = k THEN 1 ELSE 0]
Width(r)      == IF r.kind = "capture" THEN 1 ELSE Len(r.dests)

\* ---- the stages -----------------------------------------------------------
Blacklisted(t, nm) == \E i \in DOMAIN t.black : nm \in t.black[i]

RwApply(rw, nm) == IF nm = rw.from THEN rw.to ELSE nm
RECURSIVE RewriteFrom(_, _, _)
RewriteFrom(rws, i, nm) == IF i > Len(rws) THEN nm ELSE RewriteFrom(rws, i + 1, RwApply(rws[i], nm))
Rewritten(t, nm) == RewriteFrom(t.rw, 1, nm)

\* aggregators that accept the name and have drop-raw set
Droppers(t, nm) == {i \in DOMAIN t.aggs : t.aggs[i].drop /\ nm \in t.aggs[i].acc}
Consumed(t, nm) == Droppers(t, nm) # {}
\* the line must be offered to every accepting aggregator that is not preceded by a
\* consuming one (this includes the first consuming aggregator itself) ...
AggMust(t, nm) == {i \in DOMAIN t.aggs : nm \in t.aggs[i].acc /\ \A j \in Droppers(t, nm) : j >= i}
\* ... what accepting aggregators configured after a consuming one see is not stated
AggMay(t, nm)  == {i \in DOMAIN t.aggs : nm \in t.aggs[i].acc /\ \E j \in Droppers(t, nm) : j < i}

\* allowed hand-over vectors of one route
RouteDecl(r, nm) ==
    IF nm \notin r.acc THEN {Zero(Width(r))}
    ELSE CASE r.kind = "capture" -> {<<1>>}
           [] r.kind = "all"     -> {[i \in 1..Len(r.dests) |-> IF nm \in r.dests[i] THEN 1 ELSE 0]}
           [] r.kind = "first"   -> LET M == {i \in DOMAIN r.dests : nm \in r.dests[i]}
                                    IN IF M = {} THEN {Zero(Len(r.dests))} ELSE {UnitVec(Len(r.dests), MinOf(M))}
           [] r.kind = "hash"    -> {UnitVec(Len(r.dests), k) : k \in 1..Len(r.dests)}

NoDelivery(t) == [k \in DOMAIN t.routes |-> {Zero(Width(t.routes[k]))}]

\* ---- order validation as configured ---------------------------------------
OrderSettings == {"", "false", "true"}      \* validate_order as written; "" = absent (documented default: disabled)
OrdOn(ord) == ord = "true"

\* ---- C01/C02: the expectation for one line --------------------------------
\* rt is a sequence of SETS of allowed vectors; aggMust/aggMay bound the aggregator intake
\* ord = validate_order as written, newer = the point is newer than every point accepted for its name before
ExpectO(t, ord, nm, valid, newer) ==
    LET base == [in |-> 1, invalid |-> 0, ooo |-> 0, black |-> 0, unroutable |-> 0,
                 rt |-> NoDelivery(t), aggMust |-> {}, aggMay |-> {}, fate |-> "?"]
    IN IF ~valid THEN [base EXCEPT !.invalid = 1, !.fate = "invalid"]           \* whatever the order setting
       ELSE IF OrdOn(ord) /\ ~newer THEN [base EXCEPT !.ooo = 1, !.fate = "out-of-order"]
       ELSE IF Blacklisted(t, nm) THEN [base EXCEPT !.black = 1, !.fate = "blacklisted"]
       ELSE LET n2 == Rewritten(t, nm)
                b2 == [base EXCEPT !.aggMust = AggMust(t, n2), !.aggMay = AggMay(t, n2)]
            IN IF Consumed(t, n2) THEN [b2 EXCEPT !.fate = "consumed"]
               ELSE IF \A k \in DOMAIN t.routes : n2 \notin t.routes[k].acc
                    THEN [b2 EXCEPT !.unroutable = 1, !.fate = "unroutable"]
                    ELSE [b2 EXCEPT !.rt = [k \in DOMAIN t.routes |-> RouteDecl(t.routes[k], n2)],
                                    !.fate = "routed"]

\* order validation off (C01's tables)
Expect(t, nm, valid) == ExpectO(t, "", nm, valid, TRUE)

\* an observed / computed outcome o conforms to expectation e
Conforms(o, e) ==
    /\ o.in = e.in /\ o.invalid = e.invalid /\ o.ooo = e.ooo /\ o.black = e.black /\ o.unroutable = e.unroutable
    /\ Len(o.rt) = Len(e.rt)
    /\ \A k \in DOMAIN e.rt : o.rt[k] \in e.rt[k]
    /\ e.aggMust \subseteq o.agg /\ o.agg \subseteq (e.aggMust \cup e.aggMay)

\* C01 over a set of possible validity verdicts (C02 allows both where the
\* documentation is silent): the outcome must be right for one of them
DeclOK(t, nm, verdicts, o) == \E v \in verdicts : Conforms(o, Expect(t, nm, v))
\* ... with the order setting of the table and the set of possible answers of the order register
DeclOKO(t, ord, nm, verdicts, newers, o) ==
    \E v \in verdicts, n \in newers : Conforms(o, ExpectO(t, ord, nm, v, n))

WellFormedTable(t) ==
    /\ \A k \in DOMAIN t.routes :
          /\ t.routes[k].kind \in {"capture", "all", "first", "hash"}
          /\ (t.routes[k].kind = "capture" => t.routes[k].dests = <<>>)
          /\ (t.routes[k].kind = "hash" => Len(t.routes[k].dests) >= 2)
=============================================================================
