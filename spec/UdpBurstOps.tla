---------------------------- MODULE UdpBurstOps ----------------------------
(* C12 on UDP, as a predicate over one observed burst (constant level; used by UdpPipe.tla and UdpBurstTrace.tla) *)
EXTENDS Integers, Sequences
\* what the trace check applies to a recorded burst: datagrams may be missing as a whole (kernel drop), nothing else
\* lens[k] = number of lines of datagram k; got = the dispatched lines as <<datagram, line>>
RECURSIVE Runs(_, _)
Runs(lens, ks) == IF ks = <<>> THEN <<>> ELSE [j \in 1..lens[Head(ks)] |-> <<Head(ks), j>>] \o Runs(lens, Tail(ks))
RECURSIVE FirstSeen(_, _, _)
FirstSeen(got, i, acc) == IF i > Len(got) THEN acc
                          ELSE FirstSeen(got, i + 1, IF \E j \in 1..Len(acc) : acc[j] = got[i][1] THEN acc ELSE Append(acc, got[i][1]))
Ascending(s) == \A i \in 1..(Len(s) - 1) : s[i] < s[i + 1]
BurstOK(lens, got) == LET ks == FirstSeen(got, 1, <<>>) IN
                      /\ \A i \in 1..Len(got) : got[i][1] \in 1..Len(lens)
                      /\ Ascending(ks)
                      /\ got = Runs(lens, ks)
=============================================================================
