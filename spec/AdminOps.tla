------------------------------ MODULE AdminOps ------------------------------
(* C14 - the admin / TOML command space of carbon-relay-ng and the abstract  *)
(* routing table those commands build.  Shared by Admin (reference state     *)
(* machine, model-checked), AdminGen (history generator) and AdminTrace      *)
(* (validation of what the real code did).                                   *)
(*                                                                           *)
(* A command is a flat record                                                *)
(*   op    addBlack addRewriter addAgg addRoute addGnet modDest modRoute     *)
(*         delRoute | delDest delAgg delBlack delRewriter (API level, HTTP   *)
(*         UI) | garbage (mutated / random command text or TOML) | view      *)
(*         | config (the top-level configuration the relay is started with:  *)
(*         cfg.Config -> TableConfig() -> table.New, as main() does; only    *)
(*         the first command of a history)                                   *)
(*   via   cmd (imperatives.Apply)  toml (cfg.InitXxx path) api (Table API)   *)
(*   rtype route type, key abstract route key (k1 k2 nokey), n number of     *)
(*         destinations (addRoute) or index (modDest, delDest ...),         *)
(*   opt   THE parameter that is degenerate in this command ("none": all     *)
(*         parameters typical), val the class its value is drawn from,       *)
(*   flag  spool (addRoute) / dropRaw (addAgg) / blocking (addGnet),         *)
(*   pk    addRoute: every destination of the route has pickle=true (FALSE:  *)
(*         the option is left to the driver, mostly absent).                 *)
(* Inside a class the concrete bytes are chosen by the driver (seeded).      *)
EXTENDS Integers, Sequences, FiniteSets

Cmd(op, via, rtype, key, n, opt, val, flag) ==
    [op |-> op, via |-> via, rtype |-> rtype, key |-> key, n |-> n, opt |-> opt, val |-> val, flag |-> flag,
     pk |-> FALSE]

\* value classes: missing, empty, zero, one, typical, huge (large but representable),
\* wrap (a duration whose conversion to nanoseconds wraps to <= 0), neg (negative-looking),
\* nonnum (non-numeric / not parseable), badregex
NumClasses == {"missing", "empty", "zero", "one", "typical", "huge", "neg", "nonnum"}
DurClasses == NumClasses \cup {"wrap"}
StrClasses == {"missing", "empty", "typical", "huge", "nonnum"}
RexClasses == {"empty", "typical", "badregex", "huge"}
\* classes of a replacement / output format (rewriter `new`, aggregation `format`) by the metric NAME they
\* produce for the traffic the rule matches - none of these names passes the input validation, but rewriting
\* happens after validation and aggregation output bypasses it:
\*   emptyexp  the name becomes empty (reference to a group the regex does not have, or the empty string
\*             replacing the whole name): the line that reaches the routes has two fields
\*   spacename the name contains white space (more than three fields)
\*   dotsname  the name consists of dots only
\*   longname  the name is very long (the matched name many times over)
NameClasses == {"emptyexp", "spacename", "dotsname", "longname"}
\* classes of the grafanaNet `addr` parameter by the shape of the URL.  The route derives the schemas / aggregation
\* endpoints from the address TEXT, which has to end in /metrics or /metrics/:
\*   withquery       .../metrics?x=1   (the parsed path is /metrics, the text ends in the query)
\*   withfragment    .../metrics#frag
\*   pctencoded      the parsed path ends in /metrics[/] only after percent-decoding (/%6Detrics, /metrics%2F)
\*   trailingslash   .../metrics/      (usable: the slash is stripped)
\*   notaurl         not an absolute http[s] URL with a host
\*   pathnotmetrics  a URL whose path is not a /metrics endpoint
AddrClasses  == {"withquery", "withfragment", "pctencoded", "trailingslash", "notaurl", "pathnotmetrics"}
AddrUnusable == AddrClasses \ {"trailingslash"}
\* classes of the top-level setting bad_metrics_max_age (a duration string; the table cleans its bad-metrics
\* records on a ticker of period maxAge/10): typical, zero, tiny (positive but < 10ns: the tenth is 0), neg,
\* nonnum (not a duration / absent / wrong TOML type)
MaxAgeClasses == {"typical", "zero", "tiny", "neg", "nonnum"}

RTypes   == {"sendAllMatch", "sendFirstMatch", "consistentHashing"}
Vias     == {"cmd", "toml"}
DestDur  == {"flush", "reconn", "spoolsyncperiod", "spoolsleep", "unspoolsleep"}
DestSize == {"connbuf", "iobuf", "spoolbuf", "spoolmaxbytesperfile", "spoolsyncevery"}

BlackCmds == {Cmd("addBlack", via, "-", "-", 0, m, v, FALSE) :
                 via \in Vias, m \in {"prefix", "sub", "regex", "notRegex", "bogus"},
                 v \in {"missing", "typical", "badregex", "huge"}}

RewOV == ({"none"} \X {"typical"}) \cup ({"old", "new", "not"} \X (StrClasses \cup {"badregex"}))
         \cup ({"max"} \X NumClasses) \cup ({"new"} \X NameClasses)
RewCmds == {Cmd("addRewriter", via, "-", "-", 0, ov[1], ov[2], FALSE) : via \in Vias, ov \in RewOV}

AggOV == ({"none"} \X {"typical"}) \cup ({"fun"} \X {"missing", "nonnum"})
         \cup ({"regex"} \X {"missing", "empty", "badregex", "huge"})
         \cup ({"fmt"} \X ({"missing", "huge"} \cup NameClasses))
         \cup ({"interval", "wait"} \X DurClasses) \cup ({"cache"} \X {"nonnum"})
AggCmds == {Cmd("addAgg", via, "-", "-", 0, ov[1], ov[2], dr) : via \in Vias, ov \in AggOV, dr \in BOOLEAN}

DestOV == (DestDur \X DurClasses) \cup (DestSize \X NumClasses)
          \cup ({"addr"} \X StrClasses) \cup ({"regex", "prefix", "routeregex"} \X RexClasses)
          \cup ({"pickle", "spool"} \X {"nonnum", "empty"}) \cup ({"key"} \X {"missing", "huge", "nonnum"})
RouteCmds ==
    {[Cmd("addRoute", via, rt, k, n, "none", "typical", sp) EXCEPT !.pk = p] :
        via \in Vias, rt \in RTypes, k \in {"k1", "k2"}, n \in 0..3, sp \in BOOLEAN, p \in BOOLEAN}
    \cup {Cmd("addRoute", via, rt, "k1", 2, ov[1], ov[2], sp) :
        via \in Vias, rt \in RTypes, ov \in DestOV, sp \in BOOLEAN}

GnetOV == ({"addr", "apikey", "schemas", "aggfile"} \X StrClasses) \cup ({"addr"} \X AddrClasses)
          \cup ({"concurrency", "bufSize", "flushMaxNum", "orgId"} \X NumClasses)
          \cup ({"flushMaxWait", "timeout", "errBackoffMin"} \X DurClasses)
          \cup ({"errBackoffFactor"} \X {"zero", "neg", "nonnum", "huge", "typical"})
          \cup ({"sslverify", "spool", "blocking"} \X {"nonnum", "typical"})
          \cup ({"routeregex"} \X RexClasses)
GnetCmds ==
    {Cmd("addGnet", via, "GrafanaNet", k, 0, "none", "typical", b) : via \in Vias, k \in {"k1", "k2"}, b \in BOOLEAN}
    \cup {Cmd("addGnet", via, "GrafanaNet", "k2", 0, ov[1], ov[2], b) : via \in Vias, ov \in GnetOV, b \in BOOLEAN}

ModOV == ({"addr"} \X {"typical", "empty", "nonnum", "huge"})
         \cup ({"regex", "notRegex"} \X RexClasses) \cup ({"prefix", "sub"} \X {"typical", "empty", "huge"})
         \cup ({"none", "bogus"} \X {"typical"}) \cup ({"idx"} \X {"missing", "neg", "nonnum", "huge"})
Keys3 == {"k1", "k2", "nokey"}
ModDestCmds  == {Cmd("modDest", "cmd", "-", k, n, ov[1], ov[2], FALSE) : k \in Keys3, n \in {0, 1, 9}, ov \in ModOV}
ModRouteCmds == {Cmd("modRoute", "cmd", "-", k, 0, ov[1], ov[2], FALSE) : k \in Keys3, ov \in {x \in ModOV : x[1] \notin {"addr", "idx"}}}
DelRouteCmds == {Cmd("delRoute", "cmd", "-", k, 0, "none", "typical", FALSE) : k \in Keys3}
                \cup {Cmd("delRoute", "cmd", "-", "nokey", 0, "key", "missing", FALSE)}
ApiCmds == {Cmd("delDest", "api", "-", k, n, "none", "typical", FALSE) : k \in Keys3, n \in {0, 1, 9}}
           \cup {Cmd(op, "api", "-", "-", n, "none", "typical", FALSE) :
                    op \in {"delAgg", "delBlack", "delRewriter"}, n \in {0, 1, 9}}
GarbageCmds == {Cmd("garbage", "cmd", "-", "-", 0, "mut", v, FALSE) :
                   v \in {"empty", "unknown", "random", "trunc", "dup", "swap", "bytes", "case", "longline",
                          "addDest", "spaces", "quotes"}}
               \cup {Cmd("garbage", "toml", "-", "-", 0, "mut", v, FALSE) :
                   v \in {"syntax", "wrongtype", "unknownroute", "bytes", "trunc", "nodests"}}
ViewCmds == {Cmd("view", "cmd", "-", "-", 0, "none", "typical", FALSE)}
ConfigCmds == {Cmd("config", "toml", "-", "-", 0, "bad_metrics_max_age", v, FALSE) : v \in MaxAgeClasses}

Commands == BlackCmds \cup RewCmds \cup AggCmds \cup RouteCmds \cup GnetCmds \cup ModDestCmds
            \cup ModRouteCmds \cup DelRouteCmds \cup ApiCmds \cup GarbageCmds \cup ViewCmds \cup ConfigCmds

\* the top-level configuration is what the relay is started with: first command of a history only
FirstOnly(c) == c.op = "config"

\* cheap structural membership tests (trace validation)
Ops == {"addBlack", "addRewriter", "addAgg", "addRoute", "addGnet", "modDest", "modRoute", "delRoute",
        "delDest", "delAgg", "delBlack", "delRewriter", "garbage", "view", "config"}
AllClasses == DurClasses \cup StrClasses \cup RexClasses \cup NameClasses \cup AddrClasses \cup MaxAgeClasses
IsCommand(c) == /\ c.op \in Ops /\ c.via \in {"cmd", "toml", "api"} /\ c.n \in 0..9 /\ c.flag \in BOOLEAN
                /\ c.pk \in BOOLEAN /\ (c.pk => c.op = "addRoute")
                /\ c.key \in {"k1", "k2", "nokey", "-"} /\ c.rtype \in RTypes \cup {"GrafanaNet", "-"}
                /\ (c.op = "garbage" \/ c.val \in AllClasses)

\* well-formed commands used as table-building prefixes of longer histories
Typical == {c \in Commands : /\ c.opt = "none" /\ c.op \in {"addRoute", "addGnet", "addAgg", "addRewriter"}
                             /\ (c.op = "addRoute" => c.n = 2) /\ c.via = "cmd" /\ c.key \in {"k1", "-"}}

\* rules that turn the names of the traffic they match into degenerate names, and the routes such
\* names are sent to (plain and pickle=true destinations connected to a sink, grafanaNet)
NameCmds   == {c \in RewCmds \cup AggCmds : c.val \in NameClasses}
SinkRoutes == {c \in Typical : c.op \in {"addRoute", "addGnet"}}

\* ------------------------------------------------------------------ input side
\* rulematch: well-formed lines whose names are matched by the rewriters / aggregations of the history
\* (the driver derives them from the rule text it generated), so that what the rules produce really flows
PlainCls  == {"wellformed", "rulematch", "emptyline", "nonewline", "onefield", "twofields", "fourfields", "nonnumvalue",
              "nonnumts", "hugevalue", "negts", "toolong", "nul", "binary", "badutf8", "tags", "m20", "crlf",
              "spaces", "mixed"}
PickleCls == {"wellformed", "rulematch", "truncprefix", "lengtcap", "lenzero", "truncpayload", "badprefix", "nonlist",
              "wrongarity", "wrongtypes", "unknownopcode", "random", "nested", "biglong", "badmemo",
              "stackunderflow", "protohigh", "lenlies", "mixed"}
UdpCls    == {"wellformed", "emptypacket", "nonewline", "binary", "maxsize", "manylines", "picklebytes"}
AmqpCls   == {"wellformed", "emptybody", "longline", "binary", "manylines", "nonewline"}
Item(p, c) == [proto |-> p, cls |-> c]
Items == {Item("plain", c) : c \in PlainCls} \cup {Item("pickle", c) : c \in PickleCls}
         \cup {Item("udp", c) : c \in UdpCls} \cup {Item("amqp", c) : c \in AmqpCls}
RuleItems == {Item("plain", "rulematch"), Item("pickle", "rulematch")}

IsItem(it) == \/ (it.proto = "plain" /\ it.cls \in PlainCls)
              \/ (it.proto = "pickle" /\ it.cls \in PickleCls)
              \/ (it.proto = "udp" /\ it.cls \in UdpCls)
              \/ (it.proto = "amqp" /\ it.cls \in AmqpCls)

\* ------------------------------------------------------------- abstract table
\* cfg: the reasons why the top-level configuration the table was built from cannot work
EmptyTable == [routes |-> <<>>, aggs |-> <<>>, nb |-> 0, nw |-> 0, cfg |-> {}]

\* Parameters that cannot work: the value the relay would have to run with is not usable
\* (zero divisor, nil regex, non-positive ticker period, zero/negative buffer, empty hash ring,
\* an address the grafanaNet route cannot derive its endpoints from, a bad-metrics max age whose
\* tenth - the period of the cleaning ticker - is not a positive duration).
Unworkable(c) ==
    \/ /\ c.op = "addAgg" /\ c.opt = "interval"
       /\ (c.val \in {"zero", "wrap"} \/ (c.via = "toml" /\ c.val = "missing"))
    \/ c.op = "addAgg" /\ c.opt = "regex" /\ c.val \in {"missing", "empty"}
    \/ c.op = "addRoute" /\ c.opt \in {"flush", "reconn"} /\ c.val \in {"zero", "neg", "wrap"}
    \/ c.op = "addRoute" /\ c.opt = "iobuf" /\ c.val \in {"zero", "neg"}
    \/ c.op = "addRoute" /\ c.opt = "connbuf" /\ c.val = "neg"
    \/ c.op = "addRoute" /\ c.opt = "spoolbuf" /\ c.flag /\ c.val = "neg"
    \/ c.op = "addRoute" /\ c.opt = "spoolsyncperiod" /\ c.flag /\ c.val \in {"zero", "neg", "wrap"}
    \/ c.op = "addRoute" /\ c.rtype = "consistentHashing" /\ c.n = 0
    \/ c.op = "addGnet" /\ c.opt = "concurrency" /\ (c.val = "neg" \/ (c.val = "zero" /\ c.via = "cmd"))
    \/ c.op = "addGnet" /\ c.opt = "bufSize" /\ c.val = "neg"
    \/ c.op = "addGnet" /\ c.opt = "addr" /\ c.val \in AddrUnusable
    \/ c.op = "config" /\ c.opt = "bad_metrics_max_age" /\ c.val \in {"zero", "tiny", "neg"}

Why(c) == IF Unworkable(c) THEN {c.op \o ":" \o c.opt \o "=" \o c.val} ELSE {}

RemoveAt(s, i) == SubSeq(s, 1, i - 1) \o SubSeq(s, i + 1, Len(s))
FirstWithKey(t, k) == IF \E i \in 1..Len(t.routes) : t.routes[i].key = k
                      THEN CHOOSE i \in 1..Len(t.routes) :
                               t.routes[i].key = k /\ \A j \in 1..(i - 1) : t.routes[j].key # k
                      ELSE 0

\* the table after command c was ACCEPTED in table t
Do(c, t) ==
    CASE c.op = "addBlack"    -> [t EXCEPT !.nb = @ + 1]
      [] c.op = "addRewriter" -> [t EXCEPT !.nw = @ + 1]
      [] c.op = "addAgg"      -> [t EXCEPT !.aggs = Append(@, Why(c))]
      [] c.op \in {"addRoute", "addGnet"} ->
            [t EXCEPT !.routes = Append(@, [key |-> c.key, rtype |-> c.rtype, nd |-> c.n, why |-> Why(c)])]
      [] c.op = "delRoute" ->
            LET i == FirstWithKey(t, c.key) IN IF i = 0 THEN t ELSE [t EXCEPT !.routes = RemoveAt(@, i)]
      [] c.op = "delDest" ->
            LET i == FirstWithKey(t, c.key) IN
            IF i = 0 THEN t
            ELSE IF c.n >= t.routes[i].nd THEN t ELSE [t EXCEPT !.routes[i].nd = @ - 1]
      [] c.op = "delAgg"      -> IF c.n >= Len(t.aggs) THEN t ELSE [t EXCEPT !.aggs = RemoveAt(@, c.n + 1)]
      [] c.op = "delBlack"    -> IF c.n >= t.nb THEN t ELSE [t EXCEPT !.nb = @ - 1]
      [] c.op = "delRewriter" -> IF c.n >= t.nw THEN t ELSE [t EXCEPT !.nw = @ - 1]
      [] c.op = "config"      -> [EmptyTable EXCEPT !.cfg = Why(c)]      \* a new table built from this configuration
      [] OTHER -> t          \* modDest, modRoute, view, garbage (see AdminTrace for accepted garbage)

\* reasons why a table cannot work
Unsafe(t) ==
    t.cfg \cup UNION {t.routes[i].why : i \in 1..Len(t.routes)} \cup UNION {t.aggs[i] : i \in 1..Len(t.aggs)}
    \cup {"consistentHashing:emptied" : i \in {j \in 1..Len(t.routes) :
                                                  t.routes[j].rtype = "consistentHashing" /\ t.routes[j].nd = 0}}

\* C14: every table the relay accepted can work
SafeTable(t) == Unsafe(t) = {}

\* a command that must not be accepted as it stands (it may be rejected, or - which the statement also
\* allows - handled safely, e.g. by substituting a default; the reference machine rejects)
MustReject(c, t) ==
    \/ Unworkable(c)
    \/ c.op = "addRoute" /\ c.rtype = "consistentHashing" /\ c.n < 2      \* the code's own rule at creation
    \/ /\ c.op = "delDest" /\ FirstWithKey(t, c.key) # 0
       /\ LET r == t.routes[FirstWithKey(t, c.key)] IN
              r.rtype = "consistentHashing" /\ r.nd = 1 /\ c.n = 0
=============================================================================
