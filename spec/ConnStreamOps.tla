---------------------------- MODULE ConnStreamOps ----------------------------
(* C05 at the level of line identities (lines are numbered 1..handed in      *)
(* hand-off order).  Shared by the model (ConnStream.tla) and by the trace    *)
(* specification that judges real executions (ConnStreamTrace.tla).           *)
EXTENDS Integers, Sequences

\* the run of lines a..b may follow a stream whose last line was `last`:
\* hand-off order, nothing twice, only lines that were handed off
InOrderOnce(last, a, b, handed) == a > last /\ a <= b /\ b <= handed
\* at rest, the lines that are absent are exactly those counted as dropped (slow_conn)
Accounted(handed, nrecv, slow) == handed - nrecv = slow

\* ids (strictly increasing) form an order preserving sub-sequence of 1..handed
RECURSIVE Increasing(_, _)
Increasing(s, last) == IF s = <<>> THEN TRUE ELSE Head(s) > last /\ Increasing(Tail(s), Head(s))
=============================================================================
