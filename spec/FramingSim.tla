----------------------------- MODULE FramingSim -----------------------------
(* Random longer streams for C12 (tlc -simulate): a behaviour appends one     *)
(* symbol per step (x and y weighted 3:1 against CR and LF through the dummy  *)
(* variable w); when the stream has the length drawn in the initial state it  *)
(* is printed with its expectation.                                           *)
EXTENDS FramingOps, TLC, Json
CONSTANTS SimMin, SimMax
VARIABLES gs, glen, w
SInit == gs = <<>> /\ glen \in SimMin..SimMax /\ w = 1
SNext == /\ Len(gs) < glen
         /\ \E c \in Sym : gs' = Append(gs, c) /\ w' \in (IF c \in {"x", "y"} THEN 1..3 ELSE {1})
         /\ glen' = glen
SSpec == SInit /\ [][SNext]_<<gs, glen, w>>
Case(s) == [s |-> s, maxline |-> MaxLine(s), eof |-> Acceptable(s, "eof"), tmo |-> Acceptable(s, "timeout"),
            conts |-> Conts(s)]
Emit == Len(gs) = glen => PrintT("@@L " \o ToJson(Case(gs)))
=============================================================================
