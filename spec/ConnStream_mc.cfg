SPECIFICATION Spec
INVARIANTS TypeOK StreamIsHandOffOrder AcceptedBytesInOrder Conservation AtRest NoError
CHECK_DEADLOCK FALSE
