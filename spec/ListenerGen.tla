---------------------------- MODULE ListenerGen ----------------------------
(* XLISTEN -- scenario shapes for the driver: one per initial state of       *)
(* Listener.tla (an assignment of a client script to every connection); the  *)
(* check adds phases, read timeout, fault and Stop moment (seeded) and        *)
(* concretises the symbols.                                                   *)
EXTENDS Listener, Json

GenSpec == Init /\ [][FALSE]_vars
Emit == PrintT("@@S " \o ToJson([names |-> script, scripts |-> [c \in Conns |-> Script(script[c])]]))
=============================================================================
