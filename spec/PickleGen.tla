------------------------------ MODULE PickleGen ------------------------------
(* C13 case generators.  Exhaustive (model checking mode): every item class   *)
(* of PickleItems as a one-item connection, with its decision.  Random        *)
(* (tlc -simulate): connections of up to MaxFrames frames of up to MaxItems   *)
(* items built step by step; every reachable connection is printed with what  *)
(* it must produce.  Protocol, dialect, scalar values and segmentation are    *)
(* chosen by the concretisation: the expectation does not depend on them.     *)
EXTENDS PickleItems, TLC, Json
CONSTANTS Mode, MaxFrames, MaxItems
VARIABLES conn, cur, open
vars == <<conn, cur, open>>

Frame(k, its) == [kind |-> k, items |-> its]
Init == IF Mode = "table"
        THEN \E it \in Items : conn = <<Frame("ok", <<it>>)>> /\ cur = <<>> /\ open = FALSE
        ELSE conn = <<>> /\ cur = <<>> /\ open = TRUE
AddItem   == open /\ Len(cur) < MaxItems /\ \E it \in Items : cur' = Append(cur, it) /\ UNCHANGED <<conn, open>>
\* valid items are made as likely as invalid ones
AddValid  == open /\ Len(cur) < MaxItems /\ \E it \in {i \in Items : Valid(i)} : cur' = Append(cur, it) /\ UNCHANGED <<conn, open>>
CloseOk   == open /\ Len(conn) < MaxFrames /\ conn' = Append(conn, Frame("ok", cur)) /\ cur' = <<>> /\ UNCHANGED open
CloseBad  == open /\ Len(conn) < MaxFrames /\ cur = <<>> /\ \E k \in BadKinds : conn' = Append(conn, Frame(k, <<>>)) /\ UNCHANGED <<cur, open>>
Next == Mode = "sim" /\ (AddItem \/ AddValid \/ CloseOk \/ CloseBad)
Spec == Init /\ [][Next]_vars

\* frames after a connection-cutting kind make no sense: such a frame is the last one
WellFormed == \A k \in 1..Len(conn) : conn[k].kind \in {"cutheader", "cutpayload"} => k = Len(conn)
Emit == (cur = <<>> /\ conn # <<>> /\ WellFormed) =>
            PrintT("@@P " \o ToJson([frames |-> conn, expect |-> ConnExpect(conn)]))
Bound == WellFormed
=============================================================================
