------------------------------ MODULE Ordered ------------------------------
(* C19: order validation (validate/ordered.go as called by table.Dispatch). *)
(* One max-register per metric key; the key is the metric name with one      *)
(* leading dot removed (carbon20.ValidatePacket), so ".foo" and "foo" share  *)
(* a register.  Concurrent callers:                                          *)
(*   Begin(c, n, ts)   Dispatch of a point of name n, timestamp ts, starts   *)
(*   Decide(c)         the critical section of validate.Ordered (global      *)
(*                     mutex): accept iff ts > last[key]; then last[key]=ts  *)
(*   End(c)            Dispatch returns: accepted => forwarded to the        *)
(*                     routes; rejected => out_of_order counter + 1, a       *)
(*                     bad-metrics record, nothing forwarded                 *)
(* Deviations (each must be rejected by TLC):                                *)
(*   CmpStrict = FALSE      ts >= last accepted                              *)
(*   WriteInLock = FALSE    the map store happens after the mutex is released*)
(*   StoreFirst = TRUE      the timestamp is stored before it is compared    *)
(*   CountReject = FALSE    a rejection is not counted                       *)
(*   ReturnOnReject = FALSE a rejected point is forwarded anyway             *)
(*   SharedRegister = TRUE  "shared_register_on_collision": two different    *)
(*                          keys are mapped to one register (the map is      *)
(*                          indexed by a hash of the key that is too short:  *)
(*                          colliding names share the last-accepted slot)    *)
(*   KeyAfterRewrite = TRUE "key_after_rewrite": the order check sits behind *)
(*                          the blacklist and the rewriters and its register *)
(*                          is chosen by the REWRITTEN (emitted) name: input *)
(*                          names that a rewriter folds into one emitted     *)
(*                          name share a register (and blacklisted points    *)
(*                          never reach the check)                           *)
(* Pipeline around the check (table.Dispatch): validation -> ORDER CHECK,     *)
(* keyed by the validated input name -> blacklist -> rewriters -> routes.    *)
(*   Fold = TRUE        the table has a rewriter that maps every key of Keys *)
(*                      to one emitted name (k input names folded into one)  *)
(*   Blacklisted        keys matched by a blacklist entry: their points are  *)
(*                      dropped behind the order check (never forwarded)     *)
(* "For that name" in the property is the input name: whatever the rewriters *)
(* make of it, a point is judged against the points of its own input name.   *)
(* The registers of different keys are independent (Independent): projected  *)
(* to the calls of one key, the decisions are those of one fresh sequential  *)
(* max-register.  This is what allows OrderedTrace.tla to judge a run key by *)
(* key, and a run over very many names by a projection to some of them.      *)
EXTENDS Integers, Sequences, FiniteSets, TLC

CONSTANTS Keys, MaxTs, NCallers, MaxCalls,
          CmpStrict, WriteInLock, StoreFirst, CountReject, ReturnOnReject,
          SharedRegister, KeyAfterRewrite, Fold, Blacklisted

ASSUME Blacklisted \subseteq Keys
Callers == 1..NCallers
Names == Keys \X {0, 1}          \* <<key, 1>> is the name with a leading dot
KeyOfName(n) == n[1]
\* the register that holds the last accepted timestamp of key k
MinKey == CHOOSE r \in Keys : \A x \in Keys : r <= x
\* the name a point of key k is emitted under (after the rewriters)
Emitted(k) == IF Fold THEN MinKey ELSE k
RegOf(k) == IF SharedRegister THEN MinKey ELSE IF KeyAfterRewrite THEN Emitted(k) ELSE k

VARIABLES last, pc, arg, acc, ncalls, dec, ooo, badrec, fwd, blk
vars == <<last, pc, arg, acc, ncalls, dec, ooo, badrec, fwd, blk>>

Init == /\ last = [k \in Keys |-> 0]
        /\ pc = [c \in Callers |-> "idle"]
        /\ arg = [c \in Callers |-> [n |-> CHOOSE n \in Names : TRUE, ts |-> 0]]
        /\ acc = [c \in Callers |-> FALSE]
        /\ ncalls = 0
        /\ dec = <<>>            \* decisions in decision order: [k, ts, acc]
        /\ ooo = 0 /\ badrec = [k \in Keys |-> 0] /\ fwd = <<>>
        /\ blk = 0              \* points dropped by the blacklist

Begin(c, n, ts) ==
  /\ pc[c] = "idle" /\ ncalls < MaxCalls
  /\ pc' = [pc EXCEPT ![c] = "called"] /\ arg' = [arg EXCEPT ![c] = [n |-> n, ts |-> ts]]
  /\ ncalls' = ncalls + 1
  /\ UNCHANGED <<last, acc, dec, ooo, badrec, fwd, blk>>

Newer(ts, old) == IF CmpStrict THEN ts > old ELSE ts >= old

\* deviation KeyAfterRewrite: the blacklist comes first, a blacklisted point never reaches the order check
SkipsCheck(k) == KeyAfterRewrite /\ k \in Blacklisted

\* the critical section
Decide(c) ==
  /\ pc[c] = "called" /\ ~SkipsCheck(KeyOfName(arg[c].n))
  /\ LET k == KeyOfName(arg[c].n) ts == arg[c].ts
         r == RegOf(k)
         a == Newer(ts, last[r]) IN
     /\ acc' = [acc EXCEPT ![c] = a]
     /\ dec' = Append(dec, [k |-> k, ts |-> ts, acc |-> a])
     /\ IF StoreFirst THEN last' = [last EXCEPT ![r] = ts] /\ pc' = [pc EXCEPT ![c] = "decided"]
        ELSE IF WriteInLock THEN /\ last' = [last EXCEPT ![r] = IF a THEN ts ELSE @]
                                 /\ pc' = [pc EXCEPT ![c] = "decided"]
        ELSE /\ UNCHANGED last /\ pc' = [pc EXCEPT ![c] = IF a THEN "write" ELSE "decided"]
  /\ UNCHANGED <<arg, ncalls, ooo, badrec, fwd, blk>>

\* deviation KeyAfterRewrite, blacklisted point: not rejected, no register touched
Bypass(c) ==
  /\ pc[c] = "called" /\ SkipsCheck(KeyOfName(arg[c].n))
  /\ acc' = [acc EXCEPT ![c] = TRUE]
  /\ dec' = Append(dec, [k |-> KeyOfName(arg[c].n), ts |-> arg[c].ts, acc |-> TRUE])
  /\ pc' = [pc EXCEPT ![c] = "decided"]
  /\ UNCHANGED <<last, arg, ncalls, ooo, badrec, fwd, blk>>

\* deviation WriteInLock = FALSE: the store is a separate step
LateWrite(c) ==
  /\ pc[c] = "write"
  /\ last' = [last EXCEPT ![RegOf(KeyOfName(arg[c].n))] = arg[c].ts]
  /\ pc' = [pc EXCEPT ![c] = "decided"]
  /\ UNCHANGED <<arg, acc, ncalls, dec, ooo, badrec, fwd, blk>>

End(c) ==
  /\ pc[c] = "decided"
  /\ pc' = [pc EXCEPT ![c] = "idle"]
  /\ LET k == KeyOfName(arg[c].n) IN
     \* fwd keeps the input name of the point (it arrives at the routes as Emitted(k))
     IF acc[c] /\ k \in Blacklisted THEN /\ blk' = blk + 1 /\ UNCHANGED <<ooo, badrec, fwd>>
     ELSE IF acc[c] THEN /\ fwd' = Append(fwd, [n |-> arg[c].n, ts |-> arg[c].ts])
                         /\ UNCHANGED <<ooo, badrec, blk>>
     ELSE /\ ooo' = IF CountReject THEN ooo + 1 ELSE ooo
          /\ badrec' = [badrec EXCEPT ![k] = @ + 1]
          /\ fwd' = IF ReturnOnReject THEN fwd ELSE Append(fwd, [n |-> arg[c].n, ts |-> arg[c].ts])
          /\ UNCHANGED blk
  /\ UNCHANGED <<last, arg, acc, ncalls, dec>>

Next == \E c \in Callers : \/ \E n \in Names, ts \in 0..MaxTs : Begin(c, n, ts)
                           \/ Decide(c) \/ Bypass(c) \/ LateWrite(c) \/ End(c)
Spec == Init /\ [][Next]_vars

-----------------------------------------------------------------------------
AccOf(k) == SelectSeq(dec, LAMBDA d : d.k = k /\ d.acc)
\* accepted timestamps of one key strictly increase in decision order (never repeat)
Mono == \A k \in Keys : \A i, j \in 1..Len(AccOf(k)) : i < j => AccOf(k)[i].ts < AccOf(k)[j].ts
\* a positive timestamp newer than every earlier point of its key is never rejected
NoFalseReject ==
  \A i \in 1..Len(dec) :
    (dec[i].ts > 0 /\ \A j \in 1..(i - 1) : dec[j].k = dec[i].k => dec[j].ts < dec[i].ts) => dec[i].acc
\* names are independent: the decisions on one key are those of one sequential max-register that starts at 0
\* and sees only the calls of that key
RECURSIVE Replay(_, _)
Replay(s, reg) == IF s = <<>> THEN TRUE
                  ELSE LET d == Head(s) a == d.ts > reg IN d.acc = a /\ Replay(Tail(s), IF a THEN d.ts ELSE reg)
Independent == \A k \in Keys : Replay(SelectSeq(dec, LAMBDA d : d.k = k), 0)
\* forwarded only if strictly newer than everything accepted before
OnlyNewer ==
  \A i \in 1..Len(dec) : dec[i].acc =>
    dec[i].ts > 0 /\ \A j \in 1..(i - 1) : (dec[j].k = dec[i].k /\ dec[j].acc) => dec[j].ts < dec[i].ts
\* accounting when nobody is inside a call
Quiet == \A c \in Callers : pc[c] = "idle"
NRej == Cardinality({i \in 1..Len(dec) : ~dec[i].acc})
\* accepted by the order check, dropped by the blacklist behind it
NDrop == Cardinality({i \in 1..Len(dec) : dec[i].acc /\ dec[i].k \in Blacklisted})
Accounting == Quiet => /\ ooo = NRej
                       /\ Len(fwd) = Len(dec) - NRej - NDrop /\ blk = NDrop
                       /\ \A k \in Keys : badrec[k] = Cardinality({i \in 1..Len(dec) : ~dec[i].acc /\ dec[i].k = k})
\* what is forwarded is exactly the accepted points, each once (per key, as sets of timestamps)
FwdOK == Quiet => \A k \in Keys :
           {f.ts : f \in {fwd[i] : i \in {x \in 1..Len(fwd) : KeyOfName(fwd[x].n) = k}}} =
             IF k \in Blacklisted THEN {} ELSE {d.ts : d \in {AccOf(k)[i] : i \in 1..Len(AccOf(k))}}
=============================================================================
