SPECIFICATION FairSpec
INVARIANTS TypeOK LevelA AtExit NeverAbandoned ClientFailuresTolerated DropsExact BlockingNeverDrops NonBlockingNeverBlocks ParkedOnFull GaugeExact PendingBelowThreshold
CHECK_DEADLOCK FALSE
