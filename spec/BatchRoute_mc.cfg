SPECIFICATION FairSpec
INVARIANTS TypeOK LevelA ExitNothingLeftBehind ExitAllTransmitted ExitErrsCounted ExitSpuriousError ExitOutCounted ExitDropsCounted ExitParseCounted ExitGaugeZero AtExit
INVARIANTS NeverAbandoned ClientFailuresTolerated DropsExact BlockingNeverDrops NonBlockingNeverBlocks ParkedOnFull GaugeExact PendingBelowThreshold
CHECK_DEADLOCK FALSE
CONSTANTS
  Record = FALSE
