SPECIFICATION GenSpec
INVARIANT Emit
CHECK_DEADLOCK FALSE
