SPECIFICATION Spec
INVARIANTS W_add_blocked W_overwrite W_stale W_old W_clean_boundary W_cleaned W_get_boundary W_must W_unprovable W_two
CHECK_DEADLOCK FALSE
