---------------------------- MODULE AggTableGen ----------------------------
(* prints every configuration of AggTableCfgs: the AST form (echoed into the *)
(* traces for AggTableTrace) and the rendered form (for the driver)          *)
EXTENDS AggTableCfgs, Json, TLC
VARIABLE k
Init == k \in DOMAIN Cfgs
Next == UNCHANGED k
Spec == Init /\ [][Next]_k
Emit == PrintT("@@CFG " \o ToJson([ast |-> Cfgs[k], go |-> RenderCfg(Cfgs[k])]))
=============================================================================
