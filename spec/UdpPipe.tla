------------------------------ MODULE UdpPipe ------------------------------
(***************************************************************************)
(* The UDP input of input/listen.go (consumeUdp + handleData) at buffer    *)
(* grain.  C12: every datagram is a stream of its own; the lines of one    *)
(* datagram are processed in order, each once, never torn, merged with     *)
(* another datagram, or processed twice -- also while datagrams arrive     *)
(* faster than they are dispatched (the kernel may drop whole datagrams,   *)
(* that is outside the relay).                                             *)
(*                                                                         *)
(* Kind = "sync"  the code as it is: one receive buffer, the reader        *)
(*                goroutine itself runs the handler to the end before the  *)
(*                next ReadFrom.                                           *)
(* Kind = "pipe"  a named deviation family: a reader goroutine fills a     *)
(*                ring of Ring receive buffers and hands slices of them    *)
(*                over a channel of capacity Chan to one worker goroutine  *)
(*                that runs the handler.  Sound iff Ring >= Chan + 2 (one  *)
(*                buffer being filled, Chan queued, one in the handler).   *)
(* The handler reads its datagram line by line (a Scanner over the slice): *)
(* what it sees is the content of the buffer AT THAT MOMENT.               *)
(***************************************************************************)
EXTENDS Integers, Sequences, FiniteSets, TLC, UdpBurstOps

CONSTANTS Kind, Ring, Chan, NDatagrams, LinesPer

ASSUME Kind \in {"sync", "pipe"} /\ Ring \in 1..8 /\ Chan \in 0..8 /\ NDatagrams \in 1..8 /\ LinesPer \in 1..4

VARIABLES sent,      \* number of datagrams the peer has sent (they queue in the kernel)
          krecv,     \* number of datagrams the reader has taken from the kernel
          buf,       \* buf[s] = datagram whose bytes are in ring slot s (0 = nothing yet)
          slot,      \* next ring slot to fill
          ch,        \* channel: sequence of <<slot, datagram>> handed over, not yet taken
          hand,      \* <<slot, datagram, next line>> the handler is working on, or <<0,0,0>>
          rdpc,      \* reader: "read" | "send"
          out        \* dispatched lines: sequence of <<datagram whose bytes were seen, line no, datagram it was handed over as>>

vars == <<sent, krecv, buf, slot, ch, hand, rdpc, out>>

R == IF Kind = "sync" THEN 1 ELSE Ring

Init == /\ sent = 0 /\ krecv = 0 /\ buf = [s \in 1..R |-> 0] /\ slot = 1
        /\ ch = <<>> /\ hand = <<0, 0, 0>> /\ rdpc = "read" /\ out = <<>>

PeerSend == sent < NDatagrams /\ sent' = sent + 1 /\ UNCHANGED <<krecv, buf, slot, ch, hand, rdpc, out>>

\* ReadFrom(buffer): the next datagram lands in the current slot, whatever is in it
Read == /\ rdpc = "read" /\ krecv < sent
        /\ (Kind = "sync" => hand = <<0, 0, 0>>)
        /\ krecv' = krecv + 1 /\ buf' = [buf EXCEPT ![slot] = krecv + 1]
        /\ rdpc' = "send"
        /\ UNCHANGED <<sent, slot, ch, hand, out>>

\* sync: the reader calls the handler itself; pipe: the slice goes on the channel (blocks when full)
Send == /\ rdpc = "send"
        /\ IF Kind = "sync"
           THEN hand' = <<slot, buf[slot], 1>> /\ UNCHANGED <<ch, slot>>
           ELSE /\ Len(ch) < Chan \/ (Chan = 0 /\ hand = <<0, 0, 0>> /\ ch = <<>>)
                /\ ch' = Append(ch, <<slot, buf[slot]>>)
                /\ slot' = (slot % R) + 1
                /\ UNCHANGED hand
        /\ rdpc' = "read"
        /\ UNCHANGED <<sent, krecv, buf, out>>

WorkerTake == /\ Kind = "pipe" /\ hand = <<0, 0, 0>> /\ ch # <<>>
              /\ hand' = <<Head(ch)[1], Head(ch)[2], 1>> /\ ch' = Tail(ch)
              /\ UNCHANGED <<sent, krecv, buf, slot, rdpc, out>>

\* the handler scans the next line out of the buffer it was given: it sees what the buffer holds NOW
HandleLine == /\ hand[1] # 0
              /\ out' = Append(out, <<buf[hand[1]], hand[3], hand[2]>>)
              /\ hand' = IF hand[3] = LinesPer THEN <<0, 0, 0>> ELSE <<hand[1], hand[2], hand[3] + 1>>
              /\ UNCHANGED <<sent, krecv, buf, slot, ch, rdpc>>

Next == PeerSend \/ Read \/ Send \/ WorkerTake \/ HandleLine

Spec == Init /\ [][Next]_vars /\ WF_vars(PeerSend) /\ WF_vars(Read) /\ WF_vars(Send) /\ WF_vars(WorkerTake) /\ WF_vars(HandleLine)

\* ------------------------------------------------------------ statements
\* the statement on the observable output: the dispatched lines are the lines of the datagrams, datagram after
\* datagram in arrival order, each datagram's lines 1..LinesPer in order and once (this is BurstOK below with no loss)
Expected(n) == [i \in 1..(n * LinesPer) |-> <<((i - 1) \div LinesPer) + 1, ((i - 1) % LinesPer) + 1>>]
OutProj == [i \in 1..Len(out) |-> <<out[i][1], out[i][2]>>]
PrefixOK == Len(out) <= NDatagrams * LinesPer /\ OutProj = SubSeq(Expected(NDatagrams), 1, Len(out))
\* implementation-level reason: the buffer the handler reads is not refilled while it reads
BufferStable == hand[1] # 0 => buf[hand[1]] = hand[2]
\* ... and in the terms the trace check uses (no datagram lost in the model)
OutBurstOK == Len(out) = NDatagrams * LinesPer => BurstOK([k \in 1..NDatagrams |-> LinesPer], OutProj)
AllDispatched == <>(Len(out) = NDatagrams * LinesPer)

=============================================================================
