------------------------------ MODULE Validate ------------------------------
(* C02 -- the message-validation decision table of carbon-relay-ng.           *)
(*                                                                            *)
(* Sources: docs/validation.md ("Message validation") and the validator the   *)
(* relay calls (github.com/metrics20/go-metrics20/carbon20.ValidatePacket).   *)
(* Where the documentation and the code read differently, or the              *)
(* documentation is silent, BOTH outcomes are allowed: every decision here    *)
(* is a SET of allowed verdicts (TRUE = the line is forwarded).               *)
(*                                                                            *)
(* A line is an abstract record                                               *)
(*   [nf, key, val, ts]                                                       *)
(*   nf  : number of whitespace separated fields (0..5)                       *)
(*   key : [lead, nodes, app]   (only meaningful when nf = 3)                 *)
(*         lead  : the key starts with a '.' (graphite ignores it)            *)
(*         nodes : the dot separated nodes, each of a NodeKind                *)
(*         app   : kind of ';' tag appendix after the last node               *)
(*   val : "int" | "float" | "bad"                                            *)
(*   ts  : "int" | "float" | "bad"                                            *)
(* The conformance driver builds the bytes FROM this record (by construction: *)
(* each node kind / appendix kind has a byte template), so no classifier of   *)
(* byte strings is needed.                                                    *)
EXTENDS Integers, Sequences, FiniteSets

\* ---------------------------------------------------------------- node kinds
\*  w        word over [A-Za-z0-9-] (and '_' not followed by "is_")
\*  ill      word with one 7-bit character outside [A-Za-z0-9_.-] (not NUL, not
\*           whitespace, not one of ; = .)
\*  hi       word with one byte >= 0x80
\*  nul      word with one NUL byte
\*  empty    the empty node (interior only): two consecutive dots
\*  unit_eq  unit=<w>      mtype_eq  mtype=<w>     tag_eq  <w>=<w>
\*  unit_is  unit_is_<w>   mtype_is  mtype_is_<w>  tag_is  <w>_is_<w>
PlainNodes == {"w", "ill", "hi", "nul", "empty"}
EqNodes    == {"unit_eq", "mtype_eq", "tag_eq"}
IsNodes    == {"unit_is", "mtype_is", "tag_is"}
NodeKinds  == PlainNodes \cup EqNodes \cup IsNodes

\* ------------------------------------------------------------ appendix kinds
\*  none   no appendix          ok1  ;k=v          ok2  ;k=v;k2=v2
\*  okbang ;k=v!  ('!' is only forbidden in tag keys)
\*  hiapp  ;k=<byte>=0x80>v   grammar fine, not 7-bit clean
\*  nokey  ;=v    noval ;k=    noeq ;kvvv    short ;k    bang ;k!x=v
\*  semi2  ;;k=v  trail ;k=v;
\*  eq2    ;k=v=w  (the documentation does not forbid '=' in a value, the
\*                  validator does: both verdicts allowed)
AppValid   == {"ok1", "ok2", "okbang"}
AppInvalid == {"nokey", "noval", "noeq", "short", "bang", "semi2", "trail"}
AppEither  == {"eq2"}
AppKinds   == {"none", "hiapp"} \cup AppValid \cup AppInvalid \cup AppEither
AppHasEq(a) == a \notin {"none", "noeq", "short"}

Nodes(k)  == {k.nodes[i] : i \in DOMAIN k.nodes}
HasEq(k)  == (Nodes(k) \cap EqNodes # {}) \/ AppHasEq(k.app)
HasIs(k)  == Nodes(k) \cap IsNodes # {}
NDots(k)  == Len(k.nodes) - 1          \* after the leading dot is stripped; appendices carry no dots

WellFormedKey(k) ==
    /\ k.lead \in BOOLEAN /\ k.app \in AppKinds
    /\ Len(k.nodes) >= 1
    /\ \A i \in DOMAIN k.nodes : k.nodes[i] \in NodeKinds
    /\ \A i \in DOMAIN k.nodes : k.nodes[i] = "empty" => (1 < i /\ i < Len(k.nodes))

\* ---------------------------------------------------------- version detection
\* docs: "if the key contains `=` or `_is_` we validate the key as metric2.0,
\* otherwise as a standard carbon metric".
DocsM20(k) == HasEq(k) \/ HasIs(k)
\* code (GetVersionB): the first of '=', "_is_", '.' met while scanning the key
\* as received (leading dot included) decides.
VersionCode(k) ==
    IF k.lead THEN "legacy"
    ELSE IF k.nodes[1] \in EqNodes THEN "m20"
    ELSE IF k.nodes[1] \in IsNodes THEN "m20ne"
    ELSE IF Len(k.nodes) > 1 THEN "legacy"
    ELSE IF AppHasEq(k.app) THEN "m20" ELSE "legacy"

\* ------------------------------------------------------- standard carbon keys
AppVerdicts(a) == IF a \in AppInvalid THEN {FALSE}
                  ELSE IF a \in AppEither THEN {TRUE, FALSE} ELSE {TRUE}
SevenBitClean(k) == Nodes(k) \cap {"hi", "nul"} = {} /\ k.app # "hiapp"
\* strict: before the appendix only [A-Za-z0-9_.-] and no consecutive dots
StrictClean(k) == Nodes(k) \cap ({"ill", "hi", "nul", "empty"} \cup EqNodes) = {}

LegacyVerdicts(k, lvl) ==
    CASE lvl = "none"   -> {TRUE}
      [] lvl = "medium" -> {a /\ SevenBitClean(k) : a \in AppVerdicts(k.app)}
      [] lvl = "strict" -> {a /\ SevenBitClean(k) /\ StrictClean(k) : a \in AppVerdicts(k.app)}

\* -------------------------------------------------------------- metrics2.0 keys
\* medium: "unit, mtype tag set. no mixing of = and _is_ styles. at least two tags"
\* The validator additionally wants two dots (a third node); with exactly the two
\* nodes unit+mtype the documentation is satisfied and the validator is not: both.
M20Verdicts(k, style, lvl) ==
    IF lvl = "none" THEN {TRUE}
    ELSE LET unit  == IF style = "eq" THEN "unit_eq" ELSE "unit_is"
             mtype == IF style = "eq" THEN "mtype_eq" ELSE "mtype_is"
             mixed == HasEq(k) /\ HasIs(k)
             tags  == unit \in Nodes(k) /\ mtype \in Nodes(k)
         IN IF mixed \/ ~tags THEN {FALSE}
            ELSE IF NDots(k) >= 2 THEN {TRUE} ELSE {TRUE, FALSE}

CodeKeyVerdicts(k, lvL, lvM) ==
    LET v == VersionCode(k)
    IN IF v = "legacy" THEN LegacyVerdicts(k, lvL)
       ELSE M20Verdicts(k, IF v = "m20" THEN "eq" ELSE "is", lvM)

DocsKeyVerdicts(k, lvL, lvM) ==
    IF ~DocsM20(k) THEN LegacyVerdicts(k, lvL)
    ELSE IF HasEq(k) /\ HasIs(k) THEN M20Verdicts(k, "eq", lvM)          \* mixed: rejected unless none
    ELSE M20Verdicts(k, IF HasEq(k) THEN "eq" ELSE "is", lvM)

KeyVerdicts(k, lvL, lvM) == CodeKeyVerdicts(k, lvL, lvM) \cup DocsKeyVerdicts(k, lvL, lvM)

\* ------------------------------------------------------------ value, timestamp
\* "the value parses to an int or float"; "the timestamp is a unix timestamp"
\* (the validator takes any float as a timestamp: both for "float")
ValVerdicts(v) == IF v = "bad" THEN {FALSE} ELSE {TRUE}
TsVerdicts(t)  == CASE t = "int" -> {TRUE} [] t = "float" -> {TRUE, FALSE} [] t = "bad" -> {FALSE}

\* ----------------------------------------------------------------------- levels
\* as written in the configuration file; "" = the option is absent (documented
\* default: medium for both)
Lvl(s) == IF s = "" THEN "medium" ELSE s
LegacyLevels == {"none", "medium", "strict"}
M20Levels    == {"none", "medium"}

\* ----------------------------------------------------------------- the decision
Verdicts(l, cfgL, cfgM) ==
    IF l.nf # 3 THEN {FALSE}
    ELSE {kv /\ vv /\ tv : kv \in KeyVerdicts(l.key, Lvl(cfgL), Lvl(cfgM)),
                           vv \in ValVerdicts(l.val), tv \in TsVerdicts(l.ts)}

\* the reason reported for a rejected line must be a true one
ErrFields == "packet must consist of 3 fields"
ErrVal    == "value field is not a float or int"
ErrTs     == "timestamp field is not a unix timestamp"
ReasonOK(l, cfgL, cfgM, err) ==
    IF l.nf # 3 THEN err = ErrFields
    ELSE /\ err # "" /\ err # ErrFields
         /\ (err = ErrVal => l.val = "bad")
         /\ (err = ErrTs => l.ts # "int")
         /\ (err \notin {ErrVal, ErrTs} => FALSE \in KeyVerdicts(l.key, Lvl(cfgL), Lvl(cfgM)))

\* --------------------------------------------------------- sanity of the table
\* (checked by TLC over the generated key space, see ValidateGen)
PlainKey == [lead |-> FALSE, nodes |-> <<"w", "w">>, app |-> "none"]
Monotone(k) ==   \* a stricter legacy level never accepts more
    /\ (TRUE \notin LegacyVerdicts(k, "medium") => TRUE \notin LegacyVerdicts(k, "strict"))
    /\ LegacyVerdicts(k, "none") = {TRUE}
    /\ M20Verdicts(k, "eq", "none") = {TRUE}
=============================================================================
