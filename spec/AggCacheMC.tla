----------------------------- MODULE AggCacheMC -----------------------------
EXTENDS AggCache
MCNames == {<<"a">>, <<"a", "b">>, <<"b">>, <<"a", ".">>}
\* ^ab?  not \.$  ->  c         (literal output name)
\* ^a(b)?         ->  ${1}      (empty output name for "a" and "a.": the group takes no part)
\* prefix a, not sub b, (.*)$ -> $1_s   (RE2 reads a group named "1_s": always empty)
\* ^(a)(\.*)      ->  x${2}
MCAggs == {[f |-> Filter(<<>>, <<>>, <<>>, <<>>, Cat(Bol, Cat(Lit("a"), Opt(Lit("b")))), Cat(Lit("."), Eol)), t |-> <<TLit(<<"c">>)>>],
           [f |-> Filter(<<>>, <<>>, <<>>, <<>>, Cat(Bol, Cat(Lit("a"), Opt(Grp(1, Lit("b"))))), NoRe), t |-> <<TRef(1)>>],
           [f |-> Filter(<<"a">>, <<>>, <<>>, <<"b">>, Cat(Grp(1, Star(AnyC)), Eol), NoRe), t |-> <<TWord(<<"1", "_", "s">>)>>],
           [f |-> Filter(<<>>, <<>>, <<>>, <<>>, Cat(Bol, Cat(Grp(1, Lit("a")), Grp(2, Star(Lit("."))))), NoRe), t |-> <<TLit(<<"x">>), TRef(2)>>]}
\* the two readings of a regex (set of end positions / prioritised paths with captures) agree on WHETHER it matches
ASSUME \A a \in MCAggs : \A n \in MCNames : (Submatch(a.f.regex, n) # <<>>) = Search(a.f.regex, n)
=============================================================================
