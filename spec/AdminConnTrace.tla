--------------------------- MODULE AdminConnTrace ---------------------------
(* XADMIN -- what the real admin front ends did (harness/admx: the real      *)
(* telnet.ListenAndServe with the handlers of ui/telnet on a loopback port,  *)
(* the real router of ui/web on a loopback port, one real table.Table) is    *)
(* decided against AdminConnOps.  One case = one "hist" line (the table as   *)
(* Table.Snapshot() showed it) followed by its events:                       *)
(*   conn                a connection to the command port was opened         *)
(*   banner              the banner line was received                        *)
(*   send  data, solo    the client wrote data (solo: the connection was     *)
(*                       idle before and the client waited for the answer    *)
(*                       before writing again)                               *)
(*   read  text          the server logged "received command: '<text>'"      *)
(*                       (one conn.Read; text = what it made of the bytes)   *)
(*   reply cls           what came between two banners, classified           *)
(*   snap  T             Table.Snapshot() at a quiescent moment              *)
(*   close               the client closed the connection                    *)
(*   http  q, st [keys]  one request to the HTTP API and its status (0: the  *)
(*                       connection was dropped without a response)          *)
(* What is claimed of every event (T1..T6 are G_* / H_* of AdminConn.tla on  *)
(* the real execution):                                                      *)
(*  T1 a read is a piece of what was sent and not yet read: it starts where  *)
(*     the previous one ended, holds at most Cap bytes, and its text is that *)
(*     piece trimmed (the driver knows only the text: TLC finds the piece);  *)
(*     a solo write of at most Cap bytes is read whole;                      *)
(*  T2 the replies between two banners are exactly ExecRead's for that text  *)
(*     on the table as it is, and the table afterwards is ExecRead's;        *)
(*  T3 exactly one banner at connect and after every read, none elsewhere;   *)
(*  T4 a snapshot equals the table of the specification (after every         *)
(*     sequence of reads and requests: nothing else changes it);             *)
(*  T5 when the client closes, everything it sent but white space was read;  *)
(*  T6 a request is answered with HttpExec's status and changes the table as *)
(*     HttpExec says; GET /routes lists exactly the keys of the table.       *)
EXTENDS AdminConnOps, Json, TLCExt, IOUtils

CONSTANT Cap

TLog == ndJsonDeserialize("trace.ndjson")

VARIABLES l, T, ph, stream, consumed, pend, must
tvars == <<l, T, ph, stream, consumed, pend, must>>

ASSUME TLCSet(1, 0)

Ev == TLog[l]
Is(x) == l <= Len(TLog) /\ Ev.ev = x /\ l' = l + 1

TInit == l = 1 /\ T = EmptyTable /\ ph = "closed" /\ stream = "" /\ consumed = 0 /\ pend = <<>> /\ must = FALSE

THist == /\ Is("hist") /\ T' = Ev.T /\ ph' = "closed" /\ stream' = "" /\ consumed' = 0 /\ pend' = <<>> /\ must' = FALSE
TConn == /\ Is("conn") /\ ph = "closed" /\ ph' = "connected" /\ stream' = "" /\ consumed' = 0 /\ pend' = <<>> /\ must' = FALSE
         /\ UNCHANGED T
\* T3
TBanner == /\ Is("banner") /\ pend = <<>> /\ ph \in {"connected", "replying"} /\ ph' = "idle"
           /\ UNCHANGED <<T, stream, consumed, pend, must>>
TSend == /\ Is("send") /\ ph \in {"idle", "replying"}
         /\ stream' = stream \o Ev.data
         /\ must' = (Ev.solo /\ ph = "idle" /\ consumed = Len(stream) /\ Len(Ev.data) <= Cap)
         /\ UNCHANGED <<T, ph, consumed, pend>>
\* T1: the pieces of the unread stream whose trimmed text is the logged text (they differ in trailing white space)
Pieces(text) ==
    LET s0 == SkipWs(stream, consumed + 1) IN
    IF text = "" THEN {n \in 1..Min2(Cap, s0 - 1 - consumed) : TRUE}
    ELSE IF ~PrefixAt(stream, s0, text) THEN {}
    ELSE LET e  == s0 + Len(text) - 1
             e2 == SkipWs(stream, e + 1) - 1
         IN  {n \in (e - consumed)..(e2 - consumed) : n <= Cap}
\* T1, T2
TRead == /\ Is("read") /\ ph = "idle"
         /\ \E n \in Pieces(Ev.text) :
               /\ (must => n = Len(stream) - consumed)
               /\ consumed' = consumed + n
         /\ LET r == ExecRead(RealMux, T, Ev.text) IN
            /\ r.md
            /\ T' = r.T /\ pend' = r.rep
         /\ ph' = "replying" /\ must' = FALSE
         /\ UNCHANGED stream
TReply == /\ Is("reply") /\ ph = "replying" /\ pend # <<>> /\ Ev.cls = Head(pend) /\ pend' = Tail(pend)
          /\ UNCHANGED <<T, ph, stream, consumed, must>>
\* T4
TSnap == /\ Is("snap") /\ ph \in {"idle", "closed"} /\ Ev.T = T
         /\ UNCHANGED <<T, ph, stream, consumed, pend, must>>
\* T5
TClose == /\ Is("close") /\ ph = "idle" /\ SkipWs(stream, consumed + 1) > Len(stream)
          /\ ph' = "closed"
          /\ UNCHANGED <<T, stream, consumed, pend, must>>
\* T6
RKeys(Tb) == [i \in 1..Len(Tb.rt) |-> Tb.rt[i].key]
THttp == /\ Is("http") /\ ph \in {"idle", "closed"}
         /\ LET r == HttpExec(T, Ev.q) IN
            /\ Ev.st = r.st
            /\ T' = r.T
            /\ (Ev.q.m = "GET" /\ Ev.q.kind = "routes" /\ Ev.q.key = "" => Ev.keys = RKeys(T))
         /\ UNCHANGED <<ph, stream, consumed, pend, must>>

TNext == THist \/ TConn \/ TBanner \/ TSend \/ TRead \/ TReply \/ TSnap \/ TClose \/ THttp
TSpec == TInit /\ [][TNext]_tvars

HighWater == TLCSet(1, IF l - 1 > TLCGet(1) THEN l - 1 ELSE TLCGet(1))
Post == PrintT("@@TRACE " \o ToJson([matched |-> TLCGet(1)]))
=============================================================================
