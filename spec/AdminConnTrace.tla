--------------------------- MODULE AdminConnTrace ---------------------------
(* XADMIN -- what the real admin front ends did (harness/admx: the real      *)
(* telnet.ListenAndServe with the handlers of ui/telnet on a loopback port,  *)
(* the real router of ui/web on a loopback port, one real table.Table) is    *)
(* decided against AdminConnOps.  One case = one "hist" line (the table as   *)
(* Table.Snapshot() showed it) followed by its events:                       *)
(*   conn                a connection to the command port was opened         *)
(*   banner              the banner line was received                        *)
(*   send  data, solo    the client wrote data (solo: the connection was     *)
(*                       idle before and the client waited for the answer    *)
(*                       before writing again)                               *)
(*   read  text          the server logged "received command: '<text>'"      *)
(*                       (one conn.Read; text = what it made of the bytes)   *)
(*   reply cls           what came between two banners, classified           *)
(*   snap  T             Table.Snapshot() at a quiescent moment              *)
(*   close               the client closed the connection                    *)
(*   http  q, st [keys]  one request to the HTTP API and its status (0: the  *)
(*                       connection was dropped without a response)          *)
(* What is claimed of every event (T1..T6 are G_* / H_* of AdminConn.tla on  *)
(* the real execution):                                                      *)
(*  T1 a read is a piece of what was sent and not yet read: it starts where  *)
(*     the previous one ended, holds at most Cap bytes, and its text is that *)
(*     piece trimmed (the driver knows only the text: TLC finds the piece);  *)
(*     a solo write of at most Cap bytes is read whole;                      *)
(*  T2 the replies between two banners are exactly ExecRead's for that text  *)
(*     on the table as it is, and the table afterwards is ExecRead's;        *)
(*  T3 exactly one banner at connect and after every read, none elsewhere;   *)
(*  T4 a snapshot equals the table of the specification (after every         *)
(*     sequence of reads and requests: nothing else changes it);             *)
(*  T5 when the client closes, everything it sent but white space was read;  *)
(*  T6 a request is answered with HttpExec's status and changes the table as *)
(*     HttpExec says; GET /routes lists exactly the keys of the table.       *)
EXTENDS AdminConnOps, Json, TLCExt, IOUtils

CONSTANT Cap

TLog == ndJsonDeserialize("trace.ndjson")

\* lo..hi: the positions in the stream up to which the server may have read.  The log gives the text of a Read, not
\* its length: the candidates differ in trailing white space only (stream[lo+1..hi] is white space), nothing else in
\* the state depends on the choice, so the set of candidates is carried along instead of branching.
VARIABLES l, T, ph, stream, lo, hi, pend, must
tvars == <<l, T, ph, stream, lo, hi, pend, must>>

ASSUME TLCSet(1, 0)

Ev == TLog[l]
Is(x) == l <= Len(TLog) /\ Ev.ev = x /\ l' = l + 1

TInit == l = 1 /\ T = EmptyTable /\ ph = "closed" /\ stream = "" /\ lo = 0 /\ hi = 0 /\ pend = <<>> /\ must = FALSE

THist == /\ Is("hist") /\ T' = Ev.T /\ ph' = "closed" /\ stream' = "" /\ lo' = 0 /\ hi' = 0 /\ pend' = <<>> /\ must' = FALSE
TConn == /\ Is("conn") /\ ph = "closed" /\ ph' = "connected" /\ stream' = "" /\ lo' = 0 /\ hi' = 0 /\ pend' = <<>> /\ must' = FALSE
         /\ UNCHANGED T
\* T3
TBanner == /\ Is("banner") /\ pend = <<>> /\ ph \in {"connected", "replying"} /\ ph' = "idle"
           /\ UNCHANGED <<T, stream, lo, hi, pend, must>>
TSend == /\ Is("send") /\ ph = "idle"
         /\ stream' = stream \o Ev.data
         /\ must' = (Ev.solo /\ lo = Len(stream) /\ hi = lo /\ Len(Ev.data) <= Cap)
         /\ UNCHANGED <<T, ph, lo, hi, pend>>
\* T1: a Read that began at a position c in lo..hi and returned n <= Cap bytes whose trimmed text is the logged text
\* ended at c + n in NextLo..NextHi:
\*   text = ""   only white space: c + 1 .. the last white-space byte before the next text, at most Cap further
\*   otherwise   the text stands right after the white space (at s0), ends at e, and the Read ended at e or in the
\*               white space that follows it (up to e2), at most Cap bytes after where it began
S0 == SkipWs(stream, hi + 1)
TextHere(text) == text = "" \/ PrefixAt(stream, S0, text)
NextLo(text) == IF text = "" THEN lo + 1 ELSE S0 + Len(text) - 1
NextHi(text) == IF text = "" THEN Min2(S0 - 1, hi + Cap)
                ELSE Min2(SkipWs(stream, S0 + Len(text)) - 1, hi + Cap)
\* T1, T2
TRead == /\ Is("read") /\ ph = "idle"
         /\ TextHere(Ev.text)
         /\ IF must THEN NextLo(Ev.text) <= Len(stream) /\ Len(stream) <= NextHi(Ev.text) /\ lo' = Len(stream) /\ hi' = Len(stream)
                    ELSE NextLo(Ev.text) <= NextHi(Ev.text) /\ lo' = NextLo(Ev.text) /\ hi' = NextHi(Ev.text)
         /\ LET r == ExecRead(RealMux, T, Ev.text) IN
            /\ r.md
            /\ T' = r.T /\ pend' = r.rep
         /\ ph' = "replying" /\ must' = FALSE
         /\ UNCHANGED stream
TReply == /\ Is("reply") /\ ph = "replying" /\ pend # <<>> /\ Ev.cls = Head(pend) /\ pend' = Tail(pend)
          /\ UNCHANGED <<T, ph, stream, lo, hi, must>>
\* T4
TSnap == /\ Is("snap") /\ ph \in {"idle", "closed"} /\ Ev.T = T
         /\ UNCHANGED <<T, ph, stream, lo, hi, pend, must>>
\* T5
TClose == /\ Is("close") /\ ph = "idle" /\ SkipWs(stream, hi + 1) > Len(stream)
          /\ ph' = "closed"
          /\ UNCHANGED <<T, stream, lo, hi, pend, must>>
\* T6.  The HTTP API is not documented; three things the code does are accidents rather than intentions (AdminConn.tla,
\* W_NotFoundNoResponse, W_NegativeNoResponse, W_NonNumericDeletesFirst).  For exactly these requests a repaired
\* relay -- one that refuses the request with a 4xx response and leaves the table alone -- is accepted as well.
RKeys(Tb) == [i \in 1..Len(Tb.rt) |-> Tb.rt[i].key]
TargetList(q) == CASE q.kind = "blacklists" -> T.bl [] q.kind = "rewriters" -> T.rw [] q.kind = "aggregators" -> T.agg
                   [] q.kind = "dests" -> (IF RouteIdx(T, q.key) = 0 THEN <<>> ELSE T.rt[RouteIdx(T, q.key)].dests)
                   [] OTHER -> <<>>
Refusable(q) == \/ /\ q.m = "DELETE" /\ q.kind \in {"blacklists", "rewriters", "aggregators", "dests"} /\ q.idx # ""
                   /\ (AtoiErr(q.idx) \/ AtoiVal(q.idx) < 0 \/ AtoiVal(q.idx) >= Len(TargetList(q)))
                \/ q.m = "DELETE" /\ q.kind = "dests" /\ RouteIdx(T, q.key) = 0
                \/ q.m = "GET" /\ q.kind = "routes" /\ q.key # "" /\ RouteIdx(T, q.key) = 0
THttp == /\ Is("http") /\ ph \in {"idle", "closed"}
         /\ LET r == HttpExec(T, Ev.q) IN
            \/ /\ Ev.st = r.st
               /\ T' = r.T
               /\ (Ev.q.m = "GET" /\ Ev.q.kind = "routes" /\ Ev.q.key = "" => Ev.keys = RKeys(T))
            \/ /\ Refusable(Ev.q) /\ Ev.st \in 400..499 /\ T' = T
         /\ UNCHANGED <<ph, stream, lo, hi, pend, must>>

TNext == THist \/ TConn \/ TBanner \/ TSend \/ TRead \/ TReply \/ TSnap \/ TClose \/ THttp
TSpec == TInit /\ [][TNext]_tvars

HighWater == TLCSet(1, IF l - 1 > TLCGet(1) THEN l - 1 ELSE TLCGet(1))
Post == PrintT("@@TRACE " \o ToJson([matched |-> TLCGet(1)]))
=============================================================================
