#!/usr/bin/env python3
"""Transcription of carbon's ConsistentHashRing (carbon/lib/carbon/hashing.py, 0.9.x line, the
implementation route/consistent_hashing.go says it mirrors), independent of the Go code.

    class ConsistentHashRing:
      def compute_ring_position(self, key):
        big_hash = md5( str(key) ).hexdigest()
        small_hash = int(big_hash[:4], 16)
        return small_hash
      def add_node(self, node):                      # node = (server, instance)
        self.nodes.add(node)
        for i in range(self.replica_count):          # replica_count = 100
          replica_key = "%s:%d" % (node, i)          # "('10.0.0.1', 'a'):0" / "('10.0.0.1', None):0"
          position = self.compute_ring_position(replica_key)
          entry = (position, node)
          bisect.insort(self.ring, entry)
      def remove_node(self, node):
        self.nodes.discard(node)
        self.ring = [entry for entry in self.ring if entry[1] != node]
      def get_node(self, key):
        position = self.compute_ring_position(key)
        search_entry = (position, None)
        index = bisect.bisect_left(self.ring, search_entry) % len(self.ring)
        entry = self.ring[index]
        return entry[1]

Python 2 orders None before every string and tuples element-wise, so ring entries are ordered by
(position, server, instance) with instance None first; that ordering is reproduced with sort keys
here because Python 3 refuses to compare None with str.

Only `compute_ring_position` and `replica_key` (the MD5 part, which a TLA+ model cannot compute) are
used as inputs of the trace specification; the ring order, the bisection and the wrap-around are
decided by TLC with spec/HashRingOps.tla.  The full class is kept for an oracle cross-check.
"""
import bisect
from hashlib import md5

REPLICAS = 100


def compute_ring_position(key):
    if isinstance(key, str):
        key = key.encode("latin-1")
    return int(md5(key).hexdigest()[:4], 16)


def node_repr(server, instance):
    """str((server, instance)) as Python prints a tuple of str / None (ASCII without quotes or backslashes)"""
    for s in (server, instance or ""):
        if "'" in s or "\\" in s or any(ord(c) < 32 or ord(c) > 126 for c in s):
            raise ValueError("repr() transcription only covers plain ASCII: %r" % s)
    return "('%s', %s)" % (server, "None" if instance is None else "'%s'" % instance)


def replica_key(server, instance, i):
    return "%s:%d" % (node_repr(server, instance), i)


def node_positions(server, instance, replicas=REPLICAS):
    return [compute_ring_position(replica_key(server, instance, i)) for i in range(replicas)]


def _k(entry):
    pos, (server, instance) = entry
    return (pos, server, (0, "") if instance is None else (1, instance))


class ConsistentHashRing:
    def __init__(self, nodes, replica_count=REPLICAS):
        self.ring = []
        self.keys = []
        self.nodes = set()
        self.replica_count = replica_count
        for node in nodes:
            self.add_node(node)

    def add_node(self, node):
        self.nodes.add(node)
        for i in range(self.replica_count):
            position = compute_ring_position(replica_key(node[0], node[1], i))
            entry = (position, node)
            j = bisect.bisect_right(self.keys, _k(entry))     # bisect.insort = insort_right
            self.keys.insert(j, _k(entry))
            self.ring.insert(j, entry)

    def remove_node(self, node):
        self.nodes.discard(node)
        self.ring = [e for e in self.ring if e[1] != node]
        self.keys = [_k(e) for e in self.ring]

    def get_node(self, key):
        assert self.ring
        position = compute_ring_position(key)
        # (position, None) sorts before every (position, (server, instance))
        index = bisect.bisect_left(self.keys, (position,)) % len(self.ring)
        return self.ring[index][1]


def selftest():
    # constants pinned in /repo/route/consistent_hashing_test.go
    assert compute_ring_position("a.b.c.d") == 54437
    assert compute_ring_position("") == 54301
    r = ConsistentHashRing([("10.0.0.1", None), ("127.0.0.1", "a"), ("127.0.0.1", "b")], 2)
    assert [(p, n) for p, n in r.ring] == [
        (7885, ("127.0.0.1", "a")), (10461, ("127.0.0.1", "b")), (24043, ("127.0.0.1", "a")),
        (35540, ("10.0.0.1", None)), (46982, ("10.0.0.1", None)), (54295, ("127.0.0.1", "b"))], r.ring
    r.add_node(("127.0.0.1", "c"))
    r.add_node(("10.0.0.2", None))
    assert [p for p, _ in r.ring] == [6639, 7885, 10461, 24043, 24467, 35540, 46982, 52177, 53472, 54295]
    assert r.get_node("a.b.c.d") == ("10.0.0.2", None)
    assert r.get_node("a.b.c..d") == ("127.0.0.1", "a")
    assert r.get_node("collectd.bar.memory.free") == ("127.0.0.1", "c")
    return True


if __name__ == "__main__":
    selftest()
    print("carbon_ring selftest ok")
