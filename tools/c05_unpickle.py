#!/usr/bin/env python3
"""C05, pickle mode: split a byte stream into 4-byte big-endian length-prefixed frames and decode
each frame with CPython's pickle.  Projection only (trusted base: CPython pickle).

Output (one JSON object per line on stdout, or via frames(data) when imported):
  {"off": <byte offset>, "size": <payload size>, "items": [[name, ts, val], ...]}   a decoded frame
  {"off": .., "size": .., "bad": "<why>"}                                            an undecodable frame
  {"off": .., "tail": <bytes left that do not form a complete frame>}
"""
import json, pickle, struct, sys

MAXFRAME = 1 << 20   # the relay sends one datapoint per frame; anything bigger is garbage


def frames(data):
    off, n = 0, len(data)
    while n - off >= 4:
        (size,) = struct.unpack(">I", data[off:off + 4])
        if size > MAXFRAME:
            yield dict(off=off, size=size, bad="length prefix larger than any frame the relay can produce")
            yield dict(off=off, tail=n - off)
            return
        if n - off - 4 < size:
            break
        payload = data[off + 4:off + 4 + size]
        rec = dict(off=off, size=size)
        try:
            obj = pickle.loads(payload)
            items = []
            if not isinstance(obj, list):
                raise ValueError("payload is not a list")
            for it in obj:
                name, (ts, val) = it
                if isinstance(name, bytes):
                    name = name.decode("latin-1")
                if not isinstance(name, str) or isinstance(ts, bool) or isinstance(val, bool) \
                        or not isinstance(ts, (int, float)) or not isinstance(val, (int, float)):
                    raise ValueError("unexpected item types")
                items.append([name, ts, val])
            rec["items"] = items
        except Exception as e:      # noqa: any failure = undecodable frame
            rec["bad"] = "%s: %s" % (type(e).__name__, e)
        yield rec
        off += 4 + size
    if off < n:
        yield dict(off=off, tail=n - off)


if __name__ == "__main__":
    data = open(sys.argv[1], "rb").read()
    for r in frames(data):
        print(json.dumps(r))
