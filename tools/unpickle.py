#!/usr/bin/env python3
"""Decode length-prefixed pickle frames (carbon's pickle receiver protocol) with CPython's
unpickler and describe every datapoint by value identity: name, timestamp (with its Python type),
value as the 64-bit pattern of the float.

usage as a tool: unpickle.py < hex-of-the-stream   -> one JSON object per frame
"""
import json, pickle, struct, sys


def describe(obj):
    """[(name, (timestamp, value))] -> dict; anything else -> dict(shape=...)"""
    if not isinstance(obj, list):
        return dict(ok=False, shape="not a list: %r" % type(obj).__name__)
    pts = []
    for item in obj:
        if not (isinstance(item, tuple) and len(item) == 2 and isinstance(item[1], tuple) and len(item[1]) == 2):
            return dict(ok=False, shape="item is not (name, (ts, value)): %r" % (item,))
        name, (ts, val) = item
        if isinstance(name, bytes):
            name = name.decode("latin-1")
        pts.append(dict(name=name, ts=ts if isinstance(ts, int) and not isinstance(ts, bool) else repr(ts),
                        ts_type=type(ts).__name__, val_type=type(val).__name__,
                        vbits=("%016x" % struct.unpack(">Q", struct.pack(">d", val))[0]) if isinstance(val, float) else repr(val)))
    return dict(ok=True, points=pts)


def frames(stream):
    """split a byte stream into frames; returns (list of payloads, number of trailing bytes)"""
    out, off = [], 0
    while off + 4 <= len(stream):
        n = struct.unpack(">I", stream[off:off + 4])[0]
        if off + 4 + n > len(stream):
            break
        out.append(stream[off + 4:off + 4 + n])
        off += 4 + n
    return out, len(stream) - off


def decode_stream(stream):
    fs, rest = frames(stream)
    res = []
    for f in fs:
        try:
            res.append(describe(pickle.loads(f, encoding="latin-1")))
        except Exception as e:   # noqa
            res.append(dict(ok=False, shape="unpickler: %s" % e))
    return res, rest


if __name__ == "__main__":
    data = bytes.fromhex(sys.stdin.read().strip())
    res, rest = decode_stream(data)
    for r in res:
        print(json.dumps(r))
    if rest:
        print(json.dumps(dict(ok=False, shape="%d trailing bytes" % rest)))
