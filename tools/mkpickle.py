#!/usr/bin/env python3
"""mkpickle — turn abstract pickle connections (PickleItems.tla / PickleGen.tla) into bytes.

Two dialects:
  py3  CPython 3's own pickle.dumps, protocols 0-4;
  py2  what Python 2's pickle emits (protocols 0-2): byte strings as S / U / T, unicode as V / X,
       `long` as L..L / LONG1, machine ints beyond 32 bits in text mode.  Only Python 3 is installed,
       so these are produced by a small assembler; every assembled pickle is checked by loading it
       with CPython (pickle.loads(..., encoding="latin1")) and comparing with the intended object.

A value is a tagged tree: ("tuple", [..]) ("list", [..]) ("dict", [(k, v)..]) ("int", v) ("long", v)
("float", v) ("bstr", str) ("ustr", str) ("none",) ("bool", b) ("bytes", b).
This file contains no oracle: what the relay must make of a connection is computed by TLC.
"""
import pickle, struct, sys, json

MAXLEN = 500 * 1024 * 1024


# ------------------------------------------------------------------ trees
def to_py(t):
    k = t[0]
    if k == "tuple":
        return tuple(to_py(x) for x in t[1])
    if k == "list":
        return [to_py(x) for x in t[1]]
    if k == "dict":
        return {to_py(a): to_py(b) for a, b in t[1]}
    if k in ("int", "long", "float", "bstr", "ustr", "bool", "bytes"):
        return t[1]
    if k == "none":
        return None
    raise ValueError(k)


# ------------------------------------------------------------------ Python-2 style assembler
class P2:
    def __init__(self, proto):
        assert proto in (0, 1, 2)
        self.proto, self.out, self.memo = proto, bytearray(), 0

    def put(self):
        i = self.memo
        self.memo += 1
        if self.proto >= 1:
            self.out += (b"q" + bytes([i])) if i < 256 else (b"r" + struct.pack("<I", i))
        else:
            self.out += b"p%d\n" % i

    def save(self, t):
        k, o, p = t[0], self.out, self.proto
        if k == "none":
            o += b"N"
        elif k == "bool":
            o += (b"\x88" if t[1] else b"\x89") if p >= 2 else (b"I01\n" if t[1] else b"I00\n")
        elif k == "int":
            v = t[1]
            if p >= 1 and 0 <= v < 256:
                o += b"K" + bytes([v])
            elif p >= 1 and 0 <= v < 65536:
                o += b"M" + struct.pack("<H", v)
            elif p >= 1 and -2 ** 31 <= v < 2 ** 31:
                o += b"J" + struct.pack("<i", v)
            else:
                o += b"I%d\n" % v
        elif k == "long":
            v = t[1]
            if p >= 2:
                b = pickle.encode_long(v)
                o += (b"\x8a" + bytes([len(b)]) + b) if len(b) < 256 else (b"\x8b" + struct.pack("<i", len(b)) + b)
            else:
                o += b"L%dL\n" % v
        elif k == "float":
            o += (b"G" + struct.pack(">d", t[1])) if p >= 1 else (b"F" + repr(t[1]).encode() + b"\n")
        elif k == "bstr":
            s = t[1].encode("latin1")
            if p >= 1:
                o += (b"U" + bytes([len(s)]) + s) if len(s) < 256 else (b"T" + struct.pack("<i", len(s)) + s)
            else:
                assert all(32 <= c < 127 and c not in (39, 92) for c in s)
                o += b"S'" + s + b"'\n"
            self.put()
        elif k == "ustr":
            if p >= 1:
                s = t[1].encode("utf8")
                o += b"X" + struct.pack("<I", len(s)) + s
            else:
                s = t[1].replace("\\", "\\u005c").replace("\n", "\\u000a")
                o += b"V" + s.encode("raw-unicode-escape") + b"\n"
            self.put()
        elif k == "tuple":
            xs = t[1]
            if not xs:
                o += b")" if p >= 1 else b"(t"
                return
            if p >= 2 and len(xs) <= 3:
                for x in xs:
                    self.save(x)
                o += bytes([0x84 + len(xs)])
            else:
                o += b"("
                for x in xs:
                    self.save(x)
                o += b"t"
            self.put()
        elif k == "list":
            xs = t[1]
            if p == 0:
                o += b"(l"
                self.put()
                for x in xs:
                    self.save(x)
                    o += b"a"
            else:
                o += b"]"
                self.put()
                for a in range(0, len(xs), 1000):
                    batch = xs[a:a + 1000]
                    if len(batch) == 1:
                        self.save(batch[0])
                        o += b"a"
                    else:
                        o += b"("
                        for x in batch:
                            self.save(x)
                        o += b"e"
        elif k == "dict":
            kv = t[1]
            if p == 0:
                o += b"(d"
                self.put()
                for a, b in kv:
                    self.save(a)
                    self.save(b)
                    o += b"s"
            else:
                o += b"}"
                self.put()
                if len(kv) == 1:
                    self.save(kv[0][0])
                    self.save(kv[0][1])
                    o += b"s"
                elif kv:
                    o += b"("
                    for a, b in kv:
                        self.save(a)
                        self.save(b)
                    o += b"u"
        else:
            raise ValueError("py2 dialect cannot encode %r" % (k,))

    def dump(self, t):
        if self.proto >= 2:
            self.out += b"\x80\x02"
        self.save(t)
        self.out += b"."
        return bytes(self.out)


def dumps(tree, proto, dialect):
    """bytes of the pickle of `tree`; self-checked by loading it with CPython"""
    obj = to_py(tree)
    if dialect == "py3":
        b = pickle.dumps(obj, protocol=proto)
    else:
        b = P2(proto).dump(tree)
    back = pickle.loads(b, encoding="latin1")
    if back != obj or repr(back) != repr(obj):
        raise AssertionError("mkpickle self-check failed: %r -> %r (proto %d %s)" % (obj, back, proto, dialect))
    return b


def frame(payload, length=None):
    return struct.pack(">I", len(payload) if length is None else length) + payload


# ------------------------------------------------------------------ concretisation of PickleItems classes
INTS = [0, 7, 255, 256, 65535, 65536, 2 ** 31 - 1, 1600000000, 1]
NEGINTS = [-1, -3, -255, -256, -65536, -2 ** 31, -1600000000]
LONGS3 = [2 ** 31, 2 ** 32 + 5, 2 ** 63 - 1, 2 ** 63, 10 ** 30, -2 ** 31 - 1, -10 ** 20, 4294967293]
LONGS2 = [5, 0, 1600000000, -7] + LONGS3          # a Python-2 `long` of any magnitude
FLOATS = [0.0, 1.5, -2.25, 3.14159265358979, 1e-7, 123456789.123456789, 1600000000.0, 2.5, 0.5, 3.5, 1e20,
          1600000000.75, -0.0, 0.1234565, 0.1234575]
STRS = ["1", "3.25", "1600000000", "1e3", "abc", "-7", "0x10", "NaN"]


def scalar(rng, kind, dialect):
    """(tree, source) for a scalar kind; source = what the rendering rules apply to"""
    if kind == "int":
        if dialect == "py2" and rng.random() < 0.2:
            v = rng.choice([2 ** 31, 2 ** 40 + 3, 2 ** 63 - 1])        # a 64-bit Python-2 machine int
            return ("int", v), v
        v = rng.choice(INTS + [rng.randrange(2 ** 31)])
        return ("int", v), v
    if kind == "negint":
        v = rng.choice(NEGINTS + [-rng.randrange(1, 2 ** 31)])
        return ("int", v), v
    if kind == "long":
        v = rng.choice(LONGS2 if dialect == "py2" else LONGS3)
        return (("long", v) if dialect == "py2" else ("int", v)), v
    if kind == "float":
        v = rng.choice(FLOATS + [rng.uniform(-1e6, 1e6), rng.uniform(0, 2e9)])
        return ("float", v), v
    if kind == "str":
        v = rng.choice(STRS)
        return (("bstr", v) if dialect == "py2" and rng.random() < 0.7 else ("ustr", v)), v
    if kind == "other":
        return rng.choice([("none",), ("bool", True), ("bool", False), ("tuple", [("int", 1)]), ("list", []),
                           ("dict", [])]), None
    raise ValueError(kind)


def render(rule, v):
    """the field as it appears in the equivalent plain-text line"""
    if rule == "verbatim":
        return str(v)
    if rule == "f6":
        return "%f" % v
    if rule == "f0":
        return "%.0f" % v
    raise ValueError(rule)


def item(rng, it, dialect, proto, name):
    """concretise one item class.  Returns (tree, src) with src = dict(name, ts, val) source values
    (None where the class has none) and flags for the known-finding / unconstrained classes."""
    src = dict(name=None, ts=None, val=None, bytes_name=False)
    if it["outer"] == "other":
        return rng.choice([("int", 5), ("none",), ("ustr", name), ("dict", []), ("float", 1.5)]), src

    def cont(kind, xs):
        return (kind, xs)
    filler = lambda: rng.choice([("int", 1), ("ustr", "x"), ("none",)])
    if it["arity"] != 2:
        xs = [("ustr", name)] if it["arity"] == 1 else [("ustr", name), ("tuple", [("int", 1), ("int", 2)]), filler()]
        return cont(it["outer"], xs), src
    if it["name"] == "nonstring":
        choices = [("int", 7), ("none",), ("float", 1.5), ("tuple", [("ustr", name)])]
        if dialect == "py3":
            choices.append(("bytes", name.encode()))
        nm = rng.choice(choices)
        src["bytes_name"] = nm[0] == "bytes"
    elif it["name"] == "str" and dialect == "py2":
        nm = ("bstr", name)
        src["name"] = name
    else:
        nm = ("ustr", name)
        src["name"] = name
    if it["pair"] == "other":
        return cont(it["outer"], [nm, rng.choice([("int", 3), ("none",), ("ustr", "1 2"), ("dict", []), ("float", 2.0)])]), src
    if it["parity"] != 2:
        xs = [("int", 1600000000)] if it["parity"] == 1 else [("int", 1600000000), ("int", 1), filler()]
        return cont(it["outer"], [nm, cont(it["pair"], xs)]), src
    ts, src["ts"] = scalar(rng, it["ts"], dialect)
    val, src["val"] = scalar(rng, it["val"], dialect)
    src["ts_tag"], src["val_tag"] = ts[0], val[0]       # how it is encoded ("int" = the INT/BININT* family)
    return cont(it["outer"], [nm, cont(it["pair"], [ts, val])]), src


def connection(rng, frames, proto, dialect, cid, longnames=False):
    """bytes of a whole connection + per-frame (start, header_end, end) offsets + per-item sources"""
    out, spans, srcs = bytearray(), [], {}
    for fi, fr in enumerate(frames, 1):
        kind = fr["kind"]
        start = len(out)
        if kind in ("ok", "truncpickle", "cutpayload"):
            trees = []
            items = fr["items"] if kind == "ok" else [dict(outer="tuple", arity=2, name="unicode", pair="tuple", parity=2, ts="int", val="int")]
            for ii, it in enumerate(items, 1):
                name = "c13.k%d.f%d.i%d.%s" % (cid, fi, ii, rng.choice(["cpu", "load.avg", "a-b_c"]))
                if longnames and rng.random() < 0.5:
                    name += "." + "n" * rng.choice([3000, 4090, 4200, 9000])
                tr, src = item(rng, it, dialect, proto, name)
                trees.append(tr)
                if kind == "ok":
                    srcs[(fi, ii)] = src
            payload = dumps(("list", trees), proto, dialect)
            if kind == "truncpickle":
                payload = payload[:len(payload) - rng.randrange(1, min(len(payload) - 3, 12))]
                out += frame(payload)
            elif kind == "cutpayload":
                out += frame(payload)[:4 + rng.randrange(0, len(payload))]
            else:
                out += frame(payload)
        elif kind == "nonlist":
            tr = rng.choice([("dict", [(("ustr", "a"), ("int", 1))]), ("tuple", [("ustr", "a"), ("tuple", [("int", 1), ("int", 2)])]),
                             ("ustr", "a 1 2"), ("int", 5)])
            out += frame(dumps(tr, proto, dialect))
        elif kind == "badprefix":
            out += frame(rng.choice([b"XYZ.", b"a 1 2\n", b"\x80\x02K\x01.", b"(dp0\n.", b"\x00\x00\x00\x00"]))
        elif kind == "garbage":
            # a list prefix, then an opcode no pickle protocol 0-4 has
            out += frame(rng.choice([b"]", b"(l", b"\x80\x02]", b"\x80\x04\x95\x10\x00\x00\x00\x00\x00\x00\x00]"]) +
                         bytes([0xff, 0xfe, 0xfd, 0x00]))
        elif kind == "toolong":
            out += frame(b"]q\x00.", length=MAXLEN + 1 + rng.randrange(2 ** 20))
        elif kind == "cutheader":
            out += b"\x00\x00\x00\x10"[:rng.randrange(1, 4)]
        else:
            raise ValueError(kind)
        spans.append((start, min(start + 4, len(out)), len(out)))
    return bytes(out), spans, srcs


def cuts_for(rng, segclass, total, spans):
    """byte offsets at which the stream is cut, for a segmentation class"""
    inside = lambda xs: sorted(set(x for x in xs if 0 < x < total))
    if segclass == "all":
        return []
    if segclass == "one":
        return list(range(1, total))
    if segclass == "between":
        return inside([e for _, _, e in spans])
    s, h, e = rng.choice(spans)
    if segclass == "hdr":
        return inside([s + rng.randrange(1, 4)] + ([s + 1, s + 2, s + 3] if rng.random() < 0.3 else []))
    if segclass == "payload":
        if e - h < 2:
            return inside([h])
        return inside([h + rng.choice([1, 2, 3]), rng.randrange(h, e)] + ([h + 4096, h + 4097] if e - h > 4200 else []))
    raise ValueError(segclass)


if __name__ == "__main__":
    # mkpickle.py <proto> <py3|py2> '<json list of [name, [ts, val]] datapoints>' -> hex of one frame
    proto, dialect, pts = int(sys.argv[1]), sys.argv[2], json.loads(sys.argv[3])

    def tree(x):
        if isinstance(x, (list, tuple)):
            return ("tuple", [tree(y) for y in x])
        if isinstance(x, bool):
            return ("bool", x)
        if isinstance(x, int):
            return ("int", x)
        if isinstance(x, float):
            return ("float", x)
        return ("bstr" if dialect == "py2" else "ustr", x)
    print(frame(dumps(("list", [tree(p) for p in pts]), proto, dialect)).hex())
