// Package inputs drives the real input handlers of carbon-relay-ng for C12 (line
// framing under arbitrary segmentation: Plain.Handle, the TCP/UDP Listener, the
// AMQP consume loop) and C13 (Pickle.Handle vs Plain.Handle).  It only records what
// the handlers dispatched; the expectations are computed by TLC (FramingGen.tla,
// FramingSim.tla, PickleItems.tla) and compared by checks/c12.py / checks/c13.py.
package inputs

import (
	"bytes"
	"crypto/sha1"
	"encoding/hex"
	"encoding/json"
	"fmt"
	"io"
	"io/ioutil"
	stdlog "log"
	"math/rand"
	"net"
	"os"
	"path/filepath"
	"runtime"
	"sort"
	"strings"
	"sync"
	"testing"
	"time"

	"verifharness/hx"

	"github.com/grafana/carbon-relay-ng/cfg"
	"github.com/grafana/carbon-relay-ng/input"
	log "github.com/sirupsen/logrus"
)

func init() {
	log.SetOutput(ioutil.Discard)
	log.SetLevel(log.PanicLevel)
	stdlog.SetOutput(ioutil.Discard)
}

// ---------------------------------------------------------------- capture

// capture is the Dispatcher behind the handlers.  It copies its argument at call
// time, yields, and compares again before returning (the buffer must be stable for
// the duration of the call); it also keeps the slice itself to report, after the
// handler returned, how many retained slices were reused (informational: the
// Dispatcher contract lets the handler reuse the buffer after Dispatch returns).
type capture struct {
	mu       sync.Mutex
	events   []string // "D<hex>" | "I"
	lines    [][]byte
	held     [][]byte
	unstable int
}

func (c *capture) Dispatch(buf []byte) {
	c1 := append([]byte{}, buf...)
	runtime.Gosched()
	c.mu.Lock()
	if !bytes.Equal(c1, buf) {
		c.unstable++
	}
	c.lines = append(c.lines, c1)
	c.held = append(c.held, buf)
	c.events = append(c.events, "D")
	c.mu.Unlock()
}

func (c *capture) IncNumInvalid() {
	c.mu.Lock()
	c.events = append(c.events, "I")
	c.mu.Unlock()
}

type snap struct {
	lines    [][]byte
	events   []string
	unstable int
	reused   int
}

// take returns what was captured since the last take and resets.
func (c *capture) take() snap {
	c.mu.Lock()
	defer c.mu.Unlock()
	s := snap{lines: c.lines, events: c.events, unstable: c.unstable}
	for i := range c.lines {
		if !bytes.Equal(c.lines[i], c.held[i]) {
			s.reused++
		}
	}
	c.lines, c.held, c.events, c.unstable = nil, nil, nil, 0
	return s
}

// enc renders a byte string for the log: hex, or length+sha1 for long ones.
func enc(b []byte) string {
	if len(b) <= 256 {
		return hex.EncodeToString(b)
	}
	h := sha1.Sum(b)
	return fmt.Sprintf("#%d:%s", len(b), hex.EncodeToString(h[:]))
}

func encAll(bs [][]byte) []string {
	out := make([]string, len(bs))
	for i, b := range bs {
		out[i] = enc(b)
	}
	return out
}

// ---------------------------------------------------------------- chunking reader

type timeoutErr struct{}

func (timeoutErr) Error() string   { return "i/o timeout (verif)" }
func (timeoutErr) Timeout() bool   { return true }
func (timeoutErr) Temporary() bool { return true }

// chunkReader hands out data cut at the given byte offsets (ascending, 0 < c < len);
// term: "eof" (0,EOF after the data), "dataeof" (last piece together with EOF),
// "datatimeout" (last piece together with a timeout error), "timeout" (0,timeout).
//
// A read timeout does not end the byte stream: input.TimeoutConn (the conn the TCP
// listener hands to the handler) arms a fresh deadline on every Read, so a Read issued
// after the one that timed out succeeds as soon as the peer has sent more.  With a
// tail, the reader behaves like that: the timeout error is returned once, reads issued
// after it get the tail and then EOF (the peer closed).  Without a tail later reads
// fail with the same error (a few times, then EOF).  The reader only counts what was asked of it after
// the error (afterErr, tailRead); whether the handler may do that is not decided here.
type chunkReader struct {
	data []byte
	cuts []int
	pos  int
	ci   int
	term string
	err  error

	tail     []byte
	afterErr int // Read calls issued after a read had returned the terminating condition
	tailRead int // bytes of the tail handed out
}

func (r *chunkReader) Read(p []byte) (int, error) {
	if r.err != nil {
		r.afterErr++
		if r.err == io.EOF {
			return 0, r.err
		}
		if r.tail == nil {
			if r.afterErr > 3 { // a handler that keeps retrying: the peer closes eventually
				r.err = io.EOF
			}
			return 0, r.err
		}
		if len(p) == 0 {
			return 0, nil
		}
		if r.tailRead == len(r.tail) {
			r.err = io.EOF
			return 0, r.err
		}
		n := copy(p, r.tail[r.tailRead:])
		r.tailRead += n
		return n, nil
	}
	if len(p) == 0 {
		return 0, nil
	}
	if r.pos == len(r.data) {
		if r.term == "timeout" || r.term == "datatimeout" {
			r.err = timeoutErr{}
		} else {
			r.err = io.EOF
		}
		return 0, r.err
	}
	for r.ci < len(r.cuts) && r.cuts[r.ci] <= r.pos {
		r.ci++
	}
	end := len(r.data)
	if r.ci < len(r.cuts) {
		end = r.cuts[r.ci]
	}
	n := end - r.pos
	if n > len(p) {
		n = len(p)
	}
	copy(p, r.data[r.pos:r.pos+n])
	r.pos += n
	if r.pos == len(r.data) {
		switch r.term {
		case "dataeof":
			r.err = io.EOF
			return n, r.err
		case "datatimeout":
			r.err = timeoutErr{}
			return n, r.err
		}
	}
	return n, nil
}

// ---------------------------------------------------------------- C12

type lcase struct {
	ID    int      `json:"id"`
	Frags []string `json:"frags"` // hex, one per stream symbol
	// how to cut: "all" = every subset of the fragment boundaries; "every" = each single
	// byte offset (two reads); "one" = one-byte reads; "whole"; "list" = the cut sets in List;
	// several may be given
	Cuts  []string `json:"cuts"`
	List  [][]int  `json:"list"`
	Terms []string `json:"terms"`
	Trans []string `json:"trans"` // plain | tcp | tcptimeout | udp | amqp
	// hex, one per symbol: what the peer sends after the stream, served to reads issued after a
	// timeout error (terms "timeout"/"datatimeout" and transport tcptimeout only)
	Tail []string `json:"tail"`
}

type outcome struct {
	Got      []string `json:"got"`
	Err      string   `json:"err"`
	N        int      `json:"n"`
	Seg      []int    `json:"seg"` // first cut set with this outcome
	Unstable int      `json:"unstable"`
	Reused   int      `json:"reused"`
	SlowMs   int      `json:"slow_ms"` // tcptimeout: longest dial-to-last-write time (guards the expectation, see c12.py)
	// continuation after a read error (runs with this outcome)
	TailRuns  int `json:"tail_runs"`  // runs in which a tail was on offer after the error
	AfterErr  int `json:"after_err"`  // ... in which the handler issued a Read after the error / the client got to send the tail
	TailBytes int `json:"tail_bytes"` // most tail bytes the handler took in one run
}

type lresult struct {
	Ev       string    `json:"ev"`
	ID       int       `json:"id"`
	Tr       string    `json:"tr"`
	Term     string    `json:"term"`
	Runs     int       `json:"runs"`
	Outcomes []outcome `json:"outcomes"`
}

type agg struct {
	m     map[string]*outcome
	order []string
	runs  int
	last  *outcome
}

func newAgg() *agg { return &agg{m: map[string]*outcome{}} }

// cont records, for the outcome the last add went to, what happened after the read error.
func (a *agg) cont(offered bool, afterErr, tailBytes int) {
	if !offered || a.last == nil {
		return
	}
	a.last.TailRuns++
	if afterErr > 0 {
		a.last.AfterErr++
	}
	if tailBytes > a.last.TailBytes {
		a.last.TailBytes = tailBytes
	}
}

func (a *agg) add(s snap, err string, seg []int, slow ...int) {
	a.runs++
	got := encAll(s.lines)
	key := strings.Join(got, ",") + "|" + err
	if s.unstable > 0 {
		key += "|u"
	}
	o := a.m[key]
	if o == nil {
		o = &outcome{Got: got, Err: err, Seg: append([]int{}, seg...)}
		a.m[key] = o
		a.order = append(a.order, key)
	}
	o.N++
	a.last = o
	for _, ms := range slow {
		if ms > o.SlowMs {
			o.SlowMs = ms
		}
	}
	o.Unstable += s.unstable
	o.Reused += s.reused
}

func (a *agg) list() []outcome {
	out := make([]outcome, 0, len(a.order))
	for _, k := range a.order {
		out = append(out, *a.m[k])
	}
	return out
}

func errClass(err error) string {
	if err == nil {
		return ""
	}
	s := err.Error()
	if len(s) > 80 {
		s = s[:80]
	}
	return s
}

// cutSets enumerates the cut sets of a case, calling f for each.
func cutSets(c *lcase, data []byte, bounds []int, rng *rand.Rand, f func(cuts []int)) {
	for _, mode := range c.Cuts {
		switch mode {
		case "whole":
			f(nil)
		case "all":
			// inner fragment boundaries (distinct, strictly inside)
			var in []int
			for _, b := range bounds {
				if b > 0 && b < len(data) && (len(in) == 0 || in[len(in)-1] != b) {
					in = append(in, b)
				}
			}
			if len(in) > 12 {
				in = in[:12]
			}
			for mask := 0; mask < 1<<uint(len(in)); mask++ {
				var cs []int
				for i, b := range in {
					if mask&(1<<uint(i)) != 0 {
						cs = append(cs, b)
					}
				}
				f(cs)
			}
		case "every":
			for i := 1; i < len(data); i++ {
				f([]int{i})
			}
		case "one":
			cs := make([]int, 0, len(data))
			for i := 1; i < len(data); i++ {
				cs = append(cs, i)
			}
			f(cs)
		case "rand":
			for k := 0; k < 4; k++ {
				var cs []int
				p := rng.Intn(3) + 1
				for i := 1; i < len(data); i++ {
					if rng.Intn(p+1) == 0 {
						cs = append(cs, i)
					}
				}
				f(cs)
			}
		case "list":
			for _, cs := range c.List {
				f(cs)
			}
		}
	}
}

func segments(data []byte, cuts []int) [][]byte {
	var out [][]byte
	prev := 0
	for _, c := range cuts {
		if c > prev && c < len(data) {
			out = append(out, data[prev:c])
			prev = c
		}
	}
	out = append(out, data[prev:])
	return out
}

const deadline = 120 * time.Second

func TestLines(t *testing.T) {
	out := hx.Out(t)
	in := os.Getenv("VERIF_C12_CASES")
	raws, err := hx.ReadLines(in)
	if err != nil {
		t.Fatalf("cases: %v", err)
	}
	lg := hx.NewLog(os.Getenv("VERIF_C12_RESULT"))
	defer lg.Close()
	prog := hx.NewLog(filepath.Join(out, "inputs_progress.ndjson"))
	prog.Unbuffered = true
	defer prog.Close()
	rng := rand.New(rand.NewSource(hx.Seed()))

	// the real listener (TCP + UDP) with the real Plain handler, no read timeout
	lcap := &capture{}
	connDone := make(chan struct{}, 64)
	dataDone := make(chan struct{}, 64)
	mkListener := func(cp *capture, rt time.Duration) (*input.Listener, net.Addr, net.Addr) {
		l := input.NewListener("127.0.0.1:0", rt, input.NewPlain(cp))
		hc, hd := l.HandleConn, l.HandleData
		l.HandleConn = func(l *input.Listener, c net.Conn) { hc(l, c); connDone <- struct{}{} }
		l.HandleData = func(l *input.Listener, d []byte, src net.Addr) { hd(l, d, src); dataDone <- struct{}{} }
		if err := l.Start(); err != nil {
			t.Fatalf("listener: %v", err)
		}
		ta, ua := l.VerifAddrs()
		return l, ta, ua
	}
	lis, tcpAddr, udpAddr := mkListener(lcap, 0)
	defer lis.Stop()
	tcap := &capture{}
	const readTimeout = 250 * time.Millisecond
	tlis, ttcpAddr, _ := mkListener(tcap, readTimeout)
	defer tlis.Stop()
	udpConn, err := net.DialUDP("udp", nil, udpAddr.(*net.UDPAddr))
	if err != nil {
		t.Fatalf("udp dial: %v", err)
	}
	defer udpConn.Close()

	// the real AMQP consume loop behind the mock connector
	acap := &capture{}
	am, push := input.VerifNewMockAMQP(cfg.Config{}, acap)
	am.Start()
	defer am.Stop()

	wait := func(ch chan struct{}, what string, id int) bool {
		select {
		case <-ch:
			return true
		case <-time.After(deadline):
			lg.Emit(map[string]interface{}{"ev": "deadline", "what": what, "id": id})
			return false
		}
	}

	for _, raw := range raws {
		var c lcase
		if err := json.Unmarshal(raw, &c); err != nil {
			t.Fatalf("case: %v", err)
		}
		var data []byte
		bounds := []int{0}
		for _, fh := range c.Frags {
			b, err := hex.DecodeString(fh)
			if err != nil {
				t.Fatalf("frag: %v", err)
			}
			data = append(data, b...)
			bounds = append(bounds, len(data))
		}
		var tail []byte
		for _, fh := range c.Tail {
			b, err := hex.DecodeString(fh)
			if err != nil {
				t.Fatalf("tail: %v", err)
			}
			tail = append(tail, b...)
		}
		for _, tr := range c.Trans {
			switch tr {
			case "plain":
				for _, term := range c.Terms {
					a := newAgg()
					cp := &capture{}
					h := input.NewPlain(cp)
					isTmo := term == "timeout" || term == "datatimeout"
					cutSets(&c, data, bounds, rng, func(cuts []int) {
						d := append([]byte{}, data...) // the handler gets its own copy of the stream
						cr := &chunkReader{data: d, cuts: cuts, term: term}
						if isTmo && len(tail) > 0 {
							cr.tail = append([]byte{}, tail...)
						}
						err := h.Handle(cr)
						a.add(cp.take(), errClass(err), cuts)
						a.cont(cr.tail != nil, cr.afterErr, cr.tailRead)
					})
					lg.Emit(lresult{"res", c.ID, tr, term, a.runs, a.list()})
				}
			case "tcp", "tcptimeout":
				a := newAgg()
				cp, addr, term := lcap, tcpAddr, "eof"
				if tr == "tcptimeout" {
					cp, addr, term = tcap, ttcpAddr, "timeout"
				}
				dead := false
				cutSets(&c, data, bounds, rng, func(cuts []int) {
					if dead {
						return
					}
					prog.Emit(map[string]interface{}{"id": c.ID, "tr": tr, "cuts": len(cuts)})
					t0 := time.Now()
					conn, err := net.DialTCP("tcp", nil, addr.(*net.TCPAddr))
					if err != nil {
						lg.Emit(map[string]interface{}{"ev": "deadline", "what": "dial " + err.Error(), "id": c.ID})
						dead = true
						return
					}
					conn.SetNoDelay(true)
					werr := ""
					for _, seg := range segments(data, cuts) {
						if len(seg) == 0 {
							continue
						}
						if _, err := conn.Write(seg); err != nil {
							// the server ended the connection before the stream was complete: that is
							// behaviour of the handler, recorded with what it dispatched
							werr = "client write failed: connection closed by the server"
							break
						}
					}
					slow := int(time.Since(t0) / time.Millisecond)
					if tr == "tcp" {
						conn.Close()
					}
					ended, sent := false, 0
					if tr == "tcptimeout" && len(tail) > 0 && werr == "" {
						// the peer sends more after the server's read timeout must have struck.  A handler
						// that returned at the timeout has ended the connection by then (nothing is sent);
						// whatever the timing, the check accepts "stopped at the error" as well as "the whole
						// stream, no error in between", so this wait decides nothing but the detection power
						select {
						case <-connDone:
							ended = true
						case <-time.After(readTimeout * 3 / 2):
							if _, err := conn.Write(tail); err == nil {
								sent = 1
							}
							conn.Close()
						}
					}
					if !ended && !wait(connDone, tr, c.ID) {
						dead = true
					}
					conn.Close()
					a.add(cp.take(), werr, cuts, slow)
					a.cont(tr == "tcptimeout" && len(tail) > 0, sent, sent*len(tail))
				})
				lg.Emit(lresult{"res", c.ID, tr, term, a.runs, a.list()})
			case "udp":
				// one datagram = one stream
				a := newAgg()
				prog.Emit(map[string]interface{}{"id": c.ID, "tr": tr})
				if _, err := udpConn.Write(data); err != nil {
					lg.Emit(map[string]interface{}{"ev": "skip", "what": "udp write " + err.Error(), "id": c.ID, "len": len(data)})
					continue
				}
				if wait(dataDone, tr, c.ID) {
					a.add(lcap.take(), "", nil)
					lg.Emit(lresult{"res", c.ID, tr, "eof", a.runs, a.list()})
				}
			case "amqp":
				a := newAgg()
				prog.Emit(map[string]interface{}{"id": c.ID, "tr": tr})
				push(append([]byte{}, data...))
				push(nil) // barrier: taken only after the body above has been processed completely
				a.add(acap.take(), "", nil)
				lg.Emit(lresult{"res", c.ID, tr, "eof", a.runs, a.list()})
			}
		}
	}
	lg.Emit(map[string]interface{}{"ev": "end"})
}

// ---------------------------------------------------------------- C13

type pcase struct {
	ID     int    `json:"id"`
	Stream string `json:"stream"` // hex: the bytes of the pickle connection
	Cuts   []int  `json:"cuts"`
	Term   string `json:"term"`
	Text   string `json:"text"` // hex: the same datapoints as plain-text lines
}

type presult struct {
	Ev     string   `json:"ev"`
	ID     int      `json:"id"`
	Events []string `json:"events"` // "D<hex line>" | "I" in call order
	Err    string   `json:"err"`
	Plain  []string `json:"plain"`
	PErr   string   `json:"perr"`
	Unst   int      `json:"unstable"`
}

func TestPickle(t *testing.T) {
	out := hx.Out(t)
	raws, err := hx.ReadLines(os.Getenv("VERIF_C13_CASES"))
	if err != nil {
		t.Fatalf("cases: %v", err)
	}
	lg := hx.NewLog(os.Getenv("VERIF_C13_RESULT"))
	defer lg.Close()
	prog := hx.NewLog(filepath.Join(out, "pickle_progress.ndjson"))
	prog.Unbuffered = true
	defer prog.Close()
	for _, raw := range raws {
		var c pcase
		if err := json.Unmarshal(raw, &c); err != nil {
			t.Fatalf("case: %v", err)
		}
		stream, err1 := hex.DecodeString(c.Stream)
		text, err2 := hex.DecodeString(c.Text)
		if err1 != nil || err2 != nil {
			t.Fatalf("case %d: bad hex", c.ID)
		}
		prog.Emit(map[string]interface{}{"id": c.ID})
		cuts := append([]int{}, c.Cuts...)
		sort.Ints(cuts)
		cp := &capture{}
		err := input.NewPickle(cp).Handle(&chunkReader{data: stream, cuts: cuts, term: c.Term})
		s := cp.take()
		var evs []string
		li := 0
		for _, e := range s.events {
			if e == "D" {
				evs = append(evs, "D"+hex.EncodeToString(s.lines[li]))
				li++
			} else {
				evs = append(evs, e)
			}
		}
		pp := &capture{}
		perr := input.NewPlain(pp).Handle(&chunkReader{data: text, term: "eof"})
		ps := pp.take()
		plain := make([]string, len(ps.lines))
		for i, l := range ps.lines {
			plain[i] = hex.EncodeToString(l)
		}
		if evs == nil {
			evs = []string{}
		}
		lg.Emit(presult{"res", c.ID, evs, errClass(err), plain, errClass(perr), s.unstable + ps.unstable})
	}
	lg.Emit(map[string]interface{}{"ev": "end"})
}
