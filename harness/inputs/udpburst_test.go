//go:build verif
// +build verif

// C12, UDP under load: datagrams arrive faster than they are dispatched (the dispatcher is held inside the first
// line of the first datagram of a burst while the rest of the burst is sent).  Every datagram is a stream of its own:
// its lines are processed in order, each once, never mixed with another datagram.  The driver records; UdpBurstTrace.tla
// (BurstOK of UdpPipe.tla) decides.
package inputs

import (
	"fmt"
	"math/rand"
	"net"
	"os"
	"sync"
	"sync/atomic"
	"testing"
	"time"

	"verifharness/hx"

	"github.com/grafana/carbon-relay-ng/input"
)

type gateCap struct {
	mu      sync.Mutex
	lines   [][]byte
	armed   int32
	entered chan struct{}
	release chan struct{}
	invalid int
}

func (g *gateCap) Dispatch(buf []byte) {
	c := append([]byte{}, buf...)
	if atomic.CompareAndSwapInt32(&g.armed, 1, 0) {
		close(g.entered)
		<-g.release
	}
	g.mu.Lock()
	g.lines = append(g.lines, c)
	g.mu.Unlock()
}

func (g *gateCap) IncNumInvalid() { g.mu.Lock(); g.invalid++; g.mu.Unlock() }

func (g *gateCap) n() int { g.mu.Lock(); defer g.mu.Unlock(); return len(g.lines) }

func (g *gateCap) take() [][]byte {
	g.mu.Lock()
	defer g.mu.Unlock()
	l := g.lines
	g.lines = nil
	return l
}

func TestUDPBurst(t *testing.T) {
	hx.Out(t)
	lg := hx.NewLog(os.Getenv("VERIF_C12_BURST_RESULT"))
	defer lg.Close()
	nb := hx.EnvInt("VERIF_C12_BURSTS", 20)
	rng := rand.New(rand.NewSource(hx.Seed()*7919 + 12))
	g := &gateCap{}
	l := input.NewListener("127.0.0.1:0", 0, input.NewPlain(g))
	if err := l.Start(); err != nil {
		t.Fatalf("listener: %v", err)
	}
	defer l.Stop()
	_, ua := l.VerifAddrs()
	conn, err := net.DialUDP("udp", nil, ua.(*net.UDPAddr))
	if err != nil {
		t.Fatalf("udp dial: %v", err)
	}
	defer conn.Close()
	conn.SetWriteBuffer(1 << 20)
	tag := fmt.Sprintf("c12u%d", os.Getpid())
	for b := 0; b < nb; b++ {
		nd := 6 + rng.Intn(7)
		ids := map[string][2]int{}
		lens := make([]int, nd)
		dgrams := make([][]byte, nd)
		for k := 0; k < nd; k++ {
			// the first datagram is larger than the scanner's initial 4 KiB buffer, so that part of it is still
			// unscanned while the handler sits in its first line; the others vary from one line to several KiB
			nl := 1 + rng.Intn(12)
			if k == 0 || rng.Intn(3) == 0 {
				nl = 120 + rng.Intn(260)
			}
			lens[k] = nl
			var d []byte
			for j := 0; j < nl; j++ {
				ln := fmt.Sprintf("%s.b%d.d%d.l%d.%s %d %d", tag, b, k+1, j+1, pad(rng, rng.Intn(30)), rng.Intn(1000), 1500000000+j)
				ids[ln] = [2]int{k + 1, j + 1}
				d = append(d, ln...)
				if j < nl-1 || rng.Intn(2) == 0 {
					d = append(d, '\n')
				}
			}
			dgrams[k] = d
		}
		g.entered, g.release = make(chan struct{}), make(chan struct{})
		atomic.StoreInt32(&g.armed, 1)
		conn.Write(dgrams[0])
		held := true
		select {
		case <-g.entered:
		case <-time.After(5 * time.Second):
			held = false // the first datagram was lost on the way: nothing is held, the burst is still judged
			atomic.StoreInt32(&g.armed, 0)
		}
		for k := 1; k < nd; k++ {
			conn.Write(dgrams[k])
		}
		time.Sleep(time.Duration(20+rng.Intn(40)) * time.Millisecond) // room for a reader that runs ahead of the handler
		if held {
			close(g.release)
		}
		// barrier: sentinel datagrams until one is dispatched (one reader: everything before it has been handled)
		done := false
		for try := 0; try < 50 && !done; try++ {
			s := fmt.Sprintf("%s.b%d.sentinel%d 1 1500000000", tag, b, try)
			conn.Write([]byte(s + "\n"))
			for w := 0; w < 40 && !done; w++ {
				time.Sleep(5 * time.Millisecond)
				g.mu.Lock()
				for _, x := range g.lines {
					if len(x) > len(tag)+4 && string(x) == s {
						done = true
					}
				}
				g.mu.Unlock()
			}
		}
		got := [][2]int{}
		foreign := []string{}
		for _, x := range g.take() {
			if id, ok := ids[string(x)]; ok {
				got = append(got, id)
			} else if !isSentinel(string(x)) {
				got = append(got, [2]int{0, 0})
				if len(foreign) < 3 {
					s := string(x)
					if len(s) > 160 {
						s = s[:160]
					}
					foreign = append(foreign, s)
				}
			}
		}
		lg.Emit(map[string]interface{}{"ev": "burst", "b": b, "lens": lens, "got": got, "held": held, "barrier": done,
			"first_bytes": len(dgrams[0]), "foreign": foreign})
	}
	lg.Emit(map[string]interface{}{"ev": "end"})
}

func isSentinel(s string) bool {
	for i := 0; i+8 <= len(s); i++ {
		if s[i:i+8] == "sentinel" {
			return true
		}
	}
	return false
}

func pad(rng *rand.Rand, n int) string {
	b := make([]byte, n+1)
	for i := range b {
		b[i] = byte('a' + rng.Intn(26))
	}
	return string(b)
}
