// Package spoolx drives the real destination.Spool (Writer / Buffer / SlowChan goroutines on top of
// the real nsqd.DiskQueue) for the extension check XSPOOL: what a relay restart does to a spool.
//
// One history = one run of a spool on a fresh directory: lines with unique ids are sent into InRT
// (without blocking, as the relay loop does) and through Ingest (InBulk), lines are received from Out,
// the Writer and Buffer goroutines can be parked in their hooks (gates).  Every hook of the queue is a
// crash point of the process: the directory is copied there.  Afterwards NewSpool is started on a copy
// of every distinct snapshot (= the restart of the relay), one sentinel line is sent into it and Out is
// drained up to the sentinel.
//
// The driver only records; spec/SpoolTrace.tla decides every event and every recovery.
package spoolx

import (
	"encoding/json"
	"fmt"
	"io/ioutil"
	stdlog "log"
	"os"
	"path/filepath"
	"sort"
	"strconv"
	"strings"
	"sync"
	"sync/atomic"
	"testing"
	"time"

	"verifharness/hx"

	"github.com/grafana/carbon-relay-ng/destination"
	"github.com/grafana/carbon-relay-ng/nsqd"
	logrus "github.com/sirupsen/logrus"
)

const spoolKey = "xspool"
const queueName = "spool_" + spoolKey
const sentinelID = 1 << 20
const patience = 20 * time.Second

type op struct {
	Op string `json:"op"` // rt | bulk | recv | settle | gw | gb
	N  int    `json:"n"`  // bulk: number of lines
	On bool   `json:"on"` // gw / gb
}

type history struct {
	H         int   `json:"h"`
	BufSize   int   `json:"bufsize"`
	MaxBytes  int64 `json:"maxbytes"`
	SyncEvery int64 `json:"syncevery"`
	Ops       []op  `json:"ops"`
}

func line(h, id int) []byte {
	return []byte(fmt.Sprintf("xspool.h%d.l%d %d 1500000000", h, id, id))
}

// identify returns the id of a delivered line (0 = not a line of this history, or altered)
func identify(h int, b []byte) int {
	s := string(b)
	pre := fmt.Sprintf("xspool.h%d.l", h)
	if !strings.HasPrefix(s, pre) {
		return 0
	}
	rest := s[len(pre):]
	i := strings.IndexByte(rest, ' ')
	if i <= 0 {
		return 0
	}
	id, err := strconv.Atoi(rest[:i])
	if err != nil || id <= 0 || string(line(h, id)) != s {
		return 0
	}
	return id
}

// ---------------------------------------------------------------- directory snapshots
type fsState struct{ files map[string][]byte }

func readFS(dir string) fsState {
	st := fsState{files: map[string][]byte{}}
	ents, _ := ioutil.ReadDir(dir)
	for _, e := range ents {
		b, err := ioutil.ReadFile(filepath.Join(dir, e.Name()))
		if err == nil {
			st.files[e.Name()] = b
		}
	}
	return st
}

func (s fsState) key() string {
	names := make([]string, 0, len(s.files))
	for n := range s.files {
		names = append(names, n)
	}
	sort.Strings(names)
	var sb strings.Builder
	for _, n := range names {
		fmt.Fprintf(&sb, "%s:%d:%x|", n, len(s.files[n]), s.files[n])
	}
	return sb.String()
}

func (s fsState) write(dir string) {
	os.MkdirAll(dir, 0755)
	for n, b := range s.files {
		if err := ioutil.WriteFile(filepath.Join(dir, n), b, 0600); err != nil {
			panic(err)
		}
	}
}

type marks struct{ N, C, WS, CS, Out int }

type snapshot struct {
	fs    fsState
	m     marks
	label string
	evIdx int
}

type recResult struct {
	D        []int
	Sentinel bool
	Hang     bool
	Extra    int
	Skipped  bool
}

// ---------------------------------------------------------------- recorder
type recorder struct {
	mu     sync.Mutex
	cond   *sync.Cond
	h      *history
	dir    string
	sp     *destination.Spool
	events []map[string]interface{}
	snaps  []*snapshot
	m      marks
	sentRT int // lines whose non-blocking send into InRT succeeded
	bulkN  int // lines handed to Ingest so far
	accN   int
	putN   int
	doneN  int
	unfilled []int // indices of put events whose line id is not known yet
	gateW, gateB bool
	dead   bool
}

var hookMu sync.Mutex
var curRec *recorder

func current() *recorder {
	hookMu.Lock()
	r := curRec
	hookMu.Unlock()
	return r
}

func setRec(r *recorder) {
	hookMu.Lock()
	curRec = r
	hookMu.Unlock()
}

func init() {
	nsqd.VerifHook = func(d *nsqd.DiskQueue, label string) {
		if r := current(); r != nil && d.VerifName() == queueName {
			r.queueHook(label)
		}
	}
	destination.VerifSetHook(func(name string, args ...interface{}) {
		if !strings.HasPrefix(name, "spool.") || len(args) < 3 {
			return
		}
		r := current()
		if r == nil {
			return
		}
		sp, _ := args[1].(*destination.Spool)
		buf, _ := args[2].([]byte)
		r.mu.Lock()
		mine := sp != nil && sp == r.sp
		r.mu.Unlock()
		if mine {
			r.spoolHook(name, buf)
		}
	})
}

// queue hooks run in the goroutine that owns the queue files (ioLoop): the directory is stable here
func (r *recorder) queueHook(label string) {
	r.mu.Lock()
	defer r.mu.Unlock()
	switch label {
	case "w_write":
		r.m.N++
		r.putN++
		r.events = append(r.events, map[string]interface{}{"ev": "put", "id": 0})
		r.unfilled = append(r.unfilled, len(r.events)-1)
	case "take":
		r.m.C++
		r.events = append(r.events, map[string]interface{}{"ev": "take"})
	case "m_rename":
		r.m.WS, r.m.CS = r.m.N, r.m.C
		r.events = append(r.events, map[string]interface{}{"ev": "sync"})
	case "w_pos", "w_roll":
		return // memory only: same files, same marks as the hook before
	}
	rec := map[string]interface{}{"ev": "rec", "label": label}
	r.events = append(r.events, rec)
	r.snaps = append(r.snaps, &snapshot{fs: readFS(r.dir), m: r.m, label: label, evIdx: len(r.events) - 1})
}

func (r *recorder) spoolHook(name string, buf []byte) {
	id := identify(r.h.H, buf)
	r.mu.Lock()
	switch name {
	case "spool.rt", "spool.bulk":
		r.accN++
		r.events = append(r.events, map[string]interface{}{"ev": "acc", "id": id, "path": name[6:]})
		for r.gateW && !r.dead {
			r.cond.Wait() // the Writer is parked holding the line, before s.queueBuffer <- buf
		}
	case "spool.put":
		r.doneN++
		if len(r.unfilled) > 0 {
			// Put is synchronous and the Buffer goroutine is the only caller: this is the line of the
			// oldest write that has no id yet
			r.events[r.unfilled[0]]["id"] = id
			r.unfilled = r.unfilled[1:]
		}
		r.events = append(r.events, map[string]interface{}{"ev": "putdone", "id": id})
		for r.gateB && !r.dead {
			r.cond.Wait() // the Buffer goroutine is parked after Put returned
		}
	}
	r.mu.Unlock()
}

func (r *recorder) emit(ev map[string]interface{}) {
	r.mu.Lock()
	r.events = append(r.events, ev)
	r.mu.Unlock()
}

// wait polls an observable condition (under the lock) with a generous deadline
func (r *recorder) wait(cond func() bool) bool {
	deadline := time.Now().Add(patience)
	for {
		r.mu.Lock()
		ok := cond()
		r.mu.Unlock()
		if ok {
			return true
		}
		if time.Now().After(deadline) {
			return false
		}
		time.Sleep(20 * time.Microsecond)
	}
}

func minInt(a, b int) int {
	if a < b {
		return a
	}
	return b
}

// record runs one history on a real spool.
func record(h *history, dir string) *recorder {
	os.RemoveAll(dir)
	os.MkdirAll(dir, 0755)
	r := &recorder{h: h, dir: dir}
	r.cond = sync.NewCond(&r.mu)
	setRec(r)
	sp := destination.NewSpool(spoolKey, dir, h.BufSize, h.MaxBytes, h.SyncEvery, time.Hour, 0, 0)
	r.mu.Lock()
	r.sp = sp
	r.mu.Unlock()
	next := 0
	var bulkDone chan struct{}
	joinBulk := func() bool {
		if bulkDone == nil {
			return true
		}
		select {
		case <-bulkDone:
			bulkDone = nil
			return true
		case <-time.After(patience):
			r.emit(map[string]interface{}{"ev": "hang", "in": "ingest"})
			return false
		}
	}
	gates := func(w, b bool, setW, setB bool) {
		r.mu.Lock()
		if setW {
			r.gateW = w
		}
		if setB {
			r.gateB = b
		}
		r.cond.Broadcast()
		r.mu.Unlock()
	}
	settle := func() bool {
		gates(false, false, true, true)
		if !joinBulk() {
			return false
		}
		ok := r.wait(func() bool {
			return r.accN == r.sentRT+r.bulkN && r.doneN == r.accN && r.putN == r.doneN &&
				r.m.C == minInt(r.putN, r.m.Out+1)
		})
		if !ok {
			r.mu.Lock()
			st := fmt.Sprintf("sent=%d bulk=%d acc=%d put=%d done=%d take=%d out=%d", r.sentRT, r.bulkN, r.accN, r.putN, r.doneN, r.m.C, r.m.Out)
			r.mu.Unlock()
			r.emit(map[string]interface{}{"ev": "hang", "in": "settle", "st": st})
		}
		return ok
	}
	finish := func() *recorder {
		r.mu.Lock()
		r.dead = true
		r.gateW, r.gateB = false, false
		r.cond.Broadcast()
		r.mu.Unlock()
		setRec(nil) // a relay never closes its spools; what Close does is not part of the recorded run
		done := make(chan struct{})
		go func() { sp.Close(); close(done) }()
		select {
		case <-done:
		case <-time.After(patience):
		}
		return r
	}
	for _, o := range h.Ops {
		switch o.Op {
		case "rt":
			next++
			buf := line(h.H, next)
			r.mu.Lock()
			select {
			case sp.InRT <- buf:
				r.sentRT++
				r.events = append(r.events, map[string]interface{}{"ev": "sendrt", "id": next})
			default:
				r.events = append(r.events, map[string]interface{}{"ev": "rtfull", "id": next})
			}
			r.mu.Unlock()
		case "bulk":
			if !joinBulk() {
				return finish()
			}
			var bufs [][]byte
			for i := 0; i < o.N; i++ {
				next++
				bufs = append(bufs, line(h.H, next))
			}
			r.mu.Lock()
			r.bulkN += o.N
			r.mu.Unlock()
			bulkDone = make(chan struct{})
			go func(c chan struct{}) { sp.Ingest(bufs); close(c) }(bulkDone)
		case "recv":
			// the receive and its record are one step with respect to the queue hooks: the next
			// "take" cannot be recorded in between
			got := false
			deadline := time.Now().Add(patience)
			for !got {
				r.mu.Lock()
				if r.m.C > r.m.Out {
					select {
					case v := <-sp.Out:
						r.m.Out++
						r.events = append(r.events, map[string]interface{}{"ev": "out", "id": identify(h.H, v)})
						got = true
					default:
					}
				}
				r.mu.Unlock()
				if !got {
					if time.Now().After(deadline) {
						r.emit(map[string]interface{}{"ev": "hang", "in": "recv"})
						return finish()
					}
					time.Sleep(20 * time.Microsecond)
				}
			}
		case "settle":
			if !settle() {
				return finish()
			}
		case "gw":
			gates(o.On, false, true, false)
		case "gb":
			gates(false, o.On, false, true)
		}
	}
	settle()
	return finish()
}

var hungRecoveries int32

// recoverSnapshot is the relay restart: NewSpool on the files the dead process left behind.
func recoverSnapshot(dir string, h *history, s *snapshot) (res recResult) {
	os.RemoveAll(dir)
	s.fs.write(dir)
	defer os.RemoveAll(dir)
	sp := destination.NewSpool(spoolKey, dir, h.BufSize, h.MaxBytes, h.SyncEvery, time.Hour, 0, 0)
	sp.InRT <- line(h.H, sentinelID)
	deadline := time.After(patience)
loop:
	for {
		select {
		case v := <-sp.Out:
			id := identify(h.H, v)
			if id == sentinelID {
				res.Sentinel = true
				break loop
			}
			res.D = append(res.D, id)
			if len(res.D) > 10000 {
				res.Hang = true
				break loop
			}
		case <-deadline:
			res.Hang = true
			break loop
		}
	}
	if res.Sentinel {
		select {
		case <-sp.Out:
			res.Extra++
		case <-time.After(2 * time.Millisecond):
		}
	}
	done := make(chan struct{})
	go func() { sp.Close(); close(done) }()
	select {
	case <-done:
	case <-time.After(patience):
		res.Hang = true
	}
	return res
}

func loadHistories(t *testing.T, path string) []*history {
	lines, err := hx.ReadLines(path)
	if err != nil {
		t.Fatalf("histories: %v", err)
	}
	var hs []*history
	for _, l := range lines {
		h := &history{}
		if err := json.Unmarshal(l, h); err != nil {
			t.Fatalf("history: %v", err)
		}
		hs = append(hs, h)
	}
	return hs
}

// TestSpoolX: VERIF_SPOOLX_HIST = histories file, VERIF_SPOOLX_TRACE = output trace file.
func TestSpoolX(t *testing.T) {
	out := hx.Out(t)
	hs := loadHistories(t, os.Getenv("VERIF_SPOOLX_HIST"))
	log := hx.NewLog(os.Getenv("VERIF_SPOOLX_TRACE"))
	defer log.Close()
	progress := hx.NewLog(filepath.Join(out, "spoolx_progress.ndjson"))
	progress.Unbuffered = true
	defer progress.Close()
	stdlog.SetOutput(ioutil.Discard)
	logrus.SetOutput(ioutil.Discard)
	work := filepath.Join(out, "spoolxwork")
	if st, err := os.Stat(hx.ShmBase()); err == nil && st.IsDir() {
		if d, err := ioutil.TempDir(hx.ShmBase(), "verif-spoolx-"); err == nil {
			work = d
		}
	}
	defer os.RemoveAll(work)
	nworkers := hx.EnvInt("VERIF_SPOOLX_WORKERS", 8)
	nrec, nuniq, nhung := 0, 0, 0
	const chunk = 64
	for base := 0; base < len(hs); base += chunk {
		end := base + chunk
		if end > len(hs) {
			end = len(hs)
		}
		recs := make([]*recorder, end-base)
		for i := base; i < end; i++ {
			if nhung >= 5 {
				recs[i-base] = &recorder{events: []map[string]interface{}{{"ev": "skipped"}}}
				continue
			}
			progress.Emit(map[string]interface{}{"recording": hs[i].H})
			recs[i-base] = record(hs[i], filepath.Join(work, "rec"))
			for _, ev := range recs[i-base].events {
				if ev["ev"] == "hang" {
					nhung++
					break
				}
			}
		}
		type job struct {
			h *history
			s *snapshot
			k string
		}
		key := func(h *history, s *snapshot) string {
			return fmt.Sprintf("%d/%d/%d/%d/%s", h.H, h.BufSize, h.MaxBytes, h.SyncEvery, s.fs.key())
		}
		results := map[string]*recResult{}
		var jobs []job
		for i, r := range recs {
			for _, s := range r.snaps {
				k := key(hs[base+i], s)
				if _, ok := results[k]; !ok {
					results[k] = nil
					jobs = append(jobs, job{hs[base+i], s, k})
				}
			}
		}
		var mu sync.Mutex
		var wg sync.WaitGroup
		ch := make(chan job)
		for w := 0; w < nworkers; w++ {
			wg.Add(1)
			go func(w int) {
				defer wg.Done()
				for j := range ch {
					if atomic.LoadInt32(&hungRecoveries) >= 8 {
						mu.Lock()
						results[j.k] = &recResult{Skipped: true}
						mu.Unlock()
						continue
					}
					progress.Emit(map[string]interface{}{"recovering": j.h.H, "label": j.s.label, "marks": j.s.m})
					res := recoverSnapshot(filepath.Join(work, fmt.Sprintf("w%d", w)), j.h, j.s)
					if res.Hang {
						atomic.AddInt32(&hungRecoveries, 1)
					}
					mu.Lock()
					results[j.k] = &res
					mu.Unlock()
				}
			}(w)
		}
		for _, j := range jobs {
			ch <- j
		}
		close(ch)
		wg.Wait()
		nuniq += len(jobs)
		for i, r := range recs {
			h := hs[base+i]
			for _, s := range r.snaps {
				res := results[key(h, s)]
				ev := r.events[s.evIdx]
				d := res.D
				if d == nil {
					d = []int{}
				}
				ev["D"] = d
				ev["sentinel"] = res.Sentinel
				ev["hang"] = res.Hang
				ev["extra"] = res.Extra
				ev["skipped"] = res.Skipped
				ev["m"] = []int{s.m.N, s.m.C, s.m.WS, s.m.CS, s.m.Out}
				nrec++
			}
			log.Emit(map[string]interface{}{"ev": "hist", "h": h.H, "bufsize": h.BufSize, "maxbytes": h.MaxBytes, "syncevery": h.SyncEvery})
			for _, ev := range r.events {
				log.Emit(ev)
			}
		}
	}
	log.Emit(map[string]interface{}{"ev": "end", "histories": len(hs), "recoveries": nrec, "distinct_recoveries": nuniq})
}
