// Package c05 drives the real code for property C05 (a healthy carbon
// connection carries the lines in order, once, unbroken).
//
//	TestC05Writer  replays TLC-generated behaviours of spec/BufWriter.tla on the
//	               exported destination.Writer API with a recording io.Writer that
//	               answers as the behaviour's script says (errors, short writes).
//	TestC05E2E     runs real routes/destinations against a loopback TCP endpoint
//	               and records what was handed off, what the endpoint received
//	               (raw bytes) and the counter deltas.
//
// The driver only records.  Verdicts are taken by the check (checks/c05.py) from
// the expectation computed by TLC (replay) and by TLC on spec/ConnStreamTrace.tla
// and spec/BufWriterTrace.tla (traces).
package c05

import (
	"encoding/binary"
	"encoding/json"
	"errors"
	"fmt"
	"io"
	"io/ioutil"
	"math/rand"
	"net"
	"os"
	"path/filepath"
	"runtime"
	"sync"
	"sync/atomic"
	"testing"
	"time"

	"verifharness/hx"

	"github.com/grafana/carbon-relay-ng/destination"
	"github.com/grafana/carbon-relay-ng/matcher"
	"github.com/grafana/carbon-relay-ng/route"
	"github.com/grafana/carbon-relay-ng/stats"
	"github.com/sirupsen/logrus"
)

// ------------------------------------------------------------------ Writer

type outcome struct {
	K int    `json:"k"`
	E string `json:"e"`
}

type call struct {
	Op     string    `json:"op"` // "w" | "f"
	Len    int       `json:"len"`
	First  int       `json:"first"` // number of the first byte of the argument
	Script []outcome `json:"script"`
}

type behaviour struct {
	H     int    `json:"h"`
	B     int    `json:"B"`
	Calls []call `json:"calls"`
}

var errInjected = errors.New("injected")

const byteMod = 251

type ucall struct {
	Len  int    `json:"len"`
	K    int    `json:"k"`
	E    string `json:"e"`
	Data []int  `json:"data"`
}

// recWriter is the underlying io.Writer: it answers each call with the next
// scripted outcome (default: take everything) and records the call.
type recWriter struct {
	wire   []byte
	script []outcome
	pos    int
	calls  []ucall
}

func (r *recWriter) Write(p []byte) (int, error) {
	o := outcome{K: len(p)}
	if r.pos < len(r.script) {
		o = r.script[r.pos]
		r.pos++
	}
	k := o.K
	if k > len(p) {
		k = len(p)
	}
	if k < 0 {
		k = 0
	}
	r.wire = append(r.wire, p[:k]...)
	d := make([]int, len(p))
	for i, c := range p {
		d[i] = int(c)
	}
	r.calls = append(r.calls, ucall{Len: len(p), K: k, E: o.E, Data: d})
	if o.E != "" {
		return k, errInjected
	}
	return k, nil
}

func errName(err error) string {
	switch err {
	case nil:
		return ""
	case errInjected:
		return "E"
	case io.ErrShortWrite:
		return "short"
	}
	return "other:" + err.Error()
}

type retRec struct {
	NN       int     `json:"nn"`
	Err      string  `json:"err"`
	Buffered int     `json:"buffered"`
	Avail    int     `json:"avail"`
	Wire     []int   `json:"wire"`
	U        []ucall `json:"u"`
}

type behaviourRec struct {
	H    int      `json:"h"`
	B    int      `json:"B"`
	Rets []retRec `json:"rets"`
}

func TestC05Writer(t *testing.T) {
	out := hx.Out(t)
	in := os.Getenv("VERIF_C05_BEH")
	lines, err := hx.ReadLines(in)
	if err != nil {
		t.Fatal(err)
	}
	log := hx.NewLog(filepath.Join(out, os.Getenv("VERIF_C05_BEH_OUT")))
	defer log.Close()
	progress := hx.NewLog(filepath.Join(out, "c05_writer_progress.ndjson"))
	progress.Unbuffered = true
	defer progress.Close()
	for _, raw := range lines {
		var b behaviour
		if err := json.Unmarshal(raw, &b); err != nil {
			t.Fatal(err)
		}
		progress.Emit(map[string]int{"h": b.H})
		rw := &recWriter{}
		w := destination.NewWriter(rw, b.B, "c05w")
		rec := behaviourRec{H: b.H, B: b.B}
		consumed := 0
		for _, c := range b.Calls {
			rw.script, rw.pos, rw.calls = c.Script, 0, []ucall{}
			var nn int
			var err error
			if c.Op == "w" {
				first := c.First
				if first < 0 { // number the bytes from the first one not yet consumed
					first = consumed + 1
				}
				p := make([]byte, c.Len)
				for i := range p {
					p[i] = byte((first + i) % byteMod)
				}
				nn, err = w.Write(p)
				consumed += nn
			} else {
				err = w.Flush()
			}
			wire := make([]int, len(rw.wire))
			for i, x := range rw.wire {
				wire[i] = int(x)
			}
			rec.Rets = append(rec.Rets, retRec{NN: nn, Err: errName(err), Buffered: w.Buffered(), Avail: w.Available(), Wire: wire, U: rw.calls})
		}
		log.Emit(rec)
	}
}

// ------------------------------------------------------------------- E2E

type runCfg struct {
	R        int   `json:"r"`
	IOBuf    int   `json:"iobuf"`
	ConnBuf  int   `json:"connbuf"`
	FlushMs  int   `json:"flushms"`
	Pickle   bool  `json:"pickle"`
	N        int   `json:"n"`
	Lens     []int `json:"lens"`
	BurstMax int   `json:"burst"`    // lines handed back to back
	PauseUs  int   `json:"pauseus"`  // max pause between bursts (scheduling diversity only)
	ManFlush int   `json:"manflush"` // every that many bursts call route.Flush() (0 = never)
}

const alpha = "0123456789ABCDEFGHIJKLMNOPQRSTUVWXYZabcdefghijklmnopqrstuvwxyz"

// MetricMin is the shortest length at which a line has the shape "<name> <val> <ts>".
const MetricMin = 24

// mkLine builds line number seq (1-based) of length L >= 5: five base-62 digits of
// seq followed by filler that depends on seq and the position; from MetricMin
// bytes on the line is a well-formed datapoint.
func mkLine(seq, L int) []byte {
	suffix := ""
	if L >= MetricMin {
		suffix = fmt.Sprintf(" %d.5 %d", seq%1000, 1500000000+seq)
	}
	b := make([]byte, 0, L)
	x := seq
	var id [5]byte
	for i := 4; i >= 0; i-- {
		id[i] = alpha[x%62]
		x /= 62
	}
	b = append(b, id[:]...)
	for j := 5; j < L-len(suffix); j++ {
		b = append(b, alpha[(seq*31+j*7)%62])
	}
	b = append(b, suffix...)
	return b
}

type endpoint struct {
	ln    net.Listener
	mu    sync.Mutex
	conns []net.Conn // every accepted conn stays referenced
	data  [][]byte
	eof   []bool
	units int64 // lines (plain) or frames (pickle) seen so far, for quiescence polling only
	pick  bool
	wg    sync.WaitGroup
}

func newEndpoint(pickle bool) (*endpoint, error) {
	ln, err := net.Listen("tcp", "127.0.0.1:0")
	if err != nil {
		return nil, err
	}
	e := &endpoint{ln: ln, pick: pickle}
	go func() {
		for {
			c, err := ln.Accept()
			if err != nil {
				return
			}
			e.mu.Lock()
			idx := len(e.conns)
			e.conns = append(e.conns, c)
			e.data = append(e.data, nil)
			e.eof = append(e.eof, false)
			e.mu.Unlock()
			e.wg.Add(1)
			go e.read(c, idx)
		}
	}()
	return e, nil
}

func (e *endpoint) read(c net.Conn, idx int) {
	defer e.wg.Done()
	buf := make([]byte, 64*1024)
	off := 0 // pickle framing offset (counting only)
	for {
		n, err := c.Read(buf)
		if n > 0 {
			e.mu.Lock()
			e.data[idx] = append(e.data[idx], buf[:n]...)
			d := e.data[idx]
			e.mu.Unlock()
			if e.pick {
				for len(d)-off >= 4 {
					l := int(binary.BigEndian.Uint32(d[off : off+4]))
					if l < 0 || len(d)-off-4 < l {
						break
					}
					off += 4 + l
					atomic.AddInt64(&e.units, 1)
				}
			} else {
				k := 0
				for _, ch := range buf[:n] {
					if ch == '\n' {
						k++
					}
				}
				atomic.AddInt64(&e.units, int64(k))
			}
		}
		if err != nil {
			e.mu.Lock()
			e.eof[idx] = true
			e.mu.Unlock()
			return
		}
	}
}

func counter(key, what string) int64 {
	return stats.Counter("dest=" + key + "." + what).Count()
}

type runRec struct {
	Ev         string     `json:"ev"`
	Cfg        runCfg     `json:"cfg"`
	Key        string     `json:"key"`
	Online     bool       `json:"online"`
	Handed     int        `json:"handed"`
	Slow       int64      `json:"slow"`
	Out        int64      `json:"out"`
	ConnDown   int64      `json:"conndown"`
	ErrWrite   int64      `json:"errwrite"`
	ErrTrunc   int64      `json:"errtrunc"`
	BadPickle  int64      `json:"badpickle"`
	Conns      int        `json:"conns"`
	Stalled    bool       `json:"stalled"`    // received + slow_conn never reached handed
	UnitsAtQ   int64      `json:"units_at_q"` // units seen when polling ended
	SlowAtQ    int64      `json:"slow_at_q"`
	ShutdownOK bool       `json:"shutdown_ok"`
	EOFOK      bool       `json:"eof_ok"`
	LinesFile  string     `json:"lines_file"`
	WireFiles  []string   `json:"wire_files"`
	WaitMs     int64      `json:"wait_ms"`
	OnlineMs   int64      `json:"online_ms"`
	SendMs     int64      `json:"send_ms"`
	Progress   [][4]int64 `json:"progress"` // while waiting for quiescence: ms, units, slow_conn, out (diagnostics)
}

func TestC05E2E(t *testing.T) {
	out := hx.Out(t)
	raws, err := hx.ReadLines(os.Getenv("VERIF_C05_RUNS"))
	if err != nil {
		t.Fatal(err)
	}
	logrus.SetOutput(ioutil.Discard)
	logrus.SetLevel(logrus.ErrorLevel)
	log := hx.NewLog(filepath.Join(out, "c05_e2e.ndjson"))
	log.Unbuffered = true
	defer log.Close()
	deadline := time.Duration(hx.EnvInt("VERIF_C05_DEADLINE_S", 60)) * time.Second
	par := hx.EnvInt("VERIF_C05_PAR", 2)
	var cfgs []runCfg
	for _, raw := range raws {
		var c runCfg
		if err := json.Unmarshal(raw, &c); err != nil {
			t.Fatal(err)
		}
		cfgs = append(cfgs, c)
	}
	sem := make(chan struct{}, par)
	var wg sync.WaitGroup
	for _, c := range cfgs {
		wg.Add(1)
		sem <- struct{}{}
		go func(c runCfg) {
			defer wg.Done()
			defer func() { <-sem }()
			log.Emit(oneRun(out, c, deadline))
		}(c)
	}
	wg.Wait()
}

func oneRun(out string, c runCfg, deadline time.Duration) runRec {
	rec := runRec{Ev: "run", Cfg: c}
	rng := rand.New(rand.NewSource(hx.Seed()*1000003 + int64(c.R)))
	ep, err := newEndpoint(c.Pickle)
	if err != nil {
		rec.Ev = "machinery"
		return rec
	}
	addr := ep.ln.Addr().String()
	routeKey := fmt.Sprintf("c05s%dr%dp%d", hx.Seed(), c.R, os.Getpid())
	m, _ := matcher.New("", "", "", "", "", "")
	dest, err := destination.New(routeKey, m, addr, "", false, c.Pickle,
		time.Duration(c.FlushMs)*time.Millisecond, 10*time.Second, c.ConnBuf, c.IOBuf,
		10, 1000, 1000, time.Second, time.Millisecond, time.Millisecond)
	if err != nil {
		rec.Ev = "machinery"
		return rec
	}
	rt, err := route.NewSendAllMatch(routeKey, m, []*destination.Destination{dest})
	if err != nil {
		rec.Ev = "machinery"
		return rec
	}
	key := dest.Key
	rec.Key = key
	// wait until the relay has its connection (observed, not assumed)
	t0 := time.Now()
	for time.Since(t0) < 10*deadline {
		if dest.Snapshot().Online {
			rec.Online = true
			break
		}
		time.Sleep(time.Millisecond)
	}
	rec.OnlineMs = time.Since(t0).Milliseconds()
	slow0 := counter(key, "unit=Metric.action=drop.reason=slow_conn")
	out0 := counter(key, "unit=Metric.direction=out")
	down0 := counter(key, "unit=Metric.action=drop.reason=conn_down_no_spool")
	ew0 := counter(key, "unit=Err.type=write")
	et0 := counter(key, "unit=Err.type=truncated")
	bp0 := counter(key, "unit=Metric.action=drop.reason=bad_pickle")

	linesFile := filepath.Join(out, fmt.Sprintf("c05_lines_r%d.txt", c.R))
	lf, _ := os.Create(linesFile)
	rec.LinesFile = linesFile
	handed := 0
	tSend := time.Now()
	if rec.Online {
		bursts := 0
		for handed < c.N {
			b := 1 + rng.Intn(c.BurstMax)
			for i := 0; i < b && handed < c.N; i++ {
				L := c.Lens[rng.Intn(len(c.Lens))]
				line := mkLine(handed+1, L) // fresh buffer per line: the relay keeps references
				lf.Write(line)
				lf.Write([]byte{'\n'})
				rt.Dispatch(line)
				handed++ // HandOff: after `dest.In <- buf` returned
			}
			bursts++
			if c.ManFlush > 0 && bursts%c.ManFlush == 0 {
				rt.Flush()
			}
			switch rng.Intn(4) {
			case 0:
				runtime.Gosched()
			case 1, 2:
				if c.PauseUs > 0 {
					time.Sleep(time.Duration(rng.Intn(c.PauseUs)+1) * time.Microsecond)
				}
			}
		}
	}
	lf.Close()
	rec.Handed = handed
	rec.SendMs = time.Since(tSend).Milliseconds()
	rec.Progress = [][4]int64{}

	// quiescence: every handed line has been received or counted as dropped.  The wait ends
	// unsuccessfully only when nothing observable (units received, slow_conn, direction=out) has
	// changed for `deadline` (or after 20 x deadline in total): slowness is not a stall.
	t1 := time.Now()
	rec.Stalled = true
	lastChange := time.Now()
	var pu, ps, po int64 = -1, -1, -1
	for time.Since(lastChange) < deadline && time.Since(t1) < 20*deadline {
		u := atomic.LoadInt64(&ep.units)
		s := counter(key, "unit=Metric.action=drop.reason=slow_conn") - slow0
		o := counter(key, "unit=Metric.direction=out") - out0
		if u != pu || s != ps || o != po {
			pu, ps, po = u, s, o
			lastChange = time.Now()
		}
		rec.UnitsAtQ, rec.SlowAtQ = u, s
		if el := time.Since(t1).Milliseconds(); el >= int64(len(rec.Progress))*1000 && len(rec.Progress) < 400 {
			rec.Progress = append(rec.Progress, [4]int64{el, u, s, o})
		}
		if u+s >= int64(handed) {
			rec.Stalled = false
			break
		}
		time.Sleep(2 * time.Millisecond)
	}
	rec.WaitMs = time.Since(t1).Milliseconds()

	// shut the destination down (flushes and closes the connection), read to EOF
	done := make(chan struct{})
	go func() {
		rt.Shutdown()
		close(done)
	}()
	select {
	case <-done:
		rec.ShutdownOK = true
	case <-time.After(deadline):
	}
	t2 := time.Now()
	for time.Since(t2) < deadline {
		ep.mu.Lock()
		all := true
		for _, e := range ep.eof {
			all = all && e
		}
		ep.mu.Unlock()
		if all {
			rec.EOFOK = true
			break
		}
		time.Sleep(2 * time.Millisecond)
	}
	ep.ln.Close()
	rec.Slow = counter(key, "unit=Metric.action=drop.reason=slow_conn") - slow0
	rec.Out = counter(key, "unit=Metric.direction=out") - out0
	rec.ConnDown = counter(key, "unit=Metric.action=drop.reason=conn_down_no_spool") - down0
	rec.ErrWrite = counter(key, "unit=Err.type=write") - ew0
	rec.ErrTrunc = counter(key, "unit=Err.type=truncated") - et0
	rec.BadPickle = counter(key, "unit=Metric.action=drop.reason=bad_pickle") - bp0
	ep.mu.Lock()
	rec.Conns = len(ep.conns)
	for i, d := range ep.data {
		f := filepath.Join(out, fmt.Sprintf("c05_wire_r%d_c%d.bin", c.R, i))
		ioutil.WriteFile(f, d, 0644)
		rec.WireFiles = append(rec.WireFiles, f)
	}
	for _, cn := range ep.conns {
		cn.Close()
	}
	ep.mu.Unlock()
	return rec
}

// ------------------------------------------------------------------ Regen
//
// TestC05Regen: two connection generations of one destination without spool
// (spec/ConnStreamGen.tla).  The verification hooks of package destination are
// used as scheduler gates only: the first connection's writer goroutine is held
// after it has taken a line from its queue and before it writes it; the endpoint
// closes that connection; the relay notices and reconnects; lines are handed to
// the new, healthy connection; the old writer is released (it performs its late
// write and exits); the destination is flushed and shut down.  Recorded: the
// lines handed while the second connection was the relay's connection and the
// bytes the endpoint received over the second connection.  A gate that is not
// reached within the deadline is reported as ev="machinery" (never a verdict).

type regenCfg struct {
	R       int    `json:"r"`
	IOBuf   int    `json:"iobuf"`
	ConnBuf int    `json:"connbuf"`
	FlushMs int    `json:"flushms"` // flush period (large: only explicit flushes)
	Pickle  bool   `json:"pickle"`
	OldPre  int    `json:"oldpre"`   // lines the old writer has written (buffered) before the held one
	OldLen  int    `json:"oldlen"`   // length of the old lines
	OldQ    int    `json:"oldq"`     // lines still queued in the old connection's In behind the held one
	Hold    string `json:"hold"`     // hook point at which the old writer is held: "hd.added" | "hd.recv"
	NewLens []int  `json:"newlens"`  // lengths of the lines handed to the new connection
	RelAt   int    `json:"relat"`    // the old writer is released after that many new lines were written
	MidFl   int    `json:"midflush"` // explicit flush after that many new lines (0 = none)
}

type regenRec struct {
	Ev        string   `json:"ev"`
	Why       string   `json:"why"`
	Cfg       regenCfg `json:"cfg"`
	Key       string   `json:"key"`
	Online    bool     `json:"online"`
	Gens      int      `json:"gens"`
	Handed    int      `json:"handed"`
	Slow      int64    `json:"slow"`
	Out       int64    `json:"out"`
	Conns     int      `json:"conns"`
	ConnUpd   int      `json:"connupdates"`
	Dead2     int      `json:"second_conn_given_up"`
	Stalled   bool     `json:"stalled"`
	Units     int64    `json:"units"`
	FlushErr  string   `json:"flusherr"`
	OldLate   int      `json:"old_late_writes"` // writes the old writer completed after the new connection was in use
	OldLateOK int      `json:"old_late_writes_noerr"`
	LinesFile string   `json:"lines_file"`
	WireFiles []string `json:"wire_files"`
	OldWire   int      `json:"old_wire_bytes"`
	Ms        int64    `json:"ms"`
}

type hookEv struct {
	name string
	conn *destination.Conn
	buf  string
	err  bool
}

type hookLog struct {
	sync.Mutex
	cond   *sync.Cond
	key    string
	seen   []hookEv
	hold   string        // hook point to hold at
	holdOn string        // line to hold on
	gate   chan struct{} // closed to release
	first  *destination.Conn
}

func (h *hookLog) hook(name string, args ...interface{}) {
	ev := hookEv{name: name}
	if len(args) > 1 {
		if c, ok := args[1].(*destination.Conn); ok {
			ev.conn = c
		}
	}
	if len(args) > 2 {
		if b, ok := args[2].([]byte); ok {
			ev.buf = string(b)
		}
	}
	if len(args) > 3 {
		if e, ok := args[3].(error); ok && e != nil {
			ev.err = true
		}
	}
	h.Lock()
	h.seen = append(h.seen, ev)
	hold := h.hold != "" && name == h.hold && ev.buf == h.holdOn
	gate := h.gate
	h.Unlock()
	h.cond.Broadcast()
	if hold {
		<-gate
	}
}

// wait blocks until an event matching f was seen; false when the deadline passed
func (h *hookLog) wait(d time.Duration, f func(ev hookEv) bool) (hookEv, bool) {
	deadline := time.Now().Add(d)
	timer := time.AfterFunc(d+10*time.Millisecond, func() { h.cond.Broadcast() })
	defer timer.Stop()
	h.Lock()
	defer h.Unlock()
	from := 0
	for {
		for ; from < len(h.seen); from++ {
			if f(h.seen[from]) {
				return h.seen[from], true
			}
		}
		if time.Now().After(deadline) {
			return hookEv{}, false
		}
		h.cond.Wait()
	}
}

func (h *hookLog) count(f func(ev hookEv) bool) int {
	h.Lock()
	defer h.Unlock()
	k := 0
	for _, ev := range h.seen {
		if f(ev) {
			k++
		}
	}
	return k
}

func countUnits(d []byte, pickle bool) int64 {
	var k int64
	if pickle {
		off := 0
		for len(d)-off >= 4 {
			l := int(binary.BigEndian.Uint32(d[off : off+4]))
			if l < 0 || len(d)-off-4 < l {
				break
			}
			off += 4 + l
			k++
		}
		return k
	}
	for _, ch := range d {
		if ch == '\n' {
			k++
		}
	}
	return k
}

func TestC05Regen(t *testing.T) {
	out := hx.Out(t)
	raws, err := hx.ReadLines(os.Getenv("VERIF_C05_REGEN"))
	if err != nil {
		t.Fatal(err)
	}
	logrus.SetOutput(ioutil.Discard)
	logrus.SetLevel(logrus.ErrorLevel)
	log := hx.NewLog(filepath.Join(out, "c05_regen.ndjson"))
	log.Unbuffered = true
	defer log.Close()
	deadline := time.Duration(hx.EnvInt("VERIF_C05_DEADLINE_S", 60)) * time.Second
	var cur *hookLog
	var curMu sync.Mutex
	destination.VerifSetHook(func(name string, args ...interface{}) {
		curMu.Lock()
		h := cur
		curMu.Unlock()
		if h == nil || len(args) == 0 {
			return
		}
		if k, ok := args[0].(string); !ok || k != h.key {
			return
		}
		h.hook(name, args...)
	})
	defer destination.VerifSetHook(nil)
	for _, raw := range raws {
		var c regenCfg
		if err := json.Unmarshal(raw, &c); err != nil {
			t.Fatal(err)
		}
		h := &hookLog{gate: make(chan struct{})}
		h.cond = sync.NewCond(&h.Mutex)
		log.Emit(regenRun(out, c, deadline, h, func(x *hookLog) {
			curMu.Lock()
			cur = x
			curMu.Unlock()
		}))
	}
}

func regenRun(out string, c regenCfg, deadline time.Duration, h *hookLog, install func(*hookLog)) (rec regenRec) {
	t0 := time.Now()
	rec = regenRec{Ev: "regen", Cfg: c, Gens: 2, WireFiles: []string{}}
	fail := func(why string) regenRec {
		rec.Ev, rec.Why = "machinery", why
		return rec
	}
	defer func() { rec.Ms = time.Since(t0).Milliseconds() }()
	ep, err := newEndpoint(c.Pickle)
	if err != nil {
		return fail("listen: " + err.Error())
	}
	defer ep.ln.Close()
	addr := ep.ln.Addr().String()
	routeKey := fmt.Sprintf("c05g%dr%dp%d", hx.Seed(), c.R, os.Getpid())
	m, _ := matcher.New("", "", "", "", "", "")
	dest, err := destination.New(routeKey, m, addr, "", false, c.Pickle,
		time.Duration(c.FlushMs)*time.Millisecond, 200*time.Millisecond, c.ConnBuf, c.IOBuf,
		10, 1000, 1000, time.Second, time.Millisecond, time.Millisecond)
	if err != nil {
		return fail("destination.New: " + err.Error())
	}
	key := dest.Key
	rec.Key = key
	h.key = key
	install(h)
	defer install(nil)
	released := false
	release := func() {
		if !released {
			released = true
			close(h.gate)
		}
	}
	defer release()
	dest.Run()
	shut := false
	shutdown := func() bool {
		if shut {
			return true
		}
		shut = true
		done := make(chan struct{})
		go func() {
			dest.Shutdown()
			close(done)
		}()
		select {
		case <-done:
			return true
		case <-time.After(deadline):
			return false
		}
	}
	defer func() {
		release()
		shutdown()
	}()
	hand := func(line []byte) bool {
		select {
		case dest.In <- line:
			return true
		case <-time.After(deadline):
			return false
		}
	}
	waitConns := func(n int) bool {
		t := time.Now()
		for time.Since(t) < deadline {
			ep.mu.Lock()
			k := len(ep.conns)
			ep.mu.Unlock()
			if k >= n {
				return true
			}
			time.Sleep(time.Millisecond)
		}
		return false
	}

	// 1. first connection up
	first, ok := h.wait(deadline, func(ev hookEv) bool { return ev.name == "relay.connUpdate" && ev.conn != nil })
	if !ok || !waitConns(1) {
		return fail("first connection did not come up")
	}
	rec.Online = true
	oldSeq := 800000
	// lines the old writer writes (into its io buffer) before the one it is held with
	for i := 0; i < c.OldPre; i++ {
		l := mkLine(oldSeq+i, c.OldLen)
		if !hand(l) {
			return fail("hand-off (old, pre) blocked")
		}
		if _, ok := h.wait(deadline, func(ev hookEv) bool {
			return ev.name == "hd.written" && ev.conn == first.conn && ev.buf == string(l)
		}); !ok {
			return fail("old writer did not write a pre line")
		}
	}
	held := mkLine(oldSeq+c.OldPre, c.OldLen)
	h.Lock()
	h.hold, h.holdOn = c.Hold, string(held)
	h.Unlock()
	if !hand(held) {
		return fail("hand-off (old, held) blocked")
	}
	if _, ok := h.wait(deadline, func(ev hookEv) bool { return ev.name == c.Hold && ev.conn == first.conn && ev.buf == string(held) }); !ok {
		return fail("old writer did not reach the gate " + c.Hold)
	}
	for i := 0; i < c.OldQ; i++ {
		l := mkLine(oldSeq+c.OldPre+1+i, c.OldLen)
		if !hand(l) {
			return fail("hand-off (old, queued) blocked")
		}
		if _, ok := h.wait(deadline, func(ev hookEv) bool {
			return (ev.name == "send.ok" || ev.name == "send.drop") && ev.buf == string(l)
		}); !ok {
			return fail("old queued line not seen by the relay")
		}
	}

	if k := h.count(func(ev hookEv) bool { return ev.name == "relay.connUpdate" }); k != 1 {
		return fail("the relay connected more than once at start (its reconnect ticker fired before updateConn had registered: scheduling stall)")
	}

	// 2. the endpoint closes the first connection; the relay gives up on it and reconnects
	ep.mu.Lock()
	ep.conns[0].Close()
	ep.mu.Unlock()
	if _, ok := h.wait(deadline, func(ev hookEv) bool { return ev.name == "relay.dead" && ev.conn == first.conn }); !ok {
		return fail("relay did not notice the closed connection")
	}
	second, ok := h.wait(deadline, func(ev hookEv) bool {
		return ev.name == "relay.connUpdate" && ev.conn != nil && ev.conn != first.conn
	})
	if !ok || !waitConns(2) {
		return fail("relay did not reconnect")
	}
	slow0 := counter(key, "unit=Metric.action=drop.reason=slow_conn")
	out0 := counter(key, "unit=Metric.direction=out")

	// 3. lines over the new, healthy connection (they are numbered 1.. in hand-off order)
	linesFile := filepath.Join(out, fmt.Sprintf("c05_regen_lines_r%d.txt", c.R))
	lf, _ := os.Create(linesFile)
	defer lf.Close()
	rec.LinesFile = linesFile
	lateFrom := 0
	handNew := func(i int) string {
		line := mkLine(i+1, c.NewLens[i])
		lf.Write(line)
		lf.Write([]byte{'\n'})
		if !hand(line) {
			return "hand-off (new) blocked"
		}
		rec.Handed++
		if _, ok := h.wait(deadline, func(ev hookEv) bool {
			return (ev.name == "hd.written" && ev.conn == second.conn && ev.buf == string(line)) ||
				(ev.name == "send.drop" && ev.buf == string(line))
		}); !ok {
			return "new connection's writer did not write a line"
		}
		return ""
	}
	relAt := c.RelAt
	if relAt <= 0 || relAt > len(c.NewLens) {
		relAt = len(c.NewLens)
	}
	for i := 0; i < len(c.NewLens); i++ {
		if why := handNew(i); why != "" {
			return fail(why)
		}
		if c.MidFl > 0 && i+1 == c.MidFl {
			if err := dest.Flush(); err != nil {
				rec.FlushErr = err.Error()
			}
		}
		if i+1 == relAt {
			// 4. the old connection's writer finishes what it was doing and exits
			h.Lock()
			lateFrom = len(h.seen)
			h.Unlock()
			release()
			if _, ok := h.wait(deadline, func(ev hookEv) bool { return ev.name == "hd.exit" && ev.conn == first.conn }); !ok {
				return fail("old connection's writer did not exit")
			}
		}
	}
	h.Lock()
	for _, ev := range h.seen[lateFrom:] {
		if ev.name == "hd.written" && ev.conn == first.conn {
			rec.OldLate++
			if !ev.err {
				rec.OldLateOK++
			}
		}
	}
	h.Unlock()

	// 5. flush, shut down, read the second connection to EOF
	if err := dest.Flush(); err != nil {
		rec.FlushErr = err.Error()
	}
	if !shutdown() {
		return fail("destination shutdown did not return")
	}
	t2 := time.Now()
	eof := false
	for time.Since(t2) < deadline && !eof {
		ep.mu.Lock()
		eof = len(ep.eof) >= 2 && ep.eof[1]
		ep.mu.Unlock()
		if !eof {
			time.Sleep(time.Millisecond)
		}
	}
	if !eof {
		return fail("no EOF on the second connection after shutdown")
	}
	rec.Slow = counter(key, "unit=Metric.action=drop.reason=slow_conn") - slow0
	rec.Out = counter(key, "unit=Metric.direction=out") - out0
	rec.ConnUpd = h.count(func(ev hookEv) bool { return ev.name == "relay.connUpdate" })
	rec.Dead2 = h.count(func(ev hookEv) bool { return ev.name == "relay.dead" && ev.conn == second.conn })
	if rec.ConnUpd > 2 && rec.Dead2 == 0 {
		// a third connection although the relay never gave up on the second one: the reconnect ticker fired a
		// second time before the first updateConn goroutine had registered (scheduling stall) -- not a verdict on C05
		return fail("the relay reconnected twice after the cut without giving up on the second connection (scheduling stall)")
	}
	ep.mu.Lock()
	rec.Conns = len(ep.conns)
	rec.OldWire = len(ep.data[0])
	rec.Units = countUnits(ep.data[1], c.Pickle)
	f := filepath.Join(out, fmt.Sprintf("c05_regen_wire_r%d.bin", c.R))
	ioutil.WriteFile(f, ep.data[1], 0644)
	rec.WireFiles = append(rec.WireFiles, f)
	for _, cn := range ep.conns {
		cn.Close()
	}
	ep.mu.Unlock()
	rec.Stalled = rec.Units+rec.Slow < int64(rec.Handed)
	return rec
}
