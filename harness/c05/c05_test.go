// Package c05 drives the real code for property C05 (a healthy carbon
// connection carries the lines in order, once, unbroken).
//
//	TestC05Writer  replays TLC-generated behaviours of spec/BufWriter.tla on the
//	               exported destination.Writer API with a recording io.Writer that
//	               answers as the behaviour's script says (errors, short writes).
//	TestC05E2E     runs real routes/destinations against a loopback TCP endpoint
//	               and records what was handed off, what the endpoint received
//	               (raw bytes) and the counter deltas.
//
// The driver only records.  Verdicts are taken by the check (checks/c05.py) from
// the expectation computed by TLC (replay) and by TLC on spec/ConnStreamTrace.tla
// and spec/BufWriterTrace.tla (traces).
package c05

import (
	"encoding/binary"
	"encoding/json"
	"errors"
	"fmt"
	"io"
	"io/ioutil"
	"math/rand"
	"net"
	"os"
	"path/filepath"
	"runtime"
	"sync"
	"sync/atomic"
	"testing"
	"time"

	"verifharness/hx"

	"github.com/grafana/carbon-relay-ng/destination"
	"github.com/grafana/carbon-relay-ng/matcher"
	"github.com/grafana/carbon-relay-ng/route"
	"github.com/grafana/carbon-relay-ng/stats"
	"github.com/sirupsen/logrus"
)

// ------------------------------------------------------------------ Writer

type outcome struct {
	K int    `json:"k"`
	E string `json:"e"`
}

type call struct {
	Op     string    `json:"op"` // "w" | "f"
	Len    int       `json:"len"`
	First  int       `json:"first"` // number of the first byte of the argument
	Script []outcome `json:"script"`
}

type behaviour struct {
	H     int    `json:"h"`
	B     int    `json:"B"`
	Calls []call `json:"calls"`
}

var errInjected = errors.New("injected")

const byteMod = 251

type ucall struct {
	Len  int    `json:"len"`
	K    int    `json:"k"`
	E    string `json:"e"`
	Data []int  `json:"data"`
}

// recWriter is the underlying io.Writer: it answers each call with the next
// scripted outcome (default: take everything) and records the call.
type recWriter struct {
	wire   []byte
	script []outcome
	pos    int
	calls  []ucall
}

func (r *recWriter) Write(p []byte) (int, error) {
	o := outcome{K: len(p)}
	if r.pos < len(r.script) {
		o = r.script[r.pos]
		r.pos++
	}
	k := o.K
	if k > len(p) {
		k = len(p)
	}
	if k < 0 {
		k = 0
	}
	r.wire = append(r.wire, p[:k]...)
	d := make([]int, len(p))
	for i, c := range p {
		d[i] = int(c)
	}
	r.calls = append(r.calls, ucall{Len: len(p), K: k, E: o.E, Data: d})
	if o.E != "" {
		return k, errInjected
	}
	return k, nil
}

func errName(err error) string {
	switch err {
	case nil:
		return ""
	case errInjected:
		return "E"
	case io.ErrShortWrite:
		return "short"
	}
	return "other:" + err.Error()
}

type retRec struct {
	NN       int     `json:"nn"`
	Err      string  `json:"err"`
	Buffered int     `json:"buffered"`
	Avail    int     `json:"avail"`
	Wire     []int   `json:"wire"`
	U        []ucall `json:"u"`
}

type behaviourRec struct {
	H    int      `json:"h"`
	B    int      `json:"B"`
	Rets []retRec `json:"rets"`
}

func TestC05Writer(t *testing.T) {
	out := hx.Out(t)
	in := os.Getenv("VERIF_C05_BEH")
	lines, err := hx.ReadLines(in)
	if err != nil {
		t.Fatal(err)
	}
	log := hx.NewLog(filepath.Join(out, os.Getenv("VERIF_C05_BEH_OUT")))
	defer log.Close()
	progress := hx.NewLog(filepath.Join(out, "c05_writer_progress.ndjson"))
	progress.Unbuffered = true
	defer progress.Close()
	for _, raw := range lines {
		var b behaviour
		if err := json.Unmarshal(raw, &b); err != nil {
			t.Fatal(err)
		}
		progress.Emit(map[string]int{"h": b.H})
		rw := &recWriter{}
		w := destination.NewWriter(rw, b.B, "c05w")
		rec := behaviourRec{H: b.H, B: b.B}
		consumed := 0
		for _, c := range b.Calls {
			rw.script, rw.pos, rw.calls = c.Script, 0, []ucall{}
			var nn int
			var err error
			if c.Op == "w" {
				first := c.First
				if first < 0 { // number the bytes from the first one not yet consumed
					first = consumed + 1
				}
				p := make([]byte, c.Len)
				for i := range p {
					p[i] = byte((first + i) % byteMod)
				}
				nn, err = w.Write(p)
				consumed += nn
			} else {
				err = w.Flush()
			}
			wire := make([]int, len(rw.wire))
			for i, x := range rw.wire {
				wire[i] = int(x)
			}
			rec.Rets = append(rec.Rets, retRec{NN: nn, Err: errName(err), Buffered: w.Buffered(), Avail: w.Available(), Wire: wire, U: rw.calls})
		}
		log.Emit(rec)
	}
}

// ------------------------------------------------------------------- E2E

type runCfg struct {
	R        int   `json:"r"`
	IOBuf    int   `json:"iobuf"`
	ConnBuf  int   `json:"connbuf"`
	FlushMs  int   `json:"flushms"`
	Pickle   bool  `json:"pickle"`
	N        int   `json:"n"`
	Lens     []int `json:"lens"`
	BurstMax int   `json:"burst"`    // lines handed back to back
	PauseUs  int   `json:"pauseus"`  // max pause between bursts (scheduling diversity only)
	ManFlush int   `json:"manflush"` // every that many bursts call route.Flush() (0 = never)
}

const alpha = "0123456789ABCDEFGHIJKLMNOPQRSTUVWXYZabcdefghijklmnopqrstuvwxyz"

// MetricMin is the shortest length at which a line has the shape "<name> <val> <ts>".
const MetricMin = 24

// mkLine builds line number seq (1-based) of length L >= 5: five base-62 digits of
// seq followed by filler that depends on seq and the position; from MetricMin
// bytes on the line is a well-formed datapoint.
func mkLine(seq, L int) []byte {
	suffix := ""
	if L >= MetricMin {
		suffix = fmt.Sprintf(" %d.5 %d", seq%1000, 1500000000+seq)
	}
	b := make([]byte, 0, L)
	x := seq
	var id [5]byte
	for i := 4; i >= 0; i-- {
		id[i] = alpha[x%62]
		x /= 62
	}
	b = append(b, id[:]...)
	for j := 5; j < L-len(suffix); j++ {
		b = append(b, alpha[(seq*31+j*7)%62])
	}
	b = append(b, suffix...)
	return b
}

type endpoint struct {
	ln    net.Listener
	mu    sync.Mutex
	conns []net.Conn // every accepted conn stays referenced
	data  [][]byte
	eof   []bool
	units int64 // lines (plain) or frames (pickle) seen so far, for quiescence polling only
	pick  bool
	wg    sync.WaitGroup
}

func newEndpoint(pickle bool) (*endpoint, error) {
	ln, err := net.Listen("tcp", "127.0.0.1:0")
	if err != nil {
		return nil, err
	}
	e := &endpoint{ln: ln, pick: pickle}
	go func() {
		for {
			c, err := ln.Accept()
			if err != nil {
				return
			}
			e.mu.Lock()
			idx := len(e.conns)
			e.conns = append(e.conns, c)
			e.data = append(e.data, nil)
			e.eof = append(e.eof, false)
			e.mu.Unlock()
			e.wg.Add(1)
			go e.read(c, idx)
		}
	}()
	return e, nil
}

func (e *endpoint) read(c net.Conn, idx int) {
	defer e.wg.Done()
	buf := make([]byte, 64*1024)
	off := 0 // pickle framing offset (counting only)
	for {
		n, err := c.Read(buf)
		if n > 0 {
			e.mu.Lock()
			e.data[idx] = append(e.data[idx], buf[:n]...)
			d := e.data[idx]
			e.mu.Unlock()
			if e.pick {
				for len(d)-off >= 4 {
					l := int(binary.BigEndian.Uint32(d[off : off+4]))
					if l < 0 || len(d)-off-4 < l {
						break
					}
					off += 4 + l
					atomic.AddInt64(&e.units, 1)
				}
			} else {
				k := 0
				for _, ch := range buf[:n] {
					if ch == '\n' {
						k++
					}
				}
				atomic.AddInt64(&e.units, int64(k))
			}
		}
		if err != nil {
			e.mu.Lock()
			e.eof[idx] = true
			e.mu.Unlock()
			return
		}
	}
}

func counter(key, what string) int64 {
	return stats.Counter("dest=" + key + "." + what).Count()
}

type runRec struct {
	Ev         string     `json:"ev"`
	Cfg        runCfg     `json:"cfg"`
	Key        string     `json:"key"`
	Online     bool       `json:"online"`
	Handed     int        `json:"handed"`
	Slow       int64      `json:"slow"`
	Out        int64      `json:"out"`
	ConnDown   int64      `json:"conndown"`
	ErrWrite   int64      `json:"errwrite"`
	ErrTrunc   int64      `json:"errtrunc"`
	BadPickle  int64      `json:"badpickle"`
	Conns      int        `json:"conns"`
	Stalled    bool       `json:"stalled"`    // received + slow_conn never reached handed
	UnitsAtQ   int64      `json:"units_at_q"` // units seen when polling ended
	SlowAtQ    int64      `json:"slow_at_q"`
	ShutdownOK bool       `json:"shutdown_ok"`
	EOFOK      bool       `json:"eof_ok"`
	LinesFile  string     `json:"lines_file"`
	WireFiles  []string   `json:"wire_files"`
	WaitMs     int64      `json:"wait_ms"`
	OnlineMs   int64      `json:"online_ms"`
	SendMs     int64      `json:"send_ms"`
	Progress   [][4]int64 `json:"progress"` // while waiting for quiescence: ms, units, slow_conn, out (diagnostics)
}

func TestC05E2E(t *testing.T) {
	out := hx.Out(t)
	raws, err := hx.ReadLines(os.Getenv("VERIF_C05_RUNS"))
	if err != nil {
		t.Fatal(err)
	}
	logrus.SetOutput(ioutil.Discard)
	logrus.SetLevel(logrus.ErrorLevel)
	log := hx.NewLog(filepath.Join(out, "c05_e2e.ndjson"))
	log.Unbuffered = true
	defer log.Close()
	deadline := time.Duration(hx.EnvInt("VERIF_C05_DEADLINE_S", 60)) * time.Second
	par := hx.EnvInt("VERIF_C05_PAR", 2)
	var cfgs []runCfg
	for _, raw := range raws {
		var c runCfg
		if err := json.Unmarshal(raw, &c); err != nil {
			t.Fatal(err)
		}
		cfgs = append(cfgs, c)
	}
	sem := make(chan struct{}, par)
	var wg sync.WaitGroup
	for _, c := range cfgs {
		wg.Add(1)
		sem <- struct{}{}
		go func(c runCfg) {
			defer wg.Done()
			defer func() { <-sem }()
			log.Emit(oneRun(out, c, deadline))
		}(c)
	}
	wg.Wait()
}

func oneRun(out string, c runCfg, deadline time.Duration) runRec {
	rec := runRec{Ev: "run", Cfg: c}
	rng := rand.New(rand.NewSource(hx.Seed()*1000003 + int64(c.R)))
	ep, err := newEndpoint(c.Pickle)
	if err != nil {
		rec.Ev = "machinery"
		return rec
	}
	addr := ep.ln.Addr().String()
	routeKey := fmt.Sprintf("c05s%dr%dp%d", hx.Seed(), c.R, os.Getpid())
	m, _ := matcher.New("", "", "", "", "", "")
	dest, err := destination.New(routeKey, m, addr, "", false, c.Pickle,
		time.Duration(c.FlushMs)*time.Millisecond, 10*time.Second, c.ConnBuf, c.IOBuf,
		10, 1000, 1000, time.Second, time.Millisecond, time.Millisecond)
	if err != nil {
		rec.Ev = "machinery"
		return rec
	}
	rt, err := route.NewSendAllMatch(routeKey, m, []*destination.Destination{dest})
	if err != nil {
		rec.Ev = "machinery"
		return rec
	}
	key := dest.Key
	rec.Key = key
	// wait until the relay has its connection (observed, not assumed)
	t0 := time.Now()
	for time.Since(t0) < 10*deadline {
		if dest.Snapshot().Online {
			rec.Online = true
			break
		}
		time.Sleep(time.Millisecond)
	}
	rec.OnlineMs = time.Since(t0).Milliseconds()
	slow0 := counter(key, "unit=Metric.action=drop.reason=slow_conn")
	out0 := counter(key, "unit=Metric.direction=out")
	down0 := counter(key, "unit=Metric.action=drop.reason=conn_down_no_spool")
	ew0 := counter(key, "unit=Err.type=write")
	et0 := counter(key, "unit=Err.type=truncated")
	bp0 := counter(key, "unit=Metric.action=drop.reason=bad_pickle")

	linesFile := filepath.Join(out, fmt.Sprintf("c05_lines_r%d.txt", c.R))
	lf, _ := os.Create(linesFile)
	rec.LinesFile = linesFile
	handed := 0
	tSend := time.Now()
	if rec.Online {
		bursts := 0
		for handed < c.N {
			b := 1 + rng.Intn(c.BurstMax)
			for i := 0; i < b && handed < c.N; i++ {
				L := c.Lens[rng.Intn(len(c.Lens))]
				line := mkLine(handed+1, L) // fresh buffer per line: the relay keeps references
				lf.Write(line)
				lf.Write([]byte{'\n'})
				rt.Dispatch(line)
				handed++ // HandOff: after `dest.In <- buf` returned
			}
			bursts++
			if c.ManFlush > 0 && bursts%c.ManFlush == 0 {
				rt.Flush()
			}
			switch rng.Intn(4) {
			case 0:
				runtime.Gosched()
			case 1, 2:
				if c.PauseUs > 0 {
					time.Sleep(time.Duration(rng.Intn(c.PauseUs)+1) * time.Microsecond)
				}
			}
		}
	}
	lf.Close()
	rec.Handed = handed
	rec.SendMs = time.Since(tSend).Milliseconds()
	rec.Progress = [][4]int64{}

	// quiescence: every handed line has been received or counted as dropped.  The wait ends
	// unsuccessfully only when nothing observable (units received, slow_conn, direction=out) has
	// changed for `deadline` (or after 20 x deadline in total): slowness is not a stall.
	t1 := time.Now()
	rec.Stalled = true
	lastChange := time.Now()
	var pu, ps, po int64 = -1, -1, -1
	for time.Since(lastChange) < deadline && time.Since(t1) < 20*deadline {
		u := atomic.LoadInt64(&ep.units)
		s := counter(key, "unit=Metric.action=drop.reason=slow_conn") - slow0
		o := counter(key, "unit=Metric.direction=out") - out0
		if u != pu || s != ps || o != po {
			pu, ps, po = u, s, o
			lastChange = time.Now()
		}
		rec.UnitsAtQ, rec.SlowAtQ = u, s
		if el := time.Since(t1).Milliseconds(); el >= int64(len(rec.Progress))*1000 && len(rec.Progress) < 400 {
			rec.Progress = append(rec.Progress, [4]int64{el, u, s, o})
		}
		if u+s >= int64(handed) {
			rec.Stalled = false
			break
		}
		time.Sleep(2 * time.Millisecond)
	}
	rec.WaitMs = time.Since(t1).Milliseconds()

	// shut the destination down (flushes and closes the connection), read to EOF
	done := make(chan struct{})
	go func() {
		rt.Shutdown()
		close(done)
	}()
	select {
	case <-done:
		rec.ShutdownOK = true
	case <-time.After(deadline):
	}
	t2 := time.Now()
	for time.Since(t2) < deadline {
		ep.mu.Lock()
		all := true
		for _, e := range ep.eof {
			all = all && e
		}
		ep.mu.Unlock()
		if all {
			rec.EOFOK = true
			break
		}
		time.Sleep(2 * time.Millisecond)
	}
	ep.ln.Close()
	rec.Slow = counter(key, "unit=Metric.action=drop.reason=slow_conn") - slow0
	rec.Out = counter(key, "unit=Metric.direction=out") - out0
	rec.ConnDown = counter(key, "unit=Metric.action=drop.reason=conn_down_no_spool") - down0
	rec.ErrWrite = counter(key, "unit=Err.type=write") - ew0
	rec.ErrTrunc = counter(key, "unit=Err.type=truncated") - et0
	rec.BadPickle = counter(key, "unit=Metric.action=drop.reason=bad_pickle") - bp0
	ep.mu.Lock()
	rec.Conns = len(ep.conns)
	for i, d := range ep.data {
		f := filepath.Join(out, fmt.Sprintf("c05_wire_r%d_c%d.bin", c.R, i))
		ioutil.WriteFile(f, d, 0644)
		rec.WireFiles = append(rec.WireFiles, f)
	}
	for _, cn := range ep.conns {
		cn.Close()
	}
	ep.mu.Unlock()
	return rec
}
