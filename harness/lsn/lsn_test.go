//go:build verif
// +build verif

// Package lsn is the XLISTEN driver: it runs the real input.Listener (Start / accept loop /
// per-connection handlers / UDP reader / reopen after an accept error / Stop through
// manager.Stop) over loopback TCP+UDP against concurrent clients with scripted behaviours and
// RECORDS what happened, in real-time order per scenario (one mutex-protected list):
//
//	client side   cdial / cconn / cfail, wb / we (write begun / ended), cclose, sclosed
//	handler side  hstart / rd (every Read of the handler: bytes, error class, time blocked) / hret
//	              (a wrapper installed through the exported Listener.HandleConn field; the real
//	              TimeoutConn is underneath), ustart / uret (HandleData), disp (capture dispatcher)
//	orchestrator  fault / blocked, barrier, stopcall / stopret, end
//
// Nothing is judged here: spec/ListenerTrace.tla decides.
package lsn

import (
	"encoding/hex"
	"encoding/json"
	"fmt"
	"io"
	"math/rand"
	"net"
	"os"
	"strings"
	"sync"
	"testing"
	"time"

	"github.com/grafana/carbon-relay-ng/input"
	"github.com/grafana/carbon-relay-ng/input/manager"
	log "github.com/sirupsen/logrus"

	"verifharness/hx"
)

func init() {
	log.SetLevel(log.PanicLevel)
	log.SetOutput(io.Discard)
}

type clientSpec struct {
	C      int      `json:"c"`
	Phase  string   `json:"phase"` // pre | post | race | late
	Writes []string `json:"writes"`
	End    string   `json:"end"` // close | idle
	GapUs  int      `json:"gap_us"`
	Delay  int      `json:"delay_us"`
}

type dgramSpec struct {
	D     int    `json:"d"`
	G     int    `json:"g"` // group: the variants of one logical datagram (sent until one was handled)
	Phase string `json:"phase"`
	Data  string `json:"data"`
}

type scenario struct {
	ID        int          `json:"id"`
	RtMs      int          `json:"rt_ms"`
	Handler   string       `json:"handler"`
	Clients   []clientSpec `json:"clients"`
	Dgrams    []dgramSpec  `json:"dgrams"`
	Fault     string       `json:"fault"` // none | tcp | udp | both
	Block     bool         `json:"block"`
	StopDelay int          `json:"stop_delay_us"`
	QuickStop bool         `json:"quick_stop"` // Stop right after the fault (races with the reopen), no post-fault phase
}

type ev map[string]interface{}

type recorder struct {
	mu      sync.Mutex
	evs     []ev
	hret    map[string]bool // peers whose handler returned
	uret    map[string]bool // datagram payloads handled
	laddr   map[int]string
	failed  map[int]bool
	wrote   map[int]bool // clients that are through with their writes
	sclosed map[int]bool // idle clients that saw their connection closed by the relay
}

func (r *recorder) add(e ev) { r.addf(e, nil) }

// addf records e and runs f (bookkeeping the orchestrator polls) in the same critical section, so that
// nothing the orchestrator concludes from the bookkeeping is recorded before the event itself
func (r *recorder) addf(e ev, f func()) {
	r.mu.Lock()
	e["n"] = len(r.evs) + 1
	r.evs = append(r.evs, e)
	if f != nil {
		f()
	}
	r.mu.Unlock()
}

type capture struct{ r *recorder }

func (c capture) Dispatch(buf []byte) { c.r.add(ev{"ev": "disp", "line": hex.EncodeToString(buf)}) }
func (c capture) IncNumInvalid()      { c.r.add(ev{"ev": "invalid"}) }

type recConn struct {
	net.Conn
	r    *recorder
	peer string
}

func errClass(err error) string {
	if err == nil {
		return "none"
	}
	if err == io.EOF {
		return "eof"
	}
	if ne, ok := err.(net.Error); ok && ne.Timeout() {
		return "timeout"
	}
	s := err.Error()
	switch {
	case strings.Contains(s, "use of closed network connection"):
		return "closed"
	case strings.Contains(s, "connection reset"):
		return "reset"
	case strings.Contains(s, "refused"):
		return "refused"
	case strings.Contains(s, "broken pipe"):
		return "pipe"
	}
	return "other:" + s
}

func (c *recConn) Read(p []byte) (int, error) {
	t0 := time.Now()
	n, err := c.Conn.Read(p)
	c.r.add(ev{"ev": "rd", "peer": c.peer, "nb": n, "err": errClass(err), "blocked_us": int(time.Since(t0) / time.Microsecond)})
	return n, err
}

func freePort() (int, error) {
	for i := 0; i < 50; i++ {
		tl, err := net.Listen("tcp", "127.0.0.1:0")
		if err != nil {
			return 0, err
		}
		port := tl.Addr().(*net.TCPAddr).Port
		uc, err := net.ListenUDP("udp", &net.UDPAddr{IP: net.ParseIP("127.0.0.1"), Port: port})
		tl.Close()
		if err != nil {
			continue
		}
		uc.Close()
		return port, nil
	}
	return 0, fmt.Errorf("no port free for both tcp and udp")
}

const (
	barrierDeadline = 30 * time.Second // how long the orchestrator waits for "served" before it gives up waiting
	clientDeadline  = 60 * time.Second // an idle client stops waiting for the relay to close its connection
)

func runScenario(sc scenario, stopTimeout time.Duration) []ev {
	r := &recorder{hret: map[string]bool{}, uret: map[string]bool{}, laddr: map[int]string{}, failed: map[int]bool{}, wrote: map[int]bool{}, sclosed: map[int]bool{}}
	r.add(ev{"ev": "hist", "id": sc.ID})
	var l *input.Listener
	var addr string
	wrap := func(l *input.Listener) {
		origConn, origData := l.HandleConn, l.HandleData
		l.HandleConn = func(l *input.Listener, c net.Conn) {
			peer := c.RemoteAddr().String()
			r.add(ev{"ev": "hstart", "peer": peer})
			origConn(l, &recConn{Conn: c, r: r, peer: peer})
			r.addf(ev{"ev": "hret", "peer": peer}, func() { r.hret[peer] = true })
		}
		l.HandleData = func(l *input.Listener, data []byte, src net.Addr) {
			k := hex.EncodeToString(data)
			r.add(ev{"ev": "ustart", "data": k})
			origData(l, data, src)
			r.addf(ev{"ev": "uret", "data": k}, func() { r.uret[k] = true })
		}
	}
	for try := 0; ; try++ {
		port, err := freePort()
		if err == nil {
			addr = fmt.Sprintf("127.0.0.1:%d", port)
			l = input.NewListener(addr, time.Duration(sc.RtMs)*time.Millisecond, input.NewPlain(capture{r}))
			wrap(l) // before Start: the exported HandleConn / HandleData fields are what the accept loop calls
			err = l.Start()
		}
		if err == nil {
			break
		}
		if try >= 5 {
			r.add(ev{"ev": "skip", "why": "cannot start: " + err.Error()})
			return r.evs
		}
	}
	gates := map[string]chan struct{}{"pre": make(chan struct{}), "post": make(chan struct{}), "race": make(chan struct{}), "late": make(chan struct{})}
	var wg sync.WaitGroup
	for _, cl := range sc.Clients {
		wg.Add(1)
		go func(cl clientSpec) {
			defer wg.Done()
			<-gates[cl.Phase]
			if cl.Delay > 0 {
				time.Sleep(time.Duration(cl.Delay) * time.Microsecond)
			}
			var conn net.Conn
			t0 := time.Now()
			for {
				r.add(ev{"ev": "cdial", "c": cl.C})
				c, err := net.DialTimeout("tcp", addr, 10*time.Second)
				if err == nil {
					conn = c
					break
				}
				r.add(ev{"ev": "cfail", "c": cl.C, "err": errClass(err)})
				if cl.Phase != "post" || time.Since(t0) > barrierDeadline {
					r.mu.Lock()
					r.failed[cl.C] = true
					r.mu.Unlock()
					return
				}
				time.Sleep(5 * time.Millisecond) // after a fault: the listener is being reopened
			}
			defer conn.Close()
			la := conn.LocalAddr().String()
			r.addf(ev{"ev": "cconn", "c": cl.C, "laddr": la}, func() { r.laddr[cl.C] = la })
			for j, w := range cl.Writes {
				b, _ := hex.DecodeString(w)
				if j > 0 && cl.GapUs > 0 {
					time.Sleep(time.Duration(cl.GapUs) * time.Microsecond)
				}
				r.add(ev{"ev": "wb", "c": cl.C, "j": j + 1})
				_, err := conn.Write(b)
				r.add(ev{"ev": "we", "c": cl.C, "j": j + 1, "err": errClass(err)})
				if err != nil {
					break
				}
			}
			r.mu.Lock()
			r.wrote[cl.C] = true
			r.mu.Unlock()
			if cl.End == "close" {
				r.add(ev{"ev": "cclose", "c": cl.C})
				conn.Close()
				return
			}
			conn.SetReadDeadline(time.Now().Add(clientDeadline))
			buf := make([]byte, 16)
			for {
				_, err := conn.Read(buf)
				if err != nil {
					r.addf(ev{"ev": "sclosed", "c": cl.C, "err": errClass(err)}, func() { r.sclosed[cl.C] = true })
					return
				}
			}
		}(cl)
	}
	// datagrams: the variants of a group are sent one after the other until one was handled
	groups := map[string]map[int][]dgramSpec{}
	for _, d := range sc.Dgrams {
		if groups[d.Phase] == nil {
			groups[d.Phase] = map[int][]dgramSpec{}
		}
		groups[d.Phase][d.G] = append(groups[d.Phase][d.G], d)
	}
	for ph, gs := range groups {
		for _, vs := range gs {
			wg.Add(1)
			go func(ph string, vs []dgramSpec) {
				defer wg.Done()
				<-gates[ph]
				for _, d := range vs {
					uc, err := net.Dial("udp", addr)
					if err != nil {
						continue
					}
					b, _ := hex.DecodeString(d.Data)
					r.add(ev{"ev": "usb", "d": d.D})
					_, err = uc.Write(b)
					r.add(ev{"ev": "use", "d": d.D, "err": errClass(err)})
					uc.Close()
					if ph == "race" || ph == "late" {
						continue
					}
					t0 := time.Now()
					for time.Since(t0) < 300*time.Millisecond {
						r.mu.Lock()
						ok := r.uret[d.Data]
						r.mu.Unlock()
						if ok {
							return
						}
						time.Sleep(2 * time.Millisecond)
					}
				}
			}(ph, vs)
		}
	}

	barrier := func(ph string) {
		t0 := time.Now()
		timedout := false
		for {
			done := true
			r.mu.Lock()
			for _, cl := range sc.Clients {
				if cl.Phase == ph && !r.failed[cl.C] && !r.wrote[cl.C] {
					done = false
				}
				if cl.Phase == ph && ph == "pre" && cl.End == "idle" && sc.RtMs > 0 && !r.failed[cl.C] && !r.sclosed[cl.C] {
					done = false // with a read timeout the relay closes idle connections by itself
				}
				if cl.Phase == ph && cl.End == "close" && !r.failed[cl.C] {
					la, ok := r.laddr[cl.C]
					if !ok || !r.hret[la] {
						done = false
					}
				}
			}
			for _, vs := range groups[ph] {
				any := false
				for _, d := range vs {
					any = any || r.uret[d.Data]
				}
				done = done && any
			}
			r.mu.Unlock()
			if done {
				break
			}
			if time.Since(t0) > barrierDeadline {
				timedout = true
				break
			}
			time.Sleep(time.Millisecond)
		}
		r.add(ev{"ev": "barrier", "phase": ph, "timedout": timedout, "ms": int(time.Since(t0) / time.Millisecond)})
	}

	close(gates["pre"])
	barrier("pre")
	if sc.Fault != "none" {
		inject := func(proto string) {
			r.add(ev{"ev": "fault", "proto": proto})
			if proto == "tcp" {
				l.VerifXlistenFaultTCP()
			} else {
				l.VerifXlistenFaultUDP()
			}
			if sc.Block {
				// try to take the port before the relay re-listens: its listen() then fails and it backs off
				var cl io.Closer
				var err error
				if proto == "tcp" {
					cl, err = net.Listen("tcp", addr)
				} else {
					ua, _ := net.ResolveUDPAddr("udp", addr)
					cl, err = net.ListenUDP("udp", ua)
				}
				r.add(ev{"ev": "blocked", "proto": proto, "won": err == nil})
				if err == nil {
					time.Sleep(150 * time.Millisecond)
					cl.Close()
				}
			}
		}
		if sc.Fault == "tcp" || sc.Fault == "both" {
			inject("tcp")
		}
		if sc.Fault == "udp" || sc.Fault == "both" {
			inject("udp")
		}
		close(gates["post"])
		if !sc.QuickStop {
			barrier("post")
		}
	} else {
		close(gates["post"])
	}
	close(gates["race"])
	if sc.StopDelay > 0 {
		time.Sleep(time.Duration(sc.StopDelay) * time.Microsecond)
	}
	r.add(ev{"ev": "stopcall"})
	t0 := time.Now()
	ok := manager.Stop([]input.Plugin{l}, stopTimeout)
	r.add(ev{"ev": "stopret", "ok": ok, "ms": int(time.Since(t0) / time.Millisecond)})
	close(gates["late"])
	fin := make(chan struct{})
	go func() { wg.Wait(); close(fin) }()
	select {
	case <-fin:
	case <-time.After(clientDeadline + 20*time.Second):
		r.add(ev{"ev": "skip", "why": "clients did not finish"})
	}
	time.Sleep(30 * time.Millisecond) // anything dispatched now is after StopReturn
	r.add(ev{"ev": "end"})
	r.mu.Lock()
	defer r.mu.Unlock()
	return append([]ev(nil), r.evs...)
}

func TestListener(t *testing.T) {
	out := hx.Out(t)
	_ = out
	raw, err := hx.ReadLines(os.Getenv("VERIF_XL_SCEN"))
	if err != nil {
		t.Fatal(err)
	}
	stopTimeout := time.Duration(hx.EnvInt("VERIF_XL_STOP_TIMEOUT_MS", 0)) * time.Millisecond
	if stopTimeout <= 0 {
		t.Fatal("VERIF_XL_STOP_TIMEOUT_MS not set")
	}
	var scs []scenario
	for _, b := range raw {
		var sc scenario
		if err := json.Unmarshal(b, &sc); err != nil {
			t.Fatal(err)
		}
		scs = append(scs, sc)
	}
	rand.Seed(hx.Seed())
	res := make([][]ev, len(scs))
	sem := make(chan struct{}, hx.EnvInt("VERIF_XL_PAR", 6))
	var wg sync.WaitGroup
	for i := range scs {
		wg.Add(1)
		sem <- struct{}{}
		go func(i int) {
			defer wg.Done()
			res[i] = runScenario(scs[i], stopTimeout)
			<-sem
		}(i)
	}
	wg.Wait()
	lg := hx.NewLog(os.Getenv("VERIF_XL_RESULT"))
	for _, evs := range res {
		for _, e := range evs {
			lg.Emit(e)
		}
	}
	lg.Emit(ev{"ev": "done"})
	lg.Close()
}

// TestManagerEmpty records what manager.Stop answers for an empty plugin list (the timeout is
// the argument of the call, not an oracle).
func TestManagerEmpty(t *testing.T) {
	hx.Out(t)
	lg := hx.NewLog(os.Getenv("VERIF_XL_RESULT"))
	t0 := time.Now()
	ok := manager.Stop(nil, 200*time.Millisecond)
	lg.Emit(ev{"ev": "mgr_empty", "ok": ok, "ms": int(time.Since(t0) / time.Millisecond)})
	lg.Close()
}
