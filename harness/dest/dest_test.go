// Package dest drives real carbon routes / destinations against harness-made
// TCP endpoints for C06 (a bad endpoint never stalls ingestion; steady-state
// losses are counted) and C07 (spooling: an outage loses nothing uncounted).
// It only records (ndjson); the verdicts are taken by TLC on the recorded
// events (spec/DestinationTrace.tla).
package dest

import (
	"bytes"
	"encoding/json"
	"fmt"
	"io/ioutil"
	"math/rand"
	"net"
	"os"
	"path/filepath"
	"runtime"
	"strconv"
	"strings"
	"sync"
	"sync/atomic"
	"syscall"
	"testing"
	"time"

	"verifharness/hx"

	"github.com/grafana/carbon-relay-ng/destination"
	"github.com/grafana/carbon-relay-ng/matcher"
	"github.com/grafana/carbon-relay-ng/route"
	"github.com/grafana/carbon-relay-ng/stats"
)

// ---------------------------------------------------------------- endpoint

const (
	mHealthy int32 = iota
	mBlackhole
	mSlow
)

type endpoint struct {
	prefix string // lines are "<prefix><seq> <pad> 1 1500000000"
	suffix []byte
	nmax   int
	port   int
	rcvbuf int

	mode       int32
	slowChunk  int
	slowDelay  time.Duration
	closeAfter int64 // close each accepted connection after this many bytes (0 = never)

	mu    sync.Mutex
	ln    net.Listener
	conns []net.Conn // every accepted connection stays referenced (a finalizer would close it)
	inc   int
	perI  map[int][]bool

	count     []uint32 // per line id: times received intact
	distinct  int64
	total     int64
	malformed int64
	bytes     int64
	accepted  int64
	lastRecv  int64 // unix nano
}

func newEndpoint(prefix string, suffix []byte, nmax, port, rcvbuf int) *endpoint {
	return &endpoint{prefix: prefix, suffix: suffix, nmax: nmax, port: port, rcvbuf: rcvbuf,
		perI: map[int][]bool{}, count: make([]uint32, nmax+2), slowChunk: 1, slowDelay: 10 * time.Millisecond}
}

func (e *endpoint) addr() string { return "127.0.0.1:" + strconv.Itoa(e.port) }

func (e *endpoint) up() error {
	e.mu.Lock()
	defer e.mu.Unlock()
	if e.ln != nil {
		return nil
	}
	lc := net.ListenConfig{}
	if e.rcvbuf > 0 {
		rb := e.rcvbuf
		lc.Control = func(network, address string, c syscall.RawConn) error {
			return c.Control(func(fd uintptr) {
				syscall.SetsockoptInt(int(fd), syscall.SOL_SOCKET, syscall.SO_RCVBUF, rb)
			})
		}
	}
	var ln net.Listener
	var err error
	for i := 0; i < 200; i++ {
		ln, err = lc.Listen(nil, "tcp4", e.addr())
		if err == nil {
			break
		}
		time.Sleep(10 * time.Millisecond)
	}
	if err != nil {
		return err
	}
	e.ln = ln
	e.inc++
	inc := e.inc
	e.perI[inc] = make([]bool, e.nmax+2)
	go e.acceptLoop(ln, inc)
	return nil
}

func (e *endpoint) down() {
	e.mu.Lock()
	if e.ln != nil {
		e.ln.Close()
		e.ln = nil
	}
	cs := append([]net.Conn(nil), e.conns...)
	e.mu.Unlock()
	for _, c := range cs {
		c.Close()
	}
}

// closeConns closes the accepted connections but keeps listening ("closing mid-stream").
func (e *endpoint) closeConns() {
	e.mu.Lock()
	cs := append([]net.Conn(nil), e.conns...)
	e.mu.Unlock()
	for _, c := range cs {
		c.Close()
	}
}

// halfClose sends a FIN on every accepted connection and keeps the sockets open
func (e *endpoint) halfClose() {
	e.mu.Lock()
	cs := append([]net.Conn(nil), e.conns...)
	e.mu.Unlock()
	for _, c := range cs {
		if tc, ok := c.(*net.TCPConn); ok {
			tc.CloseWrite()
		}
	}
}

func (e *endpoint) acceptLoop(ln net.Listener, inc int) {
	for {
		c, err := ln.Accept()
		if err != nil {
			return
		}
		atomic.AddInt64(&e.accepted, 1)
		e.mu.Lock()
		e.conns = append(e.conns, c)
		seen := e.perI[inc]
		gone := e.ln != ln // taken down between Accept and here: down() did not see this connection
		e.mu.Unlock()
		if gone {
			c.Close()
			continue
		}
		go e.reader(c, seen)
	}
}

func (e *endpoint) reader(c net.Conn, seen []bool) {
	buf := make([]byte, 64*1024)
	var carry []byte
	var nread int64
	for {
		m := atomic.LoadInt32(&e.mode)
		if m == mBlackhole {
			// never read; notice a local close through a zero-length deadline probe is not possible
			// without reading, so just idle (the connection stays referenced in e.conns)
			time.Sleep(5 * time.Millisecond)
			e.mu.Lock()
			closed := e.ln == nil
			e.mu.Unlock()
			if closed && atomic.LoadInt32(&e.mode) == mBlackhole {
				// endpoint was taken down: connection is closed by down()
				return
			}
			continue
		}
		b := buf
		if m == mSlow {
			b = buf[:e.slowChunk]
		}
		n, err := c.Read(b)
		if n > 0 {
			nread += int64(n)
			atomic.AddInt64(&e.bytes, int64(n))
			carry = e.consume(carry, b[:n], seen)
		}
		if err != nil {
			return
		}
		if ca := atomic.LoadInt64(&e.closeAfter); ca > 0 && nread >= ca {
			c.Close()
			return
		}
		if m == mSlow {
			time.Sleep(e.slowDelay)
		}
	}
}

func (e *endpoint) consume(carry, data []byte, seen []bool) []byte {
	if len(carry) > 0 {
		data = append(carry, data...)
	}
	for {
		i := bytes.IndexByte(data, '\n')
		if i < 0 {
			break
		}
		e.line(data[:i], seen)
		data = data[i+1:]
	}
	if len(data) == 0 {
		return nil
	}
	return append([]byte(nil), data...)
}

func (e *endpoint) line(l []byte, seen []bool) {
	atomic.AddInt64(&e.total, 1)
	atomic.StoreInt64(&e.lastRecv, time.Now().UnixNano())
	if !bytes.HasPrefix(l, []byte(e.prefix)) {
		atomic.AddInt64(&e.malformed, 1)
		return
	}
	rest := l[len(e.prefix):]
	sp := bytes.IndexByte(rest, ' ')
	if sp <= 0 {
		atomic.AddInt64(&e.malformed, 1)
		return
	}
	id, err := strconv.Atoi(string(rest[:sp]))
	if err != nil || id < 1 || id > e.nmax || !bytes.Equal(rest[sp:], e.suffix) {
		atomic.AddInt64(&e.malformed, 1)
		return
	}
	if atomic.AddUint32(&e.count[id], 1) == 1 {
		atomic.AddInt64(&e.distinct, 1)
	}
	e.mu.Lock()
	seen[id] = true
	e.mu.Unlock()
}

func ranges(seen []bool) [][]int {
	out := [][]int{}
	start := 0
	for i := 1; i <= len(seen); i++ {
		in := i < len(seen) && seen[i]
		if in && start == 0 {
			start = i
		}
		if !in && start != 0 {
			out = append(out, []int{start, i - 1})
			start = 0
		}
	}
	return out
}

func (e *endpoint) missing(handed int, max int) (n int, first []int) {
	first = []int{}
	for i := 1; i <= handed; i++ {
		if atomic.LoadUint32(&e.count[i]) == 0 {
			n++
			if len(first) < max {
				first = append(first, i)
			}
		}
	}
	return
}

func (e *endpoint) dups(handed int) int {
	n := 0
	for i := 1; i <= handed; i++ {
		if c := atomic.LoadUint32(&e.count[i]); c > 1 {
			n += int(c - 1)
		}
	}
	return n
}

var portCtr int32

// freePort returns a port outside the ephemeral range that can be listened on right now.
func freePort() int {
	for i := 0; i < 5000; i++ {
		k := int(atomic.AddInt32(&portCtr, 1))
		p := 20000 + (os.Getpid()*131+k*17)%9000
		ln, err := net.Listen("tcp4", "127.0.0.1:"+strconv.Itoa(p))
		if err == nil {
			ln.Close()
			return p
		}
	}
	panic("no free port")
}

// synhole: a bound, listening socket with a zero backlog that never accepts. Once the accept queue
// is full the kernel drops further SYNs, so a dial neither succeeds nor fails for a long time.
type synhole struct {
	fd    int
	port  int
	fill  []net.Conn
	stuck bool
}

func newSynhole() (*synhole, error) {
	fd, err := syscall.Socket(syscall.AF_INET, syscall.SOCK_STREAM, 0)
	if err != nil {
		return nil, err
	}
	syscall.SetsockoptInt(fd, syscall.SOL_SOCKET, syscall.SO_REUSEADDR, 1)
	var port int
	for i := 0; i < 1000; i++ {
		port = freePort()
		err = syscall.Bind(fd, &syscall.SockaddrInet4{Port: port, Addr: [4]byte{127, 0, 0, 1}})
		if err == nil {
			break
		}
	}
	if err != nil {
		return nil, err
	}
	if err = syscall.Listen(fd, 0); err != nil {
		return nil, err
	}
	s := &synhole{fd: fd, port: port}
	// fill the accept queue until a dial hangs
	for i := 0; i < 8; i++ {
		c, err := net.DialTimeout("tcp4", "127.0.0.1:"+strconv.Itoa(port), 300*time.Millisecond)
		if err != nil {
			s.stuck = true
			break
		}
		s.fill = append(s.fill, c)
	}
	return s, nil
}

// ---------------------------------------------------------------- hooks

type hstate struct {
	mu        sync.Mutex
	counts    map[string]int
	inHand    map[interface{}]string // conn -> line received from In, not yet in keepSafe
	f10win    []string               // lines that were in a writer's hand when GetAll ran
	slowUnsp  int                    // unspool events taken while a slow flag was set
	armed     int32
	blocked   chan struct{}
	release   chan struct{}
	redoStart chan struct{}
	gateConn  interface{}
	gateLine  string
	gateHow   string
	connAt    int64 // unix nano of the last relay.connUpdate
	curConn   interface{}
	curDead   bool
	replaced  int                   // a new connection replaced one the relay had not seen dead (two connectors raced)
	firstAdd  map[interface{}]int64 // conn -> unix nano of its first keepSafe.Add
	redoSpan  int64                 // max over redo collections of (GetAll time - first Add of that conn), ms
	ds        *dsGate               // dead-send gate (nil = not armed)
	lastSrc   string                // where the relay took its current line from: "in" | "unspool"
	unspFull  int                   // lines taken from the spool while conn.In was full (len == cap at relay.unspool)
	unspDrop  int                   // lines taken from the spool that nonBlockingSend dropped (slow_conn)
	hold      *wHold                // writer hold of the C06 spool-replay gate (nil = not armed)
}

// wHold (C06, kind spoolgate) holds the connection writer of the first connection made after arming at hd.recv,
// i.e. right after it has taken a line from conn.In -- where it sits while a socket write does not return.  The
// spool replay then fills conn.In; `fired` is closed when the relay has taken a line from the spool for that
// connection while its In was full.  The hold has a deadline: the code under test is never blocked for ever.
type wHold struct {
	conn     interface{}
	held     bool
	firedSet bool
	expired  bool
	inLen    int
	inCap    int
	heldCh   chan struct{}
	fired    chan struct{}
	release  chan struct{}
	once     sync.Once
}

func (st *hstate) armHold() *wHold {
	h := &wHold{heldCh: make(chan struct{}), fired: make(chan struct{}), release: make(chan struct{})}
	st.mu.Lock()
	st.hold = h
	st.mu.Unlock()
	return h
}

func (h *wHold) letGo() { h.once.Do(func() { close(h.release) }) }

func (st *hstate) unspool() (full, drop, taken int) {
	st.mu.Lock()
	defer st.mu.Unlock()
	return st.unspFull, st.unspDrop, st.counts["relay.unspool"]
}

// dsGate forces the interleaving "the connection dies after the relay's aliveness check at the top of an
// iteration but before that iteration hands its line over, and conn.In cannot take the line":
//
//	phase 1  armed: the next line the connection writer takes from In is held in its hand (hd.recv)
//	phase 2  writer held: the first line the relay takes from `src` (relay.in | relay.unspool) for that
//	         connection while its In is full stops the relay there (after the loop-top check), the
//	         endpoint closes the connection and the relay is let go once checkEOF has marked it dead
//	phase 3  fired: when the relay reports the connection dead (relay.dead) the writer is released
//
// Every wait has a deadline: the code under test is never blocked for ever; a gate that does not get
// through its phases is reported (event dsgate) and is a machinery error of the check, not a verdict.
type dsGate struct {
	src     string
	cut     func()
	phase   int
	conn    interface{}
	line    string // the line that met the dead connection
	held    string // the line in the writer's hand
	inLen   int
	inCap   int
	outcome string
	heldCh  chan struct{}
	closed  chan struct{}
	fired   chan struct{}
	release chan struct{}
	o1, o2  sync.Once
	trail   []string // hook events of the gated connection's destination from the writer hold on (diagnosis)
	t0      time.Time
}

func newDsGate(src string, cut func()) *dsGate {
	return &dsGate{src: src, cut: cut, phase: 1, heldCh: make(chan struct{}), closed: make(chan struct{}),
		fired: make(chan struct{}), release: make(chan struct{})}
}

var hookStates sync.Map

func newHState(key string) *hstate {
	st := &hstate{counts: map[string]int{}, inHand: map[interface{}]string{}, firstAdd: map[interface{}]int64{},
		blocked: make(chan struct{}), release: make(chan struct{}), redoStart: make(chan struct{})}
	hookStates.Store(key, st)
	return st
}

func hook(name string, args ...interface{}) {
	if len(args) == 0 {
		return
	}
	key, _ := args[0].(string)
	v, ok := hookStates.Load(key)
	if !ok {
		// spool hooks carry the spool key = dest key as well
		return
	}
	st := v.(*hstate)
	st.mu.Lock()
	st.counts[name]++
	if ds := st.ds; ds != nil && ds.phase >= 2 && len(ds.trail) < 80 {
		mine := len(args) > 1 && args[1] == ds.conn
		ds.trail = append(ds.trail, fmt.Sprintf("%d:%s:%v", time.Since(ds.t0)/time.Millisecond, name, mine))
	}
	switch name {
	case "hd.recv":
		st.inHand[args[1]] = string(args[2].([]byte))
		if ds := st.ds; ds != nil && ds.phase == 1 {
			ds.phase = 2
			ds.t0 = time.Now()
			ds.conn = args[1]
			ds.held = string(args[2].([]byte))
			st.mu.Unlock()
			close(ds.heldCh)
			select {
			case <-ds.release:
			case <-time.After(15 * time.Second):
				st.mu.Lock()
				if ds.outcome == "" {
					ds.outcome = "writer-hold-expired"
				}
				st.mu.Unlock()
			}
			return
		}
		if h := st.hold; h != nil && !h.held {
			h.held = true
			h.conn = args[1]
			st.mu.Unlock()
			close(h.heldCh)
			select {
			case <-h.release:
			case <-time.After(60 * time.Second):
				st.mu.Lock()
				h.expired = true
				st.mu.Unlock()
			}
			return
		}
		if atomic.LoadInt32(&st.armed) == 1 {
			atomic.StoreInt32(&st.armed, 2)
			st.gateConn = args[1]
			st.gateLine = string(args[2].([]byte))
			st.mu.Unlock()
			close(st.blocked)
			// TLC's counterexample: HdRecv, EpDown, CheckEOF, RelayTop(dead), RedoGetAll, HdAdd.
			// hold the writer between the receive and keepSafe.Add until GetAll has run.  With the
			// repair (getRedo waits for the writer) GetAll cannot run first: give up 1.5 s after
			// the redo collector started.
			select {
			case <-st.release:
				st.setHow("getall-first")
			case <-st.redoStart:
				select {
				case <-st.release:
					st.setHow("getall-first")
				case <-time.After(1500 * time.Millisecond):
					st.setHow("writer-first")
				}
			case <-time.After(20 * time.Second):
				st.setHow("timeout")
			}
			return
		}
	case "hd.added":
		delete(st.inHand, args[1])
		if _, ok := st.firstAdd[args[1]]; !ok {
			st.firstAdd[args[1]] = time.Now().UnixNano()
		}
	case "relay.connUpdate":
		atomic.StoreInt64(&st.connAt, time.Now().UnixNano())
		if st.curConn != nil && !st.curDead {
			st.replaced++
		}
		st.curConn = args[1]
		st.curDead = false
	case "relay.dead":
		st.curDead = true
		if ds := st.ds; ds != nil && ds.phase >= 2 && args[1] == ds.conn {
			ds.o2.Do(func() { close(ds.release) })
		}
	case "conn.close":
		if ds := st.ds; ds != nil && ds.phase >= 2 && args[1] == ds.conn {
			ds.o1.Do(func() { close(ds.closed) })
		}
	case "redo.start":
		if atomic.LoadInt32(&st.armed) == 2 && args[1] == st.gateConn {
			select {
			case <-st.redoStart:
			default:
				close(st.redoStart)
			}
		}
	case "redo.getall":
		if t0, ok := st.firstAdd[args[1]]; ok {
			if ms := (time.Now().UnixNano() - t0) / int64(time.Millisecond); ms > st.redoSpan {
				st.redoSpan = ms
			}
		}
		if l, ok := st.inHand[args[1]]; ok {
			st.f10win = append(st.f10win, l)
		}
		if atomic.LoadInt32(&st.armed) == 2 && args[1] == st.gateConn {
			select {
			case <-st.release:
			default:
				close(st.release)
			}
		}
	case "relay.in":
		st.lastSrc = "in"
	case "send.drop":
		if st.lastSrc == "unspool" {
			st.unspDrop++
		}
	case "relay.unspool":
		st.lastSrc = "unspool"
		if c, _ := args[1].(*destination.Conn); c != nil && len(c.In) == cap(c.In) {
			st.unspFull++
			if h := st.hold; h != nil && h.held && !h.firedSet && args[1] == h.conn {
				h.firedSet = true
				h.inLen, h.inCap = len(c.In), cap(c.In)
				close(h.fired)
			}
		}
		if len(args) >= 5 {
			a, _ := args[3].(bool)
			b, _ := args[4].(bool)
			if a || b {
				st.slowUnsp++
			}
		}
	}
	if ds := st.ds; ds != nil && ds.phase == 2 && name == ds.src && args[1] == ds.conn {
		// relay goroutine, after this iteration's aliveness check, before the line is handed to the connection
		if c, _ := args[1].(*destination.Conn); c != nil && len(c.In) == cap(c.In) {
			ds.phase = 3
			ds.line = string(args[2].([]byte))
			ds.inLen, ds.inCap = len(c.In), cap(c.In)
			st.mu.Unlock()
			// the endpoint closes the connection (again and again: it may not have accepted it yet) ...
			out := "fired"
			tCut := time.Now()
		cutting:
			for {
				ds.cut()
				select {
				case <-ds.closed: // ... and checkEOF has marked it dead
					break cutting
				case <-time.After(10 * time.Millisecond):
					if time.Since(tCut) > 10*time.Second {
						out = "close-not-seen"
						break cutting
					}
				}
			}
			st.mu.Lock()
			ds.outcome = out
			st.mu.Unlock()
			close(ds.fired)
			return
		}
	}
	st.mu.Unlock()
}

func (st *hstate) armDs(src string, cut func()) *dsGate {
	ds := newDsGate(src, cut)
	st.mu.Lock()
	st.ds = ds
	st.mu.Unlock()
	return ds
}

func (st *hstate) dsInfo() (outcome, line, held string, inLen, inCap int, trail []string) {
	st.mu.Lock()
	defer st.mu.Unlock()
	if st.ds == nil {
		return "not-armed", "", "", 0, 0, nil
	}
	return st.ds.outcome, st.ds.line, st.ds.held, st.ds.inLen, st.ds.inCap, append([]string{}, st.ds.trail...)
}

func (st *hstate) setHow(h string) {
	st.mu.Lock()
	st.gateHow = h
	st.mu.Unlock()
}

func (st *hstate) nReplaced() int {
	st.mu.Lock()
	defer st.mu.Unlock()
	return st.replaced
}

func (st *hstate) span() int {
	st.mu.Lock()
	defer st.mu.Unlock()
	return int(st.redoSpan)
}

// spoolIdle: every dead connection has been collected and ingested, and every line the spool writer
// took in has been put into the disk queue (nothing is on its way into the spool any more)
func (st *hstate) spoolIdle() bool {
	st.mu.Lock()
	defer st.mu.Unlock()
	c := st.counts
	return c["relay.dead"] == c["redo.ingested"] && c["spool.put"] == c["spool.rt"]+c["spool.bulk"]
}

func (st *hstate) snapshot() (map[string]int, []string, int, string) {
	st.mu.Lock()
	defer st.mu.Unlock()
	c := map[string]int{}
	for k, v := range st.counts {
		c[k] = v
	}
	return c, append([]string{}, st.f10win...), st.slowUnsp, st.gateHow
}

// ---------------------------------------------------------------- common

func counter(key, reason string) int64 {
	return stats.Counter("dest=" + key + ".unit=Metric.action=drop.reason=" + reason).Count()
}

func counterOut(key string) int64 {
	return stats.Counter("dest=" + key + ".unit=Metric.direction=out").Count()
}

type counters struct{ slowConn, slowSpool, down, out int64 }

func readCounters(key string) counters {
	return counters{counter(key, "slow_conn"), counter(key, "slow_spool"), counter(key, "conn_down_no_spool"), counterOut(key)}
}

func (a counters) sub(b counters) counters {
	return counters{a.slowConn - b.slowConn, a.slowSpool - b.slowSpool, a.down - b.down, a.out - b.out}
}

func poll(deadline time.Duration, cond func() bool) bool {
	t0 := time.Now()
	for {
		if cond() {
			return true
		}
		if time.Since(t0) > deadline {
			return false
		}
		time.Sleep(2 * time.Millisecond)
	}
}

// pollProgress waits for cond; it gives up only when the progress measure has not changed for
// `stall` (or after `max`): something that is still moving is not declared stuck.
func pollProgress(stall, max time.Duration, cond func() bool, measure func() int64) bool {
	t0 := time.Now()
	last := measure()
	lastT := t0
	for {
		if cond() {
			return true
		}
		if m := measure(); m != last {
			last, lastT = m, time.Now()
		}
		if time.Since(lastT) > stall || time.Since(t0) > max {
			return false
		}
		time.Sleep(2 * time.Millisecond)
	}
}

func mkLine(prefix string, id int, suffix []byte) []byte {
	b := make([]byte, 0, len(prefix)+8+len(suffix))
	b = append(b, prefix...)
	b = strconv.AppendInt(b, int64(id), 10)
	b = append(b, suffix...)
	return b
}

func mkSuffix(linelen int) []byte {
	pad := linelen - 30
	if pad < 1 {
		pad = 1
	}
	s := []byte(" ")
	for i := 0; i < pad; i++ {
		s = append(s, byte('a'+i%26))
	}
	return append(s, []byte(" 1 1500000000")...)
}

func loadScenarios(t *testing.T, env string, v interface{}) {
	p := os.Getenv(env)
	if p == "" {
		t.Fatalf("%s not set", env)
	}
	b, err := ioutil.ReadFile(p)
	if err != nil {
		t.Fatal(err)
	}
	if err := json.Unmarshal(b, v); err != nil {
		t.Fatal(err)
	}
}

var runTag = fmt.Sprintf("p%dt%d", os.Getpid(), time.Now().UnixNano()%100000)

// ---------------------------------------------------------------- C06

type c06Scn struct {
	ID       int    `json:"id"`
	Kind     string `json:"kind"`  // refuse | synhole | blackhole | slow | healthy | closing | mixed | switch | stall | stallclose | addr* | spool*
	Route    string `json:"route"` // all | first | chash
	ConnBuf  int    `json:"connbuf"`
	IoBuf    int    `json:"iobuf"`
	FlushMs  int    `json:"flush_ms"`
	Lines    int    `json:"lines"`
	LineLen  int    `json:"linelen"`
	RcvBuf   int    `json:"rcvbuf"`
	CloseAft int64  `json:"close_after"`
	StallMs  int    `json:"stall_ms"` // kind stall: how long the endpoint keeps not reading once the writer is blocked
	// kinds spoolbh | spoolstall | spoolclose | spoolgate (spooling enabled, TestC06Spool)
	Backlog  int  `json:"backlog"`   // lines handed while the endpoint is absent (they go to the disk spool)
	ReconnMs int  `json:"reconn_ms"` // reconnect period (= the period of the relay's slow flags)
	Cycles   int  `json:"cycles"`    // how many times a line taken from the spool must have met a full conn.In
	Burst    int  `json:"burst"`     // lines handed back to back per cycle during the replay
	Post     int  `json:"post"`      // lines handed after the endpoint's last move
	Bg       bool `json:"bg"`        // kinds addr*: traffic goes on while the address update is in progress
	Switches []struct {
		At   int    `json:"at"`
		Mode string `json:"mode"`
	} `json:"switches"`
}

type ev map[string]interface{}

func newDest(key, addr, spoolDir string, spool bool, flushMs, reconnMs, connbuf, iobuf, spoolbuf int, unspoolSleep time.Duration) *destination.Destination {
	m, _ := matcher.New("", "", "", "", "", "")
	d, err := destination.New(key, m, addr, spoolDir, spool, false,
		time.Duration(flushMs)*time.Millisecond, time.Duration(reconnMs)*time.Millisecond,
		connbuf, iobuf, spoolbuf, 4*1024*1024, 10000, time.Second, time.Microsecond, unspoolSleep)
	if err != nil {
		panic(err)
	}
	return d
}

func setMode(e *endpoint, mode string) {
	switch mode {
	case "healthy":
		atomic.StoreInt32(&e.mode, mHealthy)
	case "blackhole":
		atomic.StoreInt32(&e.mode, mBlackhole)
	case "slow":
		atomic.StoreInt32(&e.mode, mSlow)
	case "closeconns":
		e.closeConns()
	case "down":
		e.down()
	case "up":
		e.up()
	}
}

func TestC06(t *testing.T) {
	out := hx.Out(t)
	var scns []c06Scn
	loadScenarios(t, "VERIF_C06_SCN", &scns)
	lg := hx.NewLog(filepath.Join(out, "c06_trace.ndjson"))
	defer lg.Close()
	prog := hx.NewLog(filepath.Join(out, "c06_progress.ndjson"))
	prog.Unbuffered = true
	defer prog.Close()
	var wg sync.WaitGroup
	sem := make(chan struct{}, 3)
	var lmu sync.Mutex
	for i := range scns {
		s := scns[i]
		wg.Add(1)
		go func() {
			defer wg.Done()
			sem <- struct{}{}
			defer func() { <-sem }()
			prog.Emit(ev{"ev": "start", "scn": s.ID, "kind": s.Kind})
			evs := runC06(s)
			lmu.Lock()
			for _, e := range evs {
				lg.Emit(e)
			}
			lmu.Unlock()
			prog.Emit(ev{"ev": "end", "scn": s.ID})
		}()
	}
	wg.Wait()
}

func runC06(s c06Scn) []ev {
	if strings.HasPrefix(s.Kind, "addr") {
		return runC06Addr(s)
	}
	evs := []ev{{"ev": "scn", "scn": s.ID, "kind": s.Kind, "prop": "C06", "spool": false}}
	rname := fmt.Sprintf("c06%s_s%d", runTag, s.ID)
	prefix := rname + "."
	suffix := mkSuffix(s.LineLen)
	type dd struct {
		d    *destination.Destination
		e    *endpoint
		kind string
		base counters
	}
	var dests []*dd
	mk := func(kind string) *dd {
		e := newEndpoint(prefix, suffix, s.Lines, freePort(), s.RcvBuf)
		switch kind {
		case "refuse":
			// nothing listens on the port
		case "synhole":
			sh, err := newSynhole()
			if err == nil {
				e.port = sh.port
				evs = append(evs, ev{"ev": "info", "scn": s.ID, "synhole_stuck": sh.stuck})
				runtime.KeepAlive(sh)
				keep(sh)
			}
		case "blackhole":
			atomic.StoreInt32(&e.mode, mBlackhole)
			e.up()
		case "slow":
			atomic.StoreInt32(&e.mode, mSlow)
			e.up()
		case "closing":
			atomic.StoreInt64(&e.closeAfter, s.CloseAft)
			e.up()
		default:
			e.up()
		}
		d := newDest(rname, e.addr(), "", false, s.FlushMs, 50, s.ConnBuf, s.IoBuf, 100, time.Microsecond)
		x := &dd{d: d, e: e, kind: kind}
		keep(e)
		return x
	}
	switch s.Kind {
	case "mixed":
		dests = []*dd{mk("blackhole"), mk("healthy"), mk("refuse")}
	default:
		dests = []*dd{mk(s.Kind)}
	}
	var ds []*destination.Destination
	for _, x := range dests {
		ds = append(ds, x.d)
	}
	m, _ := matcher.New("", "", "", "", "", "")
	var r route.Route
	switch s.Route {
	case "first":
		r, _ = route.NewSendFirstMatch(rname, m, ds)
	case "chash":
		r, _ = route.NewConsistentHashing(rname, m, ds)
	default:
		r, _ = route.NewSendAllMatch(rname, m, ds)
	}
	for _, x := range dests {
		x.base = readCounters(x.d.Key)
	}
	// the transition into the steady phase must be observed, not assumed
	for _, x := range dests {
		if x.kind == "refuse" || x.kind == "synhole" {
			continue
		}
		d := x.d
		if !poll(20*time.Second, func() bool { return d.Snapshot().Online }) {
			evs = append(evs, ev{"ev": "timeout", "scn": s.ID, "what": "online"})
			return evs
		}
	}
	// traffic, every call timed
	var callStart int64 // unix nano of the call in progress, 0 = none
	var maxNs, over int64
	var handed int64
	done := make(chan struct{})
	hand := func(i int) {
		buf := mkLine(prefix, i, suffix)
		t0 := time.Now()
		atomic.StoreInt64(&callStart, t0.UnixNano())
		r.Dispatch(buf)
		dt := int64(time.Since(t0))
		atomic.StoreInt64(&callStart, 0)
		if dt > atomic.LoadInt64(&maxNs) {
			atomic.StoreInt64(&maxNs, dt)
		}
		if dt > int64(5*time.Second) {
			atomic.AddInt64(&over, 1)
		}
		atomic.StoreInt64(&handed, int64(i))
	}
	// kind stall: the endpoint accepts and reads normally, then stops reading (the connection stays open)
	// until conn.In, the io buffer and the kernel buffers are full and the connection writer is really
	// blocked, keeps not reading for StallMs (many flush periods) while traffic goes on, then resumes and
	// reads to the end.  It never closes.  Returns what was observed (event stall).
	// kind stallclose: the same up to the end of the pause, then the endpoint closes the connection (the writer
	// is inside a blocked write at that moment and gets the error itself) and serves the next one normally.
	var stallEv ev
	stall := func() ev {
		x := dests[0]
		key := x.d.Key
		i := 0
		pre, post := s.Lines/8, s.Lines/8
		for i < pre {
			i++
			hand(i)
		}
		atomic.StoreInt32(&x.e.mode, mBlackhole)
		t0 := time.Now()
		c0 := readCounters(key)
		// The pause lasts until the writer has been blocked for `hold`: nothing was written to the connection for
		// that long although lines kept coming and at least 50 of them were dropped meanwhile (conn.In full the
		// whole time).  A writer that was only starved of CPU moves again and restarts the clock.  Lines that are
		// dropped are followed by a short sleep (they do not help to fill the buffers; the writer gets the CPU).
		hold := time.Duration(s.StallMs) * time.Millisecond
		pace := hold / 1500
		if pace < 200*time.Microsecond {
			pace = 200 * time.Microsecond
		}
		outSeen, stableSince, dropsSeen, dropsStable, resets := c0.out, t0, c0.slowConn+c0.down, 0, 0
		saturated := false
		satAt, outBlocked := 0, int64(0)
		for i < s.Lines-post && time.Since(t0) < 90*time.Second {
			i++
			hand(i)
			c := readCounters(key)
			now := time.Now()
			if c.out != outSeen {
				outSeen, stableSince, dropsStable = c.out, now, 0
				resets++
			}
			if d := c.slowConn + c.down; d != dropsSeen {
				first := dropsStable == 0
				dropsStable += int(d - dropsSeen)
				dropsSeen = d
				if first {
					satAt, outBlocked = i, c.out-x.base.out
				}
				if now.Sub(stableSince) >= hold && dropsStable >= 50 {
					saturated = true
					break
				}
				time.Sleep(pace)
			}
		}
		tSat := stableSince
		held := time.Since(stableSince)
		if !saturated {
			held = 0
		}
		cRes := readCounters(key).sub(x.base)
		acc := atomic.LoadInt64(&x.e.accepted)
		if s.Kind == "stallclose" {
			x.e.closeConns()
		}
		if s.Kind == "stallfin" {
			// the endpoint half-closes (FIN; the socket stays open and is still not read) while the writer sits in the
			// blocked write; traffic goes on against the still silent endpoint, then it closes for good and recovers
			x.e.halfClose()
			for j := 0; j < post && i < s.Lines; j++ {
				i++
				hand(i)
				if j%50 == 0 {
					time.Sleep(2 * time.Millisecond)
				}
			}
			x.e.closeConns()
		}
		atomic.StoreInt32(&x.e.mode, mHealthy) // resumes; reads everything from now on
		for j := 0; j < post && i < s.Lines; j++ {
			i++
			hand(i)
		}
		return ev{"ev": "stall", "scn": s.ID, "kind": s.Kind, "saturated": saturated, "stall_at": pre, "blocked_at": satAt,
			"fill_ms": int(tSat.Sub(t0) / time.Millisecond), "held_ms": int(held / time.Millisecond), "flush_ms": s.FlushMs,
			"paused_ms": int(time.Since(t0) / time.Millisecond), "hold_restarts": resets,
			"out_blocked": int(outBlocked), "out_resume": int(cRes.out), "slow_conn_resume": int(cRes.slowConn),
			"down_resume": int(cRes.down), "accepted_resume": int(acc), "online_resume": x.d.Snapshot().Online}
	}
	go func() {
		defer close(done)
		if s.Kind == "stall" || s.Kind == "stallclose" || s.Kind == "stallfin" {
			stallEv = stall()
			return
		}
		si := 0
		for i := 1; i <= s.Lines; i++ {
			for si < len(s.Switches) && s.Switches[si].At == i {
				for _, x := range dests {
					setMode(x.e, s.Switches[si].Mode)
				}
				si++
			}
			hand(i)
		}
	}()
	stuck := false
	tStart := time.Now()
wait:
	for {
		select {
		case <-done:
			break wait
		case <-time.After(50 * time.Millisecond):
			cs := atomic.LoadInt64(&callStart)
			if cs != 0 && time.Now().UnixNano()-cs > int64(12*time.Second) {
				// a Dispatch call has not returned for 12 s: that is the property's time bound
				// broken; do not wait for it (the goroutine is abandoned)
				stuck = true
				el := time.Now().UnixNano() - cs
				if el > atomic.LoadInt64(&maxNs) {
					atomic.StoreInt64(&maxNs, el)
				}
				atomic.AddInt64(&over, 1)
				break wait
			}
			if time.Since(tStart) > 15*time.Minute {
				evs = append(evs, ev{"ev": "timeout", "scn": s.ID, "what": "traffic"})
				return evs
			}
		}
	}
	h := int(atomic.LoadInt64(&handed))
	evs = append(evs, ev{"ev": "lat", "scn": s.ID, "calls": h, "max_us": int(atomic.LoadInt64(&maxNs) / 1000),
		"over_bound": int(atomic.LoadInt64(&over)), "stuck": stuck})
	if stuck {
		return evs
	}
	if stallEv != nil {
		evs = append(evs, stallEv)
	}
	// steady-phase accounting, at quiescence (polled)
	for di, x := range dests {
		key := x.d.Key
		steady := ""
		switch x.kind {
		case "healthy":
			steady = "healthy"
		case "slow":
			steady = "healthy" // throttled but up the whole time; let it catch up, then account
			atomic.StoreInt32(&x.e.mode, mHealthy)
		case "stall":
			steady = "paused" // connected the whole time, did not read for a while, has resumed
		case "refuse", "synhole":
			steady = "down"
		}
		if len(s.Switches) > 0 || s.Route != "all" && len(dests) > 1 {
			steady = ""
		}
		want := h
		quiesced := true
		if steady == "healthy" {
			e := x.e
			quiesced = pollProgress(60*time.Second, 15*time.Minute, func() bool {
				c := readCounters(key).sub(x.base)
				return atomic.LoadInt64(&e.distinct)+c.slowConn >= int64(want)
			}, func() int64 { return atomic.LoadInt64(&e.total) + readCounters(key).slowConn })
			// let stragglers (duplicates would show here) arrive
			time.Sleep(50 * time.Millisecond)
		} else if steady == "paused" {
			e := x.e
			quiesced = pollProgress(30*time.Second, 15*time.Minute, func() bool {
				c := readCounters(key).sub(x.base)
				return atomic.LoadInt64(&e.distinct)+c.slowConn+c.down >= int64(want)
			}, func() int64 { c := readCounters(key); return atomic.LoadInt64(&e.total) + c.slowConn + c.down })
			time.Sleep(50 * time.Millisecond)
		} else if steady == "down" {
			quiesced = poll(30*time.Second, func() bool { return readCounters(key).sub(x.base).down >= int64(want) })
		} else {
			time.Sleep(20 * time.Millisecond)
		}
		c := readCounters(key).sub(x.base)
		evs = append(evs, ev{"ev": "phase", "scn": s.ID, "dest": di, "endpoint": x.kind, "steady": steady, "handed": want,
			"received": int(atomic.LoadInt64(&x.e.distinct)), "total": int(atomic.LoadInt64(&x.e.total)),
			"malformed": int(atomic.LoadInt64(&x.e.malformed)),
			"slow_conn": int(c.slowConn), "slow_spool": int(c.slowSpool), "down": int(c.down), "out": int(c.out),
			"online": x.d.Snapshot().Online, "quiesced": quiesced, "accepted": int(atomic.LoadInt64(&x.e.accepted))})
	}
	return evs
}

// ---------------------------------------------------------------- C06, address update
//
// The destination's address is changed at run time (Route.UpdateDestination addr=..., what `modDest .. addr=` does)
// while the relay holds a connection to the previous endpoint:
//
//	addrbh     the previous endpoint accepts and never reads; traffic is handed until conn.In, the io buffer and the
//	           kernel buffers are full and the connection writer is really blocked (nothing written for StallMs while
//	           lines keep being dropped and counted), then the address is changed to a healthy endpoint
//	addrstall  the same, but the previous endpoint reads normally at first and then stops reading
//	addrok     the previous endpoint is healthy all along (control: nothing is blocked)
//
// Every Route.Dispatch call before, (Bg: during,) and after the update is timed (event lat).  Without Bg no line is
// handed while the update is in progress, so the lines handed after it has returned all belong to the connection to
// the new, healthy endpoint: phase steady=healthy for them (received by the new endpoint or counted as slow_conn under
// the destination's new key).  With Bg, or when the update has not returned, no identity is declared.
func runC06Addr(s c06Scn) []ev {
	evs := []ev{{"ev": "scn", "scn": s.ID, "kind": s.Kind, "prop": "C06", "spool": false}}
	rname := fmt.Sprintf("c06a%s_s%d", runTag, s.ID)
	prefix := rname + "."
	suffix := mkSuffix(s.LineLen)
	eOld := newEndpoint(prefix, suffix, s.Lines, freePort(), s.RcvBuf)
	eNew := newEndpoint(prefix, suffix, s.Lines, freePort(), 0)
	keep(eOld)
	keep(eNew)
	if s.Kind == "addrbh" {
		atomic.StoreInt32(&eOld.mode, mBlackhole)
	}
	if err := eOld.up(); err != nil {
		return append(evs, ev{"ev": "timeout", "scn": s.ID, "what": "listen: " + err.Error()})
	}
	if err := eNew.up(); err != nil {
		return append(evs, ev{"ev": "timeout", "scn": s.ID, "what": "listen: " + err.Error()})
	}
	d := newDest(rname, eOld.addr(), "", false, s.FlushMs, 50, s.ConnBuf, s.IoBuf, 100, time.Microsecond)
	oldKey := d.Key
	baseOld := readCounters(oldKey)
	m, _ := matcher.New("", "", "", "", "", "")
	var r route.Route
	switch s.Route {
	case "first":
		r, _ = route.NewSendFirstMatch(rname, m, []*destination.Destination{d})
	case "chash":
		r, _ = route.NewConsistentHashing(rname, m, []*destination.Destination{d})
	default:
		r, _ = route.NewSendAllMatch(rname, m, []*destination.Destination{d})
	}
	if !poll(20*time.Second, func() bool { return d.Snapshot().Online }) {
		return append(evs, ev{"ev": "timeout", "scn": s.ID, "what": "online"})
	}
	tr := &timedRoute{r: r, prefix: prefix, suffix: suffix}

	info := ev{"ev": "addrupd", "scn": s.ID, "kind": s.Kind, "bg": s.Bg, "saturated": false, "upd_returned": false,
		"flush_ms": s.FlushMs, "old_key": oldKey, "route": s.Route}
	var imu sync.Mutex
	set := func(k string, v interface{}) { imu.Lock(); info[k] = v; imu.Unlock() }
	var mark, post int // lines handed before the update had returned / after it
	var newKey string
	var baseNew counters
	updReturned := false
	done := make(chan struct{})
	go func() {
		defer close(done)
		i := 0
		pre := s.Lines / 8
		if s.Kind != "addrbh" {
			for i < pre {
				i++
				tr.hand(i)
			}
		}
		if s.Kind != "addrok" {
			// fill the path to the previous endpoint until its writer is blocked (same criterion as kind stall)
			atomic.StoreInt32(&eOld.mode, mBlackhole)
			t0 := time.Now()
			c0 := readCounters(oldKey)
			hold := time.Duration(s.StallMs) * time.Millisecond
			pace := hold / 1500
			if pace < 200*time.Microsecond {
				pace = 200 * time.Microsecond
			}
			outSeen, stableSince, dropsSeen, dropsStable := c0.out, t0, c0.slowConn+c0.down, 0
			saturated, satAt := false, 0
			for i < s.Lines-s.Post-s.Post && time.Since(t0) < 90*time.Second {
				i++
				tr.hand(i)
				c := readCounters(oldKey)
				now := time.Now()
				if c.out != outSeen {
					outSeen, stableSince, dropsStable = c.out, now, 0
				}
				if dd := c.slowConn + c.down; dd != dropsSeen {
					if dropsStable == 0 {
						satAt = i
					}
					dropsStable += int(dd - dropsSeen)
					dropsSeen = dd
					if now.Sub(stableSince) >= hold && dropsStable >= 50 {
						saturated = true
						break
					}
					time.Sleep(pace)
				}
			}
			held := time.Since(stableSince)
			if !saturated {
				held = 0
			}
			set("saturated", saturated)
			set("blocked_at", satAt)
			set("fill_ms", int(stableSince.Sub(t0)/time.Millisecond))
			set("held_ms", int(held/time.Millisecond))
		}
		cPre := readCounters(oldKey).sub(baseOld)
		set("pre_handed", i)
		set("pre_out", int(cPre.out))
		set("pre_slow_conn", int(cPre.slowConn))
		set("pre_down", int(cPre.down))
		set("pre_online", d.Snapshot().Online)
		// the operator points the destination at the healthy endpoint
		updDone := make(chan error, 1)
		tU := time.Now()
		go func() { updDone <- r.UpdateDestination(0, map[string]string{"addr": eNew.addr()}) }()
		var updErr error
		ret := false
		for !ret && time.Since(tU) < 6*time.Second {
			if s.Bg && i < s.Lines-s.Post {
				i++
				tr.hand(i)
				select {
				case updErr = <-updDone:
					ret = true
				default:
				}
			} else {
				select {
				case updErr = <-updDone:
					ret = true
				case <-time.After(6*time.Second - time.Since(tU)):
				}
			}
		}
		set("upd_returned", ret)
		set("upd_ms", int(time.Since(tU)/time.Millisecond))
		if updErr != nil {
			set("upd_err", updErr.Error())
		}
		mark = i
		if ret && updErr == nil {
			newKey = d.Snapshot().Key
			baseNew = readCounters(newKey)
			updReturned = true
			set("new_key", newKey)
		}
		// traffic goes on
		for j := 0; j < s.Post && i < s.Lines; j++ {
			i++
			tr.hand(i)
			post++
			if j%100 == 99 {
				time.Sleep(time.Millisecond)
			}
		}
	}()
	stuck := false
	tStart := time.Now()
wait:
	for {
		select {
		case <-done:
			break wait
		case <-time.After(50 * time.Millisecond):
			if p := tr.pending(); p > 12*time.Second {
				stuck = true
				if int64(p) > atomic.LoadInt64(&tr.maxNs) {
					atomic.StoreInt64(&tr.maxNs, int64(p))
				}
				atomic.AddInt64(&tr.over, 1)
				break wait
			}
			if time.Since(tStart) > 10*time.Minute {
				return append(evs, ev{"ev": "timeout", "scn": s.ID, "what": "traffic"})
			}
		}
	}
	h := int(atomic.LoadInt64(&tr.handed))
	evs = append(evs, ev{"ev": "lat", "scn": s.ID, "calls": h, "max_us": int(atomic.LoadInt64(&tr.maxNs) / 1000),
		"over_bound": int(atomic.LoadInt64(&tr.over)), "stuck": stuck})
	imu.Lock()
	cp := ev{}
	for k, v := range info {
		cp[k] = v
	}
	imu.Unlock()
	evs = append(evs, cp)
	if stuck {
		eOld.down() // lets a writer that is parked on the previous endpoint go away
		return evs
	}
	// the previous endpoint: no identity (a black hole is not a steady state of the property)
	cOld := readCounters(oldKey).sub(baseOld)
	evs = append(evs, ev{"ev": "phase", "scn": s.ID, "dest": 0, "endpoint": "addr-old", "steady": "", "handed": mark,
		"received": int(atomic.LoadInt64(&eOld.distinct)), "total": int(atomic.LoadInt64(&eOld.total)),
		"malformed": int(atomic.LoadInt64(&eOld.malformed)),
		"slow_conn": int(cOld.slowConn), "slow_spool": int(cOld.slowSpool), "down": int(cOld.down), "out": int(cOld.out),
		"online": d.Snapshot().Online, "quiesced": true, "accepted": int(atomic.LoadInt64(&eOld.accepted))})
	// the new endpoint, healthy the whole time: the lines handed after the update had returned
	steady := ""
	quiesced := true
	var cNew counters
	if updReturned {
		if !s.Bg {
			steady = "healthy"
		}
		quiesced = pollProgress(30*time.Second, 10*time.Minute, func() bool {
			c := readCounters(newKey).sub(baseNew)
			return atomic.LoadInt64(&eNew.distinct)+c.slowConn+c.down >= int64(post)
		}, func() int64 { c := readCounters(newKey); return atomic.LoadInt64(&eNew.total) + c.slowConn + c.down })
		time.Sleep(50 * time.Millisecond)
		cNew = readCounters(newKey).sub(baseNew)
	}
	evs = append(evs, ev{"ev": "phase", "scn": s.ID, "dest": 0, "endpoint": "addr-new", "steady": steady, "handed": post,
		"received": int(atomic.LoadInt64(&eNew.distinct)), "total": int(atomic.LoadInt64(&eNew.total)),
		"malformed": int(atomic.LoadInt64(&eNew.malformed)),
		"slow_conn": int(cNew.slowConn), "slow_spool": int(cNew.slowSpool), "down": int(cNew.down), "out": int(cNew.out),
		"online": d.Snapshot().Online, "quiesced": quiesced, "accepted": int(atomic.LoadInt64(&eNew.accepted))})
	eOld.down()
	return evs
}

// ---------------------------------------------------------------- C06, spooling enabled
//
// Outage first (the handed lines go to the disk spool), then the endpoint comes back, the destination
// reconnects and replays the spool -- and the endpoint misbehaves during the replay:
//
//	spoolbh     accepts, never reads (small SO_RCVBUF): conn.In, io buffer and kernel buffers fill
//	spoolstall  the same until lines taken from the spool have met a full conn.In `cycles` times, then it
//	            reads everything (stall-then-resume)
//	spoolclose  the same, then it closes the connection mid-replay and serves the next one normally
//	spoolgate   deterministic variant: the connection writer is held at hd.recv (where it sits while a socket
//	            write does not return), the replay fills conn.In, then traffic is handed
//
// Traffic keeps being handed through Route.Dispatch the whole time, every call is timed (event lat, the only
// event of these scenarios that carries a verdict).  Traffic during the replay comes in bursts separated by
// more than two reconnect periods: the relay unspools only while it has not dropped anything for two periods,
// so every gap gives the replay another go at the full connection queue.
type timedRoute struct {
	r                              route.Route
	prefix                         string
	suffix                         []byte
	callStart, maxNs, over, handed int64
}

func (tr *timedRoute) hand(i int) {
	buf := mkLine(tr.prefix, i, tr.suffix)
	t0 := time.Now()
	atomic.StoreInt64(&tr.callStart, t0.UnixNano())
	tr.r.Dispatch(buf)
	dt := int64(time.Since(t0))
	atomic.StoreInt64(&tr.callStart, 0)
	if dt > atomic.LoadInt64(&tr.maxNs) {
		atomic.StoreInt64(&tr.maxNs, dt)
	}
	if dt > int64(5*time.Second) {
		atomic.AddInt64(&tr.over, 1)
	}
	atomic.StoreInt64(&tr.handed, int64(i))
}

// pending: how long the call in progress has been running (0 = none in progress)
func (tr *timedRoute) pending() time.Duration {
	cs := atomic.LoadInt64(&tr.callStart)
	if cs == 0 {
		return 0
	}
	return time.Duration(time.Now().UnixNano() - cs)
}

func TestC06Spool(t *testing.T) {
	out := hx.Out(t)
	var scns []c06Scn
	loadScenarios(t, "VERIF_C06S_SCN", &scns)
	destination.VerifSetHook(hook)
	lg := hx.NewLog(filepath.Join(out, "c06s_trace.ndjson"))
	defer lg.Close()
	prog := hx.NewLog(filepath.Join(out, "c06s_progress.ndjson"))
	prog.Unbuffered = true
	defer prog.Close()
	spoolRoot := hx.ShmBase()
	if _, err := os.Stat(spoolRoot); err != nil {
		spoolRoot = out
	}
	spoolRoot, err := ioutil.TempDir(spoolRoot, "verif-c06-")
	if err != nil {
		t.Fatal(err)
	}
	defer os.RemoveAll(spoolRoot)
	var wg sync.WaitGroup
	sem := make(chan struct{}, 3)
	var lmu sync.Mutex
	for i := range scns {
		s := scns[i]
		wg.Add(1)
		go func() {
			defer wg.Done()
			sem <- struct{}{}
			defer func() { <-sem }()
			prog.Emit(ev{"ev": "start", "scn": s.ID, "kind": s.Kind})
			evs := runC06Spool(s, spoolRoot)
			lmu.Lock()
			for _, e := range evs {
				lg.Emit(e)
			}
			lmu.Unlock()
			prog.Emit(ev{"ev": "end", "scn": s.ID})
		}()
	}
	wg.Wait()
}

func runC06Spool(s c06Scn, spoolRoot string) []ev {
	evs := []ev{{"ev": "scn", "scn": s.ID, "kind": s.Kind, "prop": "C06", "spool": true}}
	rname := fmt.Sprintf("c06s%s_s%d", runTag, s.ID)
	prefix := rname + "."
	suffix := mkSuffix(s.LineLen)
	e := newEndpoint(prefix, suffix, s.Lines, freePort(), s.RcvBuf) // absent for now
	keep(e)
	dir := filepath.Join(spoolRoot, rname)
	os.MkdirAll(dir, 0755)
	d := newDest(rname, e.addr(), dir, true, s.FlushMs, s.ReconnMs, s.ConnBuf, s.IoBuf, 10000, time.Microsecond)
	key := d.Key
	st := newHState(key)
	base := readCounters(key)
	m, _ := matcher.New("", "", "", "", "", "")
	r, _ := route.NewSendAllMatch(rname, m, []*destination.Destination{d})
	tr := &timedRoute{r: r, prefix: prefix, suffix: suffix}
	online := func() bool { return d.Snapshot().Online }
	gap := time.Duration(3*s.ReconnMs+5) * time.Millisecond

	var failed string // the scenario could not be set up (no verdict)
	var hold *wHold   // armed from the start: the first connection is made when the endpoint comes back
	if s.Kind == "spoolgate" {
		hold = st.armHold()
	}
	var moved int32 // the endpoint has made its last move (resume / close)
	move := func() {
		if !atomic.CompareAndSwapInt32(&moved, 0, 1) {
			return
		}
		switch s.Kind {
		case "spoolstall":
			atomic.StoreInt32(&e.mode, mHealthy)
		case "spoolclose":
			e.closeConns()
			atomic.StoreInt32(&e.mode, mHealthy)
		}
	}
	rep := ev{"ev": "replay", "scn": s.ID, "kind": s.Kind, "saturated": false, "forced": false}
	var gateEv ev
	var repMu sync.Mutex
	done := make(chan struct{})
	go func() {
		defer close(done)
		i := 0
		// 1. outage: everything goes to the spool (paced so that the spool's small real-time channel keeps up)
		for i < s.Backlog {
			i++
			tr.hand(i)
			poll(10*time.Second, func() bool { return d.VerifSpoolBuffered() <= 4 })
		}
		if !poll(30*time.Second, func() bool { return st.spoolIdle() && d.VerifSpoolBuffered() == 0 }) {
			failed = "spool did not take the backlog in"
			return
		}
		c1 := readCounters(key).sub(base)
		depth0 := int(d.VerifSpoolDepth())
		repMu.Lock()
		rep["backlog"], rep["slow_spool_outage"], rep["down_outage"] = depth0, int(c1.slowSpool), int(c1.down)
		repMu.Unlock()
		if depth0 < s.Backlog*9/10 {
			failed = fmt.Sprintf("backlog of %d lines instead of %d", depth0, s.Backlog)
			return
		}
		// 2. the endpoint is back: accepts, does not read
		atomic.StoreInt32(&e.mode, mBlackhole)
		if err := e.up(); err != nil {
			failed = "listen: " + err.Error()
			return
		}
		if !poll(20*time.Second, online) {
			failed = "online"
			return
		}
		t0 := time.Now()
		if s.Kind == "spoolgate" {
			// nothing is handed until the replay has run into the held writer's full queue (deterministic)
			outcome := "fired"
			select {
			case <-hold.fired:
			case <-time.After(45 * time.Second):
				outcome = "not-fired"
				select {
				case <-hold.heldCh:
				default:
					outcome = "writer-not-held"
				}
			}
			st.mu.Lock()
			if hold.expired {
				outcome = "writer-hold-expired"
			}
			g := ev{"ev": "ugate", "scn": s.ID, "outcome": outcome, "connbuf": s.ConnBuf, "in_len": hold.inLen, "in_cap": hold.inCap}
			st.mu.Unlock()
			repMu.Lock()
			gateEv = g
			rep["saturated"] = outcome == "fired"
			rep["fill_ms"] = int(time.Since(t0) / time.Millisecond)
			repMu.Unlock()
			if outcome == "fired" {
				for j := 0; j < s.Cycles*s.Burst && i < s.Lines-s.Post; j++ {
					i++
					tr.hand(i)
				}
				st.mu.Lock()
				exp := hold.expired
				st.mu.Unlock()
				if exp {
					repMu.Lock()
					gateEv["outcome"] = "writer-hold-expired"
					repMu.Unlock()
				}
			}
			hold.letGo()
		} else {
			// saturated: the connection writer is blocked (nothing written to the connection's io buffer for `cycles`
			// cycles in a row) and in each of these cycles the replay took a line from the spool while conn.In was full.
			// A queue that is only momentarily full (writer busy, not blocked) does not count.
			sat := false
			lastOut, lastFull, streak := readCounters(key).out, 0, 0
			for time.Since(t0) < 60*time.Second && i+s.Burst <= s.Lines-s.Post && atomic.LoadInt32(&moved) == 0 {
				for j := 0; j < s.Burst; j++ {
					i++
					tr.hand(i)
				}
				time.Sleep(gap)
				f, _, _ := st.unspool()
				o := readCounters(key).out
				if o != lastOut {
					streak = 0
				} else if f > lastFull {
					streak++
				}
				lastOut, lastFull = o, f
				if streak >= s.Cycles {
					sat = true
					break
				}
			}
			repMu.Lock()
			rep["saturated"] = sat
			rep["blocked_cycles"] = streak
			rep["fill_ms"] = int(time.Since(t0) / time.Millisecond)
			rep["depth_saturated"] = int(d.VerifSpoolDepth())
			repMu.Unlock()
			move()
		}
		// 3. traffic goes on after the endpoint's last move (black hole: there is none; the replay stays blocked)
		for j := 0; j < s.Post && i < s.Lines; j++ {
			i++
			tr.hand(i)
			if s.Burst > 0 && j%s.Burst == s.Burst-1 {
				time.Sleep(time.Millisecond)
			}
		}
	}()
	stuck := false
	tStart := time.Now()
wait:
	for {
		select {
		case <-done:
			break wait
		case <-time.After(20 * time.Millisecond):
			p := tr.pending()
			// a call that does not return: the endpoint makes its move nevertheless (a stall ends after 6 s: the call
			// then lasted longer than the bound; a close does not help a relay that sits in a blocking send)
			if (s.Kind == "spoolstall" && p > 6*time.Second || s.Kind == "spoolclose" && p > 2*time.Second) && atomic.LoadInt32(&moved) == 0 {
				move()
				repMu.Lock()
				rep["forced"] = true
				repMu.Unlock()
			}
			if p > 12*time.Second {
				stuck = true
				if int64(p) > atomic.LoadInt64(&tr.maxNs) {
					atomic.StoreInt64(&tr.maxNs, int64(p))
				}
				atomic.AddInt64(&tr.over, 1)
				break wait
			}
			if time.Since(tStart) > 10*time.Minute {
				evs = append(evs, ev{"ev": "timeout", "scn": s.ID, "what": "traffic"})
				return evs
			}
		}
	}
	if hold != nil {
		hold.letGo()
	}
	if !stuck && failed != "" {
		evs = append(evs, ev{"ev": "timeout", "scn": s.ID, "what": failed})
		return evs
	}
	h := int(atomic.LoadInt64(&tr.handed))
	evs = append(evs, ev{"ev": "lat", "scn": s.ID, "calls": h, "max_us": int(atomic.LoadInt64(&tr.maxNs) / 1000),
		"over_bound": int(atomic.LoadInt64(&tr.over)), "stuck": stuck})
	repMu.Lock()
	if gateEv != nil {
		evs = append(evs, gateEv)
	}
	full, drop, taken := st.unspool()
	c := readCounters(key).sub(base)
	rep["unspool_full"], rep["unspool_drop"], rep["unspooled"] = full, drop, taken
	rep["slow_conn"], rep["slow_spool"], rep["out"] = int(c.slowConn), int(c.slowSpool), int(c.out)
	rep["depth_end"], rep["online"], rep["accepted"] = int(d.VerifSpoolDepth()), online(), int(atomic.LoadInt64(&e.accepted))
	rep["received"] = int(atomic.LoadInt64(&e.distinct))
	rep["connbuf"], rep["reconn_ms"] = s.ConnBuf, s.ReconnMs
	evs = append(evs, rep)
	repMu.Unlock()
	return evs
}

var keepMu sync.Mutex
var keepAll []interface{}

func keep(x interface{}) {
	keepMu.Lock()
	keepAll = append(keepAll, x)
	keepMu.Unlock()
}

// ---------------------------------------------------------------- C07

type c07Scn struct {
	ID       int      `json:"id"`
	Name     string   `json:"name"`
	Steps    []string `json:"steps"` // see runC07
	ConnBuf  int      `json:"connbuf"`
	IoBuf    int      `json:"iobuf"`
	FlushMs  int      `json:"flush_ms"`
	SpoolBuf int      `json:"spoolbuf"`
	Nmax     int      `json:"nmax"`
	Burst    int      `json:"burst"`    // lines per pacing burst
	PauseUs  int      `json:"pause_us"` // pause between bursts
	UnspUs   int      `json:"unspool_us"`
	// spool files that roll during the outage: the file size limit is SpoolRecs records of a three-digit-id line
	// plus SpoolAlign bytes (0: the records of a file end exactly at the limit); 0 records = the 4 MiB of the other scenarios
	SpoolRecs  int `json:"spool_recs"`
	SpoolAlign int `json:"spool_align"`
	SpoolSync  int `json:"spool_syncevery"`
}

func TestC07(t *testing.T) {
	out := hx.Out(t)
	var scns []c07Scn
	loadScenarios(t, "VERIF_C07_SCN", &scns)
	ks := hx.EnvInt("VERIF_C07_KEEPSAFE_MS", 3000)
	destination.VerifSetKeepSafe(time.Duration(ks) * time.Millisecond)
	destination.VerifSetHook(hook)
	lg := hx.NewLog(filepath.Join(out, "c07_trace.ndjson"))
	defer lg.Close()
	prog := hx.NewLog(filepath.Join(out, "c07_progress.ndjson"))
	prog.Unbuffered = true
	defer prog.Close()
	spoolRoot := hx.ShmBase()
	if _, err := os.Stat(spoolRoot); err != nil {
		spoolRoot = out
	}
	spoolRoot, err := ioutil.TempDir(spoolRoot, "verif-c07-")
	if err != nil {
		t.Fatal(err)
	}
	defer os.RemoveAll(spoolRoot)
	var wg sync.WaitGroup
	sem := make(chan struct{}, hx.EnvInt("VERIF_C07_PAR", 4))
	var lmu sync.Mutex
	for i := range scns {
		s := scns[i]
		wg.Add(1)
		go func() {
			defer wg.Done()
			sem <- struct{}{}
			defer func() { <-sem }()
			prog.Emit(ev{"ev": "start", "scn": s.ID, "name": s.Name})
			evs := runC07(s, spoolRoot, prog)
			lmu.Lock()
			for _, e := range evs {
				lg.Emit(e)
			}
			lmu.Unlock()
			prog.Emit(ev{"ev": "end", "scn": s.ID})
		}()
	}
	wg.Wait()
}

func runC07(s c07Scn, spoolRoot string, prog *hx.Log) []ev {
	evs := []ev{{"ev": "scn", "scn": s.ID, "name": s.Name, "prop": "C07", "spool": true}}
	rname := fmt.Sprintf("c07%s_s%d", runTag, s.ID)
	prefix := rname + "."
	suffix := mkSuffix(40)
	e := newEndpoint(prefix, suffix, s.Nmax, freePort(), 0)
	keep(e)
	dir := filepath.Join(spoolRoot, rname)
	os.MkdirAll(dir, 0755)
	unsp := time.Duration(s.UnspUs) * time.Microsecond
	if unsp <= 0 {
		unsp = time.Microsecond
	}
	var d *destination.Destination
	if s.SpoolRecs > 0 {
		rec := int64(4 + len(mkLine(prefix, 100, suffix)))
		se := int64(s.SpoolSync)
		if se <= 0 {
			se = 10000
		}
		m, _ := matcher.New("", "", "", "", "", "")
		var err error
		d, err = destination.New(rname, m, e.addr(), dir, true, false, time.Duration(s.FlushMs)*time.Millisecond, 200*time.Millisecond,
			s.ConnBuf, s.IoBuf, s.SpoolBuf, int64(s.SpoolRecs)*rec+int64(s.SpoolAlign), se, time.Second, time.Microsecond, unsp)
		if err != nil {
			panic(err)
		}
		evs = append(evs, ev{"ev": "spoolcfg", "scn": s.ID, "rec": rec, "maxbytes": int64(s.SpoolRecs)*rec + int64(s.SpoolAlign)})
	} else {
		d = newDest(rname, e.addr(), dir, true, s.FlushMs, 200, s.ConnBuf, s.IoBuf, s.SpoolBuf, unsp)
	}
	key := d.Key
	st := newHState(key)
	base := readCounters(key)
	d.Run()
	// highest spool file number and largest number of spool files seen together (did the files roll? was the reader behind?)
	var spoolMaxFile, spoolMaxFiles int64 = -1, 0
	stopWatch := make(chan struct{})
	defer close(stopWatch)
	if s.SpoolRecs > 0 {
		go func() {
			for {
				select {
				case <-stopWatch:
					return
				case <-time.After(2 * time.Millisecond):
				}
				names, _ := filepath.Glob(filepath.Join(dir, "*.diskqueue.*.dat"))
				if int64(len(names)) > atomic.LoadInt64(&spoolMaxFiles) {
					atomic.StoreInt64(&spoolMaxFiles, int64(len(names)))
				}
				for _, n := range names {
					p := strings.Split(filepath.Base(n), ".")
					if len(p) >= 3 {
						if k, err := strconv.Atoi(p[len(p)-2]); err == nil && int64(k) > atomic.LoadInt64(&spoolMaxFile) {
							atomic.StoreInt64(&spoolMaxFile, int64(k))
						}
					}
				}
			}
		}()
	}
	rng := rand.New(rand.NewSource(hx.Seed()*1000 + int64(s.ID)))
	_ = rng

	var next int64 // last id handed
	send := func(n int) {
		for i := 0; i < n; i++ {
			id := int(atomic.LoadInt64(&next)) + 1
			if id > s.Nmax {
				return
			}
			d.In <- mkLine(prefix, id, suffix)
			atomic.StoreInt64(&next, int64(id))
			if s.Burst > 0 && id%s.Burst == 0 {
				if s.PauseUs > 0 {
					time.Sleep(time.Duration(s.PauseUs) * time.Microsecond)
				} else {
					runtime.Gosched()
				}
			}
		}
	}
	var bg sync.WaitGroup
	online := func() bool { return d.Snapshot().Online }
	fail := func(what string) []ev {
		evs = append(evs, ev{"ev": "timeout", "scn": s.ID, "what": what})
		return evs
	}
	isUp := false
	for _, step := range s.Steps {
		prog.Emit(ev{"ev": "step", "scn": s.ID, "step": step})
		var op string
		var n int
		fmt.Sscanf(step, "%s %d", &op, &n)
		fields := strings.Fields(step)
		switch op {
		case "mode": // endpoint read behaviour: healthy | blackhole | slow
			setMode(e, fields[1])
		case "connage": // until the current connection is at least n ms old (keepSafe rotates every keep period)
			poll(60*time.Second, func() bool {
				at := atomic.LoadInt64(&st.connAt)
				return at != 0 && time.Now().UnixNano()-at >= int64(n)*int64(time.Millisecond)
			})
		case "up": // endpoint (re)appears; wait until the relay has a connection
			if err := e.up(); err != nil {
				return fail("listen: " + err.Error())
			}
			isUp = true
			if !poll(30*time.Second, online) {
				return fail("online after up")
			}
			evs = append(evs, ev{"ev": "up", "scn": s.ID, "inc": e.inc, "handed": int(atomic.LoadInt64(&next))})
		case "upnw": // endpoint appears, not waiting for the relay
			if err := e.up(); err != nil {
				return fail("listen: " + err.Error())
			}
			isUp = true
			evs = append(evs, ev{"ev": "up", "scn": s.ID, "inc": e.inc, "handed": int(atomic.LoadInt64(&next))})
		case "down": // endpoint disappears; wait until the relay has noticed
			e.down()
			isUp = false
			if !poll(30*time.Second, func() bool { return !online() }) {
				return fail("offline after down")
			}
			evs = append(evs, ev{"ev": "down", "scn": s.ID, "inc": e.inc, "handed": int(atomic.LoadInt64(&next))})
		case "downnw":
			e.down()
			isUp = false
			evs = append(evs, ev{"ev": "down", "scn": s.ID, "inc": e.inc, "handed": int(atomic.LoadInt64(&next))})
		case "closeconns": // connections cut, listener stays
			e.closeConns()
			evs = append(evs, ev{"ev": "cut", "scn": s.ID, "inc": e.inc, "handed": int(atomic.LoadInt64(&next))})
		case "send":
			send(n)
		case "bg":
			bg.Add(1)
			go func(n int) { defer bg.Done(); send(n) }(n)
		case "join":
			bg.Wait()
		case "sleep":
			time.Sleep(time.Duration(n) * time.Millisecond)
		case "waithanded": // until the background sender has handed n more lines
			tgt := atomic.LoadInt64(&next) + int64(n)
			if tgt > int64(s.Nmax) {
				tgt = int64(s.Nmax)
			}
			poll(30*time.Second, func() bool { return atomic.LoadInt64(&next) >= tgt })
		case "backlog": // until at least n lines sit in the disk spool
			if !poll(30*time.Second, func() bool { return d.VerifSpoolDepth() >= int64(n) }) {
				evs = append(evs, ev{"ev": "info", "scn": s.ID, "nobacklog": int(d.VerifSpoolDepth())})
			}
		case "unspooling": // until the relay has started to drain the spool
			c0, _, _, _ := st.snapshot()
			b0 := c0["relay.unspool"]
			poll(30*time.Second, func() bool { c, _, _, _ := st.snapshot(); return c["relay.unspool"] > b0 })
		case "settle": // received everything handed so far or accounted (used between phases; no verdict)
			poll(20*time.Second, func() bool {
				c := readCounters(key).sub(base)
				h := atomic.LoadInt64(&next)
				return atomic.LoadInt64(&e.distinct)+c.slowConn+c.slowSpool >= h
			})
		case "dsarm": // arm the dead-send gate (see dsGate): dsarm in | dsarm unspool
			st.armDs("relay."+fields[1], e.closeConns)
		case "dshold": // hand lines one at a time until the connection writer holds one in its hand
			held := false
			for j := 0; j < n && !held; j++ {
				send(1)
				select {
				case <-st.ds.heldCh:
					held = true
				case <-time.After(100 * time.Millisecond):
				}
			}
			if !held {
				select {
				case <-st.ds.heldCh:
				case <-time.After(10 * time.Second):
					evs = append(evs, ev{"ev": "dsgate", "scn": s.ID, "src": st.ds.src, "connbuf": s.ConnBuf, "outcome": "writer-not-held"})
				}
			}
		case "dswait": // until the gate has been through its phases (deadlines everywhere)
			out := ""
			select {
			case <-st.ds.fired:
				select {
				case <-st.ds.release:
				case <-time.After(10 * time.Second):
					out = "relay-did-not-see-dead"
				}
			case <-time.After(25 * time.Second):
				out = "not-fired"
			}
			o, line, heldLine, il, ic, trail := st.dsInfo()
			if out == "" || (o != "" && o != "fired") {
				out = o
			}
			g := ev{"ev": "dsgate", "scn": s.ID, "src": st.ds.src, "connbuf": s.ConnBuf, "outcome": out,
				"line": strings.TrimPrefix(line, prefix), "held": strings.TrimPrefix(heldLine, prefix), "in_len": il, "in_cap": ic}
			if out != "fired" {
				g["trail"] = trail
			}
			evs = append(evs, g)
			evs = append(evs, ev{"ev": "cut", "scn": s.ID, "inc": e.inc, "handed": int(atomic.LoadInt64(&next))})
		case "f10": // gated schedule of TLC's counterexample (see hook)
			atomic.StoreInt32(&st.armed, 1)
			send(1)
			select {
			case <-st.blocked:
			case <-time.After(20 * time.Second):
				return fail("f10 gate not reached")
			}
			e.down()
			isUp = false
			// relay notices on its next tick, starts the redo collector; the hook releases the writer
			if !poll(30*time.Second, func() bool { return !online() }) {
				return fail("offline after down (f10)")
			}
			poll(25*time.Second, func() bool { _, _, _, how := st.snapshot(); return how != "" })
			_, _, _, how := st.snapshot()
			evs = append(evs, ev{"ev": "gate", "scn": s.ID, "line": st.gateLine, "order": how})
			evs = append(evs, ev{"ev": "down", "scn": s.ID, "inc": e.inc, "handed": int(atomic.LoadInt64(&next))})
		}
	}
	bg.Wait()
	if !isUp {
		if err := e.up(); err != nil {
			return fail("listen: " + err.Error())
		}
		evs = append(evs, ev{"ev": "up", "scn": s.ID, "inc": e.inc, "handed": int(atomic.LoadInt64(&next))})
	}
	handed := int(atomic.LoadInt64(&next))
	// the endpoint now stays up: the backlog must drain and every line must arrive or be counted
	prog.Emit(ev{"ev": "step", "scn": s.ID, "step": "drain"})
	onl := poll(30*time.Second, online)
	progress := func() int64 {
		c, _, _, _ := st.snapshot()
		return atomic.LoadInt64(&e.total)*1000003 + d.VerifSpoolDepth()*1009 + int64(d.VerifSpoolBuffered()) +
			int64(c["spool.put"]+c["spool.bulk"]+c["redo.ingested"]+c["relay.unspool"])*7
	}
	empty := func() bool { return st.spoolIdle() && d.VerifSpoolDepth() == 0 && d.VerifSpoolBuffered() == 0 }
	drained := pollProgress(60*time.Second, 15*time.Minute, empty, progress)
	if s.FlushMs >= 60000 {
		// no periodic flush in this scenario: what the connection writer holds in its io buffer is in flight, not lost;
		// the manual flush (a round trip through relay loop and writer) puts it on the wire
		fd := make(chan error, 1)
		go func() { fd <- d.Flush() }()
		select {
		case <-fd:
		case <-time.After(30 * time.Second):
			evs = append(evs, ev{"ev": "timeout", "scn": s.ID, "what": "final flush"})
			return evs
		}
	}
	complete := pollProgress(30*time.Second, 15*time.Minute, func() bool {
		c := readCounters(key).sub(base)
		m, _ := e.missing(handed, 0)
		return int64(m) <= c.slowConn+c.slowSpool && empty()
	}, progress)
	if complete {
		// quiescence: nothing new for 100 ms
		poll(5*time.Second, func() bool { return time.Now().UnixNano()-atomic.LoadInt64(&e.lastRecv) > int64(100*time.Millisecond) })
	}
	c := readCounters(key).sub(base)
	e.mu.Lock()
	for inc := 1; inc <= e.inc; inc++ {
		evs = append(evs, ev{"ev": "recv", "scn": s.ID, "inc": inc, "ranges": ranges(e.perI[inc])})
	}
	e.mu.Unlock()
	nm, first := e.missing(handed, 20)
	hc, f10win, slowUnsp, _ := st.snapshot()
	evs = append(evs, ev{"ev": "final", "scn": s.ID, "handed": handed, "distinct": int(atomic.LoadInt64(&e.distinct)),
		"total": int(atomic.LoadInt64(&e.total)), "dups": e.dups(handed), "malformed": int(atomic.LoadInt64(&e.malformed)),
		"missing_n": nm, "missing_first": first,
		"slow_conn": int(c.slowConn), "slow_spool": int(c.slowSpool), "down": int(c.down),
		"depth": int(d.VerifSpoolDepth()), "buffered": d.VerifSpoolBuffered(), "online": onl, "drained": drained,
		"complete": complete, "hooks": hc, "f10win": f10win, "slow_unspool": slowUnsp, "incarnations": e.inc,
		"conn_replaced": st.nReplaced(), "redo_span_ms": st.span(),
		"spool_maxfile": int(atomic.LoadInt64(&spoolMaxFile)), "spool_maxfiles": int(atomic.LoadInt64(&spoolMaxFiles))})
	return evs
}
